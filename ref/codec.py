"""ref/codec.py -- independent reference codec for the flattened MUSCLE Message (property C08).

Written ONLY from the layout comment in Message::Flatten (message/Message.cpp)

    0. Protocol revision number (4 bytes, always 'PM00' = 1347235888)
    1. 'what' code (4 bytes)
    2. Number of entries (4 bytes)
    3. Entry name length (4 bytes)           -- counts the terminating NUL
    4. Entry name string (flattened String)   -- the bytes of the name followed by one NUL
    5. Entry type code (4 bytes)
    6. Entry data length (4 bytes)
    7. Entry data (n bytes)
    8. loop to 3 as necessary

and from the documented per-type rules (support/MuscleSupport.h B_*_TYPE comments, Message.h, the property text):
every multi-byte quantity little-endian; bool = 1 byte (0/1) per item; int8/16/32/64 = 1/2/4/8 bytes two's complement;
float/double = IEEE-754 4/8 bytes; point = two floats (x, y); rect = four floats (left, top, right, bottom);
Message fields = per item [length (4 bytes)][flattened Message], WITHOUT an item-count word;
strings = item count (4 bytes), then per item [length incl. NUL (4 bytes)][bytes][NUL];
raw data (and every other type code) = item count (4 bytes), then per item [length (4 bytes)][bytes].
The stream frame is [body length (4 bytes LE)][encoding 'Enc0' = 1164862256 (4 bytes LE)][body].

Nothing in this file is derived from message.py or from the C/C++ codecs.

Value model (deliberately bit-exact, no Python floats):
   message := (what:int, [field...])          field := (name:bytes, type:str, [item...])
   type 'bool' item 0/1 | 'i8','i16','i32','i64' item int | 'f32' item uint32 bit pattern | 'f64' item uint64 bit pattern
   'pt' item (xbits, ybits) | 'rc' item (l,t,r,b bits) | 'str' item bytes without the NUL | 'raw' item bytes | 'msg' item message
   any other type code appears as type '#<decimal code>' with bytes items.
"""
import struct

PM00 = 1347235888
ENC0 = 1164862256


def _tc(s):
    return struct.unpack('>I', s.encode('ascii'))[0]


CODE = {'bool': _tc('BOOL'), 'i8': _tc('BYTE'), 'i16': _tc('SHRT'), 'i32': _tc('LONG'), 'i64': _tc('LLNG'),
        'f32': _tc('FLOT'), 'f64': _tc('DBLE'), 'pt': _tc('BPNT'), 'rc': _tc('RECT'),
        'str': _tc('CSTR'), 'raw': _tc('RAWT'), 'msg': _tc('MSGG')}
NAME = dict((v, k) for k, v in CODE.items())
_FIXED = {'bool': ('<B', 1, 1), 'i8': ('<b', 1, 1), 'i16': ('<h', 2, 1), 'i32': ('<i', 4, 1), 'i64': ('<q', 8, 1),
          'f32': ('<I', 4, 1), 'f64': ('<Q', 8, 1), 'pt': ('<2I', 8, 2), 'rc': ('<4I', 16, 4)}


class Malformed(Exception):
    pass


def _u32(v):
    return struct.pack('<I', v)


def type_code(t):
    return CODE[t] if t in CODE else int(t[1:])


def encode(msg):
    what, fields = msg
    out = [struct.pack('<3I', PM00, what & 0xFFFFFFFF, len(fields))]
    for name, t, items in fields:
        if t in _FIXED:
            fmt, _, arity = _FIXED[t]
            pay = b''.join(struct.pack(fmt, *(it if arity > 1 else (it,))) for it in items)
        elif t == 'msg':
            subs = [encode(it) for it in items]
            pay = b''.join(_u32(len(s)) + s for s in subs)            # no item-count word for Message fields
        elif t == 'str':
            pay = _u32(len(items)) + b''.join(_u32(len(it) + 1) + it + b'\0' for it in items)
        else:
            pay = _u32(len(items)) + b''.join(_u32(len(it)) + it for it in items)
        out.append(_u32(len(name) + 1) + name + b'\0' + struct.pack('<2I', type_code(t), len(pay)) + pay)
    return b''.join(out)


def decode(b, off=0, end=None):
    """Strict decoder: any deviation from the documented layout raises Malformed."""
    if end is None:
        end = len(b)

    def need(n, what_for):
        if off + n > end:
            raise Malformed('truncated %s at offset %d' % (what_for, off))
    need(12, 'header')
    proto, what, nf = struct.unpack_from('<3I', b, off); off += 12
    if proto != PM00:
        raise Malformed('protocol word is %#x at offset %d, not PM00' % (proto, off - 12))
    fields = []
    for fi in range(nf):
        need(4, 'name length')
        (nl,) = struct.unpack_from('<I', b, off); off += 4
        if nl < 1:
            raise Malformed('field %d: name length word is 0 (must count the NUL)' % fi)
        need(nl, 'name')
        if b[off + nl - 1] != 0:
            raise Malformed('field %d: name is not NUL-terminated' % fi)
        name = bytes(b[off:off + nl - 1]); off += nl
        if b'\0' in name:
            raise Malformed('field %d: NUL inside the name' % fi)
        need(8, 'type/length')
        tc, dl = struct.unpack_from('<2I', b, off); off += 8
        need(dl, 'payload of field %r' % name)
        p = off; pend = off + dl; off = pend
        t = NAME.get(tc, '#%d' % tc)
        if t in _FIXED:
            fmt, size, arity = _FIXED[t]
            if dl % size:
                raise Malformed('field %r: payload length %d is not a multiple of the item size %d' % (name, dl, size))
            items = []
            for q in range(p, pend, size):
                v = struct.unpack_from(fmt, b, q)
                items.append(v if arity > 1 else v[0])
            if t == 'bool' and any(x > 1 for x in items):
                raise Malformed('field %r: bool byte other than 0/1' % name)
        elif t == 'msg':
            items = []
            while p < pend:
                if p + 4 > pend:
                    raise Malformed('field %r: truncated sub-message length' % name)
                (ml,) = struct.unpack_from('<I', b, p); p += 4
                if p + ml > pend:
                    raise Malformed('field %r: sub-message length %d exceeds the field payload' % (name, ml))
                items.append(decode(b, p, p + ml)); p += ml
        else:
            if dl < 4:
                raise Malformed('field %r: no item-count word' % name)
            (n,) = struct.unpack_from('<I', b, p); p += 4
            items = []
            for _ in range(n):
                if p + 4 > pend:
                    raise Malformed('field %r: truncated item length' % name)
                (il,) = struct.unpack_from('<I', b, p); p += 4
                if p + il > pend:
                    raise Malformed('field %r: item length %d exceeds the field payload' % (name, il))
                it = bytes(b[p:p + il]); p += il
                if t == 'str':
                    if il < 1 or it[-1] != 0:
                        raise Malformed('field %r: string item is not NUL-terminated' % name)
                    it = it[:-1]
                items.append(it)
            if p != pend:
                raise Malformed('field %r: %d stray bytes after the last item' % (name, pend - p))
        fields.append((name, t, items))
    if off != end:
        raise Malformed('%d trailing bytes after the last field' % (end - off))
    return (what, fields)


def frame(body):
    return struct.pack('<2I', len(body), ENC0) + body


def unframe(stream):
    """Splits a byte stream into bodies; raises Malformed on a bad header or a partial frame."""
    off = 0; out = []
    while off < len(stream):
        if off + 8 > len(stream):
            raise Malformed('partial frame header at %d' % off)
        n, enc = struct.unpack_from('<2I', stream, off); off += 8
        if enc != ENC0:
            raise Malformed('encoding word %#x at %d is not Enc0' % (enc, off - 4))
        if off + n > len(stream):
            raise Malformed('partial frame body at %d' % off)
        out.append(bytes(stream[off:off + n])); off += n
    return out


def from_script(s):
    """Abstract script (the JSON the harness emits) -> value model."""
    fields = []
    for f in s['fields']:
        t = f['t']; v = f['v']
        if t in ('str', 'raw') or t.startswith('#'):
            items = [bytes.fromhex(x) for x in v]
        elif t in ('pt', 'rc'):
            items = [tuple(x) for x in v]
        elif t == 'msg':
            items = [from_script(x) for x in v]
        else:
            items = list(v)
        fields.append((f['n'].encode('utf-8'), t, items))
    return (s['what'], fields)


def first_difference(a, b):
    n = min(len(a), len(b))
    if a[:n] == b[:n]:
        return n if len(a) != len(b) else -1
    lo, hi = 0, n - 1            # smallest i with a[:i+1] != b[:i+1]
    while lo < hi:
        mid = (lo + hi) // 2
        if a[:mid + 1] == b[:mid + 1]: lo = mid + 1
        else: hi = mid
    return lo


def locate(b, offset):
    """Best-effort structural description of a byte offset inside flattened bytes b (for violation details)."""
    try:
        return _locate(b, 0, len(b), offset, '')
    except Exception as e:
        return '(unlocatable: %r)' % e


def _locate(b, off, end, target, path):
    if target < off + 4: return path + '/protocol word'
    if target < off + 8: return path + '/what code'
    if target < off + 12: return path + '/entry count'
    (nf,) = struct.unpack_from('<I', b, off + 8); off += 12
    for fi in range(nf):
        (nl,) = struct.unpack_from('<I', b, off)
        if target < off + 4: return '%s/field#%d name length' % (path, fi)
        name = bytes(b[off + 4:off + 4 + max(nl, 1) - 1])
        here = '%s/field#%d(%r)' % (path, fi, name[:24])
        off += 4
        if target < off + nl: return here + ' name bytes'
        off += nl
        tc, dl = struct.unpack_from('<2I', b, off)
        if target < off + 4: return here + ' type code'
        if target < off + 8: return here + ' payload length'
        off += 8
        if target < off + dl:
            t = NAME.get(tc, '#%d' % tc)
            if t == 'msg':
                p = off
                k = 0
                while p < off + dl:
                    (ml,) = struct.unpack_from('<I', b, p)
                    if target < p + 4: return '%s sub-message#%d length' % (here, k)
                    if target < p + 4 + ml: return _locate(b, p + 4, p + 4 + ml, target, '%s[%d]' % (here, k))
                    p += 4 + ml; k += 1
            return '%s %s payload +%d of %d' % (here, t, target - off, dl)
        off += dl
    return path + '/beyond the last field'
