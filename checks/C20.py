from driver import Leg
SPEC = dict(
    level='exploration',
    design_ref='DESIGN.md section 3, C20',
    rule=("one case = one history under a virtual clock: a forest of 1-3 roots with 1-200 (later up to 260) instrumented PulseNodes, depth <= 8, "
          "60-150 steps, each either an operation (invalidate with/without clearPrevResult, re-time, attach/move, detach, ClearPulseChildren, "
          "create, destroy) or a manager cycle (recalculation sweep over all roots sharing one minimum, clock advanced to exactly the reported "
          "minimum / beyond it / short of it, optional operations between recalculation and pulse, pulse sweep in which every callback performs "
          "0-2 scripted operations incl. on nodes of its own callback stack; destruction only of nodes outside the callback stack), followed by a "
          "quiet cycle whenever due nodes were deferred.  Oracle rules (1)-(5) of the design against a flat model (node -> attached?, valid?, last "
          "answer).  A case is non-trivial with >= 3 nodes, >= 10 callbacks fired and >= 3 operations performed inside callbacks.  Leg 'server': the real root manager, "
          "ReflectServer on the real clock, with instrumented factories (some not ready to accept, some wanting pulses), sessions over socket pairs (idle / ready for input / with output queued), input and output AbstractSessionIOPolicy objects on some sessions and extra "
          "PulseNode children; ServerProcessLoop(0) steps and 40-60 ms waits; causal verdicts only (asked before every wait, wake-up time == minimum, never "
          "early, nothing due left once ServerProcessLoop(runUntil) has returned and a quiet cycle has run); lateness is not judged"),
    assumptions=['GetPulseTime() callbacks also perform operations (invalidate own child / grandchild / sibling / other node, attach a new or detached childless node, detach, re-time); NOT generated there: invalidating the asking node itself or one of its ancestors (their question has already been asked in the running sweep; on the current tree such a non-root node is never asked again; --opt gpt_stack_invalidate=1 generates it), moving attached subtrees, destroying nodes',
                 'after operations inside GetPulseTime() the reported minimum may be earlier than the minimum over the attached nodes (an answer that entered the running minimum before it was superseded), never later and never below every answer of the sweep; a node invalidated or attached under a root whose sweep was already finished is asked in the next cycle',
                 'server leg: the server may report a wake-up time earlier than every pulse time while a session has output pending (output stall limits are not pulse nodes)',
                 'a node (or an ancestor) detached by a callback of the running sweep may or may not still fire in that sweep (counted as unspecified_fired_after_detach_in_same_sweep)',
                 'a due node may be deferred to the next cycle when an operation since the last recalculation touched its top-level subtree; the quiet follow-up cycle must fire it',
                 'asking a valid node again is not forbidden by the statement (counted as unspecified_valid_node_asked_again)',
                 'the manager always recalculates before it pulses, as ReflectServer does',
                 'server leg: sessions and factories for which EndSession()/RemoveAcceptFactory() was called are not judged any more',
                 'g++ 12 ASan/UBSan/LSan and valgrind memcheck report what they claim to report'],
    legs=[
        Leg('regress', 'h_pulse', 'asan', opts={'mode': 'regress'}, quick=1, thorough=1, workers=1, leaks=True, min_cases=1),
        Leg('model', 'h_pulse', 'asan', opts={'mode': 'model'}, quick=32000, thorough=1600000, workers=16, leaks=True),
        Leg('server', 'h_pulse', 'asan', opts={'mode': 'server'}, quick=640, thorough=32000, workers=16, leaks=True),
        Leg('memcheck', 'h_pulse', 'plain', opts={'mode': 'model'}, quick=640, thorough=12800, workers=16, valgrind=True),
    ],
    min_stats={'model': {'pulse_sweeps': 1300000, 'fires': 4700000, 'asks': 5500000, 'quiet_cycles_after_deferral': 140000, 'deferred_nodes': 800000,
                         'fired_exactly_at_their_time': 360000, 'actions_inside_callbacks': 2700000, 'cb:op_attach': 690000, 'cb:op_detach': 210000,
                         'cb:op_destroy': 175000, 'cb:op_invalidate_clear': 300000, 'cb:op_invalidate_keep': 300000, 'cb:op_invalidate_self': 220000,
                         'cb:op_moved_a_node_of_the_callback_stack': 7000, 'cb:op_detached_a_node_of_the_callback_stack': 5000,
                         'cycles_with_operations_between_recalculation_and_pulse': 330000, 'cases_with_100_or_more_nodes': 2500,
                         'cases_with_a_single_node': 900, 'cases_with_several_roots': 2300, 'cases_depth_7_or_8': 6000, 'max_nodes': 200, 'max_depth': 8,
                         'actions_inside_getpulsetime': 400000, 'recalculations_with_actions_inside_getpulsetime': 250000,
                         'actions_inside_getpulsetime_invalidate_own_child': 25000, 'actions_inside_getpulsetime_invalidate_own_grandchild': 7000,
                         'actions_inside_getpulsetime_invalidate_sibling': 25000, 'actions_inside_getpulsetime_invalidate_other': 50000,
                         'actions_inside_getpulsetime_attach_under_self': 40000, 'actions_inside_getpulsetime_attach_elsewhere': 35000,
                         'actions_inside_getpulsetime_attach_due_child': 20000, 'actions_inside_getpulsetime_detach_own_child': 15000,
                         'actions_inside_getpulsetime_detach_other': 25000, 'actions_inside_getpulsetime_retime': 100000},
               'server': {'server_cases': 600, 'server_timed_loops': 1200, 'server_single_steps': 5000, 'factory_nodes_not_ready_wanting_pulse': 5000,
                          'fires_factory_while_not_ready': 700, 'session_child_nodes': 300, 'fires_server': 1000, 'fires_factory': 1800,
                          'fires_session': 2500, 'fires_child': 3000, 'asks_factory': 2500, 'policy_nodes': 500, 'asks_policy': 2500, 'fires_policy': 1500, 'policy_nodes_without_ready_holder_wanting_pulse': 5000,
                          'policy_set_as_input_policy': 300, 'policy_set_as_output_policy': 300, 'cb:srv_op_invalidate': 1500, 'cb:srv_op_attach_child': 700}},
)
