from driver import Leg
SPEC = dict(
    level='exploration',
    design_ref='DESIGN.md section 3, C20',
    rule=("one case = one history under a virtual clock: a forest of 1-3 roots with 1-200 (later up to 260) instrumented PulseNodes, depth <= 8, "
          "60-150 steps, each either an operation (invalidate with/without clearPrevResult, re-time, attach/move, detach, ClearPulseChildren, "
          "create, destroy) or a manager cycle (recalculation sweep over all roots sharing one minimum, clock advanced to exactly the reported "
          "minimum / beyond it / short of it, optional operations between recalculation and pulse, pulse sweep in which every callback performs "
          "0-2 scripted operations incl. on nodes of its own callback stack; destruction only of nodes outside the callback stack), followed by a "
          "quiet cycle whenever due nodes were deferred.  Oracle rules (1)-(5) of the design against a flat model (node -> attached?, valid?, last "
          "answer).  A case is non-trivial with >= 3 nodes, >= 10 callbacks fired and >= 3 operations performed inside callbacks.  Leg 'server': the real root manager, "
          "ReflectServer on the real clock, with instrumented factories (some not ready to accept, some wanting pulses), sessions over socket pairs and extra "
          "PulseNode children; ServerProcessLoop(0) steps and 40-60 ms waits; causal verdicts only (asked before every wait, wake-up time == minimum, never "
          "early, nothing due left once ServerProcessLoop(runUntil) has returned and a quiet cycle has run); lateness is not judged"),
    assumptions=['GetPulseTime() itself performs no operations (only Pulse() callbacks and the code between sweeps do)',
                 'a node (or an ancestor) detached by a callback of the running sweep may or may not still fire in that sweep (counted as unspecified_fired_after_detach_in_same_sweep)',
                 'a due node may be deferred to the next cycle when an operation since the last recalculation touched its top-level subtree; the quiet follow-up cycle must fire it',
                 'asking a valid node again is not forbidden by the statement (counted as unspecified_valid_node_asked_again)',
                 'the manager always recalculates before it pulses, as ReflectServer does',
                 'server leg: sessions and factories for which EndSession()/RemoveAcceptFactory() was called are not judged any more',
                 'g++ 12 ASan/UBSan/LSan and valgrind memcheck report what they claim to report'],
    legs=[
        Leg('regress', 'h_pulse', 'asan', opts={'mode': 'regress'}, quick=1, thorough=1, workers=1, leaks=True, min_cases=1),
        Leg('model', 'h_pulse', 'asan', opts={'mode': 'model'}, quick=32000, thorough=1600000, workers=16, leaks=True),
        Leg('server', 'h_pulse', 'asan', opts={'mode': 'server'}, quick=640, thorough=32000, workers=16, leaks=True),
        Leg('memcheck', 'h_pulse', 'plain', opts={'mode': 'model'}, quick=640, thorough=12800, workers=16, valgrind=True),
    ],
    min_stats={'model': {'pulse_sweeps': 1300000, 'fires': 4700000, 'asks': 5500000, 'quiet_cycles_after_deferral': 140000, 'deferred_nodes': 800000,
                         'fired_exactly_at_their_time': 360000, 'actions_inside_callbacks': 2700000, 'cb:op_attach': 690000, 'cb:op_detach': 210000,
                         'cb:op_destroy': 175000, 'cb:op_invalidate_clear': 300000, 'cb:op_invalidate_keep': 300000, 'cb:op_invalidate_self': 220000,
                         'cb:op_moved_a_node_of_the_callback_stack': 7000, 'cb:op_detached_a_node_of_the_callback_stack': 5000,
                         'cycles_with_operations_between_recalculation_and_pulse': 330000, 'cases_with_100_or_more_nodes': 2500,
                         'cases_with_a_single_node': 900, 'cases_with_several_roots': 2300, 'cases_depth_7_or_8': 6000, 'max_nodes': 200, 'max_depth': 8},
               'server': {'server_cases': 600, 'server_timed_loops': 1200, 'server_single_steps': 5000, 'factory_nodes_not_ready_wanting_pulse': 5000,
                          'fires_factory_while_not_ready': 700, 'session_child_nodes': 300, 'fires_server': 1000, 'fires_factory': 1800,
                          'fires_session': 2500, 'fires_child': 3000, 'asks_factory': 2500, 'cb:srv_op_invalidate': 1500, 'cb:srv_op_attach_child': 700}},
)
