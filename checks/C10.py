from driver import Leg

# the same workload under both sanitizers; case k of both legs has the same seed, pools, thread count and delay placement
_MIN = {
    'cases_hot': 120, 'cases_mixed': 120, 'single_threaded_histories': 280, 'single_threaded_operations': 48000,
    # every hook site must have been reached, and a delay must really have been injected at each of them in many cases
    'hook_hits_refcount_hit_zero': 120000, 'hook_hits_pool_release_after_reset': 96000,
    'hook_hits_pool_release_after_unlock': 96000, 'hook_hits_pool_obtain_after_unlock': 96000,
    'hook_delays_refcount_hit_zero': 6400, 'hook_delays_pool_release_after_reset': 4800,
    'hook_delays_pool_release_after_unlock': 4800, 'hook_delays_pool_obtain_after_unlock': 4800,
    'cases_with_delay_at_refcount_hit_zero': 64, 'cases_with_delay_at_pool_release_after_reset': 64,
    'cases_with_delay_at_pool_release_after_unlock': 64, 'cases_with_delay_at_pool_obtain_after_unlock': 64,
    # 36 single placements (site x role x kind) round-robin: 9 per site in every 40 cases
    'placement_cases_refcount_hit_zero': 64, 'placement_cases_pool_release_after_reset': 64,
    'placement_cases_pool_release_after_unlock': 64, 'placement_cases_pool_obtain_after_unlock': 64,
    'cases_jitter_only': 12, 'cases_without_delay': 6, 'cases_with_placement_pair': 3, 'cases_with_placement_triple': 1,
    'distinct_order_signatures': 250,
    # what the workload must have reached
    'pool_recycles': 96000, 'heap_objects_deleted': 32000, 'pooled_objects_destroyed_by_slab_deletion': 9600,
    'last_drop_on_other_thread_than_creator': 9600, 'nested_releases': 4800, 'monitored_dereferences': 1900000,
    'dereferences_through_noncounting_ref': 190000, 'reference_drops': 2500000, 'exact_audits': 48000,
    'op_mailbox_take': 320000, 'op_mailbox_put': 250000, 'op_assign': 1600000, 'op_copy_construct': 640000, 'op_reset': 190000, 'op_swap': 380000,
    'op_to_constref': 64000, 'op_cast_away_const': 96000, 'op_setref_counting_off': 64000, 'op_setref_counting_on': 38000,
    'op_neutralize': 64000, 'op_neutralize_sole_owner': 960, 'op_move': 48000, 'op_dummyref': 48000, 'op_refcountableref_roundtrip': 48000,
    'op_setref_raw_pointer': 32000, 'op_clone_pooled': 9600, 'op_clone_heap': 3200, 'op_ensure_private': 960, 'op_status': 12000,
    # a non-NULL reference switched to ANOTHER object with the OTHER counting mode (SetRef, operator=, swap; Ref and ConstRef)
    'op_setref_other_object_mode_change_on_to_off': 10000, 'op_setref_other_object_mode_change_off_to_on': 10000,
    'op_assign_other_object_mode_change': 20000, 'op_swap_different_modes': 5000,
    'op_sanity_check_concurrent': 12000, 'op_drain_concurrent': 4800,
}

SPEC = dict(
    level='exploration',
    design_ref='DESIGN.md section 3, C10 (and 2.6 delay bounding, 1.3 verdict discipline)',
    rule=("one case = a single-threaded history of 200-600 Ref/ConstRef/ObjectPool operations audited exactly after every operation "
          "(library count == references, objects alive == objects reachable), followed by 2-8 threads x 1500-3000 operations that own "
          "private Ref/ConstRef variables, exchange copies through 6 (mixed mode) or 2 (hot mode: 8 threads, a new object every ~40th "
          "operation) locked mailboxes and copy/assign/reset/swap/SetRef(on,off)/const-cast/Neutralize/move/clone them and switch a non-NULL reference to another object with the other counting mode without any lock; "
          "three pools with 1/3/8 objects per slab and max size 2..16 plus plain heap objects, objects may hold a reference to an older "
          "object; one delay placement (4 hook sites x {any thread, thread 0, thread 1} x {yield, sleep 50-2000 us, spin}) per case, "
          "round-robin over the case index (36 single placements, 2 jitter-only, 1 without delay, 1 pair/triple per 40 cases); three "
          "barriers per case with an exact audit while all threads are parked; a case is non-trivial when its threaded phase recycled "
          "pooled objects, deleted at least one slab and had a last reference dropped on another thread than the creator's; "
          "distinct = (case seed, order signature of the hook passages)"),
    assumptions=['the monitor words (lifecycle, shadow count, incarnation) are relaxed atomics owned by the harness; the shadow count is raised after a real reference '
                 'exists and lowered before it is dropped, so shadow <= real and a recycle/delete that sees shadow > 0 is a real early release',
                 'non-counting references (SetRef(x,false), DummyRef) are only dereferenced while a counting reference of the same thread keeps the object alive, '
                 'and Neutralize() is always followed by re-adoption or covered by another reference of the same thread (balanced use, as the documentation demands)',
                 'real threads on a 16-core machine: an interleaving is explored only if the scheduler plus the injected delay produces it; there is no schedule enumeration',
                 'g++ 12 ASan/UBSan and TSan report what they claim to report; all harness-side waiting is untimed (join, pthread barriers, mutexes), so a hang is decided '
                 'by the driver (all threads blocked without timeout / CPU budget)'],
    legs=[
        Leg('regress', 'h_refpool', 'asan', opts={'mode': 'regress'}, quick=1, thorough=1, workers=1, leaks=True, min_cases=1),
        Leg('asan', 'h_refpool', 'asan', opts={'mode': 'run'}, quick=320, thorough=24000, workers=8, per_worker_min=8),
        Leg('tsan', 'h_refpool', 'tsan', opts={'mode': 'run'}, quick=320, thorough=24000, workers=8, per_worker_min=8),
    ],
    min_stats={'asan': _MIN, 'tsan': _MIN},
)
