from driver import Leg
SPEC = dict(
    level='exploration',
    design_ref='DESIGN.md section 3, C09',
    rule=("one case = one random history on two fresh tables (300-2000 public operations out of 55 kinds, population steered in phases "
          "towards explicit targets: 0..57 around the initial capacity 7 and its doublings; 254..257 and 65534..65537 slots, where the "
          "internal index width changes, reached by exact EnsureSize/ShrinkToFit + complete fill + one more Put), compared with a "
          "list+index model after every operation (full audit: size, forward/backward iteration, first/last, lookups), with 1-6 live "
          "registered iterators (forward/backward, GetIterator/GetIteratorAt; copy/move-assigned, copy/move-constructed, swapped among each other "
          "in every state incl. holding the private copy of a removed entry, detached, ended, other table: the target continues exactly like "
          "the source) judged by the iterator oracle (a)-(d) of DESIGN.md C09 "
          "(entry = insertion generation; scratch copy allowed until one advance; SwapContents followed); key types uint32 / String / a "
          "key class whose HashCode() has 3 values; value type uint32 or an owning instrumented type whose live payload count must equal "
          "the model's at the end of the case; the surface leg also drives ImmutableHashtablePool with single-reference holders that share "
          "table objects (a table another holder still has must never change).  ordered leg: OrderedKeysHashtable / OrderedValuesHashtable with phases of auto-sort off and manual Move*: contents, "
          "exact order (no operation but the documented re-sorting ones and moves may change the relative order of surviving entries, "
          "in particular no re-allocation), sortedness whenever documented.  A case is non-trivial when its population exceeded the initial capacity and at least one traversal under the "
          "(b)/(c) rules completed (boundary leg: at least one index-width change happened); distinct = distinct (seed, case) histories"),
    assumptions=['the reference semantics written from the doc comments of Hashtable.h / HashtableIterator.h are the specification',
                 'the order among equal sort keys (SortByValue, auto-sorting tables) is unspecified: any sorted order is accepted',
                 'a traversal is exempt from rules (b)/(c) as soon as any reordering operation ran on its table, even one that left the order unchanged',
                 'index width is observed through GetNumAllocatedItemSlots() only (>=255 / >=65535 slots)',
                 'g++ 12 ASan/UBSan/LSan and valgrind memcheck report what they claim to report'],
    legs=[
        Leg('regress', 'h_hashtable', 'asan', opts={'mode': 'regress'}, quick=1, thorough=1, workers=1, leaks=True, min_cases=1),
        Leg('ops', 'h_hashtable', 'asan', opts={'mode': 'ops'}, quick=12000, thorough=300000, workers=16, leaks=True),
        Leg('boundary', 'h_hashtable', 'asan', opts={'mode': 'boundary', 'big_every': '20'}, quick=600, thorough=15000, workers=16, leaks=True, cpu_budget=120.0),
        Leg('ordered', 'h_hashtable', 'asan', opts={'mode': 'ordered'}, quick=3000, thorough=75000, workers=16, leaks=True),
        Leg('surface', 'h_hashtable', 'asan', opts={'mode': 'surface'}, quick=6000, thorough=150000, workers=16, leaks=True),
        Leg('memcheck', 'h_hashtable', 'plain', opts={'mode': 'ops'}, quick=240, thorough=4800, workers=16, valgrind=True),
        Leg('memcheck_surface', 'h_hashtable', 'plain', opts={'mode': 'surface'}, quick=120, thorough=2400, workers=8, valgrind=True),
        Leg('memcheck_ordered', 'h_hashtable', 'plain', opts={'mode': 'ordered'}, quick=60, thorough=1200, workers=8, valgrind=True),
        Leg('memcheck_boundary', 'h_hashtable', 'plain', opts={'mode': 'boundary', 'big_every': '0'}, quick=8, thorough=160, workers=8, valgrind=True),
    ],
    min_stats={
        'regress': {'regress_exact_sizes': 9},
        'ops': {'iter_traversals_completed_unreordered_under_mutation': 50000, 'reallocations_with_live_iterators': 100000,
                'iter_detached_advanced': 10000, 'tables_destroyed_before_their_iterators': 3000, 'live_count_checks': 1500,
                'iter_assign_copy': 20000, 'iter_assign_move': 5000, 'iter_assign_target_holding_scratch_copy': 5000,
                'iter_assign_target_detached_by_clear_or_destruction': 5000, 'iter_assign_target_entry_was_moved': 4000,
                'iter_assign_source_holding_scratch_copy': 5000, 'iter_assign_from_other_table': 8000, 'iter_assign_direction_change': 5000,
                'iter_assign_source_at_end_or_default': 8000, 'iter_assign_target_at_end_or_default': 8000, 'iter_copy_construct': 8000,
                'iter_self_assign': 10000, 'iter_swap_contents': 4000},
        'boundary': {'idxwidth_8to16_with_live_iterators': 2000, 'idxwidth_16to8_with_live_iterators': 2000,
                     'idxwidth_16to32_with_live_iterators': 21, 'idxwidth_32to16_with_live_iterators': 20,
                     'population_cross_256_up': 5000, 'population_cross_256_down': 5000,
                     'population_cross_65536_up': 100, 'population_cross_65536_down': 100,
                     'exact_fill_255_slots': 500, 'exact_fill_256_slots': 500, 'exact_fill_65535_slots': 10, 'exact_fill_65536_slots': 10,
                     'iter_traversals_completed_unreordered_under_mutation': 1000},
        'ordered': {'audits_sortedness_required': 400000, 'ordered_inserts_in_the_middle': 30000, 'ordered_audits_while_autosort_off': 200000,
                    'ordered_reallocs_while_unsorted': 10000, 'ordered_reallocs_while_unsorted_with_live_iterators': 5000,
                    'ordered_exact_order_checks': 10000, 'iter_traversals_completed_unreordered_under_mutation': 8000,
                    'iter_assign_copy': 8000, 'iter_assign_target_holding_scratch_copy': 1000, 'iter_assign_target_entry_was_moved': 4000},
        'surface': {'op_WouldBeEqualToAfterPut': 30000, 'op_WouldBeEqualToAfterRemove': 30000, 'op_setPredicates': 30000,
                    'op_Intersect': 30000, 'op_RemoveTable': 30000, 'op_SwapWithTable': 30000, 'pool_steps': 100000,
                    'pool_start_shared_by_two_holders_uncached_equal_content_cached': 800, 'pool_updated_in_place': 20000,
                    'pool_start_held_by_one_holder_and_the_cache': 10000},
    },
)
