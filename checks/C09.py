from driver import Leg
SPEC = dict(
    level='exploration',
    design_ref='DESIGN.md section 3, C09',
    rule=("one case = one random history on two fresh tables (300-2000 public operations out of 55 kinds, population steered in phases "
          "towards explicit targets: 0..57 around the initial capacity 7 and its doublings; 254..257 and 65534..65537 slots, where the "
          "internal index width changes, reached by exact EnsureSize/ShrinkToFit + complete fill + one more Put), compared with a "
          "list+index model after every operation (full audit: size, forward/backward iteration, first/last, lookups), with 1-6 live "
          "registered iterators (forward/backward, GetIterator/GetIteratorAt/copies) judged by the iterator oracle (a)-(d) of DESIGN.md C09 "
          "(entry = insertion generation; scratch copy allowed until one advance; SwapContents followed); key types uint32 / String / a "
          "key class whose HashCode() has 3 values; value type uint32 or an owning instrumented type whose live payload count must equal "
          "the model's at the end of the case.  ordered leg: OrderedKeysHashtable / OrderedValuesHashtable, contents + sortedness whenever "
          "documented.  A case is non-trivial when its population exceeded the initial capacity and at least one traversal under the "
          "(b)/(c) rules completed (boundary leg: at least one index-width change happened); distinct = distinct (seed, case) histories"),
    assumptions=['the reference semantics written from the doc comments of Hashtable.h / HashtableIterator.h are the specification',
                 'the order among equal sort keys (SortByValue, auto-sorting tables) is unspecified: any sorted order is accepted',
                 'a traversal is exempt from rules (b)/(c) as soon as any reordering operation ran on its table, even one that left the order unchanged',
                 'index width is observed through GetNumAllocatedItemSlots() only (>=255 / >=65535 slots)',
                 'g++ 12 ASan/UBSan/LSan and valgrind memcheck report what they claim to report'],
    legs=[
        Leg('regress', 'h_hashtable', 'asan', opts={'mode': 'regress'}, quick=1, thorough=1, workers=1, leaks=True, min_cases=1),
        Leg('ops', 'h_hashtable', 'asan', opts={'mode': 'ops'}, quick=24000, thorough=2000000, workers=16, leaks=True),
        Leg('boundary', 'h_hashtable', 'asan', opts={'mode': 'boundary', 'big_every': '8'}, quick=800, thorough=40000, workers=16, leaks=True, cpu_budget=120.0),
        Leg('ordered', 'h_hashtable', 'asan', opts={'mode': 'ordered'}, quick=6000, thorough=600000, workers=16, leaks=True),
        Leg('surface', 'h_hashtable', 'asan', opts={'mode': 'surface'}, quick=10000, thorough=800000, workers=16, leaks=True),
        Leg('memcheck', 'h_hashtable', 'plain', opts={'mode': 'ops'}, quick=480, thorough=9600, workers=16, valgrind=True),
        Leg('memcheck_surface', 'h_hashtable', 'plain', opts={'mode': 'surface'}, quick=200, thorough=4000, workers=8, valgrind=True),
        Leg('memcheck_ordered', 'h_hashtable', 'plain', opts={'mode': 'ordered'}, quick=120, thorough=2400, workers=8, valgrind=True),
        Leg('memcheck_boundary', 'h_hashtable', 'plain', opts={'mode': 'boundary', 'big_every': '0'}, quick=12, thorough=240, workers=8, valgrind=True),
    ],
    min_stats={
        'regress': {'regress_exact_sizes': 9},
        'ops': {'iter_traversals_completed_unreordered_under_mutation': 50000, 'reallocations_with_live_iterators': 100000,
                'iter_detached_advanced': 10000, 'tables_destroyed_before_their_iterators': 5000, 'live_count_checks': 2000},
        'boundary': {'idxwidth_8to16_with_live_iterators': 2000, 'idxwidth_16to8_with_live_iterators': 2000,
                     'idxwidth_16to32_with_live_iterators': 50, 'idxwidth_32to16_with_live_iterators': 40,
                     'population_cross_256_up': 5000, 'population_cross_256_down': 5000,
                     'population_cross_65536_up': 200, 'population_cross_65536_down': 200,
                     'exact_fill_255_slots': 500, 'exact_fill_256_slots': 500, 'exact_fill_65535_slots': 10, 'exact_fill_65536_slots': 10,
                     'iter_traversals_completed_unreordered_under_mutation': 1000},
        'ordered': {'audits_sortedness_required': 1000000, 'ordered_inserts_in_the_middle': 100000,
                    'iter_traversals_completed_unreordered_under_mutation': 10000},
        'surface': {'op_WouldBeEqualToAfterPut': 50000, 'op_WouldBeEqualToAfterRemove': 50000, 'op_setPredicates': 50000,
                    'op_Intersect': 50000, 'op_RemoveTable': 50000, 'op_SwapWithTable': 50000, 'pool_steps': 100000},
    },
)
