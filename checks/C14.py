import os
from driver import Leg

# VERIF_C14_SCALE=5 runs a 5x slice of the thorough tier's extra volume through the quick tier (used once to see it stays silent)
_S = int(os.environ.get('VERIF_C14_SCALE', '1'))

_KINDS = ['what', 'exists', 'numeric', 'string', 'raw', 'message', 'minmatch', 'maxmatch', 'and', 'or', 'nand', 'nor', 'xor', 'childcount', 'nodename']
_NUMTYPES = ['bool', 'int8', 'int16', 'int32', 'int64', 'float', 'double', 'point', 'rect']

_sem_min = {'pairs': 500000, 'pairs_true': 150000, 'pairs_false': 150000, 'archive_decisions': 500000, 'expr_decisions': 200000, 'expr_printed': 20000,
            'trees_deciding_both_ways': 5000, 'pairs_with_datanode': 50000, 'leaf_with_index': 5000, 'leaf_with_assumed_default': 5000,
            'shape_field_missing': 5000, 'shape_wrong_type': 5000, 'shape_fewer_items_than_index': 2000, 'shape_item_equals_operand': 5000, 'shape_item_next_to_operand': 5000,
            'threshold_no_limit': 500, 'threshold_zero': 500, 'threshold_kids_minus_1': 500, 'threshold_above_kids': 500, 'threshold_between': 300,
            'multi_with_0_children': 300, 'message_filter_with_default_message': 500, 'restored_isequalto_original': 5000}
for _k in _KINDS:
    _sem_min['kind_' + _k] = 1000
    _sem_min['decisions_%s_true' % _k] = 500
    _sem_min['decisions_%s_false' % _k] = 500
for _t in _NUMTYPES: _sem_min['numtype_' + _t] = 1000
for _k in _KINDS: _sem_min['restores_into_used_object_' + _k] = 500
_sem_min['used_object_decisions'] = 300000
for _o in range(6): _sem_min['numop_%d' % _o] = 1000
for _o in range(1, 7): _sem_min['maskop_%d' % _o] = 200
for _o in range(28): _sem_min['strop_%02d' % _o] = 100
for _o in range(12): _sem_min['rawop_%02d' % _o] = 100
for _k in ('wildcard_operands_with_escape_only', 'wildcard_operands_with_escape_and_wildcard', 'wildcard_operands_with_wildcard_only', 'wildcard_operands_numeric_range',
           'wildcard_operands_negated', 'wildcard_operands_comma_list', 'wildcard_operands_ignorecase'): _sem_min[_k] = 150

SPEC = dict(
    level='exploration',
    design_ref='DESIGN.md section 3, C14',
    rule=("semantics legs: one case = one abstract filter tree over all 19 filter classes (what-code range, value-exists, numeric {bool,int8..int64,float,double,"
          "point,rect} x 6 operators x 6 mask operations x index x assumed default, string x 28 operators incl. wildcard/regex on generated patterns, raw-data x 12 "
          "operators, Message filter with child and default Message, min/max-match with thresholds 0..n+1 and NO_LIMIT, and/or/nand/nor/xor with 0..6 children, "
          "child-count and node-name against real DataNodes; depth <= 5; every third tree drawn from the shapes the expression grammar can write) evaluated on 6-15 "
          "abstract Messages steered around each filter's field name, index, type and operand (missing, wrong type, fewer items than the index, item equal to / next to / "
          "unrelated to the operand); per pair: real Matches == reference evaluator written from QueryFilter.h (harness/reffilter.h), restored-from-archive filter "
          "(SaveToArchive, flatten, unflatten, CreateQueryFilter) decides identically, the filter parsed from the pretty-printed expression decides like the reference, "
          "flattened Message bytes unchanged.  A case is non-trivial when its tree decided true on one and false on another of its Messages; distinct = distinct trees.  "
          "hostile leg: one case = one field-wise mutated archive / extreme archive (10^4 children, nesting 200..2000) / token soup / deep-parenthesis expression; a "
          "non-NULL result evaluates 20 Messages, re-archives and checksums itself; non-trivial = the input instantiated a filter"),
    assumptions=['the class documentation in regex/QueryFilter.h and the expression section of html/Beginners Guide.html are the specification; the reference reads '
                 'MinimumThreshold as "more than min(n, kids-1) children match" (constructor text), Point/Rect ordering as lexicographic (Tuple), case-insensitive '
                 'operators as both sides case-folded, raw-data comparison as unsigned lexicographic on the item bytes (host representation for fixed-size numeric fields)',
                 'corners the documentation leaves open are excluded from the exact comparison and counted (stats unspecified_*): operator / mask-operator codes beyond the '
                 'enumerations, mask on float/double/point/rect, empty needle / subject / pattern / raw operand, zero-length raw items in test Messages, NaN comparisons, '
                 'node filters evaluated without a DataNode, MinimumThreshold with n == number of children (two sentences of the header disagree), a Message filter '
                 'without child filter falling back to its default Message, raw-data filters aimed at string/point/rect/Message fields',
                 'IsEqualTo(original, restored) is recorded, not demanded',
                 'hostile nesting stops at 2000 levels (deeper is the parser-recursion finding F6 of C02/C07); regex-bomb patterns (F10) are not generated here',
                 'g++ 12 ASan/UBSan/LSan and valgrind memcheck report what they claim to report; CPU budget per hostile case 20 CPU-seconds'],
    legs=[
        Leg('regress', 'h_filter', 'asan', opts={'mode': 'regress'}, quick=1, thorough=1, workers=1, leaks=True, min_cases=10),
        Leg('semantics', 'h_filter', 'asan', opts={'mode': 'semantics'}, quick=100000 * _S, thorough=2500000, workers=16, leaks=True),
        Leg('hostile', 'h_filter', 'asan', opts={'mode': 'hostile'}, quick=50000 * _S, thorough=1250000, workers=16, leaks=True, cpu_budget=20.0),
        Leg('memcheck', 'h_filter', 'plain', opts={'mode': 'semantics'}, quick=2000 * _S, thorough=40000, workers=16, valgrind=True),
        Leg('memcheck_hostile', 'h_filter', 'plain', opts={'mode': 'hostile'}, quick=800 * _S, thorough=16000, workers=16, valgrind=True, cpu_budget=20.0),
    ],
    min_stats={'regress': {'regress_checks': 10000, 'regress_rows': 50},
               'semantics': _sem_min,
               'hostile': {'mutated_archives': 15000, 'mutated_archives_instantiated': 10000, 'mutated_archives_rejected': 2000, 'extreme_many_children': 40, 'extreme_deep_nesting': 150,
                           'extreme_archives_instantiated': 150, 'max_hostile_children': 10000, 'max_hostile_nesting': 2000, 'token_soups': 10000, 'hostile_expressions_parsed': 500,
                           'deep_expressions': 1000, 'max_expression_nesting': 2000, 'hostile_evaluations_true': 50000, 'hostile_evaluations_false': 50000},
               'memcheck': {'pairs': 10000, 'archive_decisions': 10000, 'expr_decisions': 2000}},
)
