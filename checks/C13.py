from driver import Leg
SPEC = dict(
    level='exploration',
    design_ref='DESIGN.md section 3, C13 (and 2.5 the reflector bench; the SETDATATREES paragraph of C04)',
    rule=("index: one case = one history of 80 operations on a fresh ReflectServer stepped single-threaded (harness/reflectbench.h): 1-3 sessions, "
          "later up to 5 joining and leaving at any point, run INSERTORDEREDDATA (before a named sibling / at the end / several and wildcard "
          "keys), SETDATA with and without the add-to-index flag (explicit names), REORDERDATA (before a sibling, to the end, !Rmv, onto itself, "
          "wildcard targets, the index node itself), REMOVEDATA of indexed and non-indexed children and of whole index nodes with re-creation, "
          "BATCHes of these, GETDATA snapshots mid-history, and the in-process subtree operations CloneDataNodeSubtree / SaveNodeTreeToMessage / "
          "RestoreNodeTreeFromMessage (saved trees and hostile tree Messages: index entries twice, strangers, parts missing or mistyped) / "
          "SetDataNode(insert-before) through a StorageReflectSession subclass that maps four harness command codes to that protected API, plus "
          "GETDATATREES and SETDATATREES (must be bounced, tree unchanged).  A quarter of the histories run on a server whose central state sets small "
          "limits (3-6 children per node and/or 6-30 nodes per session, possibly different for later joiners) and 3% have index nodes at depth 99 and "
          "100 (MUSCLE_MAX_NODE_DEPTH), so that ordered inserts by every path are refused at arbitrary points (a refused insert must leave no trace); "
          "a third of the sessions use only one index-creating operation all their life.  SETDATA may carry SETDATANODE_FLAG_ENABLESUPERCEDE; a 'supercede' "
          "operation interleaves index changes of one node with superceding re-uploads of that node's payload (back to back in one server cycle or in one "
          "BATCH); 30% of the sessions have 2 KB socket buffers and any subscriber may stop reading for 3-16 steps so that its server-side queue holds unsent "
          "Messages when a supercede prunes it (a paused reader is audited after it has drained; all drain before the final audit); the state 'node superceded "
          "while an index update of it is the newest queued mention for a subscriber' is counted in process.  A 'snapbatch' operation is ONE BATCH {index change(s) of one of the sender's nodes; GETDATA of it | the same "
          "subscription again | a wider subscription covering it} (20% reversed) by a session that may already be subscribed to that node.  Every session may subscribe (plainly, two patterns at once, or "
          "BATCH{quiet subscribe, GETDATA}) to its OWN and to foreign index nodes and unsubscribe (it forgets a list after the pong behind "
          "REMOVEPARAMETERS); it applies every PR_RESULT_INDEXUPDATED string in arrival order (c / i<pos>:<name> / r<pos>:<name>); an insert "
          "beyond the end, a remove that names another entry or lies beyond the end, or a malformed string is a violation by itself.  At every "
          "quiescent point (after ~1/3 of the operations and at the end): the in-process walk finds every index entry to be THE child object of "
          "that name of that node, none twice; the observer's fresh GETDATA snapshot (one pattern per depth; reflect-to-self) shows the same node "
          "set and per node the same index as the in-process walk (at 1/4 of the points its GETDATATREES view too); for every live session and "
          "every existing node one of its subscription strings selects (independent matcher), replayed list == true index, and lists of vanished "
          "nodes are empty.  A fraction of inserts/reorders is bracketed by quiescent points and compared with the positions StorageReflectConstants.h "
          "documents.  A history is non-trivial when at least one compared index was non-empty and at least 10 index-update instructions were "
          "replayed.  regress: fixed witnesses F15, F32, repeated add-to-index, hostile restore, save/restore/clone round trip, SETDATATREES bounce, "
          "documentation examples of INSERTORDEREDDATA/REORDERDATA, the two clone findings, refused ordered inserts (child / node / depth limit), oracle self-tests."),
    assumptions=['a quiescent point is 6 consecutive rounds in which no client and no server step moved a byte (single-threaded bench, no clocks)',
                 'the subscription strings used are literals, *, (a|b): the 20-line matcher of reflectbench.h is the independent reference for "subscribed to"',
                 'nodes at/under <session>/Q are the quiet zone: PR_NAME_REMOVE_QUIETLY and SETDATANODE_FLAG_QUIET+!Rmv change an index silently by design, so their replay is not compared (structure and observer view are)',
                 'limits are set the way a production server is configured (PR_NAME_MAX_CHILDREN_PER_NODE / PR_NAME_MAX_NODES_PER_SESSION in ReflectServer::GetCentralState(), read by a session when it attaches)',
                 'the protected subtree API is driven by a session subclass handling harness command codes sent by its own client, the way customised muscle daemons use it',
                 'the positional semantics checked are only those StorageReflectConstants.h states; reorder before itself / before a non-indexed child is counted as unspecified',
                 'StorageReflectSession::_indexingPresent is read in process (explicit template instantiation, no change to /repo) only to classify the clone finding',
                 'query filters on subscriptions are not used (an index update is sent regardless of the filter; outside the quantifier)',
                 'g++ 12 ASan/UBSan/LSan and valgrind memcheck report what they claim to report'],
    legs=[
        Leg('regress', 'h_index', 'asan', opts={'mode': 'regress'}, quick=1, thorough=1, workers=1, leaks=True, min_cases=1),
        Leg('index', 'h_index', 'asan', opts={'mode': 'index', 'ops': 80}, quick=4800, thorough=120000, workers=16, leaks=True, stall_wall=600.0),
        Leg('memcheck', 'h_index', 'plain', opts={'mode': 'index', 'ops': 80}, quick=48, thorough=960, workers=16, valgrind=True),
    ],
    min_stats={'regress': {'selftest_oracle_fired': 11, 'regress_F15': 1, 'regress_F32': 1, 'regress_structure': 1, 'regress_doc_examples': 1,
                           'regress_clone_own_subscription': 1, 'regress_clone_twice': 1, 'regress_refusals': 1, 'regress_supercede': 1, 'regress_snapshot_in_batch': 1, 'supercede_sets_with_index_update_as_newest_queued_mention': 30, 'regress_backlog_queue_depth': 20, 'settrees_bounced': 1},
               'index': {'quiescent_points': 60000, 'comparisons': 600000, 'comparisons_own_node': 250000, 'comparisons_foreign_node': 250000,
                         'comparisons_nonempty_own_node': 80000, 'comparisons_nonempty_foreign_node': 80000, 'entries_compared': 400000,
                         'idxop_c': 15000, 'idxop_i': 80000, 'idxop_r': 15000, 'snapshots_own_node': 7000, 'snapshots_foreign_node': 7000,
                         'observer_nodes_compared': 1000000, 'struct_index_nodes_checked': 300000, 'treeview_nodes_compared': 200000,
                         'op_insert': 20000, 'op_reorder': 15000, 'op_remove': 12000, 'op_setidx': 10000, 'op_setplain': 7000, 'op_subscribe': 10000,
                         'unsubscribes_completed': 2000, 'sessions_joined': 3000, 'sessions_left': 2000, 'subscribers_left': 1000, 'batches': 7000,
                         'clones_of_indexed_source': 2000, 'clones_onto_existing_destination': 1500, 'restores_of_hostile_trees': 4000,
                         'restores_of_saved_trees': 1000, 'trees_saved_by_getdatatrees': 5000, 'save_ok': 1000, 'setnode_ok': 4000, 'settrees_bounced': 1500,
                         'semantic_checks_insert': 2000, 'semantic_checks_insert_before_existing_sibling': 1000, 'semantic_checks_reorder': 1200,
                         'removal_notices': 10000, 'max_op_kinds_in_one_history': 19, 'max_index_length': 12,
                         'histories_with_limits': 800, 'histories_with_deep_index_nodes': 60, 'ordered_inserts_refused_by_child_limit': 500,
                         'ordered_inserts_refused_by_node_limit': 300, 'ordered_inserts_refused_by_depth_limit': 50, 'semantic_checks_refused_insert': 250, 'max_node_depth': 100,
                         'op_snapbatch': 8000, 'batches_with_index_change_then_snapshot_request_by_subscribed_session': 2000,
                         'batches_with_index_change_then_snapshot_request_by_unsubscribed_session': 2000, 'batches_with_snapshot_request_then_index_change': 1200,
                         'op_supercede': 8000, 'supercede_sets_on_indexed_node': 10000, 'supercede_sets_on_indexed_node_with_queued_index_update': 1500,
                         'supercede_sets_with_index_update_as_newest_queued_mention': 1200, 'reader_pauses': 1500, 'reader_pauses_small_buffers': 600,
                         'max_subscriber_queue_depth_at_supercede': 10, 'max_server_side_queue_of_paused_reader': 5},
               'memcheck': {'comparisons': 3000, 'idxop_i': 500, 'idxop_r': 80, 'idxop_c': 80}},
)
