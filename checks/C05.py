from driver import Leg
SPEC = dict(
    level='exploration',
    design_ref='DESIGN.md section 3, C05 (and 2.5 the reflector bench); section 7 rows F8, F16, F17',
    rule=("route: one case = one tree on a fresh stepped ReflectServer: 3-8 clients (real MessageIOGateways over socketpairs; the first is the "
          "observer with reflect-to-self), one in-process StorageReflectSession subclass that owns nodes and records what it is handed, in half of "
          "the cases one in-process DumbReflectSession (owns nothing); random SETDATA of 0-6 paths per session (names incl. a* q? (p) 1,2 [k] <3> ~a "
          "p+q, 1-3 levels); the observer reads the tree with GETDATA /*, /*/*, ...; then 40 user Messages (7 what codes outside the command range, "
          "unique id) in bursts of 1-8 from random senders with 0-5 !SnKy patterns -- literal, escaped, over-escaped, *, ?, [..], [a-c], (a|b), comma "
          "lists, ~, ~(..), <n-m> <n-> <-n> <a,b-c>, at node, session and host level, absolute or with the implicit /*/*, equal and different depths, "
          "pairs/triples constructed to 'conspire' on a victim node, in 1 of 8 pattern lists a pattern with a clause that does not compile (unbalanced ( or [, reversed class range, ...: 17 texts refused by both the reference parser and StringMatcher::SetPattern) first / in the middle / last / alone -- optional !SnFl filters (one per key, an empty Message for none; or fewer than "
          "keys), a forged `session` field in about half of them (10 shapes, 5 of them not string fields, 2 multi-valued strings); interleaved in-stream SETPARAMETERS/REMOVEPARAMETERS of reflect-to-self and of the default "
          "route (!SnKy + !SnFl), settled changes of !G2N / !N2G, SETDATA/REMOVEDATA mutations with a fresh observer read. After every burst each "
          "session's receive queue is compared with the expected recipient sets computed from the OBSERVER's tree with the independent wildcard "
          "reference (refwild.h) and a hand-written filter evaluator: exactly once to every selected session, to nobody else, per-sender order kept, "
          "content unchanged, a `session` field sent with ANY type / value count (string, several strings, int32, int64 x2, bool x2, Message, raw) arrives as exactly one string value naming the true sender. Between bursts: GETDATA with a random pattern set, and one SUBSCRIBE:<pattern> (initial values + the notice for an update of a foreign node), both against the reference. Then 70 in-process comparisons per tree of NodePathMatcher::DoTraversal (collecting "
          "callback; from the root with the implicit prefix, or rooted at a host/session node) with MatchesPath and MatchesNode over every node and "
          "with the reference. A case is non-trivial when at least 5 of its pattern-routed Messages had both a selected and an unselected session; "
          "distinct = distinct (seed, case). regress: F8, F16, F16b, F17 (both witnesses of the row) and the documentation examples as fixed cases."),
    assumptions=['the observer\'s GETDATA view (itself a traversal) is the tree; it is cross-checked against the commands that built it',
                 'refwild.h (written from the StringMatcher documentation) is the wildcard reference; a numeric-range clause does not match a name that is not all digits',
                 'filter reference: Int32 compare, ValueExists, WhatCode range, NodeName, String equality, And/Or, semantics from the QueryFilter.h comments',
                 'the !G2N / !N2G flags are switched off by setting and then removing the parameter (a bare REMOVEPARAMETERS of a never-set default flag is a no-op in the server: counted, not judged)',
                 'a pattern with a clause that fails to compile selects nothing and every other pattern of the same list (Message keys, default route, GETDATA, REMOVEDATA) selects what it selects alone; candidates that muscle compiles after all are left out and counted',
                 'the default route is the !SnKy strings last set paired by position with the !SnFl Messages last set, whichever SETPARAMETERS / REMOVEPARAMETERS brought them (keys only, filters only, both); filters without keys = no route',
                 'node names may hold backslashes (a\\ a\\zz b\\c); an escaped backslash is a literal backslash also when a live metacharacter follows it',
                 'fewer filters than keys: the last filter is applied to the surplus keys by the code, REMOVEDATA\'s text says no filter: receivers on which the two readings differ are excluded and counted',
                 'a node visited twice by one traversal is reported (DoTraversal documents "the number of times cb was called" for nodes "encountered")',
                 'g++ 12 ASan/UBSan/LSan and valgrind memcheck report what they claim to report'],
    legs=[
        Leg('regress', 'h_route', 'asan', opts={'mode': 'regress'}, quick=1, thorough=1, workers=1, leaks=True, min_cases=1),
        Leg('route', 'h_route', 'asan', opts={'mode': 'route', 'msgs': '40', 'trav': '70'}, quick=1600, thorough=40000, workers=16, leaks=True),
        Leg('memcheck', 'h_route', 'plain', opts={'mode': 'route', 'msgs': '40', 'trav': '70'}, quick=16, thorough=320, workers=16, valgrind=True),
    ],
    min_stats={'regress': {'regress_routed_messages': 25, 'regress_traversals': 1, 'regress_forgeries_checked': 2, 'regress_malformed_scenarios': 10, 'regress_escaped_backslash_scenarios': 8, 'regress_route_filter_scenarios': 6, 'regress_list_backslash_scenarios': 5},
               'route': {'routed_messages': 50000, 'receiver_checks': 300000, 'deliveries_expected': 80000, 'bursts': 8000,
                         'msgs_with_2_patterns': 9000, 'msgs_with_3_patterns': 6000, 'msgs_with_4_patterns': 3500, 'msgs_with_5plus_patterns': 1500,
                         'multi_msgs_with_equal_depth_patterns': 14000, 'multi_msgs_two_depths': 10000, 'multi_msgs_three_plus_depths': 3000,
                         'multi_msgs_equal_and_different_depths': 8000, 'conspiracy_candidate_receivers': 12000, 'msgs_with_conspiracy_candidate': 7000,
                         'default_route_messages': 2000, 'broadcast_messages': 2000, 'msgs_with_filters': 10000, 'msgs_with_a_direct_lookup_level': 15000,
                         'param_default_route_set': 2000, 'param_default_route_removed': 250, 'param_default_route_filters_removed': 60,
                         'param_self_set': 900, 'param_self_removed': 400, 'param_removed_N2G': 300, 'param_removed_G2N': 150,
                         'forged_session_fields': 20000, 'forged_session_fields_nonstring': 8000, 'forged_session_fields_multi_valued': 3000, 'session_fields_checked': 30000, 'tree_mutations': 600, 'parameter_tables_checked': 5000,
                         'msgs_with_malformed_pattern_before_valid': 1500, 'msgs_with_malformed_pattern_before_valid_and_receivers': 800, 'msgs_with_malformed_pattern_last': 800,
                         'default_routes_with_malformed_pattern': 300, 'default_routes_with_malformed_pattern_before_valid': 200,
                         'default_route_deliveries_expected_behind_malformed': 150, 'tree_reads_with_malformed_key_before_valid': 400,
                         'traversals_with_malformed_pattern': 6000,
                         'clauses_with_escaped_backslash_before_live_metachar': 10000, 'clauses_with_escaped_backslash_before_sole_live_metachar': 7000,
                         'default_route_filter_replaced_without_keys': 200, 'default_route_messages_after_filter_replaced_without_keys': 200,
                         'default_route_deliveries_expected_after_filter_replaced_without_keys': 60, 'default_route_filters_set_without_any_keys': 100,
                         'default_route_keys_replaced_keeping_filters': 100, 'msgs_with_list_alternative_holding_a_backslash': 300, 'getdata_checks': 600, 'subscription_probes': 500, 'subscription_updates_expected': 120,
                         'traversal_comparisons': 100000, 'traversal_nodes_visited': 150000, 'traversals_direct_lookup_at_every_level': 8000,
                         'traversals_iterated_at_every_level': 20000, 'traversals_mixing_lookup_and_iteration': 30000,
                         'traversals_with_lookup_level_and_visits': 20000, 'traversals_with_filters': 12000, 'traversals_with_several_patterns': 40000,
                         'traversals_rooted_at_session_node': 10000, 'traversals_rooted_at_host_node': 3000},
               'memcheck': {'routed_messages': 500, 'receiver_checks': 3000, 'traversal_comparisons': 1000}},
)
