from driver import Leg

_TYPES = ['bool', 'int8', 'int16', 'int32', 'int64', 'float', 'double', 'string', 'point', 'rect', 'raw', 'user', 'message', 'pointer', 'tag']
_STATES = ['removed', 'inline1', 'array1', 'array2', 'array3', 'array17', 'array300']

# every type x representation-state cell must have been reached (quick: >= 20 scripts per cell in the random leg, >= 1 in the product)
_cells = {'cell_%s_%s' % (t, s): 20 for t in _TYPES for s in _STATES}
_cells.update({'equality_checked': 5000, 'equality_against_stripped_rebuild': 2000, 'layout_walks_ok': 20000, 'msgs_with_nan': 2000,
               'msgs_reaching_depth_4': 1000, 'zero_length_items': 1000, 'fields_left_shared_with_live_scratch_message': 500,
               'op_add': 1000, 'op_prepend': 1000, 'op_addmulti': 1000, 'op_replace': 1000, 'op_replace_okadd': 1000, 'op_remove_at': 1000,
               'op_remove_last': 1000, 'op_findcopy': 1000, 'op_ensureprivate': 1000, 'op_copyname': 1000, 'op_sharename': 1000,
               'op_movename': 1000, 'op_rename': 1000, 'op_reorder': 1000, 'op_alias': 1000})
# construction routes and oracle steps of the second round (each must have been exercised)
_cells.update({'route_plain': 5000, 'route_lightweight_copy_private_mutation': 1000, 'route_lightweight_copy_shared_mutation': 1000, 'route_from_bytes_then_mutated': 1000,
               'route_copy_then_mutated': 1000, 'route_swapcontents': 1000, 'route_crossname': 1000, 'second_messages_checked': 2000,
               'crossname_swapname': 300, 'crossname_swapname_both_present': 100, 'crossname_swapname_one_present': 100, 'crossname_movename': 300, 'crossname_copyname': 300, 'crossname_sharename': 300,
               'op_sort': 5000, 'op_sort_one_item_range': 5000, 'op_normalize': 5000, 'op_findcopy_message_by_value': 2000, 'op_findcopy_cstr': 1000, 'op_findcopy_findflat_object': 1000,
               'op_mutate_itemop': 2000, 'op_mutate_newfield': 300, 'op_mutate_removename': 300, 'op_mutate_what': 300,
               'used_target_unrelated': 3000, 'used_target_copy_of_same': 3000, 'used_target_variant_of_same': 3000, 'used_target_previously_parsed': 3000,
               'used_target_nonempty_incoming_empty': 500, 'used_target_had_more_fields': 2000, 'used_target_had_fewer_fields': 2000, 'equality_checked_on_used_target': 5000,
               'arefieldsequal_checked': 50000, 'arefieldsequal_cross_unequal_checked': 20000, 'arefieldsequal_one_sided_checked': 2000, 'typefilter_lists_checked': 100000,
               'observed_shared_mutation_visible_in_source': 100, 'tostring_calls': 300})
# serialisation / parse entry points as a generator dimension (third round)
_SER = ['flatten_dataflattener', 'flattentobytes_without_size', 'flattentobytebuffer_ref', 'flattentobytebuffer_object', 'copyto_bytebuffer', 'flattentodataio',
        'getflattenedbytebufferfrompool', 'writeflatwithlengthprefix', 'copyto_other_flattenable', 'dataflattener_on_bytebuffer']
_PAR = ['unflattenfrombytes', 'unflatten_dataunflattener', 'unflattenfrombytebuffer_object', 'unflattenfrombytebuffer_ref', 'unflattenfromdataio_given_size',
        'unflattenfromdataio_size_header', 'copyfrom_bytebuffer', 'dataunflattener_readflat', 'dataunflattener_readflatwithlengthprefix']
_cells.update({'ser_' + n: 3000 for n in _SER}); _cells.update({'par_' + n: 3000 for n in _PAR})
_cells.update({'flatten_into_%s_buffer' % st: 1000 for st in ['empty', 'shorter', 'exact', 'longer_by_one', 'longer', 'much_longer', 'longer_holding_another_message', 'shorter_holding_another_message']})
_cells.update({'copyto_into_%s_buffer' % st: 100 for st in ['empty', 'shorter', 'exact', 'longer_by_one', 'longer', 'much_longer', 'longer_holding_another_message']})
_cells.update({'destination_buffer_pooled': 5000, 'destination_buffer_on_stack': 5000})
_product = {'product_%s_%s' % (t, s): 1 for t in _TYPES for s in _STATES}
_product.update({'cell_%s_%s' % (t, s): 1 for t in _TYPES for s in _STATES})

SPEC = dict(
    level='exploration',
    design_ref='DESIGN.md section 3, C01',
    rule=("one case = one Message built only through the public Message API by harness/msggen.h from the case's own PRNG: what code, 0-10 "
          "fields (0-4 per sub-Message, nesting to depth 4), per field a name (empty, 1 byte, around the String small-buffer size, long, "
          "non-ASCII bytes), one of 15 type classes (bool, int8..int64, float, double, string, point, rect, raw, user type code, Message, "
          "pointer, tag) and an operation script over add / prepend / multi-element add / replace-at / replace-or-add / remove-at / "
          "remove-last / find+copy / EnsureFieldIsPrivate / CopyName / ShareName / MoveName / Rename / MoveNameTo* steered to end in one of "
          "the representation states removed, inline1, array1 (array object holding one item), array2, array3, array17, array300 or another "
          "count; values from boundary pools (NaN payloads incl. signalling, -0, inf, denormals, integer min/max/-1, empty and 1-byte "
          "strings, lengths 6-8/14-17/31-33/255-256, 0-byte raw and user-type buffers) mixed with random ones.  Oracle: exact-size heap "
          "buffer flatten (ASan red zones; muscle aborts on a size mismatch = observed crash), parse into a fresh and a reused object, "
          "bit-exact recursive structural comparison with pointer/tag fields absent, re-flatten byte identity, FlattenedSize and "
          "CalculateChecksum equality, operator== both ways against the original (against a rebuilt copy without pointer/tag fields when "
          "it has some; with NaN items only consistency against a panel of other Messages), FlattenToByteBuffer / UnflattenFromByteBuffer / "
          "GetMessageFromPool(bytes), copy constructor and assignment, and an independent reader of the documented layout.  A case is "
          "non-trivial when at least one field reaches the wire (flattened size > 12); distinct = distinct flattened byte strings.  "
          "The 'product' leg enumerates type class x representation state x field position (first/middle/last of three).  "
          "Construction routes (roundtrip leg, PRNG-chosen, 40% plain): the Message under test is a lightweight copy (BecomeLightweightCopyOf / "
          "GetLightweightCopyOfMessageFromPool) mutated after EnsureFieldIsPrivate (the source must keep its bytes, the copy must equal a deep copy "
          "mutated the same way) or mutated in its shared arrays (both Messages must make the trip); a Message obtained from bytes "
          "(GetMessageFromPool(bytes) and the explicit-pool overloads, Unflatten*) and then mutated; a deep copy (GetMessageFromPool(msg), CopyFrom, "
          "CopyTo, Clone, FindMessage by value) mutated while the source must keep its bytes; SwapContents / move; SwapName / MoveName / CopyName / "
          "ShareName between two generated Messages against the documented outcome.  Field-level routes: SortDataInField (expected order = stable "
          "sort of the items by the type's default comparator, sub-ranges), GetPointerToNormalizedFieldData (contiguous items), by-value "
          "FindMessage re-inserted, FindString(const char*&).  The parse step is repeated into a used target (unrelated content / copy of the same "
          "Message / variant with more, fewer, retyped, reordered fields / product of an earlier Unflatten) with the same structure, bytes, checksum "
          "and equality demands as for a fresh object; AreFieldsEqual must agree with field-wise equality; type-filtered field-name iteration must "
          "list exactly the fields of that type in order.  Entry points are a dimension too: besides the exact-size FlattenToBytes(buf, n) every case "
          "serialises through FlattenToByteBuffer(ByteBuffer &) into a destination that is empty / shorter / exact / longer by one / longer / much "
          "longer / just used for another Message (stack or pooled object) and through two PRNG-chosen others of Flatten(DataFlattener), "
          "FlattenToBytes(buf), FlattenToByteBuffer(), CopyTo/CopyFrom(ByteBuffer), FlattenToDataIO (with and without size header), "
          "GetFlattenedByteBufferFromPool, DataFlattener::WriteFlatWithLengthPrefix, CopyTo(another Flattenable), DataFlattener(ByteBuffer): each must "
          "leave exactly FlattenedSize() bytes, the same bytes.  The fresh and the used parse target are filled through a PRNG-chosen one of "
          "UnflattenFromBytes, Unflatten(DataUnflattener), UnflattenFromByteBuffer(object / ref), UnflattenFromDataIO (given size / size header), "
          "CopyFrom(ByteBuffer), DataUnflattener::ReadFlat, ReadFlatWithLengthPrefix."),
    assumptions=['the layout comment in Message::Flatten() (Message.cpp) and the doc comments of Message.h are the specification',
                 'operator== with NaN items is IEEE comparison (unspecified by the property): only consistency is demanded there',
                 'identity of tag objects and equality of copies holding pointer/tag fields are outside the property (counted as unspecified_*)',
                 'a lightweight copy shares field data by documentation: item-level changes made without EnsureFieldIsPrivate may show in the '
                 'source (counted as observed_*, not judged); changes to the field table and changes after EnsureFieldIsPrivate must not',
                 'the generator tracks the inline/array state of a field from the documented semantics (array from the 2nd item until the '
                 'last item is removed); the public API does not expose it',
                 'g++ 12 ASan/UBSan/LSan and valgrind memcheck report what they claim to report'],
    legs=[
        Leg('regress', 'h_msgroundtrip', 'asan', opts={'mode': 'regress'}, quick=1, thorough=1, workers=1, leaks=True, min_cases=1),
        Leg('roundtrip', 'h_msgroundtrip', 'asan', opts={'mode': 'roundtrip'}, quick=30000, thorough=750000, workers=16, leaks=True),
        Leg('product', 'h_msgroundtrip', 'asan', opts={'mode': 'product'}, quick=1890, thorough=47250, workers=16, leaks=True),
        Leg('memcheck', 'h_msgroundtrip', 'plain', opts={'mode': 'roundtrip'}, quick=1000, thorough=20000, workers=16, valgrind=True),
    ],
    min_stats={'regress': {'regress_messages': 44}, 'roundtrip': _cells, 'product': _product},
)
