from driver import Leg

_SITES = ['thread_send_after_enqueue', 'thread_wait_after_drain', 'thread_wait_before_block', 'thread_internal_entry', 'thread_internal_exit']
_SITEROLES = ['send_after_enqueue.owner', 'send_after_enqueue.helper', 'send_after_enqueue.internal', 'wait_after_drain.owner', 'wait_after_drain.internal',
              'wait_before_block.owner', 'wait_before_block.internal', 'internal_entry.any', 'internal_exit.any']


def _mins(n):
    """minimum observations for a leg of n cases (about a third of what a clean run of that size shows)"""
    f = n / 480.0
    m = {}
    for s in _SITES:
        rare = s.endswith('entry') or s.endswith('exit')       # passed once per incarnation of the internal thread
        m['hits_' + s] = int((400 if rare else 12000) * f)     # every hooked window of Thread.cpp was passed ...
        m['delays_' + s] = int((60 if rare else 900) * f)      # ... and delays were injected there
    for mech in ('sock', 'wcond'):
        for sr in _SITEROLES:
            m['pl_%s.%s' % (mech, sr)] = max(3, int(6 * f))    # every single placement, per signalling mechanism, several times
    for k in ('yield', 'sleep', 'spin'):
        m['pl_kind_' + k] = int(60 * f)
    for k, v in {'pl_none': 6, 'pl_jitter': 12, 'pl_pair': 6, 'pl_triple': 6,
                 'cases_socketpair': 150, 'cases_waitcondition': 100,
                 'cases_style_default': 100, 'cases_style_selectfirst': 50, 'cases_style_mixedwaits': 100,
                 'msgs_received_by_internal_thread': 30000, 'replies_received_by_owner': 30000,
                 'msgs_queued_before_first_start': 250, 'msgs_sent_after_shutdown_request': 200, 'msgs_sent_while_stopped': 600,
                 'restarts': 250, 'owner_untimed_wait_ok': 6000, 'owner_select_wakeups': 400, 'owner_poll_ok': 6000, 'owner_timed_ok': 2000,
                 # owner woken through the harness's ICallbackMechanism (4 of the 9 combinations)
                 'cases_callback_socketpair': 30, 'cases_callback_waitcondition': 30, 'cases_owner_callback_only': 25, 'cases_owner_callback_and_direct': 25,
                 'callback_dispatches': 2500, 'callback_untimed_waits': 2000, 'replies_via_callback': 12000, 'callbacks_requested_during_drain': 250,
                 'callback_resignals_by_dispatcher': 100, 'msgs_sent_from_inside_callback': 1000,
                 # fault dimension: handled signals thrown at blocked threads; timed waits with a far deadline and the histories they are sensitive to
                 'cases_with_signals_socketpair': 40, 'cases_with_signals_waitcondition': 30,
                 'signals_delivered_to_blocked_internal_thread': 60, 'signals_delivered_to_blocked_owner_thread': 60,
                 'long_timed_waits_ok': 800, 'timed_waits_started_with_message_already_queued': 1500, 'stale_notification_histories': 15,
                 # user sockets in the Thread's socket sets (socket-pair mechanism)
                 'cases_with_user_sockets': 60, 'cases_with_user_socket_in_write_or_except_set_lower_fd_not_ready': 40,
                 'wakeups_for_message_with_unready_user_sockets_internal_thread': 1500, 'wakeups_for_message_with_unready_user_sockets_owner': 250,
                 'wakeups_for_message_with_unready_user_sockets': 2000, 'user_sockets_fd_above_wakeup_socket': 12, 'user_sockets_fd_below_wakeup_socket': 100,
                 'early_wakeups_by_ready_user_socket_owner': 80, 'early_wakeups_by_ready_user_socket_internal_thread': 20, 'user_socket_toggles_to_ready': 100,
                 'user_socket_internal_write_never_ready': 12, 'user_socket_internal_except_never_ready': 12, 'user_socket_owner_write_never_ready': 6, 'user_socket_owner_except_never_ready': 12}.items():
        m[k] = int(v * f)
    return m


SPEC = dict(
    level='exploration',
    design_ref='DESIGN.md section 3, C11 (section 2.6 thread bench and delay injection, section 1.3 proved hangs)',
    rule=("one case = one scenario on a fresh Thread: the owner and 0-3 helper threads send ~100-300 uniquely numbered Messages, the internal "
          "thread replies (echo / bursts / sparse / none); the owner receives by poll, timed wait, untimed wait and untimed select on the "
          "owner wake-up socket; Messages are queued before the first start, behind the shutdown token and while stopped; 0-4 "
          "shutdown/join/restart cycles.  Case index k selects the delay placement (k % 32: 9 (site, role) windows of Thread.cpp x "
          "yield/sleep/spin, no delay, 2 x uniform jitter, a random pair, a random triple) and the combination ((k / 32) % 9: socket pair or "
          "wait-condition x internal-thread style default loop / select-first loop / mixed untimed-timed-polling waits x owner woken directly or "
          "(4 of 9) through an ICallbackMechanism implemented by the harness: the owner blocks untimed on the mechanism's latched flag, calls "
          "DispatchCallbacks() and gets the replies through Thread::MessageReceivedFromInternalThread(), sometimes sending from inside the callback; "
          "callback-only or mixed with direct GetNextReplyFromInternalThread() calls).  In a third of the cases a signaller thread throws SIGUSR1 (no-op handler, no SA_RESTART) "
          "a few times at the internal thread and/or the owner, preferably while the target is at its blocking point (bookkeeping from the hooked sites).  "
          "On socket-pair Threads two thirds of the cases register 1-3 harness socket pairs with the internal thread and/or the owner in "
          "SOCKET_SET_READ / WRITE / EXCEPTION (created before the Thread's own socket pair = lower fd, or after = higher fd; never ready: nothing to read, "
          "send buffer filled, exception set; or toggled ready by the owner, which legally ends a wait early with B_IO_READY, whereupon the waiter makes it "
          "unready again); an unready one must never keep a Message from waking the waiter.  Timed receives also come with a 3 s deadline, begun only when a reply is due, sometimes after polling the queue empty first; verdicts on them "
          "are by return code only: B_TIMED_OUT although a reply was already queued before the call, or (wait-condition Threads, where B_TIMED_OUT is "
          "returned only at the deadline) although the next reply's send had returned more than 1 s before the deadline.  The checker runs in "
          "the harness on the internal thread's and the owner's logs: exactly once, per-sender FIFO in both directions (the owner's stream "
          "includes the shutdown tokens), nothing received that was not sent, one token per exit.  A lost wake-up or a join that never "
          "returns is reported only by the driver's proved-deadlock detector (all threads in untimed waits, no CPU, 3 s): every wait for "
          "completion in the harness is untimed.  A case is non-trivial when >= 20 Messages were sent and some receiver reached the blocking "
          "point on an empty queue or the owner blocked on the callback primitive; distinct = distinct interleaving signatures (order in which threads passed the hooked sites)"),
    assumptions=['lifecycle calls (Start/Shutdown/WaitFor...Exit) are owner-only: helper sends hold a harness shared lock that the owner takes exclusively around them',
                 'an untimed wait may return B_TIMED_OUT when a signal byte outlives the Message it announced (receivers loop); only 200000 such returns in a row count as a violation',
                 'blocking and timed receives are attempted only while the Thread counts as running; a stopped socket-pair Thread has no socket to wait on (unspecified corner, polled instead)',
                 'the owner selects on GetOwnerWakeupSocket() only after its own last dequeue attempt found the reply queue empty',
                 'the harness ICallbackMechanism keeps a latched flag; the owner consumes it only directly before a full ICallbackMechanism::DispatchCallbacks()',
                 'user sockets that can become ready are given to the internal thread only in the mixed-waits style: the default InternalThreadEntry() loop treats B_IO_READY as fatal (by design: a subclass that registers sockets writes its own loop)',
                 'GetRunTime64() is one monotonic clock for all threads (the sender stamps a reply after SendMessageToOwner() returned; the stamp is compared with the deadline the receiver chose, never with when the receiver ran)',
                 'g++ 12 ASan/UBSan/TSan report what they claim to report; the deadlock detector of lib/driver.py proves hangs'],
    legs=[
        Leg('regress', 'h_thread', 'asan', opts={'mode': 'regress'}, quick=1, thorough=1, workers=1, min_cases=1),
        Leg('asan', 'h_thread', 'asan', opts={'mode': 'run'}, quick=3456, thorough=86400, workers=16),
        Leg('tsan', 'h_thread', 'tsan', opts={'mode': 'run'}, quick=2304, thorough=57600, workers=16),
    ],
    min_stats={'asan': _mins(3456), 'tsan': _mins(2304), 'regress': {'regress_combinations': 9, 'regress_callback_request_during_drain_witnesses': 4, 'regress_callback_requests_signalled_during_drain': 4,
                        'regress_signal_witnesses': 5, 'regress_signals_at_blocked_internal_thread': 10, 'regress_signals_at_blocked_owner_thread': 5,
                        'regress_stale_notification_witnesses': 5, 'regress_stale_notification_histories_seen': 2, 'regress_long_timed_waits_ok': 5,
                        'regress_user_socket_witnesses': 3, 'regress_wakeups_with_unready_user_sockets': 9, 'regress_waitcondition_rejects_user_sockets': 2}},
)
