from driver import Leg
import os
LOCKORDER_CASES = 1    # F53 (repaired): the leg is a fixed witness now

_SITES = ['tpool_before_handback', 'tpool_after_dispatch', 'tpool_unregister_before_wait', 'tpool_unregister_after_wait',
          'tpool_before_shutdown', 'thread_send_after_enqueue', 'thread_wait_after_drain', 'thread_wait_before_block',
          'thread_internal_entry', 'thread_internal_exit']
_MIN = {                                              # about a quarter of what a quick run (2000 cases per leg) observes
    'messages_handled': 150000,
    'submissions_while_client_in_handler': 30000,     # the pending/deferred switch-over is what the property rests on
    'submissions_by_handlers': 50000,
    'accepted_during_unregister_wait': 5000,          # handlers extending an unregister wait
    'unregistrations': 3000,
    'hits_tpool_unregister_before_wait': 600,         # unregistrations that really had to wait
    'unregistrations_extended_by_handler_submissions': 300,
    'toggles_poked_by_returning_handler': 60,         # SetThreadPool(NULL) racing with the return of a handler of that client
    'toggles_poked_by_running_handler': 60,
    'reregistrations': 1000,
    'registrations_late': 1000,
    'cases_pool_destroyed_with_outstanding_work': 60,
    'cases_pool_destroyed_idle': 300,
    'cases_more_clients_than_threads': 300,
    'cases_threads_cover_clients': 300,
    'cases_pool_saturated': 150,
    'cases_with_parallel_handlers': 300,
    'max_concurrent_handlers': 6,
    'cases_single_placement': 1500,
    'single_placements_with_delays': 1000,
    'cases_jitter_only': 20, 'cases_no_delay': 20, 'cases_pair_placement': 20, 'cases_triple_placement': 20,
    'distinct_order_signatures': 1500,
    'shutdown_while_unregister_blocked': 150,         # pool shut down (global flush) underneath threads blocked in SetThreadPool(NULL) (~400 cases per leg)
    'waiters_parked_at_shutdown': 300,                # ... unregistering threads that had passed MVH_POOL_UNREGISTER_BEFORE_WAIT at that moment
    'shutdown_waiter_client_being_handled': 200, 'shutdown_waiter_client_with_deferred_messages': 150, 'shutdown_waiter_client_pending_only': 40,
    'shutdown_gate_opened_inside_shutdown': 80,       # handlers released after _shuttingDown was set: only Shutdown() itself can wake the waiters
    'shutdown_gate_opened_just_before': 40,
    'shutdown_cases_with_extra_placement': 50,
}
for _s in _SITES:
    _MIN['hits_' + _s] = 500
    _MIN['delays_' + _s] = 40
for _p in ['tpool_before_handback:poolthread', 'tpool_after_dispatch:submitter', 'tpool_after_dispatch:poolthread',
           'tpool_unregister_before_wait:unregistrar', 'tpool_unregister_after_wait:unregistrar', 'tpool_before_shutdown:main',
           'thread_send_after_enqueue:submitter', 'thread_send_after_enqueue:poolthread', 'thread_send_after_enqueue:main',
           'thread_wait_after_drain:poolthread', 'thread_wait_before_block:poolthread',
           'thread_internal_entry:poolthread', 'thread_internal_exit:poolthread']:
    _MIN['placement_' + _p] = 100                     # every single placement (site x role) ~140 times, all three stall kinds
    _MIN['effective_' + _p] = 20                      # ... of which the armed site was passed and stalled at least once

SPEC = dict(
    level='exploration',
    design_ref='DESIGN.md section 3, C19 (thread bench and delay bounding: section 2.6)',
    rule=("one case = one ThreadPool lifetime under real threads: pool of 1-6 threads, 1-10 IThreadPoolClient objects (some registered late), "
          "1-4 submitter threads (burst / paced / hot-client styles), 0-2 registrar threads that unregister and re-register clients when the "
          "submitters reach random progress marks or when a handler of that client (running / just returning) wakes them, handlers that yield, dawdle or submit further Messages to their own or another client "
          "(chains up to depth 3, also during an unregister wait), pool destroyed after unregistering all / some / none of the clients, or (1 case in 5) shut down through "
          "AbstractObjectRecycler::GlobalFlushAllCachedObjects() underneath 1-5 threads that are blocked in SetThreadPool(NULL) because their clients' Messages "
          "(being handled by a parked handler / deferred behind it / pending with every pool thread parked) cannot complete; every such call must return.  "
          "Submission order = per-client ticket taken under a harness lock held across SendMessageToThreadPool.  One delay placement per case "
          "(13 site x role pairs x yield/sleep/spin, round-robin over the case index; plus jitter-only, no-delay, random pair and triple cases).  "
          "Judged per case: every accepted Message of a client that was unregistered is handled exactly once; per client handler order == ticket "
          "order; handler intervals of one client never overlap (online CAS + offline on a global logical clock); running handlers and started "
          "pool threads <= pool size; at the return of SetThreadPool(NULL) handled == accepted and no handler of the client runs afterwards; "
          "~ThreadPool returns and nothing runs afterwards; hangs are proved by the driver (all waits untimed).  A case is non-trivial when "
          ">= 20 Messages were handled and at least one submission met a client whose handler was running (or came from a handler); "
          "distinct = distinct interleaving signatures (order in which threads passed the hooked sites)"),
    assumptions=['the IThreadPoolClient object itself is not thread-safe: calls on one client are serialised by the harness (submissions under the ticket lock; '
                 'while another thread is inside SetThreadPool(NULL) only the client\'s own handler goes on submitting); the pool is not destroyed while '
                 'other threads are inside its API; a pool SHUTDOWN (global flush) may overlap blocked unregistrations, but only ones that already passed the '
                 'unlocked read of IThreadPoolClient::_threadPool in SetThreadPool() (they passed MVH_POOL_UNREGISTER_BEFORE_WAIT), and the pool object is '
                 'destroyed only after those threads were joined',
                 'Messages still queued for clients that are registered when the pool is destroyed are dropped by design: for those clients the rule is '
                 '"a prefix of the ticket order, each at most once" (counted as unspecified_dropped_at_pool_destruction); the same holds for clients whose '
                 'unregistration was released by a pool shutdown',
                 'real-thread stress with delay bounding samples schedules, it does not enumerate them',
                 'g++ 12 TSan / ASan report what they claim to report; /proc/<pid>/task/*/syscall shows untimed waits (deadlock proof)'],
    legs=[
        Leg('regress', 'h_threadpool', 'tsan', opts={'mode': 'regress'}, quick=1, thorough=1, workers=1, min_cases=1),
        # Witness of a real finding of this harness (lock-order inversion ThreadPool::_poolLock <-> global muscle lock: the first thread start of a
        # process constructs a function-static ObjectPool under _poolLock; GlobalFlushAllCachedObjects() calls ThreadPool::Shutdown() under the global
        # lock).  On an affected tree this leg ends in a proved deadlock, key 'lockorder|deadlock'.  Repaired in /repo (F53, 8c847e1): the leg is a fixed witness.
        Leg('lockorder', 'h_threadpool', 'asan', opts={'mode': 'lockorder'}, quick=LOCKORDER_CASES, thorough=LOCKORDER_CASES, workers=1, min_cases=1),
        Leg('tsan', 'h_threadpool', 'tsan', opts={'mode': 'stress'}, quick=2000, thorough=100000, workers=16),
        Leg('asan', 'h_threadpool', 'asan', opts={'mode': 'stress'}, quick=2000, thorough=100000, workers=16, leaks=True),
    ],
    min_stats={'tsan': dict(_MIN), 'asan': dict(_MIN)},
)
