from driver import Leg

_MIN = {'cases_replayed': 300, 'acq_read': 5000, 'acq_write': 5000, 'acq_read_recursive': 1000, 'acq_write_recursive': 1000,
        'upgrade_calls': 1000, 'upgrades_hard_path': 100, 'upgrade_calls_failed': 50, 'failed_try': 300, 'failed_timed': 50, 'timed_failed_returned_past_deadline': 50,
        'ev_reader_parked': 500, 'ev_writer_parked': 500, 'ev_writer_timedout': 30, 'ev_reader_timedout': 10,
        'pw_reader_parked_while_writer_parked': 50, 'writer_fifo_checks': 50, 'reader_overlaps_seen': 300,
        'hold_until_waits': 20, 'downgrade_by_unlocking_write_first': 300, 'refused_unlocks_without_holding': 300,
        'hits_early_unlock': 1000, 'hits_after_wake': 1000, 'hits_upgrade_release': 100,
        'delays_early_unlock': 100, 'delays_after_wake': 100, 'delays_upgrade_release': 20,
        'cases_prefer_writers': 100, 'cases_prefer_readers': 100,
        # release of both modes in either order + rendezvous after the first release (seeded change C18-5)
        'both_held_read_released_first': 300, 'downgrade_keeping_read_depth_over_1': 100, 'both_held_read_released_first_write_depth_over_1': 100,
        'downgrades_with_parked_reader': 100, 'rendezvous_waits_after_downgrade': 100, 'readers_admitted_after_partial_release': 100,
        'rendezvous_waits_prefer_writers': 20, 'rendezvous_waits_prefer_readers': 20, 'rendezvous_with_several_parked_readers': 10,
        # F58 (fixed e4aa529): readers let in after every parked (timed) writer has left the table while other readers still execute
        'readers_admitted_after_parked_writer_timed_out': 30, 'plain_reader_waits_for_parked_readers': 20}
_MINR = {'readers_admitted_after_partial_release': 10, 'downgrade_by_unlocking_write_first': 10, 'both_held_read_released_first': 8, 'scenario_try_upgrade_behind_parked_writer': 3}

SPEC = dict(
    level='exploration',
    design_ref='DESIGN.md section 3, C18 (2.6 thread bench, 6 "Timed-acquisition deadlines", 7 F24)',
    rule=("one case = one fresh ReaderWriterMutex (preferWriters drawn per case), 2-4 real threads each running a random script of 15-235 "
          "balanced operations (LockReadOnly/LockReadWrite untimed, try, timed 100 us-20 ms and already-expired; recursion to depth 3 in both "
          "modes; read->write upgrade; downgrade; refused unlocks; 'hold until peer P's pending try/timed call has returned' with an untimed "
          "wait; after releasing its last write lock while keeping a read lock a thread waits, untimed, until every reader that was parked "
          "has left the waiting table (also done by plain readers at random moments) -- with writer preference the wait is abandoned only when a writer WITHOUT a deadline is parked; parked timed writers leave by their deadline and the readers must then be let in), one delay placement per case taken round-robin over {none, jitter, 3 delay sites x (any thread, thread 0..3)}; judged by "
          "(1) a harness-side holder record, (2) an offline replay of the parked/admitted/released/timed-out hook events (emitted under "
          "_stateMutex) merged with per-thread call markers, (3) completion of every script (otherwise the driver's proved-deadlock detector "
          "decides), (4) TSan in the tsan leg; a case is non-trivial when at least one thread was parked and both a read and a write "
          "acquisition succeeded; distinct = distinct (case, interleaving signature)"),
    assumptions=['the hook events of ReaderWriterMutex.cpp are emitted while _stateMutex is held, so their sequence numbers are the exact order of state transitions',
                 'a thread blocked in futex/pthread_cond_wait/pthread_join without a timeout, with no CPU use over 3 s by any thread, is deadlocked (driver, DESIGN.md 1.3)',
                 'overshoot of a deadline is only recorded (max_overshoot_us), never judged: a try/timed call that blocks on a holder becomes a proved deadlock through the hold-until-returned step',
                 'timed read->write upgrades are generated in the main legs but peers wait for their return only in the leg timed-upgrade-restore (open finding F24b)',
                 'after a write->read downgrade the parked readers must be admitted while the downgraded thread still reads, unless (preferWriters) a writer whose call has no deadline is or becomes parked; the waiting tables are followed online by a hook wrapper that runs under _stateMutex',
                 'writer barging past parked writers by a thread that never parked, and readers that called before the writer parked, are unspecified and only counted',
                 'g++ 12 TSan / ASan / UBSan report what they claim to report'],
    legs=[
        Leg('regress', 'h_rwmutex', 'asan', opts={'mode': 'regress'}, quick=1, thorough=1, workers=1, min_cases=1),
        Leg('regress-tsan', 'h_rwmutex', 'tsan', opts={'mode': 'regress'}, quick=1, thorough=1, workers=1, min_cases=1),
        Leg('asan', 'h_rwmutex', 'asan', opts={'mode': 'model'}, quick=900, thorough=40000, workers=16),
        Leg('tsan', 'h_rwmutex', 'tsan', opts={'mode': 'model'}, quick=1100, thorough=40000, workers=16),
        # the OPEN finding F24b: every proved deadlock here has key "timed-upgrade-restore|deadlock" -> KNOWN-FINDING; when it
        # does not reproduce (or once it is repaired) the cases simply complete
        Leg('timed-upgrade-restore', 'h_rwmutex', 'asan', opts={'mode': 'f24b'}, quick=6, thorough=24, workers=8, min_cases=0),
        # F58 (repaired in /repo): with preferWriters a reader that parked behind a parked writer was not woken when that writer timed out
        # while another reader still held; on an affected tree every case with k%4 != 3 ends as "reader-stranded-after-writer-timeout|deadlock".
        # Fixed witness now; the main legs also demand this admission since the repair (see the harness's rendezvous rules).
        Leg('reader-stranded-after-writer-timeout', 'h_rwmutex', 'asan', opts={'mode': 'stranded'}, quick=8, thorough=32, workers=4, min_cases=0),
    ],
    min_stats={'asan': _MIN, 'tsan': _MIN, 'regress': _MINR, 'regress-tsan': _MINR},
)
