from driver import Leg
SPEC = dict(
    level='exploration',
    design_ref='DESIGN.md section 3, C17',
    rule=("one case = one random history of 40-300 public String operations (about 170 operation kinds/forms: construct, assign, SetCstr/"
          "SetFromString with lengths, append/prepend/insert, operator+/-/<<, every Substring overload, char/string/table Replace and "
          "WithReplacements with count/start, Trimmed, PaddedBy, case operations, IndexOf/LastIndexOf/Contains/StartsWith/EndsWith with and "
          "without IgnoreCase and start offsets, the comparison family, Arg substitution chains, With/WithoutPrefix/Suffix, numeric suffix, "
          "GetNumInstancesOf, GetDistanceTo, Prealloc/ShrinkToFit/SwapContents/move, hash and checksum consistency) on 1-3 live Strings, each "
          "with a std::string model, audited after every operation (content, Cstr()[Length()]==0, Length()==strlen) and by a Flatten/Unflatten "
          "round trip plus rejection of the unterminated prefix every 10 operations; operand lengths concentrate on cap-2..cap+2 of the inline "
          "capacity (15) and its doubles; about 40% of the operands alias the subject (itself, a pointer into its buffer, a substring of itself) "
          "and the model uses a detached copy; bytes >= 0x80 and multi-byte UTF-8 sequences included.  A case is non-trivial when its history "
          "moved a String inline->heap and heap->inline at least once each and used an aliased operand; distinct = distinct (seed, case) histories"),
    assumptions=['std::string and the reference semantics written from the doc comments of String.h are the specification',
                 'left out of the exact comparison and counted as unspecified_*: searches/markers with an empty needle, LastIndexOf(str,fromIndex) where '
                 '"at or after fromIndex" (summary line) and "searching backwards from fromIndex" (parameter text) differ (either accepted), '
                 'overlapping instance counts, Arg outside %N tokens without leading zeros / values containing % or digits while several tokens '
                 'remain, ToMixedCase with digits or non-ASCII bytes, IndentedBy on multi-line or empty text, WithCharsEscaped when the escape '
                 'character already occurs, numeric suffixes of more than 9 digits, the count returned by Replace(c,c)',
                 'WithoutNumericSuffix("Joe-54") is "Joe-": the note in the doc comment, not its example, is the specification',
                 'the "C" locale: case mapping is ASCII only',
                 "UBSan 'bounds' reports for ShortStringData's _smallBuffer[15] (deliberate overlap with the length byte) are allow-listed by the driver",
                 'g++ 12 ASan/UBSan/LSan and valgrind memcheck report what they claim to report'],
    legs=[
        Leg('regress', 'h_string', 'asan', opts={'mode': 'regress'}, quick=1, thorough=1, workers=1, leaks=True, min_cases=1),
        Leg('model', 'h_string', 'asan', opts={'mode': 'model'}, quick=36000, thorough=1800000, workers=16, leaks=True),
        Leg('memcheck', 'h_string', 'plain', opts={'mode': 'model'}, quick=720, thorough=18000, workers=16, valgrind=True),
    ],
    min_stats={'regress': {'regress_checks': 1000},
               'model': {'transitions_inline_to_heap': 20000, 'transitions_heap_to_inline': 20000, 'cases_with_inline_to_heap': 10000,
                         'cases_with_heap_to_inline': 10000, 'alias_self': 50000, 'alias_own_pointer': 50000, 'alias_substring_of_self': 50000, 'near_affix_operands': 500, 'distances_below_a_given_maxResult': 1000,
                         'ops_ending_at_exactly_cap': 10000, 'ops_ending_at_cap_plus_1': 10000, 'flatten_audits': 100000,
                         'unterminated_rejected': 50000, 'table_replacements_made': 20000, 'arg_substitutions': 50000,
                         'arg_substitutions_with_longer_token_sharing_the_prefix': 1000, 'searches_found': 5000, 'cases_big': 100},
               'memcheck': {'transitions_inline_to_heap': 300, 'transitions_heap_to_inline': 300}},
)
