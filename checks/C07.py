from driver import Leg
SPEC = dict(
    level='exploration',
    design_ref='DESIGN.md section 3, C07 (and 2.5 the reflector bench, 1.3 verdict discipline)',
    rule=("hostile: one case = one fresh stepped ReflectServer with a witness, a subscribed slow client and two attackers (2 KB socket buffers, "
          "reading switched on/off) + one sequence of 50 injected Messages from a state-aware generator: (a) 17 recipes that establish the "
          "precondition of a handler branch from what exists in the server right now (results / tree replies queued 0,1,2,many on the sender itself, "
          "keys from queued and existing paths, filters from the payload fields, index nodes, overlapping subscriptions, long names x stacked "
          "wildcards, BATCH nested to 150, paths to 20000 segments, Messages and filters nested to 500), (b) mutation of recipe steps (9 kinds, "
          "dropped step, swapped sender), (c) a blind stream (whole PR_COMMAND range +- neighbours, every reserved field name with right/wrong "
          "type and count, aggressive pattern grammar, type-confused filter archives); 1 case in 6 runs with every client privileged. After every "
          "injected Message the witness pings: pong within 2000 server steps, RSS growth <= 256 MiB; crash / sanitizer report / > 20 CPU-s in one "
          "case / all threads blocked are decided by the driver.  A case is non-trivial when a non-reading client's server-side gateway queue "
          "reached depth >= 2 and at least one recipe completed.  regress: fixed witnesses F9 (jettison with key+filter on >= 4 queued results), "
          "F31 ((*)(*)(*)\\2\\3\\4b vs names of 100/300 characters, CPU-time bounded), guards (BATCH 99..500, paths 99..20000, nesting 500).  "
          "deepnest / regexbomb: dedicated legs for the open findings F6 / F10."),
    assumptions=['a hang is proved by the driver: more than 20 CPU-seconds in one case (normal cost of a case: 0.1 CPU-s), or every thread blocked untimed',
                 'constructs of the open finding F10 and its siblings are excluded from every leg except regexbomb and counted (unspecified_*): more than one bounded '
                 'repetition per pattern clause, bounds above 99, back-references in raw regexes (backtick clauses, OP_REGULAR_EXPRESSION_MATCH values), more than 400 '
                 "'*' in one clause (regcomp memory is quadratic in a run of nullable items)",
                 'Message nesting deeper than 500 (open finding F6) is generated only in the deepnest leg',
                 'the bench holds a reference to every session object, so a kicked client sees no EOF; detachment is read from the server; a witness kicked by a '
                 'privileged attacker is replaced and counted (unspecified_witness_kicked_by_privileged_client)',
                 'in the privileged cases (1 in 6) the attackers connect by TCP to a listening port whose factory is a FilterSessionFactory, so ban/require commands reach '
                 'the factory and new connections are matched against the hostile patterns; in the other cases sessions are attached with AddNewSession and only the refusal is exercised',
                 'RSS is the whole process (server + the harness clients, whose receive queues are emptied after every injected Message)',
                 'g++ 12 ASan/UBSan report what they claim to report'],
    wall_quick=3000,
    legs=[
        Leg('regress', 'h_hostile', 'asan', opts={'mode': 'regress'}, quick=1, thorough=1, workers=1, leaks=True, cpu_budget=20, stall_wall=900, min_cases=1),
        Leg('hostile', 'h_hostile', 'asan', opts={'mode': 'hostile', 'nmsg': 50}, quick=1280, thorough=32000, workers=16, leaks=True, cpu_budget=20, stall_wall=900),
        Leg('deepnest', 'h_hostile', 'asan', opts={'mode': 'deepnest'}, quick=2, thorough=2, workers=2, cpu_budget=20, stall_wall=900, min_cases=0),
        Leg('regexbomb', 'h_hostile', 'asan', opts={'mode': 'regexbomb'}, quick=5, thorough=5, workers=5, cpu_budget=20, stall_wall=900, min_cases=0),
    ],
    min_stats={'regress': {'regress_f9_results_jettisoned': 4, 'regress_f31_answered': 2, 'regress_guards_survived': 1, 'regress_frame_builder_checked': 1, 'regress_factory_reached': 1, 'pings_answered': 40},
               # lower bounds = about 60 % of the minimum seen over seeds 1-3 of the quick tier
               'hostile': {'max_slow_client_queue_depth': 2, 'cases_with_queue_depth_ge_2': 1000, 'pings_answered': 55000, 'cases_drained': 1100,
                           'cell_jettres_keyfilter_q1': 35, 'cell_jettres_keyfilter_q2': 14, 'cell_jettres_keyfilter_qmany': 93, 'jettres_with_filter_removed_queued_messages': 108,
                           'cell_jettres_key_q2': 4, 'cell_jettres_key_qmany': 62, 'cell_jettres_nokey_q2': 15, 'cell_jettres_nokey_qmany': 35,
                           'cell_jettres_key_with_queued_removal_notices': 40, 'jettres_key_from_queued_path': 500, 'jettres_removed_queued_messages': 200,
                           'cell_jetttrees_id_q1': 75, 'cell_jetttrees_id_q2': 40, 'cell_jetttrees_id_qmany': 60, 'cell_jetttrees_noid_q1': 12, 'cell_jetttrees_noid_q2': 2,
                           'cell_jetttrees_noid_qmany': 11, 'jetttrees_removed_queued_messages': 197,
                           'cell_supersede_subscriber_q1': 120, 'cell_supersede_subscriber_q2': 120, 'cell_supersede_subscriber_qmany': 1000,
                           'cell_subscribe_existing_path_refilter': 1000, 'cell_removeparams_removed_1': 350, 'cell_removeparams_removed_many': 350,
                           'reply_indexupdated': 2000, 'reply_datatrees': 1400, 'reply_accessdenied': 1400, 'reply_unimplemented': 1800, 'reply_dataitems_with_removals': 1000,
                           'reply_user_message_delivered': 2000, 'reply_pong_to_attacker': 250, 'blind_messages': 7000, 'filter_hostile': 2800, 'filter_deep_500': 500,
                           'max_batch_nesting': 150, 'max_message_nesting': 450, 'max_node_name_length': 10000, 'max_setdata_path_segments': 2000,
                           'pat_10k_clause': 500, 'pat_200_deep_path': 500, 'pat_long_alternation': 500, 'pat_huge_range': 500, 'pat_stacked': 2900,
                           'mutation_dropped_step': 1000, 'mutation_swapped_sender': 1000, 'mutation_kind_0': 400, 'mutation_kind_2': 400, 'mutation_kind_5': 400, 'mutation_kind_6': 400,
                           'recipe_results_jettison': 1000, 'recipe_trees_jettison': 650, 'recipe_supersede': 650, 'recipe_refilter': 300, 'recipe_params': 600,
                           'recipe_index': 700, 'recipe_removedata': 300, 'recipe_getdata': 300, 'recipe_route': 300, 'recipe_batch': 300, 'recipe_deeppath': 300,
                           'recipe_longnames': 650, 'recipe_privileged': 300, 'recipe_churn': 300, 'recipe_nested': 300, 'recipe_setdatatrees': 300, 'recipe_mix': 650,
                           'cases_with_privileged_clients': 110, 'tcp_clients_accepted_through_filter_factory': 250, 'probe_connections_after_ban_commands': 23}},
)
