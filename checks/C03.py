import os
from driver import Leg

# Defects this check found on the pinned tree, all repaired in /repo, each with a stable key and a fixed witness in the regress leg:
#   regress|raw|unbounded-recursion-per-chunk        RawDataMessageIOGateway::DoInputImplementation recursed once per delivered min-size chunk
#   regress|fanout|reuse-tag|zlib-dependent-stream   a Message tagged by OptimizeMessageForTransmissionToMultipleGateways() was sent with another
#   regress|fanout|reuse-tag|templating-format       gateway's state-dependent bytes (dependent zlib stream / templating format and template cache)
#   regress|tmpl|template-hash-collision             TemplatingMessageIOGateway used the template of a differently laid-out Message with the same TemplateHashCode64() (F60)


def _o(**kw):
    return kw


def _post(run):
    """the sweep leg claims exhaustiveness: every cut position of every gateway config must have been executed"""
    st = run.summaries.get('sweep', {}).get('stats', {})
    if not st:
        run.inconclusive.append('sweep leg produced no statistics'); return
    missing = []
    for k, need in sorted(st.items()):
        if k.startswith('max_sweepneed_'):
            cfg = k[len('max_sweepneed_'):]
            if st.get('sweepcut_' + cfg, 0) != need: missing.append('%s single cuts %d of %d' % (cfg, st.get('sweepcut_' + cfg, 0), need))
        if run.tier != 'quick' and k.startswith('max_sweeppairneed_'):
            cfg = k[len('max_sweeppairneed_'):]
            if st.get('sweeppair_' + cfg, 0) != need: missing.append('%s cut pairs %d of %d' % (cfg, st.get('sweeppair_' + cfg, 0), need))
    if len([k for k in st if k.startswith('max_sweepneed_')]) < len(_CFGS): missing.append('fewer than %d gateway configs calibrated' % len(_CFGS))
    if missing:
        run.inconclusive.append('sweep not exhaustive (raise the case count of leg sweep in checks/C03.py: single total %s, with pairs %s): %s'
                                % (st.get('max_sweep_single_total'), st.get('max_sweep_total'), '; '.join(missing[:6])))


def _extra(run):
    st = run.summaries.get('sweep', {}).get('stats', {})
    return dict(exhaustive_single_cut_positions={k[len('sweepcut_'):]: v for k, v in st.items() if k.startswith('sweepcut_')},
                exhaustive_cut_pairs={k[len('sweeppair_'):]: v for k, v in st.items() if k.startswith('sweeppair_')},
                exhaustive_single_cut_total=st.get('max_sweep_single_total'), exhaustive_total_with_pairs=st.get('max_sweep_total'))


_CFGS = ['msg_enc0', 'msg_zlib1', 'msg_zlib2', 'msg_zlib3', 'msg_zlib4', 'msg_zlib5', 'msg_zlib6', 'msg_zlib7', 'msg_zlib8', 'msg_zlib9', 'msg_switch', 'counted',
         'tmpl_200', 'tmpl_200_z', 'tmpl_2k', 'tmpl_2k_z', 'tmpl_1m', 'tmpl_1m_z', 'text', 'text_foreign', 'raw_min0', 'raw_min1', 'raw_min7', 'raw_min4096', 'slip',
         'ws_hs_slave', 'ws_hs_builtin', 'ws_nohs_slave', 'ws_nohs_builtin', 'ws_foreign', 'cgw_cpp2mini', 'cgw_mini2cpp', 'cgw_cpp2micro', 'cgw_micro2cpp',
         'fanout', 'fanout2', 'raw_counted', 'text_flush', 'text_telnet']
_pipe_min = {'runs_' + c: 150 for c in _CFGS}
_pipe_min.update({'zero_byte_reads': 50000, 'zero_byte_writes': 5000, 'rb_m8_hdr1': 1000, 'rb_m8_hdr2': 1000, 'rb_m8_hdr3': 1000, 'rb_m8_hdr4': 1000, 'rb_m8_hdr5': 1000,
                  'rb_m8_hdr6': 1000, 'rb_m8_hdr7': 1000, 'rb_m8_body_first': 2000, 'rb_m8_body_last': 1000, 'rb_m8_at2047': 30, 'rb_m8_at2048': 30, 'rb_m8_at2049': 30,
                  'frames_of_2046_to_2050_bytes': 100, 'frames_beyond_scratch_buffer': 200, 'rb_line_between_cr_lf': 100, 'rb_slip_after_esc': 500, 'rb_chunk_minus1': 1000,
                  'rb_ws_http_mid': 5000, 'rb_ws_hdr1': 300, 'rb_ws_hdr3': 200, 'rb_ws_hdr5': 100, 'rb_ws_hdr9': 3, 'rb_ws_payload_first': 500, 'rb_ws_payload_last': 200,
                  'encoding_switches': 100, 'tmpl_cases_with_eviction_and_recreation': 50, 'tmpl_frames_payload_only': 1000, 'wsforeign_fragments': 300,
                  # routes added after the coverage audit: reuse tag / several senders, counted raw, end of stream + FlushInput, telnet filter, Reset()-then-reuse
                  'fanout_tagged_items_to_2plus_lanes': 800, 'fanout_untagged_items_to_2plus_lanes': 200, 'fanout_pairs_default_default': 33, 'fanout_pairs_dependent_same_zlib': 80,
                  'fanout_pairs_independent_same_zlib': 10, 'fanout_pairs_independent_dependent_same_zlib': 50, 'fanout_pairs_templating_other': 150, 'fanout_pairs_templating_templating': 20,
                  'countedraw_checks': 50000, 'countedraw_checks_with_2plus_queued': 1000, 'text_end_of_stream_seen': 150, 'text_unterminated_last_lines': 80,
                  'telnet_commands': 1500, 'telnet_subnegotiations': 700, 'telnet_high_bit_bytes': 600, 'text_cases_with_other_eol_string': 21,
                  'resets_midstream': 250, 'resets_at_quiescence': 400, 'resets_msg': 150, 'resets_tmpl': 100, 'resets_counted': 10, 'resets_text': 4, 'resets_textforeign': 50,
                  'resets_raw': 80, 'resets_slip': 10, 'resets_ws': 60, 'resets_wsforeign': 4, 'resets_fanout': 40,
                  # templating: layouts with EQUAL TemplateHashCode64() (computed in the harness) sent within one sequence, all seven recipes
                  'template_hash_collisions_sent': 300, 'template_hash_collision_groups': 200, 'collide_recipe0_groups': 30, 'collide_recipe1_groups': 30, 'collide_recipe2_groups': 30,
                  'collide_recipe3_groups': 30, 'collide_recipe4_groups': 30, 'collide_recipe5_groups': 20, 'collide_recipe6_groups': 20})

SPEC = dict(
    level='exploration',
    design_ref='DESIGN.md section 3, C03 (and 2.4 scripted transports: harness/chopio.h)',
    rule=("pipe: one case = (gateway config, Message sequence, schedule): 39 configs (MessageIOGateway in each of the 10 encodings, encoding switched mid-stream, "
          "CountedMessageIOGateway, TemplatingMessageIOGateway LRU 200 B / 2 KiB / 1 MiB x {plain, zlib} with repeating / alternating / cycling / evicting shapes and groups of layouts with EQUAL TemplateHashCode64() (7 recipes), "
          "PlainText muscle->muscle and foreign CR / LF / CRLF text, RawData min-chunk 0/1/7/4096, SLIP dense in END/ESC, WebSocket client<->server {handshake, none} x "
          "{slave MessageIOGateway, built-in text/binary} with payloads around 125/126/65535/65536, a foreign RFC 6455 peer with fragmented masked frames, C Mini/Micro "
          "gateways <-> C++ in four directions; ONE MessageRef, tagged by OptimizeMessageForTransmissionToMultipleGateways() or not, queued on 2-4 sender gateways "
          "(plain / counted / templating / independent-deflate subclass, encodings equal or different) each with its own receiver and pipe, the Message re-flattened afterwards; "
          "CountedRawDataMessageIOGateway with its byte counter audited at every step; foreign text with an unterminated last line and end of stream (FlushInput); "
          "TelnetPlainTextMessageIOGateway with IAC commands and sub-negotiations split by read boundaries); in a quarter of the cases both ends are Reset() once, in "
          "mid-stream or at quiescence (what arrived so far must be a prefix of what was sent), the bytes in flight are discarded and a second sequence must arrive exactly; "
          "every sequence runs under 3 schedules: S.DoOutput(maxBytes) / R.DoInput(maxBytes) / queue-next interleaved at random, "
          "maxBytes from {1,2,7,8,9,2047,2048,2049,NO_LIMIT,random}, every Read/Write of the in-memory pipe transferring 0 (would-block), 1, a few, a boundary-seeking "
          "amount (frame end, header end, each header byte, last body byte, frame+2047/2048/2049, each +-1), a uniform amount or everything, until a forced probe round "
          "moves no byte.  Oracle: binary gateways deliver the queued Messages, in order, compared by flattened bytes; text: concatenated list of lines; raw: "
          "concatenated bytes (chunks within [min,max], tail < min stays buffered); SLIP: list of non-empty chunks; WebSocket without slave: sequence of items captured "
          "at queue time; both ends finish without error, HasBytesToOutput()==false, pipes drained.  A case is non-trivial when something was delivered and at least "
          "one read boundary fell strictly inside a frame; distinct = distinct (config, sequence, segmentation signature).  sweep: one fixed sequence per config, one "
          "case per single cut position (one read boundary, and one write boundary, at every byte offset of every pipe: EXHAUSTIVE, counts in "
          "coverage.exhaustive_single_cut_positions), thorough tier adds every pair of read cuts of a two-item sequence (pipes <= 400 bytes).  memcheck: short pipe "
          "cases of the plain build under valgrind (uninitialised reads are invisible to ASan/UBSan)"),
    assumptions=['a transport may return any count 0..available from Read and accept any count 0..offered in Write, in any order; 0 means "not now"',
                 'flatten/unflatten identity of Messages is C01\'s; Messages here carry no pointer/tag fields; C gateways get the common codec repertoire, pre-validated through MiniMessage',
                 'text lines contain no NUL/CR/LF; WebSocket text items are non-empty and free of CR/LF (the receiver tokenises on them); zero-length raw chunks (AddData() rejects them, FindData() cannot return them) are not generated unless --opt zerochunks=1',
                 'a foreign WebSocket peer never starts a fragmented message with an empty fragment and never interleaves control frames with fragments',
                 'RawDataMessageIOGateway::DoOutputImplementation recurses once per chunk / partial write of the LOCAL sender\'s own Message: sender Messages hold <= 3 chunks and a byte-by-byte dribbling transport gets <= 3000 bytes per DoOutput call (counted unspecified_sender_chunks_capped)',
                 'UBSan alignment reports in MiniMessageGateway GetNextPointer/SetNextPointer are allow-listed (DESIGN.md 2.1)'],
    legs=[
        Leg('regress', 'h_gwpipe', 'asan', opts=_o(mode='regress'), quick=1, thorough=1, workers=1, leaks=True, min_cases=1),
        Leg('pipe', 'h_gwpipe', 'asan', opts={'mode': 'pipe'}, quick=len(_CFGS) * 60 * 3, thorough=len(_CFGS) * 3000 * 3, workers=16, leaks=True),
        Leg('sweep', 'h_gwpipe', 'asan', opts={'mode': 'sweep'}, quick=255000, thorough=880000, workers=16, leaks=True),
        Leg('memcheck', 'h_gwpipe', 'plain', opts={'mode': 'pipe', 'short': '1'}, quick=len(_CFGS) * 3 * 4, thorough=len(_CFGS) * 3 * 80, workers=16, valgrind=True),
    ],
    min_stats={'pipe': _pipe_min, 'sweep': {'sweep_read_cut_cases': 90000, 'sweep_write_cut_cases': 90000, 'cut_m8_hdr3': 50, 'cut_m8_at2048': 10, 'cut_line_between_cr_lf': 1, 'cut_slip_after_esc': 1, 'cut_ws_hdr1': 10, 'cut_ws_http_mid': 100},
               'regress': {'regress_replayed_cases': 70, 'regress_zero_byte_reads': 4, 'regress_raw_burst_chunks': 100000, 'regress_reuse_tag_lanes_ok': 5, 'regress_telnet_cut_positions': 20, 'regress_template_collision_pairs': 2, 'regress_template_collision_recipes': 7}},
    post=_post, extra_coverage=_extra,
)
