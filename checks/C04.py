from driver import Leg
SPEC = dict(
    level='exploration',
    design_ref='DESIGN.md section 3, C04 (and 2.5 the reflector bench)',
    rule=("one case = one random command history on a fresh ReflectServer stepped single-threaded (ServerProcessLoop(0)); 2-6 concurrent sessions "
          "(real MessageIOGateways over socketpairs, 40% with 2 KB socket buffers, joining/leaving/pausing their reading at any point) issue 60 "
          "(leg mirror_long: 1000) top-level commands: SETDATA (1-8 fields, nested paths from a 9-name alphabet + metacharacter names, overwrite, 1/8 of the fields with 2-3 values applied in order, flags "
          "dont-create/dont-overwrite/supersede/add-to-index), REMOVEDATA (literal, wildcard, multi-level, with filter), SETPARAMETERS with 1-2 "
          "SUBSCRIBE: entries (literal / wildcard / absolute paths with host and session clauses, every documented clause form generated as "
          "refwild AST, 45% with a content filter, 35% re-subscribing an existing path with {same, different, added, removed} filter, 35% of those with PR_NAME_SUBSCRIBE_QUIETLY (which only disables the initial send of NEW subscriptions: enter/leave notices of a filter change stay owed, nothing is tainted; a dedicated operation does it with an exact tree view and counts nodes on all four sides selected-before x selected-after), !MxUp 1..50, !Self, !Enc), "
          "REMOVEPARAMETERS (literal and wildcard keys), GETDATA (refresh of an own subscription; one-shot queries bracketed by pings), "
          "INSERTORDEREDDATA / REORDERDATA (child names read from index updates), BATCH nesting to depth 3, bursts of 8-35 padded sets with the "
          "supersede flag while readers do not read, SETDATATREES (asserted unimplemented); 10% of histories add quiet set / quiet remove / quiet "
          "subscribe / !Dsub (asserted silent, affected (client,path) pairs tainted until the client resynchronises). After ~1/3 of the commands "
          "and at the end the bench settles and for every reading client: mirror == {(p,payload) : p not own (or !Self), a subscription matches p "
          "by refwild.h and its filter passes by the harness's reference evaluator}, tree read by an observer's GETDATA (cross-checked with the "
          "in-process tree), plus subscribers(node)[s] == number of subscription strings of s matching node for all nodes. A history is "
          "non-trivial when >= 5 comparisons had a non-empty expected set and some node lay under overlapping subscriptions one of which is "
          "filtered. regress = fixed witnesses (F13, same-size overwrite, set-then-remove flush, unsubscribe refcount, !MxUp boundary, supersede "
          "on a slow reader, SETDATATREES, quiet set, reflect-to-self, departure) and the documentation examples of StorageReflectConstants.h."),
    assumptions=['the observer client (reflect-to-self, GETDATA /*, /*/*, ... 8 levels) shows the server tree; it is compared with the in-process tree at every quiescent point',
                 'harness/refwild.h (documented wildcard syntax) and the RF evaluator inside h_mirror.cpp (Int32/String/ValueExists/WhatCode/And/Or/Nand/Nor/Xor, written from the class documentation) are the independent references; muscle matchers never decide an expectation',
                 'the mirror client performs the client half of the protocol: no unsubscribe notice exists, so it prunes locally (path AND filter) when the pong behind REMOVEPARAMETERS arrives; a resynchronisation clears the mirror at a pong and restates all subscriptions',
                 'SUBSCRIBE:a and SUBSCRIBE:/*/*/a are one subscription: a client never holds two names with one normal form',
                 'subscription filters are content filters (structure-dependent filters stay out, see childcount probe); numeric-range clauses are used only at session level where every name is all-digit',
                 'paths under a client\'s own session root are left out on both sides unless reflect-to-self is set',
                 'session ids are process-global: the harness burns ids up to 1000000 at start so that every case sees 7-digit ids and id-dependent clauses are built relative to the ids of the case (replay of a single case is exact)',
                 'g++ 12 ASan/UBSan/LSan and valgrind memcheck report what they claim to report'],
    legs=[
        Leg('regress', 'h_mirror', 'asan', opts={'mode': 'regress'}, quick=1, thorough=1, workers=1, leaks=True, min_cases=1),
        Leg('mirror', 'h_mirror', 'asan', opts={'mode': 'mirror'}, quick=4800, thorough=120000, workers=16, leaks=True),
        Leg('mirror_long', 'h_mirror', 'asan', opts={'mode': 'mirror', 'cmds': '1000'}, quick=32, thorough=800, workers=16, leaks=True),
        Leg('memcheck', 'h_mirror', 'plain', opts={'mode': 'mirror'}, quick=48, thorough=960, workers=16, valgrind=True),
    ],
    min_stats={'regress': {'selftest_oracle_fired': 3, 'quiescent_points': 35, 'mirror_comparisons': 60},
               'mirror': {'commands': 250000, 'quiescent_points': 90000, 'mirror_comparisons': 200000, 'mirror_entries_compared': 400000,
                          'subscriber_table_checks': 2000000, 'histories_nontrivial': 3000,
                          'cmd|resubscribe_with_other_filter_while_overlapping': 3000, 'cmd|remove_with_filter': 8000, 'cmd|removeparams_wildcard': 5000,
                          'cmd|batch_nested': 20000, 'cmd|burst_supersede': 3000, 'cmd|insertordered': 10000, 'cmd|reorder': 5000,
                          'cmd|set_field_with_several_values': 5000, 'cmd|leave': 4000, 'cmd|join_slow': 4000, 'cmd|setdatatrees': 1000, 'cmd|getdata_query': 3000,
                          'obs_overwrites_same_size': 3000, 'obs_node_left_match_set_while_path_still_subscribed': 3000,
                          'obs_existing_node_entered_match_set': 20000, 'obs_nodes_under_overlapping_subscriptions_with_filter': 100000,
                          'obs_paused_reader_with_2plus_queued_messages': 5000, 'mirror_comparisons_with_small_max_update_items': 15000,
                          'mirror_comparisons_reflect_to_self': 8000, 'quiet_operations_seen_silent': 3000,
                          'quiet_filter_changes': 2500, 'quiet_filter_changes_with_nodes_entering_the_match_set': 250, 'quiet_filter_changes_with_nodes_entering_the_mirror': 200,
                          'quiet_filter_changes_with_nodes_leaving_the_mirror': 500, 'quiet_filter_changes_with_nodes_on_all_four_sides': 10, 'cmd|resubscribe_quietly': 3000,
                          'resub|same|quiet': 800, 'resub|different|quiet': 800, 'resub|added|quiet': 800, 'resub|removed|quiet': 800,
                          'resub|same|loud': 800, 'resub|different|loud': 800, 'resub|added|loud': 800, 'resub|removed|loud': 800,
                          'cell|resubscribe|f1|w1|o1': 1500, 'cell|set|f1|w1|o1': 8000, 'cell|remove|f1|w1|o1': 1500, 'cell|subscribe|f1|w0|o1': 300},
               'mirror_long': {'commands': 30000, 'mirror_comparisons': 25000},
               'memcheck': {'mirror_comparisons': 1500}},
)
