from driver import Leg

# One leg per parser entry-point family (harness/h_parse.cpp).  A case = ONE input handed to ONE entry point.
# Cases [0,S) of a leg are the exhaustive sweeps over its first sweepT / sweepW valid encodings (every prefix; every
# length/count/type/size word x 27 boundary values, type words additionally x 18 type codes); the rest are the five
# input families on fresh encodings (1 valid : 10 truncation : 20 single word : 8 structure-aware : 11 random).
def _leg(name, quick, sweepT=40, sweepW=10, workers=16, **kw):
    return Leg(name, 'h_parse', 'asan', opts={'mode': name, 'sweepT': sweepT, 'sweepW': sweepW, 'sweepCap': quick // 2}, quick=quick, thorough=quick * 40,
               workers=workers, cpu_budget=10, per_worker_min=1500, **kw)

def _sweep(name, mode, cases, sweepT, sweepW):   # thorough only: all prefixes / all words of many more encodings
    return Leg(name, 'h_parse', 'asan', opts={'mode': mode, 'sweepT': sweepT, 'sweepW': sweepW}, quick=0, thorough=cases, workers=16, cpu_budget=10)

_gw_min = {'family_valid': 20, 'family_truncation': 500, 'family_word': 500, 'family_structure': 100, 'family_random': 200, 'post_reset_delivered': 1000}

SPEC = dict(
    level='exploration',
    design_ref='DESIGN.md section 3, C02; sections 2.2-2.4; section 7 rows F1-F7',
    rule=("one case = one byte string (or packet list) handed to one parser entry point: Message::Unflatten / UnflattenFromBytes / GetMessageFromPool(bytes), "
          "Message::TemplatedUnflatten, MMUnflattenMessage, UMInitializeWithExistingData + the complete UM* read API, and the direct entry points of ZLibCodec / ZLibUtilityFunctions (Inflate x2, GetInflatedSize, InflateByteBuffer, InflateMessage, ReadAndInflateAndWrite x2 through a segmenting DataIO with partial writes), and the input path of MessageIOGateway "
          "(default / zlib / counted), TemplatingMessageIOGateway, PlainText / Telnet, RawData (4 chunk modes), SLIPFramed, WebSocket (server / client x slave x handshake), "
          "PacketTunnel, MiniPacketTunnel (slave, misc-data, zlib, three MTU classes), MGDoInput / UGDoInput, all in random segmentation, then Reset() and a valid stream. "
          "Inputs: valid encodings produced by the library itself from msggen Messages, every prefix of the sweep encodings, every length/count/type/size word of the sweep "
          "encodings replaced by 0,1,2,3,4,v-1,v+1,v+4,rest-1,rest,rest+1,2^16,2^29,2^30,2^31-1,2^31,v|2^31,2v,2^32-8..2^32-1 (type words also by every other type code), "
          "and on further encodings sampled truncations / single words / structure-aware mutations (duplicate, drop, swap, splice, nest <= 500, foreign body) / random byte and bit "
          "mutations.  Non-trivial = the input is not a valid encoding; distinct = distinct input bytes per entry point"),
    assumptions=['g++ 12 ASan/UBSan and valgrind memcheck report what they claim to report; every input buffer is an exact-size heap block so a one-byte over-read is seen',
                 'allocation bound for the four Message parsers: max(peak live delta, largest granted request, largest refused request) <= 64*N + 1 MiB, measured with the sanitizer malloc hooks '
                 '(refused requests are read back from the worker\'s stderr: allocator_may_return_null=1:max_allocation_size_mb=256); linear time: thread CPU <= 50 us*N + 50 ms',
                 'gateways: every other case runs with SetMaxIncomingMessageSize(1 MiB) where the class offers it (MessageIOGateway family, PacketTunnelIOGateway and slave gateways); there a single '
                 'request above 1 MiB + 64 KiB is a violation; without the limit it is only counted (giant_request_without_limit); WebSocket is held to its own 10 MiB frame cap',
                 'a zlib body may inflate to more than SetMaxIncomingMessageSize() allows (the limit is on received bytes) but, since F57, never beyond 1100 x its length: only a declared size within that ratio is excused (unspecified_zlib_inflated_size_within_1100x_but_above_limit), larger ones are judged',
                 'the C gateways have no Reset(): a fresh gateway is used; MGDoInput allocates what the header declares and offers no limit (counted only)',
                 'fidelity of what an ACCEPTED input means (valid C++ encodings rejected by the C codecs, templated round trip) is the subject of C01/C03/C08 and only counted here',
                 'zcodec: allocation <= 1100*N + 1 MiB (deflate expands at most 1032:1); after any outcome a following INDEPENDENT buffer must inflate correctly, dependent buffers are promised nothing after an error or a gap; '
                 'the stream form (ReadAndInflateAndWrite) on the 2nd.. buffer of a dependent sequence is unspecified (it does not consume the tail of the previous buffer) and only counted',
                 'nesting deeper than 500 is generated only by leg deepnest (open finding F6)',
                 'the libFuzzer engine of the design (clang cov flavour) is not built by bin/vbuild and is not part of this check'],
    legs=[
        Leg('regress', 'h_parse', 'asan', opts={'mode': 'regress'}, quick=1, thorough=1, workers=1, min_cases=1, cpu_budget=10),
        _leg('msg', 60000), _leg('tmsg', 25000), _leg('mini', 25000), _leg('micro', 25000),
        _leg('gw', 30000), _leg('tgw', 15000, sweepT=12, sweepW=3), _leg('text', 6000, sweepT=12, sweepW=0, workers=4), _leg('raw', 8000, sweepT=12, sweepW=0, workers=4),
        _leg('slip', 6000, sweepT=12, sweepW=0, workers=4), _leg('ws', 20000, sweepT=20, sweepW=5), _leg('tunnel', 12000, sweepT=8, sweepW=2, workers=8),
        _leg('minitunnel', 8000, sweepT=8, sweepW=2, workers=4), _leg('cgw', 10000, sweepT=12, sweepW=3, workers=6),
        _leg('zcodec', 24000, sweepT=24, sweepW=6, workers=8),
        Leg('deepnest', 'h_parse', 'asan', opts={'mode': 'deepnest'}, quick=3, thorough=3, workers=1, min_cases=1, cpu_budget=10),
        Leg('memcheck', 'h_parse', 'plain', opts={'mode': 'parsers'}, quick=1750, thorough=70000, workers=16, valgrind=True, cpu_budget=10),
        _sweep('msg_sweep', 'msg', 700000, 2000, 300), _sweep('tmsg_sweep', 'tmsg', 500000, 2000, 300), _sweep('mini_sweep', 'mini', 700000, 2000, 300),
        _sweep('micro_sweep', 'micro', 700000, 2000, 300), _sweep('gw_sweep', 'gw', 900000, 1500, 300), _sweep('tgw_sweep', 'tgw', 900000, 1000, 200),
        _sweep('ws_sweep', 'ws', 600000, 1500, 300), _sweep('tunnel_sweep', 'tunnel', 900000, 1000, 200), _sweep('minitunnel_sweep', 'minitunnel', 600000, 1000, 200),
        _sweep('cgw_sweep', 'cgw', 700000, 1500, 300), _sweep('text_sweep', 'text', 300000, 2000, 0), _sweep('raw_sweep', 'raw', 450000, 2000, 0), _sweep('slip_sweep', 'slip', 520000, 2000, 0), _sweep('zcodec_sweep', 'zcodec', 1000000, 1500, 300),
    ],
    min_stats={
        'regress': {'regress_witnesses': 14, 'regress_post_failure_walks': 300, 'regress_F5_rejected': 1000, 'regress_micro_walks': 500},
        'msg': {'cases_msg': 50000, 'post_failure_object_walks_msg': 20000, 'accepted_msg': 5000, 'rejected_msg': 20000, 'sweep_truncations': 3000, 'sweep_word_values': 5000, 'truncations_inside_the_first_12_bytes': 300,
                'family_valid': 500, 'family_structure': 3000, 'family_random': 5000, 'role_nfields': 300, 'role_namelen': 1000, 'role_type': 2000, 'role_paylen': 1000, 'role_count': 500,
                'role_itemlen': 500, 'role_subsize': 200, 'role_nest': 300, 'reuse_after_failure': 15000, 'reuse_after_success': 500, 'max_items_walked': 300, 'max_alloc_ratio_x100_valid_msg': 1},
        'tmsg': {'cases_tmsg': 20000, 'post_failure_object_walks_tmsg': 3000, 'accepted_tmsg': 3000, 'rejected_tmsg': 3000, 'sweep_truncations': 1000, 'sweep_word_values': 3000, 'role_tplword': 5000, 'reuse_after_failure': 3000},
        'mini': {'cases_mini': 20000, 'post_failure_object_walks_mini': 8000, 'accepted_mini': 2000, 'rejected_mini': 8000, 'sweep_truncations': 3000, 'sweep_word_values': 5000, 'role_count': 200, 'role_itemlen': 200, 'role_subsize': 100, 'reuse_after_failure': 5000},
        'micro': {'cases_micro': 20000, 'accepted_micro': 10000, 'rejected_micro': 500, 'sweep_truncations': 3000, 'sweep_word_values': 5000, 'role_namelen': 500, 'role_paylen': 500, 'role_count': 200,
                  'role_itemlen': 200, 'role_subsize': 100, 'max_micro_api_calls': 500},
        'gw': dict(_gw_min, **{'cases_gw': 25000, 'accepted_gw': 3000, 'rejected_gw': 5000, 'role_hdr-size': 300, 'role_hdr-enc': 300, 'role_zlib-rawsize': 50, 'role_zlib-magic': 50,
                               'giant_request_without_limit': 20, 'refused_requests_seen': 20, 'sweep_truncations': 3000}),
        'tgw': dict(_gw_min, **{'cases_tgw': 12000, 'role_hdr-size': 200, 'role_hdr-enc': 200, 'role_tpl-payload': 100, 'role_tpl-id': 50, 'delivered_tgw': 5000}),
        'text': {'cases_text': 5000, 'post_reset_delivered': 3000, 'family_structure': 100, 'family_random': 200, 'sweep_truncations': 500},
        'raw': {'cases_raw': 7000, 'post_reset_delivered': 5000, 'family_structure': 100, 'family_random': 200, 'sweep_truncations': 500},
        'slip': {'cases_slip': 5000, 'post_reset_delivered': 3000, 'family_structure': 100, 'family_random': 200, 'sweep_truncations': 300},
        'ws': {'cases_ws': 17000, 'role_ws-frame': 1500, 'role_hdr-size': 50, 'ws_handshake_reply_mutated': 100, 'accepted_ws': 3000, 'rejected_ws': 1000, 'post_reset_delivered': 3000, 'sweep_word_values': 1000},
        'tunnel': dict(_gw_min, **{'cases_tunnel': 10000, 'role_tun-offset': 100, 'role_tun-chunk': 100, 'role_tun-total': 100, 'role_tun-msgid': 100, 'giant_request_without_limit': 10}),
        'minitunnel': {'cases_minitunnel': 7000, 'role_mtun-chunksize': 100, 'role_mtun-clevel-id': 50, 'role_zlib-rawsize': 20, 'post_reset_delivered': 3000, 'family_structure': 100},
        'cgw': {'cases_cgw': 8000, 'accepted_cgw': 2000, 'rejected_cgw': 1500, 'delivered_cgw': 3000, 'role_hdr-size': 200, 'cgw_valid_all_delivered': 30},
        'zcodec': {'cases_zcodec': 20000, 'api_Inflate_ref': 2000, 'api_Inflate_buf': 2000, 'api_InflateByteBuffer': 1500, 'api_InflateMessage': 1500, 'api_ReadAndInflateAndWrite': 2000,
                   'api_util_ReadAndInflateAndWrite': 1500, 'accepted_zcodec_Inflate_ref': 300, 'accepted_zcodec_Inflate_buf': 300, 'accepted_zcodec_InflateByteBuffer': 150, 'accepted_zcodec_InflateMessage': 30,
                   'accepted_zcodec_ReadAndInflateAndWrite': 300, 'accepted_zcodec_util_ReadAndInflateAndWrite': 150, 'rejected_zcodec_Inflate_ref': 1000, 'rejected_zcodec_ReadAndInflateAndWrite': 1000,
                   'role_zlib-magic': 200, 'role_zlib-rawsize': 200, 'role_zdata-byte': 2000, 'sweep_truncations': 2000, 'sweep_word_values': 1000, 'family_valid': 100, 'family_structure': 1000,
                   'family_random': 1500, 'post_failure_independent_inflates': 15000, 'max_zcodec_output_bytes': 300000},
        'memcheck': {'cases_zcodec': 300, 'post_failure_object_walks_msg': 100, 'post_failure_object_walks_tmsg': 50, 'post_failure_object_walks_mini': 100, 'cases_msg': 300, 'cases_tmsg': 300, 'cases_mini': 300, 'cases_micro': 300},
    },
)
