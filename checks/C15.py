from driver import Leg
# "[^^..]" (complement class whose first member is '^') was mis-tracked by the bracket scanner of /repo commit d505481 and repaired in
# 2e8fd8e; it is a normal part of the generated classes and of the regress witnesses.  (--opt pending_caretfirst=1 would keep the construct
# out and leave its witnesses unjudged; violations in patterns containing "[^^" carry the stable keys *|class-negated-caret-first.)
PENDING = {}
def O(**kw): d = dict(PENDING); d.update(kw); return d
SPEC = dict(
    level='exploration',
    design_ref='DESIGN.md section 3, C15',
    rule=("exact: one case = 4-8 judged patterns; every judged pattern is installed on a PRNG-chosen object: fresh (20%), the object of the previous "
          "judged pattern, a fresh object that first held 1-3 other patterns (negated / plain, numeric range / wildcard / literal, isSimple=false "
          "regex, rejected by regcomp, SetNegate(true), Reset() in between), or an object the pool just recycled; installed by SetPattern, "
          "operator=(const&), operator=(&&) or GetStringMatcherFromPool(pattern); matched directly, through a copy or a swapped-in object; "
          "afterwards its accessors must equal those of a fresh object and its decisions the reference's; a pattern is generated as an AST of the documented simple syntax (literal, *, ?, [class: alphanumerics, ranges, metacharacters ? * , . + | ( ) { } $ = < > ~ ` ' \" # : as plain members, ']' first, '-' first or last, '^' and '!' not first, [^..] complement], (a|b|) groups "
          "nested <= 3, top-level comma list, leading ~, whole-pattern <a-b,c-,-d,e> ranges) over a 46-character alphabet that contains every "
          "metacharacter, printed with the minimal documented escaping or (half of the patterns) with a backslash before arbitrary literals, and "
          "matched against 12 subjects: 5 sampled from the pattern, 3 single-edit neighbours, 4 random (ranges: boundary values +-1, leading zeros, "
          "digits + junk, sign + digits, white space before/after digits, letters, empty); oracle = harness/refwild.h, a backtracking matcher over the AST.  escape: one case = 6 byte strings (1..255, every "
          "metacharacter in first and later positions, strings that look like patterns) with all deletions/substitutions/insertions/prefixes/"
          "extensions/the escaped text as neighbours.  unique: one case = 6 arbitrary, mostly ill-formed patterns (soups, escaped text with one edit, "
          "well-formed patterns with one edit) with a candidate set of ~50 strings each.  path: one PathMatcher (1-3 path patterns of 1-3 clauses; half of them after an earlier life with other "
          "patterns that were removed or cleared, entries put twice / put and removed) and one SegmentedStringMatcher (fresh, or after 1-3 other "
          "patterns incl. negated, other separators, regex form, rejected, SetNegate, Clear, or pool-recycled; installed by SetPattern, operator= or "
          "GetSegmentedStringMatcherFromPool(pattern)) against 8 paths; reference = split on '/', every clause matches its segment.  A case is non-trivial when it "
          "contained wildcard constructs and produced both expected matches and expected non-matches (exact, path), a string that needed escaping "
          "(escape), a pattern reported unique (unique); distinct = distinct pattern/string sets"),
    assumptions=['harness/refwild.h (written from the doc comment of StringMatcher::SetPattern and the statement of C15) is the specification; its parser is '
                 'checked against its printer and its matcher on every generated pattern (disagreement = HARNESS-ABORT, not a verdict)',
                 'single-byte alphabet: ? is one byte (muscle never sets a locale)',
                 'left out of the exact comparison and counted as unspecified_*: the empty pattern and "~" alone (doc: matches nothing; code: matches ""), '
                 'a range list that contains the fully open clause "-" against a subject that is not a digit string (doc: "<->" = "everything, same as *" '
                 'contradicts "only integers"), values beyond 2^32-1 (IDs are uint32; the library wraps them), reversed bounds',
                 'every other subject of a range list is judged: "<19-21> would match 19, 20, and 21 only", so a sign, white space before or after the digits, '
                 'letters and the empty string do not match (and do match under a leading ~); leading zeros are accepted as a representation of the integer',
                 'never generated in the exact part (they pass through to POSIX regex and are documented nowhere): unescaped ^ $ { } | ) ] outside the '
                 'documented constructs, [!..] classes (complement in globbing, member in POSIX brackets), a backslash or an opening bracket inside [..], class ranges with metacharacter end points, an unescaped comma '
                 'inside a group, backtick-regex patterns, a trailing backslash; they are used in the escape, uniqueness and no-crash parts',
                 'interval expressions in arbitrary patterns are kept small (at most two "{", digits <= 2): regex complexity is F10\'s policy entry under C07',
                 '"an escaped pattern is reported unique by both predicates" is required (DESIGN.md C15 escape part) although the statement only needs the '
                 'converse direction: the hash-lookup fast path depends on it',
                 'g++ 12 ASan/UBSan/LSan and valgrind memcheck report what they claim to report'],
    legs=[
        Leg('regress', 'h_wildcard', 'asan', opts=O(mode='regress'), quick=1, thorough=1, workers=1, leaks=True, min_cases=1),
        Leg('exact', 'h_wildcard', 'asan', opts=O(mode='exact'), quick=4800, thorough=320000, workers=16, leaks=True),
        Leg('escape', 'h_wildcard', 'asan', opts=O(mode='escape'), quick=960, thorough=64000, workers=16, leaks=True),
        Leg('unique', 'h_wildcard', 'asan', opts=O(mode='unique'), quick=960, thorough=64000, workers=16, leaks=True),
        Leg('path', 'h_wildcard', 'asan', opts=O(mode='path'), quick=960, thorough=64000, workers=16, leaks=True),
        Leg('memcheck', 'h_wildcard', 'plain', opts=O(mode='all'), quick=320, thorough=8000, workers=16, valgrind=True),
    ],
    min_stats={'regress': {'regress_checks': 240},
               'exact': {'subjects_expected_match': 50000, 'subjects_expected_nomatch': 50000, 'neighbours_expected_nomatch': 10000,
                         'patterns_numeric-range': 500, 'numeric_nondigit_subjects_judged': 5000, 'patterns_negated-single': 200, 'patterns_comma-list': 300, 'patterns_single+overescaped': 1500,
                         'overescaped_literals_glibc_would_read_as_operator': 1000, 'escaped_metachar_literals': 2000, 'node_star': 4000, 'node_class': 4000, 'class_with_metachar_member': 3000, 'class_negated': 1000, 'class_with_rbracket_first': 500, 'class_with_caret_member': 400, 'class_negated_caret_first': 11,
                         'node_group': 4000, 'empty_alternative_in_group': 1000, 'max_nesting': 3, 'reused_objects': 10000, 'fresh_objects': 2000, 'reuse_negated_then_plain': 1500, 'reuse_range_then_nonrange': 1500,
                         'pooled_objects': 3000, 'pooled_object_is_the_one_just_released': 2000, 'reuse_after_failed_compile': 250, 'reuse_regex_then_simple': 500,
                         'reuse_after_reset_or_clear': 600, 'installed_by_copy_assignment': 800, 'installed_by_move_assignment': 800, 'installed_by_pool_convenience': 800, 'patterns_reported_unique': 400},
               'escape': {'strings': 2500, 'neighbours': 50000, 'strings_with_leading_backtick': 100, 'strings_with_leading_lt': 100,
                          'strings_with_leading_tilde': 100, 'strings_that_needed_escaping': 2000},
               'unique': {'reused_objects': 2500, 'reuse_after_failed_compile': 300, 'reuse_negated_then_plain': 250, 'reuse_range_then_nonrange': 80, 'reuse_regex_then_simple': 400,
                          'reused_vs_fresh_matches': 100000, 'patterns_reported_unique': 800, 'candidates': 40000, 'patterns_rejected': 200, 'unique_patterns_that_are_documented_literals': 700},
               'path': {'reused_objects': 400, 'reuse_negated_then_plain': 100, 'pooled_objects': 120, 'reuse_after_failed_compile': 30, 'reuse_after_other_separators': 30,
                        'pathmatcher_reused': 250, 'pathmatcher_entries_removed': 300, 'numeric_nondigit_subjects_judged': 500, 'paths_expected_match': 800, 'paths_expected_nomatch': 1500, 'segmented_expected_match': 1000, 'segmented_expected_nomatch': 3000},
               'memcheck': {'subjects': 4000, 'neighbours': 4000, 'candidates': 1500, 'paths': 200}},
)
