import os
from driver import Leg

# The three defects this check found on the pinned tree (message.py FlattenedSize() with non-ASCII field names, message.py
# length of str items in user-typed fields, UMFindData on a zero-length last item) are repaired in /repo; each keeps its
# stable key and a fixed witness in the regress leg, and the random repertoire includes those corners.
# A fourth one (MicroMessage could not see a trailing zero-item field, repaired as a5da53f) likewise: key micro|zero-item-field-not-readable, regress case 8.
# VERIF_C08_MASK=pynames,umzero,pyexample,umzerofield is NOT used by any registered run; it exists only to judge a tree OLDER than those repairs.
_MASK = os.environ.get('VERIF_C08_MASK', '')


def _o(**kw):
    if _MASK: kw['mask'] = _MASK
    return kw


SPEC = dict(
    level='exploration',
    design_ref='DESIGN.md section 3, C08',
    rule=("wire: one case = one random abstract script (what code, 0-60 uniquely named fields of the 12 common types, 1-3000 items, "
          "nesting <= 6, empty names/strings/raw items, UTF-8 incl. non-ASCII field names, user type codes, NaN payloads, +-0/inf/denormals, integer extremes) built NATIVELY as C++ Message (each field through a randomly chosen construction route: append, prepend in reverse, sliding window, replace-at, build-longer-then-remove, both ends; so rings wrap and fields pass inline<->array), "
          "C MMessage, C UMessage, Python message.Message and by the reference codec ref/codec.py (written from the layout comment only); "
          "all byte strings must be identical, every implementation must read the C++ bytes back to the script's content (into a fresh object or, for a PRNG-chosen share, into a USED object that already holds a same/unrelated/superset/subset/other-typed Message) through its own "
          "getters and re-serialise them identically, and C++ must do the same with the C codecs' bytes; a case is non-trivial when the "
          "Message has at least one field and two items.  frame: one case = 1-12 Messages framed by MessageIOGateway, MGDoOutput, UGDoOutput "
          "(compared with the hand-written [length LE]['Enc0'] frame and with each other, read back crosswise through chopped pipes) and sent "
          "through a C++ MessageIOGateway over TCP loopback to message_transceiver_thread.py, which echoes them: the echoed byte stream must equal "
          "the sent one; C++ senders with MUSCLE_MESSAGE_ENCODING_ZLIB_1..9 (tiny and field-less Messages mixed in) are walked by hand: Enc0 exactly when the body is the plain Message, "
          "otherwise the body inflates to it, and a second C++ gateway reads the stream back; every C++ gateway output (plain, zlib, TCP) is driven with PRNG-chosen DoOutput(maxBytes) budgets (1, 7, 8, 9, 100, ..., 256 kB, unlimited).  Zero-item fields (C++ via a shared array, Python [], reference codec) are part of the wire scripts.  distinct = distinct flattened byte strings"),
    assumptions=['the layout comment in Message::Flatten plus the per-type rules stated in the property are the specification (ref/codec.py)',
                 'strings on the Python leg are valid UTF-8 without NUL; NaN inside point/rect is not exercised on the Python leg (CPython float32->double->float32 may quieten a signalling NaN)',
                 'micro-message construction is append-only with unique field names (its documented rules)',
                 'python3 (CPython >= 3.8) is available; if it cannot be started the run is a harness failure (exit 2), never a pass',
                 'g++ 12 ASan/UBSan/LSan report what they claim to report; the misaligned link pointer in MiniMessageGateway.c is allow-listed (DESIGN.md 2.1)'],
    legs=[
        Leg('regress', 'h_wire', 'asan', opts=_o(mode='regress'), quick=11, thorough=11, workers=1, leaks=True, min_cases=11),
        Leg('wire', 'h_wire', 'asan', opts=_o(mode='wire'), quick=200000, thorough=8000000, workers=16, leaks=True),
        Leg('frame', 'h_wire', 'asan', opts=_o(mode='frame'), quick=3200, thorough=96000, workers=16, leaks=True, per_worker_min=10),
        Leg('memcheck', 'h_wire', 'plain', opts=_o(mode='wire'), quick=1200, thorough=32000, workers=16, valgrind=True),
    ],
    min_stats={
        'wire': {'py_native_built': 40000, 'py_parsed_cpp_bytes': 40000, 'ref_encoded': 80000, 'ref_decoded': 80000,
                 'mini_built_parsed_reflattened': 80000, 'micro_built_parsed_reflattened': 80000,
                 'msgs_with_nesting': 8000, 'nan_float_double_items': 4000, 'zero_length_raw_items': 2000, 'empty_field_names': 2000,
                 'empty_strings': 2000, 'non_ascii_utf8_strings': 2000, 'multi_item_fields': 40000, 'msgs_with_non_ascii_field_names': 2000,
                 'user_typed_fields': 2000, 'py_str_items_in_user_typed_field': 2000,
                 'route_append': 20000, 'route_prepend': 20000, 'route_sliding_window': 20000, 'route_replace_at': 20000,
                 'route_longer_then_remove': 20000, 'route_both_ends': 20000, 'route_message_copied': 5000,
                 'parse_into_used_target': 50000, 'parse_fieldless_into_used_target': 5000, 'parse_into_fresh_target': 20000, 'parse_into_pooled_target': 20000,
                 'parse_into_target_filled_by_earlier_parse': 20000, 'parse_into_target_filled_by_add_api': 20000,
                 'parse_into_used_target_prev_same': 5000, 'parse_into_used_target_prev_unrelated': 5000, 'parse_into_used_target_prev_superset': 5000,
                 'parse_into_used_target_prev_same_names_other_types': 5000, 'parse_into_used_target_prev_subset': 5000,
                 'mini_parse_into_used_target': 20000, 'mini_parse_fieldless_into_used_target': 2000,
                 'py_parse_into_used_target': 20000, 'py_parse_fieldless_into_used_target': 2000,
                 'zero_item_fields': 20000, 'msgs_with_zero_item_fields': 10000, 'route_zero_items_via_shared_array': 20000, 'py_built_zero_item_field': 5000,
                 'items_bool': 4000, 'items_i8': 4000, 'items_i16': 4000, 'items_i32': 4000, 'items_i64': 4000, 'items_f32': 4000, 'items_f64': 4000,
                 'items_str': 4000, 'items_pt': 4000, 'items_rc': 4000, 'items_raw': 4000, 'items_msg': 4000},
        'frame': {'frames_compared_in_memory': 2000, 'frames_echoed_by_python': 2000, 'python_echo_peers_started': 1,
                  'dooutput_budget_ended_inside_a_frame': 5000, 'dooutput_budget_ended_inside_a_frame_on_tcp': 500, 'zlib_sender_streams_checked': 2000, 'zlib_frames_deflated': 5000, 'zlib_frames_sent_plain_below_32_bytes': 2000, 'c_gateways_refused_zlib_frame': 2000,
                  'zlib_sender_level_1': 100, 'zlib_sender_level_5': 100, 'zlib_sender_level_9': 100},
        'regress': {'python_documentation_example_checked': 1, 'documented_frame_checked': 1, 'wrapped_ring_fields_in_witness': 1, 'used_target_witness_checked': 1, 'zero_item_witness_checked': 1, 'zlib_witness_checked': 1, 'dooutput_budget_witness_checked': 1, 'dooutput_budget_ended_inside_a_frame': 100, 'python_refused_zlib_frame': 1, 'zlib_frames_sent_plain_below_32_bytes': 3},
    },
)
