import os
from driver import Leg

# VERIF_C08_MASK=pynames,umzero,pyexample silences the three defects found on the pinned tree (each is then counted as a
# masked_* observation instead of being reported under its own key).  Default: strict, nothing masked; the defects are
# expected to be listed in known_findings.json (or repaired in /repo).
_MASK = os.environ.get('VERIF_C08_MASK', '')


def _o(**kw):
    if _MASK: kw['mask'] = _MASK
    return kw


SPEC = dict(
    level='exploration',
    design_ref='DESIGN.md section 3, C08',
    rule=("wire: one case = one random abstract script (what code, 0-60 uniquely named fields of the 12 common types, 1-3000 items, "
          "nesting <= 6, empty names/strings/raw items, UTF-8, NaN payloads, +-0/inf/denormals, integer extremes) built NATIVELY as C++ Message, "
          "C MMessage, C UMessage, Python message.Message and by the reference codec ref/codec.py (written from the layout comment only); "
          "all byte strings must be identical, every implementation must read the C++ bytes back to the script's content through its own "
          "getters and re-serialise them identically, and C++ must do the same with the C codecs' bytes; a case is non-trivial when the "
          "Message has at least one field and two items.  frame: one case = 1-12 Messages framed by MessageIOGateway, MGDoOutput, UGDoOutput "
          "(compared with the hand-written [length LE]['Enc0'] frame and with each other, read back crosswise through chopped pipes) and sent "
          "through a C++ MessageIOGateway over TCP loopback to message_transceiver_thread.py, which echoes them: the echoed byte stream must equal "
          "the sent one.  distinct = distinct flattened byte strings"),
    assumptions=['the layout comment in Message::Flatten plus the per-type rules stated in the property are the specification (ref/codec.py)',
                 'strings on the Python leg are valid UTF-8 without NUL; NaN inside point/rect is not exercised on the Python leg (CPython float32->double->float32 may quieten a signalling NaN)',
                 'micro-message construction is append-only with unique field names (its documented rules)',
                 'python3 (CPython >= 3.8) is available; if it cannot be started the run is a harness failure (exit 2), never a pass',
                 'g++ 12 ASan/UBSan/LSan report what they claim to report; the misaligned link pointer in MiniMessageGateway.c is allow-listed (DESIGN.md 2.1)'],
    legs=[
        Leg('regress', 'h_wire', 'asan', opts=_o(mode='regress'), quick=5, thorough=5, workers=1, leaks=True, min_cases=5),
        Leg('wire', 'h_wire', 'asan', opts=_o(mode='wire'), quick=24000, thorough=1200000, workers=16, leaks=True),
        Leg('frame', 'h_wire', 'asan', opts=_o(mode='frame'), quick=480, thorough=16000, workers=16, leaks=True, per_worker_min=10),
        Leg('memcheck', 'h_wire', 'plain', opts=_o(mode='wire'), quick=480, thorough=9600, workers=16, valgrind=True),
    ],
    min_stats={
        'wire': {'py_native_built': 10000, 'py_parsed_cpp_bytes': 10000, 'ref_encoded': 20000, 'ref_decoded': 20000,
                 'mini_built_parsed_reflattened': 20000, 'micro_built_parsed_reflattened': 20000,
                 'msgs_with_nesting': 2000, 'nan_float_double_items': 1000, 'zero_length_raw_items': 500, 'empty_field_names': 500,
                 'empty_strings': 500, 'non_ascii_utf8_strings': 500, 'multi_item_fields': 10000,
                 'items_bool': 1000, 'items_i8': 1000, 'items_i16': 1000, 'items_i32': 1000, 'items_i64': 1000, 'items_f32': 1000, 'items_f64': 1000,
                 'items_str': 1000, 'items_pt': 1000, 'items_rc': 1000, 'items_raw': 1000, 'items_msg': 1000},
        'frame': {'frames_compared_in_memory': 500, 'frames_echoed_by_python': 500, 'python_echo_peers_started': 1},
        'regress': {'python_documentation_example_checked': 1, 'documented_frame_checked': 1},
    },
)
