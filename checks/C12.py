from driver import Leg
SPEC = dict(
    level='fault_enumeration',
    design_ref='DESIGN.md section 3, C12',
    rule=("one case = one sender scenario (1-3 senders with distinct source IPAddressAndPort: other IP / other port / other high bits / other "
          "interface index; PacketTunnelIOGateway or MiniPacketTunnelIOGateway, zlib level 0/1/6/9, with or without slave MessageIOGateway (plain, zlib-6 with AreOutgoingMessagesIndependent()=true as MessageIOGateway.h documents for such transports, and plain dependent-stream zlib-6 with one source under the identity script only), "
          "MTU from the minimum 25 resp. 17 (also constructor arguments below it) through min+1, min+2, 64, 1500 and random values, Messages of "
          "12 bytes .. 20xMTU incl. packet-capacity boundaries and runs of equal-sized Messages, message ids moved to random bases and across "
          "2^32, Write() returning 0 at random moments and accepting again, output driven as an event loop does: DoOutput() only while HasBytesToOutput()) and a family of fault scripts, each run on a fresh receiver: leg 'exh' = exhaustive over a "
          "window of <= 6 consecutive packets of the merged sequence (every subset lost, every permutation, one duplicate at every position; "
          "the full product for windows <= 4; the whole sequence when it has <= 6 packets), leg 'stream' = the same scenarios with one sender over a perfect transport of another kind: both gateways on a PacketizedProxyDataIO over an in-memory byte FIFO whose Read()/Write() move 0 (would block), 1-7, a random amount or everything per call and deliberately end inside the 4-byte length prefixes (splits 1/3, 2/2, 3/1 counted), sender and receiver pumped alternately like an event loop, identity oracle; leg 'sampled' = identity + 8 sampled scripts "
          "(loss p, duplication p, reorder window w, sender interleaving) on sequences of up to ~750 packets.  Oracle: every delivered Message is "
          "byte-identical to a Message sent by the sender whose address it is attributed to; identity script: per sender delivered list == "
          "sent list restricted to the gateway's limits, in order, exactly once.  A case is non-trivial when a Message spans several packets "
          "or a packet carries several chunks and the case has >= 2 packets; distinct = distinct (scenario, seed)"),
    assumptions=['a zlib slave gateway behind a lossy/multi-source tunnel must deflate independent streams (documented in MessageIOGateway.h); a plain zlib slave is judged only where FIFO re-inflation holds',
                 'a Message is identified by its flattened bytes (the _rl source tag a slave gateway adds is compared with the attributed source and removed)',
                 'two Messages with the same (source address, message id) are never in flight (sender restart on the same address is outside the property)',
                 'message-id wrap-around is produced on the wire by adding a base to every id field (exactly what a sender whose counter was preset '
                 'writes); the guarded setter VerifSetSendMessageIDCounter is used in addition when the tree has it (detected at compile time)',
                 'duplicate delivery under duplication faults is allowed by the statement and only counted',
                 'g++ 12 ASan/UBSan/LSan and valgrind memcheck report what they claim to report'],
    legs=[
        Leg('regress', 'h_tunnel', 'asan', opts={'mode': 'regress'}, quick=1, thorough=1, workers=1, leaks=True, min_cases=1),
        Leg('exh', 'h_tunnel', 'asan', opts={'mode': 'exh'}, quick=5000, thorough=125000, workers=16, leaks=True),
        Leg('sampled', 'h_tunnel', 'asan', opts={'mode': 'sampled'}, quick=24000, thorough=600000, workers=16, leaks=True),
        Leg('stream', 'h_tunnel', 'asan', opts={'mode': 'stream'}, quick=8000, thorough=200000, workers=16, leaks=True),
        Leg('memcheck_stream', 'h_tunnel', 'plain', opts={'mode': 'stream'}, quick=240, thorough=8000, workers=16, valgrind=True),
        Leg('memcheck', 'h_tunnel', 'plain', opts={'mode': 'sampled'}, quick=480, thorough=16000, workers=16, valgrind=True),
        Leg('memcheck_exh', 'h_tunnel', 'plain', opts={'mode': 'exh'}, quick=96, thorough=3200, workers=16, valgrind=True),
    ],
    min_stats={'exh': {'fault_scripts': 800000, 'scripts_permutation': 280000, 'scripts_loss_subset': 40000, 'scripts_one_duplicate': 40000,
                       'scripts_product': 480000, 'cases_whole_sequence_exhaustive': 1120, 'cases_mtu_min': 104, 'cases_mtu_min_plus_1': 104,
                       'cases_mtu_min_plus_2': 104, 'cases_mtu_64': 88, 'cases_mtu_1500': 88, 'cases_senders_2': 800, 'cases_senders_3': 800,
                       'cases_kind_tunnel': 1200, 'cases_kind_mini': 560, 'cases_kind_tunnel+slave': 150, 'cases_kind_tunnel+slavezlib': 120, 'cases_dependent_zlib_slave_identity_only': 120, 'cases_kind_mini+slave': 200,
                       'cases_mini_zlib': 480, 'mini_packets_deflated': 560, 'mini_messages_fitting_the_mtu_exactly': 200,
                       'mini_cases_with_several_chunks_per_packet': 160, 'tunnel_messages_fragmented': 4000,
                       'tunnel_packets_with_several_chunks': 1120, 'tunnel_messages_ending_exactly_at_packet_end': 1120,
                       'messages_sent_after_id_wraparound': 200, 'cases_equal_size_messages': 1200, 'messages_lost_to_faults': 800000,
                       'messages_delivered_under_faults': 3200000, 'write_holds': 1200, 'held_packets_flushed_via_HasBytesToOutput': 500},
               'sampled': {'fault_scripts': 97500, 'identity_scripts': 26250, 'cases_mtu_min': 450, 'cases_mtu_1500': 375, 'cases_senders_3': 3750,
                           'tunnel_messages_fragmented': 75000, 'messages_sent_after_id_wraparound': 7500, 'mini_packets_deflated': 11250,
                           'mini_messages_fitting_the_mtu_exactly': 4500, 'max_packets_in_a_case': 500, 'messages_delivered_under_faults': 750000,
                           'messages_lost_to_faults': 450000, 'write_holds': 30000, 'held_packets_flushed_via_HasBytesToOutput': 4000,
                           'messages_sent_after_id_wraparound_by_setter': 3000, 'mini_packets_sent_after_packet_id_wraparound': 3750},
               'stream': {'stream_cases': 7500, 'length_prefixes_split_across_reads': 60000, 'length_prefixes_split_across_writes': 40000,
                          'length_prefix_split_across_reads_1_3': 10000, 'length_prefix_split_across_reads_2_2': 10000, 'length_prefix_split_across_reads_3_1': 10000,
                          'length_prefix_split_across_writes_1_3': 8000, 'length_prefix_split_across_writes_2_2': 8000, 'length_prefix_split_across_writes_3_1': 8000,
                          'stream_would_block_reads': 100000, 'stream_would_block_writes': 100000, 'stream_cases_kind_tunnel': 2500, 'stream_cases_kind_mini': 1200,
                          'stream_cases_mini_zlib': 1000, 'stream_cases_kind_tunnel+slave': 150, 'stream_cases_kind_mini+slave': 350, 'stream_cases_kind_tunnel+slavezlib': 200,
                          'stream_packets': 90000, 'max_stream_packets_in_a_case': 300}},
)