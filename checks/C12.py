from driver import Leg
SPEC = dict(
    level='fault_enumeration',
    design_ref='DESIGN.md section 3, C12',
    rule=("one case = one sender scenario (1-3 senders with distinct source IPAddressAndPort: other IP / other port / other high bits / other "
          "interface index; PacketTunnelIOGateway or MiniPacketTunnelIOGateway, zlib level 0/1/6/9, with or without slave MessageIOGateway, "
          "MTU from the minimum 25 resp. 17 (also constructor arguments below it) through min+1, min+2, 64, 1500 and random values, Messages of "
          "12 bytes .. 20xMTU incl. packet-capacity boundaries and runs of equal-sized Messages, message ids moved to random bases and across "
          "2^32, Write() occasionally returning 0) and a family of fault scripts, each run on a fresh receiver: leg 'exh' = exhaustive over a "
          "window of <= 6 consecutive packets of the merged sequence (every subset lost, every permutation, one duplicate at every position; "
          "the full product for windows <= 4; the whole sequence when it has <= 6 packets), leg 'sampled' = identity + 8 sampled scripts "
          "(loss p, duplication p, reorder window w, sender interleaving) on sequences of up to ~750 packets.  Oracle: every delivered Message is "
          "byte-identical to a Message sent by the sender whose address it is attributed to; identity script: per sender delivered list == "
          "sent list restricted to the gateway's limits, in order, exactly once.  A case is non-trivial when a Message spans several packets "
          "or a packet carries several chunks and the case has >= 2 packets; distinct = distinct (scenario, seed)"),
    assumptions=['a Message is identified by its flattened bytes (the _rl source tag a slave gateway adds is compared with the attributed source and removed)',
                 'two Messages with the same (source address, message id) are never in flight (sender restart on the same address is outside the property)',
                 'message-id wrap-around is produced on the wire by adding a base to every id field (exactly what a sender whose counter was preset '
                 'writes); the guarded setter VerifSetSendMessageIDCounter is used in addition when the tree has it (detected at compile time)',
                 'duplicate delivery under duplication faults is allowed by the statement and only counted',
                 'g++ 12 ASan/UBSan/LSan and valgrind memcheck report what they claim to report'],
    legs=[
        Leg('regress', 'h_tunnel', 'asan', opts={'mode': 'regress'}, quick=1, thorough=1, workers=1, leaks=True, min_cases=1),
        Leg('exh', 'h_tunnel', 'asan', opts={'mode': 'exh'}, quick=6000, thorough=300000, workers=16, leaks=True),
        Leg('sampled', 'h_tunnel', 'asan', opts={'mode': 'sampled'}, quick=30000, thorough=1500000, workers=16, leaks=True),
        Leg('memcheck', 'h_tunnel', 'plain', opts={'mode': 'sampled'}, quick=800, thorough=16000, workers=16, valgrind=True),
        Leg('memcheck_exh', 'h_tunnel', 'plain', opts={'mode': 'exh'}, quick=160, thorough=3200, workers=16, valgrind=True),
    ],
    min_stats={'exh': {'fault_scripts': 1000000, 'scripts_permutation': 350000, 'scripts_loss_subset': 50000, 'scripts_one_duplicate': 50000,
                       'scripts_product': 600000, 'cases_whole_sequence_exhaustive': 1400, 'cases_mtu_min': 130, 'cases_mtu_min_plus_1': 130,
                       'cases_mtu_min_plus_2': 130, 'cases_mtu_64': 110, 'cases_mtu_1500': 110, 'cases_senders_2': 1000, 'cases_senders_3': 1000,
                       'cases_kind_tunnel': 1500, 'cases_kind_mini': 700, 'cases_kind_tunnel+slave': 250, 'cases_kind_mini+slave': 250,
                       'cases_mini_zlib': 600, 'mini_packets_deflated': 700, 'mini_messages_fitting_the_mtu_exactly': 250,
                       'mini_cases_with_several_chunks_per_packet': 200, 'tunnel_messages_fragmented': 5000,
                       'tunnel_packets_with_several_chunks': 1400, 'tunnel_messages_ending_exactly_at_packet_end': 1400,
                       'messages_sent_after_id_wraparound': 250, 'cases_equal_size_messages': 1500, 'messages_lost_to_faults': 1000000,
                       'messages_delivered_under_faults': 4000000, 'write_holds': 1500},
               'sampled': {'fault_scripts': 130000, 'identity_scripts': 35000, 'cases_mtu_min': 600, 'cases_mtu_1500': 500, 'cases_senders_3': 5000,
                           'tunnel_messages_fragmented': 100000, 'messages_sent_after_id_wraparound': 10000, 'mini_packets_deflated': 15000,
                           'mini_messages_fitting_the_mtu_exactly': 6000, 'max_packets_in_a_case': 500, 'messages_delivered_under_faults': 1000000,
                           'messages_lost_to_faults': 600000, 'write_holds': 40000}},
)
