from driver import Leg
SPEC = dict(
    level='fault_enumeration',
    design_ref='DESIGN.md section 3, C06 (and 2.5 the reflector bench)',
    rule=("isolate: one case = one history on a fresh stepped ReflectServer: two silent victims and an observer build state (4-7 nodes, a "
          "3-entry ordered index, 1-3 subscriptions, a parameter), one attacker (joining in a random slot) sends 30-120 hostile commands over "
          "18 command codes incl. nested BATCH, 30 key shapes (absolute, '..', empty, '//', wildcards/negations at host and session level, "
          "foreign index entries) with forged session/!Priv/flags fields; after every ~4th command and at the end the in-process snapshot "
          "outside the attacker's root (payload bytes, index order, subscriber tables minus the attacker's id), the victims' GETPARAMETERS minus "
          "7 volatile fields, attachment + ping, subscriber marks vs subscription strings, node counters and the observer's GETDATA view must "
          "be unchanged; a history is non-trivial when it held a write command aimed outside the attacker's subtree and a privileged command. "
          "cut: one case = one (stream, prefix length) pair, consecutive cases enumerate EVERY prefix 0..len of each generated leaver stream "
          "(470-700 hand-framed bytes: SETDATA x4, INSERTORDEREDDATA, 2 subscriptions -- first or last, half of them with an archived Int32/String "
          "query filter that some witness nodes fail --, in a third of the streams only subscriptions ending in a unique clause incl. backslash-escaped metacharacter names "
          "(direct-lookup traversal) --, further commands incl. re-subscribing with another/no filter and updates of already shown nodes) cut on a raw socket; "
          "witnesses own nodes with metacharacter names, a remaining session creates one more after the prefix, and in slow-witness streams the witness "
          "stops reading behind a 6-40 KB node for part of the prefix and the cut, then drains before the audit (replica == tree restricted to its subscriptions); against a fresh "
          "server with 1-2 subscribed witnesses; non-trivial when at least one byte was sent. regress: fixed witnesses + bench self-checks."),
    assumptions=['remaining sessions only create nodes of their own while the leaver is connected, so "state as if the others had run alone" is the snapshot taken before it joined plus exactly those nodes',
                 'subscription paths of victims/witnesses/leaver are restricted to literals, *, (a|b) and a,b clauses so that a 20-line matcher in the harness is the independent reference for the subscriber-table invariant',
                 'private members _currentNodeCount, _sharedData->_cachedSubscribersTables, _lruCache are read in process by explicit template instantiation (no change to /repo)',
                 'a connection end is a close or a write-side shutdown of the client end of a socketpair (no RST on AF_UNIX)',
                 'ban/require commands reach no factory in the bench (sessions are attached with AddNewSession), so only their refusal is observed',
                 'g++ 12 ASan/UBSan/LSan and valgrind memcheck report what they claim to report'],
    legs=[
        Leg('regress', 'h_isolate', 'asan', opts={'mode': 'regress'}, quick=1, thorough=1, workers=1, leaks=True, min_cases=1),
        Leg('isolate', 'h_isolate', 'asan', opts={'mode': 'isolate'}, quick=1600, thorough=40000, workers=16, leaks=True),
        Leg('cut', 'h_isolate', 'asan', opts={'mode': 'cut'}, quick=36000, thorough=900000, workers=16, leaks=True),
        Leg('memcheck_isolate', 'h_isolate', 'plain', opts={'mode': 'isolate'}, quick=16, thorough=640, workers=16, valgrind=True),
        Leg('memcheck_cut', 'h_isolate', 'plain', opts={'mode': 'cut'}, quick=640, thorough=25600, workers=16, valgrind=True),
    ],
    min_stats={'regress': {'regress_cuts': 20, 'selftest_oracle_fired': 1, 'regress_departure_selftest': 1, 'regress_access_denied': 8, 'regress_filtered_cuts': 16, 'regress_escaped_cuts': 12, 'regress_backlog_cuts': 4},
               'isolate': {'attacker_commands': 80000, 'snapshots': 15000, 'selftest_oracle_fired': 1500, 'attacker_bounced_accessdenied': 20000,
                           'user_messages_delivered_to_victims': 5000, 'snapshots_with_attacker_marks_on_foreign_nodes': 2000, 'max_key_shapes': 27,
                           'pings_answered': 4500, 'victim_filtered_subscriptions': 500},
               'cut': {'streams': 40, 'cuts': 32000, 'cuts_mid_header': 1499, 'cuts_mid_body': 28000, 'cuts_at_frame_boundary': 200,
                       'cuts_with_leaver_marks_on_nodes': 5000, 'cuts_with_leaver_in_cached_tables': 5000, 'cuts_with_witness_shown_leaver_paths': 15000,
                       'removal_notices_after_cut': 50000, 'selftest_trace_oracle_fired': 32000, 'cuts_half_close': 5000,
                       'cut_leaver_filtered_subscriptions': 1500, 'cut_nodes_matching_path_but_failing_filter': 800, 'cuts_with_marked_node_failing_every_leaver_filter': 200,
                       'cut_escaped_literal_clauses': 3000, 'cut_metachar_nodes_at_departure': 20000, 'cuts_with_leaver_mark_on_late_node': 500,
                       'cuts_with_paused_witness': 2000, 'updates_queued_behind_backlog_at_removal': 60, 'replica_entries_compared': 50000}},
)
