from driver import Leg
SPEC = dict(
    level='exploration',
    design_ref='DESIGN.md section 3, C16',
    rule=("one case = one random history of 50-600 public Queue operations (71 operation kinds incl. self-aliasing arguments, "
          "EnsureSize with every flag combination, shrink, normalise, copy/move/swap) on a fresh Queue of item type int32 / String / "
          "owning instrumented type / bool (a trivial type whose never-written values UBSan can see), compared with std::deque after every operation; a case is non-trivial when the history left the "
          "inline 3-slot buffer and reached more than 3 items; distinct = distinct (seed, case) histories"),
    assumptions=['std::deque and the reference semantics written from the doc comments of Queue.h are the specification',
                 'AdoptRawDataArray/ReleaseRawDataArray are exercised for memory safety only',
                 'g++ 12 ASan/UBSan/LSan and valgrind memcheck report what they claim to report'],
    legs=[
        Leg('regress', 'h_queue', 'asan', opts={'mode': 'regress'}, quick=1, thorough=1, workers=1, leaks=True, min_cases=1),
        Leg('model', 'h_queue', 'asan', opts={'mode': 'model'}, quick=24000, thorough=600000, workers=16, leaks=True),
        Leg('memcheck', 'h_queue', 'plain', opts={'mode': 'model'}, quick=480, thorough=9600, workers=16, valgrind=True),
    ],
    min_stats={'model': {'cases_with_ring_wraparound': 100, 'cases_with_shrink': 100, 'cases_big': 10, 'type_bool': 1000, 'iterator_surface_checks': 20000, 'coarse_sorts_of_12_or_more_items': 5000, 'iterator_surface_nonunit_stride_nonempty_walk': 5000}, 'regress': {'regress_F55_checked': 1, 'regress_iterator_assign_checked': 1}},
)
