#include <zlib.h>
#include "zlib/ZLibCodec.h"
#include "dataio/ByteBufferDataIO.h"
#include "system/SetupSystem.h"
#include "util/ByteBuffer.h"
using namespace muscle;
int main(){ CompleteSetupSystem css; uint8 raw[200]; memset(raw,'a',sizeof(raw));
 uint8 comp[400]; uLongf cl=sizeof(comp); if (compress2(comp,&cl,raw,sizeof(raw),6)!=Z_OK) return 2;   // a complete zlib stream (final block: inflate() answers Z_STREAM_END)
 ByteBufferRef in=GetByteBufferFromPool(8+cl+64); uint8*b=in()->GetBuffer(); uint32 magic=2053925219u, sz=5000; memcpy(b,&magic,4); memcpy(b+4,&sz,4); memcpy(b+8,comp,cl); memset(b+8+cl,0x55,64);
 ByteBufferDataIO src(in); ByteBufferRef ob=GetByteBufferFromPool(); ByteBufferDataIO dst(ob);
 ZLibCodec dec(6); status_t r=dec.ReadAndInflateAndWrite(src,dst); printf("returned %s\n", r()); return 0; }
