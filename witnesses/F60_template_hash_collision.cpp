// F60: two differently laid-out Messages with the same TemplateHashCode64() sent through a TemplatingMessageIOGateway pair:
// the second one was sent payload-only against the first one's template and arrived altered.
#include "iogateway/TemplatingMessageIOGateway.h"
#include "dataio/ByteBufferDataIO.h"
#include "system/SetupSystem.h"
using namespace muscle;
struct Rx : public AbstractGatewayMessageReceiver { Queue<MessageRef> got; virtual void MessageReceivedFromGateway(const MessageRef & m, void *) { (void)got.AddTail(m); } };
int main() { CompleteSetupSystem css;
   uint8 d[8]; memset(d, 0x77, sizeof(d));
   MessageRef a = GetMessageFromPool(1); (void) a()->AddData("x", 2, d, 8);                                  // one item of user type 2:   1*2
   MessageRef b = GetMessageFromPool(1); (void) b()->AddData("x", 1, d, 3); (void) b()->AddData("x", 1, d, 5); // two items of user type 1:  2*1
   if (a()->TemplateHashCode64() != b()->TemplateHashCode64()) { printf("hash codes differ: not the witness any more\n"); return 0; }
   ByteBufferRef pipe = GetByteBufferFromPool(0); ByteBufferDataIO * io = new ByteBufferDataIO(pipe); DataIORef ioRef(io);
   TemplatingMessageIOGateway s, r; s.SetDataIO(ioRef); r.SetDataIO(ioRef);
   const MessageRef seq[] = {a, b, a, b};
   for (int i = 0; i < 4; i++) (void) s.AddOutgoingMessage(seq[i]);
   while (s.HasBytesToOutput()) if (s.DoOutput().IsError()) { printf("output error\n"); return 2; }
   (void) io->Seek(0, SeekableDataIO::IO_SEEK_SET);
   Rx rx; while (r.DoInput(rx).GetByteCount() > 0) {}
   int rc = (rx.got.GetNumItems() == 4) ? 0 : 1;
   for (uint32 i = 0; i < rx.got.GetNumItems() && i < 4; i++) if (!(*rx.got[i]() == *seq[i]())) { printf("Message %u arrived altered\n", i); rc = 1; }
   printf("%u of 4 received, %s\n", rx.got.GetNumItems(), rc ? "VIOLATION" : "all equal"); return rc; }
