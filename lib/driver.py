#!/usr/bin/env python3
"""Supervisor for the /verif checks: builds a flavour of /repo's working tree, runs harness
legs in worker processes (restart after every crash, CPU-budget and proved-deadlock
detection), routes every violation key through known_findings.json, writes the evidence
file and decides the exit status.

exit 0  held on everything explored (open known findings are printed as KNOWN-FINDING lines)
exit 1  a violation that known_findings.json does not list: "VIOLATION property=<id> replay=<path>"
exit 2  harness failure / inconclusive (build failed, watchdog fired without proof, too few events)
"""
import os, sys, json, re, time, subprocess, threading, shutil, struct, signal, hashlib

VERIF = os.path.dirname(os.path.dirname(os.path.abspath(__file__)))
REPO = os.environ.get('VERIF_REPO', '/repo')
# VERIF_SCRATCH=<dir>: build output, work files and evidence go under <dir> instead of /verif (used to try a
# modified copy of the repository, VERIF_REPO=<copy>, without disturbing the registered checks' state)
OUTROOT = os.environ.get('VERIF_SCRATCH') or VERIF

ASAN_OPTIONS = ('abort_on_error=1:detect_leaks=%d:allocator_may_return_null=1:max_allocation_size_mb=256:'
                'detect_stack_use_after_return=0:handle_abort=1:malloc_fill_byte=190:print_summary=1')
UBSAN_OPTIONS = 'print_stacktrace=1'
TSAN_OPTIONS = 'halt_on_error=1:second_deadlock_stack=1:report_signal_unsafe=0:exitcode=66'

# UBSan checks compiled recoverable (bounds / alignment in the C gateways): reports are lines on stderr;
# exactly these functions are allow-listed (DESIGN.md 2.1), anything else is a violation.
UBSAN_ALLOW = [
    (re.compile(r'String\.h:\d+:\d+: runtime error: index 15 out of bounds for type \'char \[15\]\''), 'String::ShortStringData _smallBuffer[15] overlap'),
    (re.compile(r'MiniMessageGateway\.c:\d+:\d+: runtime error: (load|store) (of|to) misaligned address'), 'MiniMessageGateway link pointer'),
]

_frame_re = re.compile(r'^\s*#\d+\s+(?:0x[0-9a-f]+\s+)?(?:in\s+)?(.+?)\s+(/[^\s:]+):(\d+)')   # ASan/UBSan frames carry an address, TSan frames do not
_vg_frame_re = re.compile(r'^==\d+==\s+(?:at|by) 0x[0-9A-F]+: (.+?) \(([^():]+):(\d+)\)')


def _short_func(f):
    f = re.sub(r'\(.*$', '', f)          # drop argument list
    f = re.sub(r'<[^<>]*>', '', f)       # drop one level of template args (twice for nesting)
    f = re.sub(r'<[^<>]*>', '', f)
    f = f.replace('muscle::', '')
    return f.strip()


def crash_signature(stderr_text, returncode):
    """Normalised (kind, where, excerpt) from a dead worker's stderr (DESIGN.md 2.2)."""
    lines = stderr_text.splitlines()
    kind = None
    where = None
    start = 0
    for i, l in enumerate(lines):
        m = re.search(r'ERROR: AddressSanitizer: ([\w-]+)', l)
        if m:
            kind = 'asan-' + m.group(1); start = i; break
        m = re.search(r'WARNING: ThreadSanitizer: ([\w -]+?)(?: \(|$)', l)
        if m:
            kind = 'tsan-' + m.group(1).strip().replace(' ', '-'); start = i; break
        m = re.search(r'ERROR: LeakSanitizer: detected memory leaks', l)
        if m:
            kind = 'lsan-leak'; start = i; break
        m = re.search(r'([\w.]+):\d+:\d+: runtime error: (.*)', l)
        if m and not any(rx.search(l) for rx, _ in UBSAN_ALLOW):
            msg = re.sub(r'0x[0-9a-f]+', 'ADDR', m.group(2)); msg = re.sub(r'-?\d+(\.\d+)?(e[+-]?\d+)?', 'N', msg)
            kind = 'ubsan-' + msg[:80]; where = m.group(1); start = i; break
        m = re.search(r'==\d+== (Conditional jump or move depends on uninitialised|Use of uninitialised value|Invalid (read|write)|Syscall param .* uninitialised|Invalid free|Mismatched free|Source and destination overlap)', l)
        if m:
            kind = 'memcheck-' + m.group(1).split(' depends')[0].replace(' ', '-')[:40]; start = i; break
        m = re.search(r'ASSERTION FAILED: \((.*?)\)|Crash\(\) was called|MCRASH', l)
        if m:
            kind = 'muscle-abort'; start = max(0, i - 2)
            mm = re.search(r'([\w./]+\.(?:cpp|h|c)):?\s*(?:line)?\s*(\d+)?', l)
            if mm: where = os.path.basename(mm.group(1))
            break
        if 'HARNESS-ABORT' in l:
            kind = 'harness-abort'; start = i; break
    if where is None:
        for l in lines[start:]:
            m = _frame_re.match(l) or _vg_frame_re.match(l)
            if not m: continue
            func, path = m.group(1), m.group(2)
            if '/harness/' in path or path.startswith('/verif') or '/design_probes/' in path:
                if kind and kind.startswith('lsan'):
                    continue
                # first non-runtime frame is harness code: blame stays with the first repo frame if any follows
                continue
            if path.startswith(REPO + '/') or (not path.startswith('/') and re.search(r'\.(cpp|h|c)$', path)):
                where = '%s@%s' % (_short_func(func), os.path.basename(path)); break
    if kind is None:
        if returncode is not None and returncode < 0:
            kind = 'signal-%d' % (-returncode)
        else:
            kind = 'exit-%s' % returncode
    if where is None:
        # maybe only harness frames: report the first harness frame so it can be told apart
        for l in lines[start:]:
            m = _frame_re.match(l) or _vg_frame_re.match(l)
            if m and ('/harness/' in m.group(2) or m.group(2).startswith('h_')):
                where = 'HARNESS:%s@%s' % (_short_func(m.group(1)), os.path.basename(m.group(2))); break
    excerpt = '\n'.join(lines[start:start + 40])
    return kind, where or '?', excerpt


def recoverable_ubsan_reports(stderr_text):
    """runtime error: lines that did not kill the process (recoverable checks) and are not allow-listed."""
    bad = []; allowed = {}
    for l in stderr_text.splitlines():
        if 'runtime error:' not in l: continue
        hit = None
        for rx, name in UBSAN_ALLOW:
            if rx.search(l): hit = name; break
        if hit: allowed[hit] = allowed.get(hit, 0) + 1
        else: bad.append(l.strip())
    return bad, allowed


def proc_cpu_seconds(pid):
    try:
        with open('/proc/%d/stat' % pid) as f: s = f.read()
        rest = s[s.rindex(')') + 2:].split()
        return (int(rest[11]) + int(rest[12])) / float(os.sysconf('SC_CLK_TCK'))
    except Exception:
        return None


def descendants(pid):
    """pids of all live descendants of pid (children of the harness such as a Python peer or a forked helper)."""
    kids = {}
    for d in os.listdir('/proc'):
        if not d.isdigit(): continue
        try:
            with open('/proc/%s/stat' % d) as f: st = f.read()
            rest = st[st.rindex(')') + 2:].split()
            if rest[0] == 'Z': continue      # zombie: already dead
            kids.setdefault(int(rest[1]), []).append(int(d))
        except Exception:
            continue
    out = []; todo = [pid]
    while todo:
        p = todo.pop()
        for k in kids.get(p, []):
            out.append(k); todo.append(k)
    return out


def tree_cpu_seconds(pid):
    tot = proc_cpu_seconds(pid)
    if tot is None: return None
    for k in descendants(pid):
        c = proc_cpu_seconds(k)
        if c: tot += c
    return tot


def all_threads_blocked_untimed(pid, with_descendants=True):
    """True iff every thread of the process AND of every live descendant process is asleep in an untimed wait
    (futex with NULL timeout, blocking read/recv/poll with infinite timeout).  DESIGN.md 1.3.  A harness that waits
    in a blocking read for a child that is still computing is therefore NOT blocked."""
    if with_descendants:
        for k in descendants(pid):
            if not all_threads_blocked_untimed(k, False): return False
    try:
        tids = os.listdir('/proc/%d/task' % pid)
    except Exception:
        return False
    if not tids: return False
    for t in tids:
        try:
            with open('/proc/%d/task/%s/stat' % (pid, t)) as f: s = f.read()
            st = s[s.rindex(')') + 2:].split()[0]
            if st != 'S': return False
            with open('/proc/%d/task/%s/syscall' % (pid, t)) as f: sc = f.read().split()
        except Exception:
            return False
        if not sc or sc[0] in ('running', '-1'): return False
        nr = int(sc[0]); args = [int(x, 16) for x in sc[1:7]]
        if nr == 35:
            # raw nanosleep(2): only the sanitizer runtime's own background thread sleeps this way (glibc's
            # sleep/usleep/nanosleep all enter the kernel as clock_nanosleep, 230) -> not a thread of the program
            continue
        if nr == 202:    # futex(uaddr, op, val, timeout,...)
            op = args[1] & 0x7f
            if op in (0, 9, 6, 11, 12) and args[3] != 0: return False   # wait with timeout
            if op not in (0, 9, 6, 11, 12): return False
        elif nr in (0, 45, 47):   # read, recvfrom, recvmsg: blocking
            pass
        elif nr == 7:    # poll(fds, n, timeout)
            if (args[2] & 0xffffffff) != 0xffffffff: return False
        elif nr in (271, 270):  # ppoll / pselect6: timeout pointer
            if (args[2] if nr == 271 else args[4]) != 0: return False
        elif nr == 23:   # select
            if args[4] != 0: return False
        elif nr in (232, 281):  # epoll_wait/pwait
            if (args[3] & 0xffffffff) != 0xffffffff: return False
        elif nr in (61, 247):  # wait4/waitid on a child
            pass
        else:
            return False
    return True


class Leg:
    """One harness invocation family: harness binary + flavour + options, split over workers."""
    def __init__(self, name, harness, flavour='asan', opts=None, quick=100, thorough=None, workers=16,
                 valgrind=False, leaks=False, cpu_budget=60.0, stall_wall=120.0, env=None, tsan_log=False,
                 min_cases=None, per_worker_min=1):
        self.name = name; self.harness = harness; self.flavour = flavour; self.opts = dict(opts or {})
        self.quick = quick; self.thorough = thorough if thorough is not None else quick * 20
        self.workers = workers; self.valgrind = valgrind; self.leaks = leaks
        self.cpu_budget = cpu_budget; self.stall_wall = stall_wall; self.env = dict(env or {})
        self.tsan_log = tsan_log; self.min_cases = min_cases; self.per_worker_min = per_worker_min


class Run:
    def __init__(self, prop, tier, seed, work):
        self.prop = prop; self.tier = tier; self.seed = seed; self.work = work
        self.violations = []      # dicts
        self.inconclusive = []    # strings
        self.summaries = {}       # leg name -> merged summary
        self.lock = threading.Lock()
        self.digests = {}
        self.allow_hits = {}
        self.stopped_early = []

    def add_violation(self, leg, key, case, detail, args):
        with self.lock:
            self.violations.append(dict(property=self.prop, leg=leg.name, harness=leg.harness, flavour=leg.flavour,
                                        key=key, case=case, detail=detail[:6000], seed=self.seed, args=args,
                                        valgrind=leg.valgrind))


def build(flavour, harnesses):
    r = subprocess.run([os.path.join(VERIF, 'bin', 'vbuild'), flavour] + sorted(set(harnesses)), stdout=subprocess.PIPE, stderr=subprocess.STDOUT, text=True)
    return r.returncode, r.stdout


def _worker_env(leg):
    e = dict(os.environ)
    e['ASAN_OPTIONS'] = ASAN_OPTIONS % (1 if leg.leaks else 0)
    e['UBSAN_OPTIONS'] = UBSAN_OPTIONS
    e['TSAN_OPTIONS'] = TSAN_OPTIONS
    e['LSAN_OPTIONS'] = 'exitcode=23'
    e.update(leg.env)
    return e


def run_chunk(run, leg, widx, frm, count, deadline):
    """Runs cases [frm, frm+count) of a leg in one worker process; restarts after each crash."""
    exe = os.path.join(OUTROOT, '_build', leg.flavour, 'h', leg.harness)
    base = os.path.join(run.work, '%s.w%d' % (leg.name, widx))
    end = frm + count
    cur = frm
    restarts = 0
    part = 0
    while cur < end:
        out = '%s.p%d.jsonl' % (base, part); prog = '%s.prog' % base; err = '%s.p%d.err' % (base, part)
        for p in (out, prog):
            try: os.unlink(p)
            except OSError: pass
        args = ['--seed', str(run.seed), '--from', str(cur), '--cases', str(end - cur), '--out', out, '--prog', prog]
        for k, v in sorted(leg.opts.items()): args += ['--opt', '%s=%s' % (k, v)]
        cmd = [exe] + args
        if leg.valgrind:
            cmd = ['valgrind', '-q', '--error-exitcode=9', '--exit-on-first-error=yes', '--num-callers=20'] + cmd
        with open(err, 'wb') as ef:
            p = subprocess.Popen(cmd, stdout=ef, stderr=subprocess.STDOUT, env=_worker_env(leg), cwd=run.work)
        last_case = None; case_cpu0 = proc_cpu_seconds(p.pid) or 0.0; case_wall0 = time.time(); blocked_samples = 0
        last_cpu = case_cpu0; last_cpu_change = time.time(); last_tree_cpu = None
        verdict = None
        while True:
            try:
                p.wait(timeout=0.5); break
            except subprocess.TimeoutExpired:
                pass
            now = time.time()
            c = read_prog(prog)
            cpu = proc_cpu_seconds(p.pid)
            if cpu is None: continue
            if cpu != last_cpu: last_cpu = cpu; last_cpu_change = now; blocked_samples = 0
            if c != last_case:
                last_case = c; case_cpu0 = cpu; case_wall0 = now; blocked_samples = 0
            budget = leg.cpu_budget * (40 if leg.valgrind else 1)
            if cpu - case_cpu0 > budget:
                verdict = ('cpu-budget', 'case consumed more than %.0f CPU-seconds' % budget); break
            if now - last_cpu_change > 3.0 and all_threads_blocked_untimed(p.pid):
                tc = tree_cpu_seconds(p.pid)
                if tc is not None and tc != last_tree_cpu:      # a child consumed CPU since the last sample: still running
                    last_tree_cpu = tc; blocked_samples = 0
                    continue
                blocked_samples += 1
                if blocked_samples >= 6:   # 3 s of consecutive samples
                    verdict = ('deadlock', 'every thread blocked without a timeout, no CPU consumed, 6 consecutive samples'); break
            else:
                if now - last_cpu_change <= 3.0: blocked_samples = 0
            # per-case wall watchdog: only for a case that is *stalled* (hardly any CPU consumed over the window); a case that is merely slow
            # because the machine is oversubscribed keeps running and is bounded by the CPU budget above and by the run deadline
            case_wall = now - case_wall0
            if now > deadline or (case_wall > leg.stall_wall * (40 if leg.valgrind else 1) and (cpu - case_cpu0) < 0.05 * case_wall):
                verdict = ('watchdog', 'wall-clock watchdog (%.0fs on one case with <5%% CPU, or run deadline)' % leg.stall_wall); break
        if verdict is not None:
            stacks = ''
            if verdict[0] in ('deadlock', 'cpu-budget'):
                stacks = gdb_stacks(p.pid)
            try: p.kill()
            except Exception: pass
            p.wait()
        rc = p.returncode
        text = ''
        try:
            with open(err, 'r', errors='replace') as f: text = f.read()
        except Exception: pass
        collect_output(run, leg, out)
        bad, allowed = recoverable_ubsan_reports(text)
        with run.lock:
            for k, v in allowed.items(): run.allow_hits[k] = run.allow_hits.get(k, 0) + v
        if verdict is None and rc == 0:
            for l in bad[:3]:
                m = re.search(r'([\w.]+):\d+:\d+: runtime error: (.*)', l)
                msg = re.sub(r'0x[0-9a-f]+', 'ADDR', m.group(2)) if m else l; msg = re.sub(r'-?\d+', 'N', msg)
                run.add_violation(leg, '%s|ubsan-%s|%s' % (leg.name, msg[:80], m.group(1) if m else '?'), None, l, args)
            cur = end
            break
        failing = read_prog(prog)
        note = read_prog_note(prog)
        if failing is not None and failing > cur:
            with run.lock:
                m = run.summaries.setdefault(leg.name, dict(cases=0, stats={}, samples=[], violkeys={}, distinct=0, nontrivial=0, workers=0))
                m['cases'] += failing - cur; m['stats']['cases_before_a_crash'] = m['stats'].get('cases_before_a_crash', 0) + failing - cur
        if verdict is not None and verdict[0] == 'watchdog':
            with run.lock: run.inconclusive.append('%s worker %d: %s at case %s' % (leg.name, widx, verdict[1], failing))
            # one automatic re-run of the affected case is done by the caller through replay; here we skip it
            if failing is None: break
            cur = failing + 1; part += 1; restarts += 1
            if time.time() > deadline: break
            continue
        if verdict is not None:
            key = '%s|%s' % (leg.name, verdict[0]); detail = verdict[1] + ('\nnote: ' + note if note else '') + '\n' + stacks + '\n' + text[-1500:]
        else:
            kind, where, excerpt = crash_signature(text, rc)
            if kind.startswith('exit-3') or (kind == 'exit-2'):
                with run.lock: run.inconclusive.append('%s worker %d: harness usage/setup failure rc=%s: %s' % (leg.name, widx, rc, text[-400:]))
                break
            key = '%s|%s|%s' % (leg.name, kind, where); detail = ('note: ' + note + '\n' if note else '') + excerpt
            if where.startswith('HARNESS:') or kind == 'harness-abort':
                with run.lock: run.inconclusive.append('%s worker %d: harness bug %s %s at case %s\n%s' % (leg.name, widx, kind, where, failing, excerpt[:1500]))
                if failing is None: break
                cur = failing + 1; part += 1; restarts += 1
                continue
        run.add_violation(leg, key, failing, detail, [a for a in args])
        if failing is None:
            break
        with run.lock:
            same = len([v for v in run.violations if v['key'] == key])
        if same > 40:
            with run.lock: run.stopped_early.append('%s worker %d stopped after key %s was seen %d times' % (leg.name, widx, key, same))
            break
        cur = failing + 1; part += 1; restarts += 1
        if restarts > 400:
            with run.lock: run.inconclusive.append('%s worker %d: more than 400 crashes, stopped' % (leg.name, widx))
            break


def gdb_stacks(pid):
    try:
        r = subprocess.run(['gdb', '-p', str(pid), '-batch', '-ex', 'thread apply all bt 12'], stdout=subprocess.PIPE, stderr=subprocess.DEVNULL, text=True, timeout=30)
        keep = [l for l in r.stdout.splitlines() if l.startswith('#') or l.startswith('Thread ')]
        return '\n'.join(keep[:80])
    except Exception as e:
        return '(gdb unavailable: %s)' % e


def read_prog(path):
    try:
        with open(path) as f: return int(f.readline().strip())
    except Exception:
        return None


def read_prog_note(path):
    try:
        with open(path) as f:
            f.readline(); return f.readline().strip()
    except Exception:
        return ''


def collect_output(run, leg, out):
    try:
        f = open(out, 'r', errors='replace')
    except Exception:
        return
    summary = None
    with f:
        for line in f:
            line = line.strip()
            if not line: continue
            try: j = json.loads(line)
            except Exception: continue
            if j.get('t') == 'viol':
                run.add_violation(leg, '%s|%s' % (leg.name, j['key']), j.get('case'), j.get('detail', ''), None)
            elif j.get('t') == 'summary':
                summary = j
    # cases executed before a crash are not summarised by the dead worker; count them from the prog file in caller
    dg = set()
    try:
        with open(out + '.dg', 'rb') as f: data = f.read()
        dg = set(struct.unpack('<%dQ' % (len(data) // 8), data[:len(data) // 8 * 8]))
    except Exception:
        pass
    with run.lock:
        run.digests.setdefault(leg.name, set()).update(dg)
        m = run.summaries.setdefault(leg.name, dict(cases=0, stats={}, samples=[], violkeys={}, distinct=0, nontrivial=0, workers=0))
        if summary:
            m['cases'] += summary.get('cases', 0); m['workers'] += 1
            for k, v in summary.get('stats', {}).items():
                if k.startswith('max_'): m['stats'][k] = max(m['stats'].get(k, 0), v)
                else: m['stats'][k] = m['stats'].get(k, 0) + v
            for k, v in summary.get('violkeys', {}).items(): m['violkeys'][k] = m['violkeys'].get(k, 0) + v
            if len(m['samples']) < 8: m['samples'] += summary.get('samples', [])[:2]
            m['distinct'] += summary.get('distinct', 0); m['nontrivial'] += summary.get('nontrivial', 0)


def run_leg(run, leg, total, deadline, pool_sem):
    workers = max(1, min(leg.workers, total // max(1, leg.per_worker_min)))
    per = (total + workers - 1) // workers
    threads = []
    frm = 0; w = 0
    while frm < total:
        cnt = min(per, total - frm)
        def job(w=w, frm=frm, cnt=cnt):
            with pool_sem:
                try:
                    run_chunk(run, leg, w, frm, cnt, deadline)
                except Exception as e:
                    import traceback
                    with run.lock: run.inconclusive.append('%s worker %d: supervisor exception %s' % (leg.name, w, traceback.format_exc()[-800:]))
        t = threading.Thread(target=job); t.start(); threads.append(t)
        frm += cnt; w += 1
    return threads


def load_known():
    p = os.path.join(VERIF, 'known_findings.json')
    try:
        with open(p) as f: return json.load(f).get('findings', [])
    except Exception:
        return []


def validate_evidence(ev):
    """minimal structural validation (jsonschema is used additionally when importable)."""
    for k in ('property_id', 'tier', 'seed', 'level', 'coverage', 'wall_s'):
        if k not in ev: raise ValueError('evidence lacks ' + k)
    c = ev['coverage']
    if ev['level'] in ('exploration', 'fault_enumeration'):
        for k in ('evaluations', 'distinct_nontrivial', 'rule', 'samples'):
            if k not in c: raise ValueError('coverage lacks ' + k)
    try:
        import jsonschema
        with open('/root/.vp/EVIDENCE.schema.json') as f: jsonschema.validate(ev, json.load(f))
    except ImportError:
        pass
    except FileNotFoundError:
        pass


def main_check(prop, spec, tier, seed, replay=None):
    """spec: dict(level, legs=[Leg], rule, assumptions, min_distinct, design_ref, post=callable(run)->None)"""
    t0 = time.time()
    work = os.path.join(OUTROOT, '_work', prop, tier if not replay else 'replay')
    shutil.rmtree(work, ignore_errors=True)
    os.makedirs(os.path.join(work, 'violations'), exist_ok=True)
    legs = spec['legs']
    if replay:
        return do_replay(prop, spec, replay, work)
    # build every needed flavour from /repo's current working tree
    by_fl = {}
    for l in legs: by_fl.setdefault(l.flavour, set()).add(l.harness)
    for fl, hs in sorted(by_fl.items()):
        rc, out = build(fl, list(hs))
        if rc != 0:
            print(out[-3000:])
            print('INCONCLUSIVE property=%s build of flavour %s failed' % (prop, fl))
            return 2
    run = Run(prop, tier, seed, work)
    wall_limit = spec.get('wall_quick', 1500) if tier == 'quick' else spec.get('wall_thorough', 6 * 3600)
    deadline = time.time() + wall_limit      # the watchdog starts after the build
    sem = threading.Semaphore(int(os.environ.get('VERIF_JOBS', '16')))
    threads = []
    for leg in legs:
        total = leg.quick if tier == 'quick' else leg.thorough
        if total <= 0: continue
        threads += run_leg(run, leg, total, deadline, sem)
    for t in threads: t.join()
    if spec.get('post'):
        try: spec['post'](run)
        except Exception as e:
            run.inconclusive.append('post-processing failed: %r' % e)
    # ---- verdicts
    known = [k for k in load_known() if k.get('property') == prop]
    open_hits = {}; unlisted = []
    for v in run.violations:
        hit = None
        for k in known:
            if k.get('status') == 'open' and re.search(k['key_regex'], v['key']):
                hit = k; break
        if hit is not None: open_hits.setdefault(hit['id'], [hit, 0])[1] += 1
        else: unlisted.append(v)
    for fid, (k, n) in sorted(open_hits.items()):
        print('KNOWN-FINDING: property=%s %s [%s, %d occurrence(s) this run]' % (prop, k['what'], fid, n))
    # dedupe unlisted by key
    seen = {}
    for v in unlisted: seen.setdefault(v['key'], []).append(v)
    vi = 0
    for key, vs in sorted(seen.items()):
        v = vs[0]; v['occurrences'] = len(vs); v['cases'] = [x['case'] for x in vs[:20]]
        path = os.path.join(work, 'violations', 'v%03d.json' % vi); vi += 1
        with open(path, 'w') as f: json.dump(v, f, indent=1)
        print('VIOLATION property=%s replay=%s' % (prop, path))
        print('  key: %s  (x%d)  first case: %s' % (key, len(vs), v['case']))
        for dl in (v['detail'] or '').splitlines()[:12]: print('  | ' + dl)
    # ---- evidence
    evaluations = sum(s['cases'] for s in run.summaries.values())
    # distinct non-trivial cases: union of the workers' digest sidecars per leg (distinct ACROSS workers; each sidecar is capped, so this
    # can only under-count); the plain sum of the workers' own counts is kept per leg for comparison
    allnt = set()
    for d in run.digests.values(): allnt |= d      # a case replayed by another leg (e.g. under memcheck) is counted once
    nontrivial = len(allnt)
    samples = []
    for name, s in sorted(run.summaries.items()):
        for x in s['samples'][:3]: samples.append({'leg': name, 'case': x})
    legs_cov = {}
    for name, s in sorted(run.summaries.items()):
        legs_cov[name] = dict(cases=s['cases'], distinct=s['distinct'], nontrivial_sum_of_worker_counts=s['nontrivial'],
                              distinct_nontrivial_across_workers=len(run.digests.get(name, ())), stats=s['stats'])
    min_distinct = spec.get('min_distinct', 2)
    for leg in legs:
        total = leg.quick if tier == 'quick' else leg.thorough
        if total <= 0: continue
        got = run.summaries.get(leg.name, {}).get('cases', 0)
        crashed = len([v for v in run.violations if v['leg'] == leg.name and v.get('args')])
        need = leg.min_cases if leg.min_cases is not None else int(total * 0.9) - crashed
        if got < need and time.time() < deadline:
            run.inconclusive.append('leg %s executed %d of %d cases' % (leg.name, got, total))
        elif got < need:
            run.inconclusive.append('leg %s executed %d of %d cases before the wall-clock limit' % (leg.name, got, total))
    for name, mins in spec.get('min_stats', {}).items():
        s = run.summaries.get(name, {}).get('stats', {})
        for k, mv in mins.items():
            mv = mv if tier == 'quick' else mv
            if s.get(k, 0) < mv: run.inconclusive.append('leg %s observed %s=%d < required %d' % (name, k, s.get(k, 0), mv))
    if nontrivial < min_distinct: run.inconclusive.append('only %d distinct non-trivial cases' % nontrivial)
    ev = dict(property_id=prop, tier=tier, seed=seed, level=spec['level'],
              coverage=dict(evaluations=max(evaluations, 0), distinct_nontrivial=nontrivial, rule=spec['rule'], samples=samples or ['(none)'],
                            legs=legs_cov, allow_listed_reports=run.allow_hits,
                            known_findings_seen={fid: n for fid, (k, n) in open_hits.items()},
                            inconclusive=run.inconclusive[:20], violation_keys=sorted(seen.keys())[:50]),
              assumptions=spec.get('assumptions', []), wall_s=round(time.time() - t0, 2), violations=len(seen))
    if spec.get('extra_coverage'):
        try: ev['coverage'].update(spec['extra_coverage'](run))
        except Exception as e: run.inconclusive.append('extra coverage failed: %r' % e)
    os.makedirs(os.path.join(OUTROOT, 'evidence'), exist_ok=True)
    try:
        if ev['coverage']['evaluations'] >= 1 and nontrivial >= 2:
            validate_evidence(ev)
        with open(os.path.join(OUTROOT, 'evidence', prop + '.json'), 'w') as f: json.dump(ev, f, indent=1, sort_keys=True)
    except Exception as e:
        print('evidence invalid: %r' % e); run.inconclusive.append('evidence invalid')
    print('%s %s seed=%d: %d cases, %d distinct non-trivial, %d unlisted violation key(s), %d known finding(s), %.1fs' %
          (prop, tier, seed, evaluations, nontrivial, len(seen), len(open_hits), time.time() - t0))
    for name, s in sorted(legs_cov.items()):
        st = ' '.join('%s=%s' % kv for kv in sorted(s['stats'].items())[:14])
        print('  leg %-14s cases=%-8d %s' % (name, s['cases'], st))
    if seen: return 1
    if run.inconclusive:
        for x in run.inconclusive[:10]: print('INCONCLUSIVE property=%s %s' % (prop, x))
        return 2
    return 0


def do_replay(prop, spec, path, work):
    with open(path) as f: v = json.load(f)
    leg = None
    for l in spec['legs']:
        if l.name == v['leg']: leg = l
    if leg is None:
        print('replay: unknown leg %s' % v['leg']); return 2
    rc, out = build(leg.flavour, [leg.harness])
    if rc != 0:
        print(out[-2000:]); return 2
    if v.get('case') is None:
        print('replay: violation has no case number'); return 2
    run = Run(prop, 'replay', v['seed'], work)
    run_chunk(run, leg, 0, int(v['case']), 1, time.time() + 1800)
    same = [x for x in run.violations if x['key'] == v['key']]
    other = [x for x in run.violations if x['key'] != v['key']]
    for x in run.violations:
        print('replayed: key=%s case=%s' % (x['key'], x['case']))
        for dl in (x['detail'] or '').splitlines()[:25]: print('  | ' + dl)
    if same:
        print('VIOLATION property=%s replay=%s' % (prop, path)); return 1
    if other:
        print('VIOLATION property=%s replay=%s (different key on replay)' % (prop, path)); return 1
    print('replay: case %s of leg %s did not fail again' % (v['case'], v['leg']))
    return 0
