#!/usr/bin/env python3
"""py/wire_peer.py -- Python side of the C08 harness (harness/h_wire.cpp).

Drives the repository's UNMODIFIED lang/python3/message.py (and message_transceiver_thread.py) plus the independent
reference codec ref/codec.py.  Started by h_wire as a child process, once per worker:

  wire_peer.py --repo /repo [--input FILE]      wire mode: one JSON request per line on stdin (or FILE, e.g. the
                                                side file written by h_wire --opt emit=PATH), one verdict line each
  wire_peer.py --repo /repo --echo PORT         frame mode: connect message_transceiver_thread to 127.0.0.1:PORT and
                                                echo every received Message back unchanged

Request : {"case":k, "script":{what,fields:[{n,t,v}]}, "cpp":"<hex of the C++ bytes>", "nopy":"<reason>"|"",
           "prev":{script}}   (optional: the Message object the C++ bytes are parsed INTO already holds this content)
          {"cmd":"example"}    -> message.py's own documentation example (its __main__ test stub), flattened
Verdict : R \\t case \\t key-or-'-' \\t detail \\t name=n,name=n,... \\t hex-of-python-native-bytes-or-'-'
A verdict key is a stable classifier; the harness turns it into vh::viol(key, detail).
"""
import sys, os, json, struct, math, array, traceback

HERE = os.path.dirname(os.path.abspath(__file__))
sys.path.insert(0, os.path.join(os.path.dirname(HERE), 'ref'))
import codec as ref   # noqa: E402


def arg(name, default=None):
    if name in sys.argv:
        i = sys.argv.index(name)
        if i + 1 < len(sys.argv): return sys.argv[i + 1]
    return default


REPO = arg('--repo', os.environ.get('VERIF_REPO', '/repo'))
sys.path.insert(0, os.path.join(REPO, 'lang', 'python3'))
import message   # noqa: E402   (the repository's file, unmodified)


# ------------------------------------------------------------------ helpers
def f32(bits): return struct.unpack('<f', struct.pack('<I', bits))[0]
def f64(bits): return struct.unpack('<d', struct.pack('<Q', bits))[0]
def is_nan32(bits): return (bits & 0x7F800000) == 0x7F800000 and (bits & 0x007FFFFF) != 0


def same_float(got, want):
    if math.isnan(want): return math.isnan(got)
    return got == want and math.copysign(1.0, got) == math.copysign(1.0, want)


def window(b, i):
    lo = max(0, i - 24)
    return b[lo:i + 12].hex()


def describe_diff(tag_a, a, tag_b, b):
    i = ref.first_difference(a, b)
    return ('%s %d bytes, %s %d bytes, first difference at offset %d = %s | %s ...%s | %s ...%s' %
            (tag_a, len(a), tag_b, len(b), i, ref.locate(a if i < len(a) else b, i), tag_a, window(a, i), tag_b, window(b, i)))


def has_nonascii_name(model, nested_only=False, depth=0):
    what, fields = model
    for name, t, items in fields:
        if (depth > 0 or not nested_only) and any(c >= 0x80 for c in name): return True
        if t == 'msg':
            for it in items:
                if has_nonascii_name(it, nested_only, depth + 1): return True
    return False


ARR = {'bool': 'b', 'i8': 'b', 'i16': 'h', 'i32': 'i', 'i64': 'q', 'f32': 'f', 'f64': 'd'}
PUT = {'bool': 'PutBool', 'i8': 'PutInt8', 'i16': 'PutInt16', 'i32': 'PutInt32', 'i64': 'PutInt64', 'f32': 'PutFloat',
       'f64': 'PutDouble', 'pt': 'PutPoint', 'rc': 'PutRect', 'str': 'PutString', 'msg': 'PutMessage'}
GET = {'bool': 'GetBools', 'i8': 'GetInt8s', 'i16': 'GetInt16s', 'i32': 'GetInt32s', 'i64': 'GetInt64s', 'f32': 'GetFloats',
       'f64': 'GetDoubles', 'pt': 'GetPoints', 'rc': 'GetRects', 'str': 'GetStrings', 'msg': 'GetMessages'}


def build_native(script, variant, stats):
    """The way a Python user builds a Message: Put*() with lists, arrays or bare items (from the script JSON)."""
    what, fields = ref.from_script(script)
    m = message.Message(what)
    for fi, (name, t, items) in enumerate(fields):
        n = name.decode('utf-8'); sf = script['fields'][fi]
        v = (variant + fi) % 3          # 0: python list, 1: array.array where the class supports it, 2: bare item if single
        if t in ('bool', 'i8', 'i16', 'i32', 'i64'):
            vals = [bool(x) for x in items] if (t == 'bool' and v != 1) else list(items)
            if v == 1: vals = array.array(ARR[t], items); stats['py_built_from_array'] = stats.get('py_built_from_array', 0) + 1
        elif t == 'f32':
            if v == 1 or any(is_nan32(x) for x in items):   # NaN payloads: float32 -> Python float -> float32 is not bit-exact
                vals = array.array('f'); vals.frombytes(b''.join(struct.pack('<I', x) for x in items))
            else:
                vals = [f32(x) for x in items]
        elif t == 'f64':
            vals = [f64(x) for x in items]
            if v == 1: vals = array.array('d', vals)
        elif t == 'pt' or t == 'rc':
            vals = [tuple(f32(x) for x in it) for it in items]
        elif t == 'str':
            vals = [x.decode('utf-8') for x in items]
        elif t == 'raw':
            vals = list(items)
        elif t.startswith('#'):
            if sf.get('pystr'): vals = [x[:-1].decode('utf-8') for x in items]; stats['py_str_items_in_user_typed_field'] = stats.get('py_str_items_in_user_typed_field', 0) + len(items)
            else: vals = list(items)
        elif t == 'msg':
            vals = [build_native(x, variant + 1, stats) for x in sf['v']]
        else:
            raise ValueError('script type ' + t)
        if v == 2 and len(items) == 1 and not isinstance(vals, array.array):
            vals = vals[0]; stats['py_built_from_bare_item'] = stats.get('py_built_from_bare_item', 0) + 1
        if t == 'raw' or t.startswith('#'): m.PutFieldContents(n, ref.type_code(t), vals)
        else: getattr(m, PUT[t])(n, vals)
    return m


def check_content(m, model, path):
    """Content of a parsed message.Message against the script, through the class's own getters.  Returns None or why."""
    what, fields = model
    if m.what != what: return '%s: what is %r, script says %r' % (path, m.what, what)
    names = m.GetFieldNames()
    want_names = [f[0].decode('utf-8') for f in fields]
    if names != want_names: return '%s: field names/order %r, script says %r' % (path, names[:12], want_names[:12])
    for name, t, items in fields:
        n = name.decode('utf-8'); here = '%s/%r' % (path, n)
        tc = m.GetFieldType(n)
        if tc != ref.type_code(t): return '%s: type code %r, script says %s' % (here, tc, t)
        got = m.GetFieldContents(n, tc) if (t == 'raw' or t.startswith('#')) else getattr(m, GET[t])(n, None)
        if got is None: return '%s: typed getter finds nothing' % here
        if len(got) != len(items): return '%s: %d items, script says %d' % (here, len(got), len(items))
        if items and m.GetFieldItem(n, tc, None, len(items) - 1) is None: return '%s: GetFieldItem(last) finds nothing' % here
        if not items: pass   # a zero-item field: present (name, type), no items
        for i, want in enumerate(items):
            g = got[i]
            if t in ('bool', 'i8', 'i16', 'i32', 'i64'): ok = (int(g) == int(want))
            elif t == 'f32': ok = same_float(g, f32(want))
            elif t == 'f64': ok = same_float(g, f64(want))
            elif t in ('pt', 'rc'): ok = len(g) == len(want) and all(same_float(a, f32(b)) for a, b in zip(g, want))
            elif t == 'str': ok = (g == want.decode('utf-8'))
            elif t == 'raw' or t.startswith('#'): ok = (bytes(g) == want)
            else:
                why = check_content(g, want, '%s[%d]' % (here, i))
                if why: return why
                ok = True
            if not ok: return '%s[%d]: getter gives %r, script says %r' % (here, i, g, want)
    return None


def size_defect(m):
    """True iff FlattenedSize() of m or of a Message nested in it disagrees with what Flatten() writes (the symptom of the
    repaired field-name-length defect): only then is a difference attributed to that defect's key."""
    try:
        if m.FlattenedSize() != len(m.GetFlattenedBuffer()): return True
        for n in m.GetFieldNames():
            if m.GetFieldType(n) == message.B_MESSAGE_TYPE:
                for sub in m.GetMessages(n):
                    if size_defect(sub): return True
    except Exception:
        pass
    return False


def handle(req):
    stats = {}; key = None; detail = ''; pyhex = '-'
    cpp = bytes.fromhex(req['cpp'])
    model = ref.from_script(req['script'])

    def fail(k, d):
        nonlocal key, detail
        if key is None: key = k; detail = d

    # ---- 1. the documented layout (reference codec): encode the script, decode the C++ bytes
    try:
        br = ref.encode(model); stats['ref_encoded'] = 1
        if br != cpp: fail('ref|cpp-bytes-vs-documented-layout', describe_diff('c++', cpp, 'documented', br))
        try:
            dec = ref.decode(cpp); stats['ref_decoded'] = 1
            if dec != model: fail('ref|decode-of-cpp-bytes-content', 'reference decoder reads other content than the script from the C++ bytes')
            elif ref.encode(dec) != cpp: fail('ref|reencode-of-cpp-bytes', 'reference re-encoding differs')
        except ref.Malformed as e:
            fail('ref|cpp-bytes-malformed', 'reference decoder: %s' % e)
    except Exception:
        sys.stderr.write('HARNESS-ABORT: reference codec exception\n' + traceback.format_exc()); sys.stderr.flush(); os._exit(2)

    # ---- 2. lang/python3/message.py
    nopy = req.get('nopy') or ''
    if nopy:
        stats['py_skipped_' + nopy] = 1
    else:
        nonascii_any = has_nonascii_name(model); nonascii_nested = has_nonascii_name(model, nested_only=True)
        DEFECT = 'py|flattenedsize-nonascii-fieldname'
        try:
            m = build_native(req['script'], int(req.get('case', 0)), stats); bp = m.GetFlattenedBuffer(); fs = m.FlattenedSize(); stats['py_native_built'] = 1
            if any(len(f[2]) == 0 for f in model[1]): stats['py_built_zero_item_field'] = 1
            if bp != cpp:
                pyhex = bp.hex() if len(bp) <= 300000 else '-'
                fail(DEFECT if (nonascii_nested and size_defect(m)) else 'py|bytes-python-vs-cpp', describe_diff('c++', cpp, 'python', bp))
            elif fs != len(bp):
                fail(DEFECT if nonascii_any else 'py|flattenedsize-vs-flatten', 'FlattenedSize() says %d, Flatten() writes %d bytes' % (fs, len(bp)))
        except Exception as e:
            fail('py|exception-in-native-build', '%r\n%s' % (e, traceback.format_exc()[-600:]))
        try:
            # the target of the parse is a fresh Message or (when the harness sent a "prev" script) one that already holds content
            used = ''
            if req.get('prev') is not None:
                p = build_native(req['prev'], int(req.get('case', 0)) + 1, {}); used = '|used-target'; stats['py_parse_into_used_target'] = 1
                if not model[1]: stats['py_parse_fieldless_into_used_target'] = 1
            else:
                p = message.Message()
            p.SetFromFlattenedBuffer(cpp); stats['py_parsed_cpp_bytes'] = 1
            why = check_content(p, model, '')
            if why: fail('py|parse-of-cpp-bytes-content' + used, why)
            back = p.GetFlattenedBuffer()
            if back != cpp: fail(DEFECT if (nonascii_nested and size_defect(p)) else 'py|reflatten-of-cpp-bytes' + used, describe_diff('c++', cpp, 'python', back))
            elif p.FlattenedSize() != len(cpp) and not nonascii_any: fail('py|flattenedsize-vs-flatten', 'after parsing: FlattenedSize() %d, bytes %d' % (p.FlattenedSize(), len(cpp)))
        except Exception as e:
            fail('py|parse-of-cpp-bytes-exception', '%r\n%s' % (e, traceback.format_exc()[-600:]))
    return key, detail, stats, pyhex


def example_message(data_as_bytes=False):
    """message.py's own documentation example (the test stub under __main__), verbatim; with data_as_bytes the items of
    the user-typed field are bytes objects instead of str (the verbatim form trips a size-accounting defect of message.py)."""
    tm = message.Message(666)
    tm.PutBool("bool", [True, False])
    tm.PutInt8("int8", [8, 9, 10])
    tm.PutInt16("int16", [16, 18, 19])
    tm.PutInt32("int32", [32, 31, 30])
    tm.PutInt64("int64", [64, 63, 62, -20, -25])
    tm.PutString("string", ["stringme!", "strungme!", "strongme!"])
    tm.PutFloat("float", [3.14159, 6.141, 9.999, 2.1, 4])
    tm.PutDouble("double", [2.7172, 3.4, 5.6, -1.0])
    tm.PutPoint("point", [(6.5, 7.5), (9, 10), (11, 15)])
    tm.PutRect("rect", [(9.1, 10, 11, 12.5), (1, 2, 3, 4), (2, 3, 4, 5)])
    tm.PutFieldContents("data", 555, [b"testing...", b"stuff", b"out"] if data_as_bytes else ["testing...", "stuff", "out"])
    tm.CPutBool("cbooltrue", True)
    tm.CPutBool("cboolfalse", False)
    tm.CPutString("cstring", "")
    tm.CPutString("cstring2", "ok")
    tm.CPutPoint("cpoint", (0.0, 0.0))
    tm.CPutRect("crect", (0.0, 0.0, 0.0, 0.0))
    tm.CPutRect("crect2", (0.0, 0.0, 0.0, 1.0))
    subMsg = message.Message(777)
    subMsg.PutString("hola", "senor")
    tm.PutMessage("submsg", subMsg)
    return tm


def clean(s):
    return s.replace('\t', ' ').replace('\r', ' ').replace('\n', ' || ')


def wire_main():
    path = arg('--input')
    inp = open(path, 'rb') if path else sys.stdin.buffer
    out = sys.stdout
    out.write('READY python %d.%d message.py=%s\n' % (sys.version_info[0], sys.version_info[1], message.__file__)); out.flush()
    for raw in inp:
        raw = raw.strip()
        if not raw: continue
        try:
            req = json.loads(raw.decode('utf-8'))
        except Exception as e:
            sys.stderr.write('HARNESS-ABORT: unreadable request line: %r\n' % e); sys.stderr.flush(); os._exit(2)
        if req.get('cmd') == 'example':
            tm = example_message(bool(req.get('data_as_bytes')))
            out.write('E\t%s\t%d\n' % (tm.GetFlattenedBuffer().hex(), tm.FlattenedSize())); out.flush(); continue
        key, detail, stats, pyhex = handle(req)
        out.write('R\t%s\t%s\t%s\t%s\t%s\n' % (req.get('case', -1), key or '-', clean(detail)[:3000] or '-',
                                             ','.join('%s=%d' % kv for kv in sorted(stats.items())) or '-', pyhex))
        out.flush()


def echo_main(port):
    import threading
    import message_transceiver_thread as mtt

    def hook(a):   # an exception that escapes the transceiver thread: report it and die, the harness sees the closed socket
        sys.stdout.write('THREAD-EXCEPTION %s\n' % clean(''.join(traceback.format_exception(a.exc_type, a.exc_value, a.exc_traceback))[-1500:])); sys.stdout.flush()
        os._exit(4)
    threading.excepthook = hook
    t = mtt.MessageTransceiverThread('127.0.0.1', port)
    t.start()
    got = 0
    while True:
        ev = t.GetNextIncomingEvent(True)          # blocks without polling: an idle peer consumes no CPU at all
        if ev is None: continue
        if ev == mtt.MTT_EVENT_CONNECTED:
            sys.stdout.write('CONNECTED\n'); sys.stdout.flush(); continue
        if ev == mtt.MTT_EVENT_DISCONNECTED:
            sys.stdout.write('DISCONNECTED after %d messages\n' % got); sys.stdout.flush(); break
        t.SendOutgoingMessage(ev); got += 1
    try: t.Destroy()
    except Exception: pass
    os._exit(0)


if __name__ == '__main__':
    p = arg('--echo')
    if p is not None: echo_main(int(p))
    else: wire_main()
