#include "regex/StringMatcher.h"
#include "util/TimeUtilityFunctions.h"
#include "system/SetupSystem.h"
#include <string>
#include <cstdio>
using namespace muscle;
int main(int argc,char**argv){ setvbuf(stdout,NULL,_IONBF,0); CompleteSetupSystem css; const char*p=argc>1?argv[1]:"(*)(*)(*)\\2\\3\\4b"; StringMatcher sm; status_t r=sm.SetPattern(p,true); printf("[%s] compile %s\n",p,r()); for(int n: {20,40,60,80,100,120,160}){ std::string s(n,'a'); uint64 t0=GetRunTime64(); bool m=sm.Match(s.c_str()); uint64 t1=GetRunTime64(); printf("    a^%d: match=%d in %.1f ms\n",n,(int)m,(t1-t0)/1000.0); if (t1-t0>20000000) break; } return 0; }
