// C09 probe: population oscillating across the 65535/65536 (and 255/256) entry boundaries where the internal index width changes
#include "util/Hashtable.h"
#include "system/SetupSystem.h"
#include <list>
#include <unordered_map>
#include <cstdio>
using namespace muscle;
static uint64_t rs; static uint64_t rnd(){ rs += 0x9e3779b97f4a7c15ULL; uint64_t z=rs; z=(z^(z>>30))*0xbf58476d1ce4e5b9ULL; z=(z^(z>>27))*0x94d049bb133111ebULL; return z^(z>>31);} static uint32_t R(uint32_t n){return (uint32_t)(rnd()%n);}
int main(int argc,char**argv){ CompleteSetupSystem css; rs=argc>1?atoll(argv[1]):1; uint32 center=argc>2?atoi(argv[2]):65536; long nops=argc>3?atol(argv[3]):400000; int bad=0;
 Hashtable<uint32,uint32> t; std::list<std::pair<uint32,uint32>> order; std::unordered_map<uint32,std::list<std::pair<uint32,uint32>>::iterator> idx; uint32 nextKey=1; long audits=0,crossUp=0,crossDown=0; bool above=false; uint32 span=40;
 auto put=[&](uint32 k,uint32 v){ auto it=idx.find(k); if (it!=idx.end()) it->second->second=v; else { order.push_back({k,v}); idx[k]=std::prev(order.end()); } if (t.Put(k,v).IsError()){bad++; printf("Put failed\n");} };
 auto audit=[&](const char*w){ audits++; if (t.GetNumItems()!=order.size()){bad++; printf("size %u vs %zu after %s\n",t.GetNumItems(),order.size(),w); return;} auto it=order.begin(); uint32 n=0; for(HashtableIterator<uint32,uint32> hi(t); hi.HasData(); hi++,++it,n++){ if (it==order.end()||hi.GetKey()!=it->first||hi.GetValue()!=it->second){bad++; printf("forward order mismatch at %u after %s\n",n,w); return;} } auto rit=order.rbegin(); n=0; for(HashtableIterator<uint32,uint32> hi(t,HTIT_FLAG_BACKWARDS); hi.HasData(); hi++,++rit,n++){ if (rit==order.rend()||hi.GetKey()!=rit->first){bad++; printf("backward order mismatch at %u after %s\n",n,w); return;} } for(int i=0;i<200;i++){ uint32 k=1+R(nextKey); const uint32*v=t.Get(k); auto f=idx.find(k); if ((v!=NULL)!=(f!=idx.end())||(v&&*v!=f->second->second)){bad++; printf("Get mismatch key %u after %s\n",k,w); return;} } };
 while(order.size()<center-span/2) put(nextKey++,(uint32)rnd()); audit("fill");
 for(long op=0;op<nops&&!bad;op++){ bool wantUp = (op/ (span*3)) % 2 == 0; uint32 o=R(100); const char*w="";
   if (o<(wantUp?55u:25u)) { put(R(4)?nextKey++:1+R(nextKey),(uint32)rnd()); w="Put"; }
   else if (o<80) { if (!order.empty()){ uint32 k; if (R(2)) k=order.front().first; else if (R(2)) k=order.back().first; else { k=1+R(nextKey); if (idx.find(k)==idx.end()) k=order.back().first; } auto f=idx.find(k); order.erase(f->second); idx.erase(f); if (t.Remove(k).IsError()){bad++; printf("Remove failed\n");} } w="Remove"; }
   else if (o<88) { uint32 k=1+R(nextKey); auto f=idx.find(k); status_t r=t.MoveToFront(k); if (r.IsOK()!=(f!=idx.end())){bad++; printf("MoveToFront status\n");} if (f!=idx.end()){ order.splice(order.begin(),order,f->second); } w="MoveToFront"; }
   else if (o<96) { uint32 k=1+R(nextKey); auto f=idx.find(k); status_t r=t.MoveToBack(k); if (r.IsOK()!=(f!=idx.end())){bad++; printf("MoveToBack status\n");} if (f!=idx.end()){ order.splice(order.end(),order,f->second); } w="MoveToBack"; }
   else if (o<98) { (void)t.EnsureSize((uint32)order.size()+R(3),R(2)); w="EnsureSize"; } else { (void)t.ShrinkToFit(); w="ShrinkToFit"; }
   bool nowAbove=order.size()>=center; if (nowAbove!=above){ if (nowAbove) crossUp++; else crossDown++; above=nowAbove; audit(w); } else if (R(center>1000?3000:50)==0) audit(w); }
 audit("end"); { Hashtable<uint32,uint32> c(t); if (c!=t){bad++; printf("copy differs\n");} c.Clear(); t.SwapContents(c); if (t.HasItems()||c.GetNumItems()!=order.size()){bad++; printf("swap\n");} }
 printf("done center=%u ops=%ld audits=%ld crossingsUp=%ld crossingsDown=%ld finalSize=%zu bad=%d\n",center,nops,audits,crossUp,crossDown,order.size(),bad); return bad?1:0; }
