# deadlock-proof prototype: all threads of <pid> in state S (or t/T excluded) with zero CPU delta over 3 samples
import os, sys, time, subprocess
def sample(pid):
    out={}
    for tid in os.listdir(f'/proc/{pid}/task'):
        try:
            f=open(f'/proc/{pid}/task/{tid}/stat').read()
            rest=f[f.rindex(')')+2:].split()
            out[tid]=(rest[0], int(rest[11])+int(rest[12]), open(f'/proc/{pid}/task/{tid}/wchan').read().strip())
        except Exception as e: pass
    return out
def verdict(pid, interval=1.0, samples=3):
    prev=sample(pid); quiet=0
    for i in range(samples):
        time.sleep(interval)
        if not os.path.exists(f'/proc/{pid}'): return 'exited'
        cur=sample(pid)
        allS=all(v[0]=='S' for v in cur.values())
        nodelta=all(k in prev and prev[k][1]==v[1] for k,v in cur.items())
        quiet = quiet+1 if (allS and nodelta) else 0
        prev=cur
    return ('DEADLOCK/blocked: all %d threads asleep, no CPU, wchan=%s'%(len(cur),sorted(set(v[2] for v in cur.values())))) if quiet==samples else 'running (state/CPU changed): '+str({k:(v[0],v[1]) for k,v in cur.items()})
for cmd in sys.argv[1:]:
    p=subprocess.Popen(cmd, shell=True, stdout=subprocess.DEVNULL, stderr=subprocess.DEVNULL, preexec_fn=os.setsid)
    time.sleep(1.0)
    # find the real child (shell may exec)
    print(cmd, '->', verdict(p.pid))
    os.killpg(p.pid, 9)
