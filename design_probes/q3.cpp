#include "util/Queue.h"
#include <cstdio>
#include <cstdlib>
using namespace muscle;
int main(int argc, char**argv){
  int v=atoi(argv[1]);
  Queue<int32> q; for (int i=0;i<40;i++) (void)q.AddTail(i);
  status_t r;
  if (v==0) r=q.EnsureSize(5,false,0,true);   // shrink request below item count
  else      r=q.EnsureSize(5,true,0,true);    // set-size + allowShrink
  printf("ret=%s n=%u\n", r(), q.GetNumItems());
  return 0;
}
