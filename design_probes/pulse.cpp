#include "util/PulseNode.h"
#include "system/SetupSystem.h"
#include <vector>
#include <map>
#include <set>
#include <cstdio>
#include <cstdint>
using namespace muscle;
static uint64_t rs; static uint64_t rnd(){ rs += 0x9e3779b97f4a7c15ULL; uint64_t z=rs; z=(z^(z>>30))*0xbf58476d1ce4e5b9ULL; z=(z^(z>>27))*0x94d049bb133111ebULL; return z^(z>>31);} static uint32_t R(uint32_t n){return (uint32_t)(rnd()%n);}
struct Node; static std::vector<Node*> all; static int bad=0; static uint64 curPulseTime=0; static bool inSweep=false;
struct Ev { int id; uint64 sched; uint64 call; };
static std::vector<Ev> fired; static std::vector<int> asked;
struct Node : public PulseNode { int id; uint64 req; /* what GetPulseTime returns */ uint64 lastReturned; bool valid; bool touched; int actionTarget; int action;
   Node(int i):id(i),req(MUSCLE_TIME_NEVER),lastReturned(MUSCLE_TIME_NEVER),valid(false),touched(false),actionTarget(-1),action(0){}
   virtual uint64 GetPulseTime(const PulseArgs & a) { asked.push_back(id); lastReturned=req; valid=true; return req; }
   virtual void Pulse(const PulseArgs & a) { Ev e={id,a.GetScheduledTime(),a.GetCallbackTime()}; fired.push_back(e); valid=false; 
      // scripted in-callback action
      if (action==1) { req = curPulseTime + 1 + R(20); } // implicit: after Pulse we get re-asked
      else if (action==2 && actionTarget>=0 && actionTarget<(int)all.size() && all[actionTarget]) { Node * o=all[actionTarget]; o->req = R(3)==0?MUSCLE_TIME_NEVER:curPulseTime+R(10); o->InvalidatePulseTime(); o->valid=false; o->touched=true; }
      else if (action==3) { req = MUSCLE_TIME_NEVER; }
      action = R(4); actionTarget = R(all.size()); } };
struct Mgr : public PulseNodeManager { void Recalc(PulseNode&r,uint64 now,uint64&min){CallGetPulseTimeAux(r,now,min);} void Pulse(PulseNode&r,uint64 now){CallPulseAux(r,now);} };
static bool attachedUnder(Node * n, Node * root){ PulseNode * p=n; while(p){ if (p==root) return true; p=p->GetPulseParent(); } return false; }
static bool isAncestor(Node*a, Node*b){ PulseNode*p=b; while(p){ if(p==a) return true; p=p->GetPulseParent(); } return false; }
int main(int argc,char**argv){ CompleteSetupSystem css; uint64_t seed=argc>1?strtoull(argv[1],0,0):1; int nh=argc>2?atoi(argv[2]):200; long cycles=0, fires=0;
  for (int h=0;h<nh && !bad;h++){ rs=seed*104729+h; all.clear(); Mgr mgr; Node * root=new Node(0); all.push_back(root); uint64 now=1000; int nn=1+R(30); for(int i=1;i<=nn;i++){ Node*n=new Node(i); all.push_back(n);} 
    for (int step=0; step<150 && !bad; step++) { int o=R(100);
       if (o<25) { Node*c=all[1+R(nn)]; Node*p=all[R(nn+1)]; if (c&&p&&c!=p&&!isAncestor(c,p)) { p->PutPulseChild(c); c->valid=false; } }
       else if (o<33) { Node*c=all[1+R(nn)]; if (c&&c->GetPulseParent()) { c->GetPulseParent()->RemovePulseChild(c); c->valid=false; } }
       else if (o<36) { int i=1+R(nn); if (all[i]) { delete all[i]; all[i]=NULL; } }
       else if (o<60) { Node*c=all[R(nn+1)]; if (c) { c->req = R(4)==0?MUSCLE_TIME_NEVER:(R(5)==0?now-R(50):now+R(100)); c->InvalidatePulseTime(R(2)); c->valid=false; } }
       else { // a manager cycle: recalc, check min, advance time, pulse
          asked.clear(); uint64 min=MUSCLE_TIME_NEVER; std::set<int> wasInvalid; for (auto n:all) if (n && attachedUnder(n,root) && !n->valid) wasInvalid.insert(n->id);
          mgr.Recalc(*root, now, min); cycles++;
          uint64 expMin=MUSCLE_TIME_NEVER; for (auto n:all) if (n && attachedUnder(n,root)) { if (!n->valid) {bad=1; printf("node %d attached but not asked/valid after recalc\n", n->id);} if (n->lastReturned<expMin) expMin=n->lastReturned; }
          for (int id:wasInvalid) { int c=0; for(int a:asked) if(a==id) c++; if (c!=1) {bad=1; printf("invalid node %d asked %d times\n",id,c);} }
          for (int a:asked) if (!wasInvalid.count(a)) {bad=1; printf("valid node %d was asked again\n",a);} 
          if (min!=expMin) {bad=1; printf("MIN mismatch h=%d step=%d got=%llu exp=%llu\n",h,step,(unsigned long long)min,(unsigned long long)expMin);} 
          if (bad) break;
          // advance time: either to min, past it, or before it
          if (min!=MUSCLE_TIME_NEVER && R(4)!=0) now = (min>now?min:now) + R(3)*R(30); else now += R(20);
          std::map<int,uint64> dueAtStart; for (auto n:all) if (n && attachedUnder(n,root) && n->valid && n->lastReturned<=now) dueAtStart[n->id]=n->lastReturned; for (auto n:all) if(n) n->touched=false;
          fired.clear(); curPulseTime=now; mgr.Pulse(*root, now);
          std::map<int,int> cnt; for (auto&e:fired){ cnt[e.id]++; fires++; if (e.call!=now) {bad=1; printf("callback time wrong\n");} if (!dueAtStart.count(e.id)) {bad=1; printf("node %d fired but was not due at sweep start (sched=%llu now=%llu) h=%d step=%d\n",e.id,(unsigned long long)e.sched,(unsigned long long)now,h,step);} else if (dueAtStart[e.id]!=e.sched) {bad=1; printf("node %d fired with sched %llu, requested %llu\n",e.id,(unsigned long long)e.sched,(unsigned long long)dueAtStart[e.id]);} }
          for (auto&kv:cnt) if (kv.second>1) {bad=1; printf("node %d fired %d times\n",kv.first,kv.second);} 
          for (auto&kv:dueAtStart) { Node*n=all[kv.first]; bool aff=false; { PulseNode * top=n; while(top->GetPulseParent() && top->GetPulseParent()!=root) top=top->GetPulseParent(); for (auto q:all) if (q && q->touched && (q==n || isAncestor(static_cast<Node*>(top),q))) aff=true; } if (n && !aff && !cnt.count(kv.first)) { printf("DUMP now=%llu\n",(unsigned long long)now); for (auto q:all) if(q) printf("  node %d parent=%d valid=%d lastRet=%llu req=%llu touched=%d fired=%d dueAtStart=%d\n", q->id, q->GetPulseParent()?static_cast<Node*>(q->GetPulseParent())->id:-1, (int)q->valid, (unsigned long long)q->lastReturned, (unsigned long long)q->req, (int)q->touched, cnt.count(q->id)?cnt[q->id]:0, (int)dueAtStart.count(q->id)); printf("  fired order:"); for(auto&e:fired) printf(" %d",e.id); printf("\n"); bad=1; printf("node %d was due (req=%llu now=%llu) and untouched but did not fire h=%d step=%d\n",kv.first,(unsigned long long)kv.second,(unsigned long long)now,h,step);} }
       }
    }
    for (size_t i=all.size(); i-->0;) delete all[i];
  }
  printf("done cycles=%ld fires=%ld bad=%d\n", cycles, fires, bad); return bad; }
