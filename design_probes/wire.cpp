// C08 probe: one abstract script -> built natively as C++ Message, C MMessage, C UMessage; bytes must be identical;
// cross-parse + reflatten; also dumps bytes for the python leg (wire_py.py)
#include "message/Message.h"
#include "system/SetupSystem.h"
#include "support/Point.h"
#include "support/Rect.h"
#include "lang/c/minimessage/MiniMessage.h"
#include "lang/c/micromessage/MicroMessage.h"
#include <vector>
#include <string>
#include <cstdio>
#include <cstring>
#include <cmath>
using namespace muscle;
static uint64_t rs; static uint64_t rnd(){ rs += 0x9e3779b97f4a7c15ULL; uint64_t z=rs; z=(z^(z>>30))*0xbf58476d1ce4e5b9ULL; z=(z^(z>>27))*0x94d049bb133111ebULL; return z^(z>>31);} static uint32_t R(uint32_t n){return (uint32_t)(rnd()%n);}
struct Scr; struct Fld { std::string name; uint32 type; std::vector<int64> iv; std::vector<double> dv; std::vector<std::string> sv; std::vector<Scr> mv; };
struct Scr { uint32 what; std::vector<Fld> f; };
static const uint32 TYPES[] = {B_BOOL_TYPE,B_INT8_TYPE,B_INT16_TYPE,B_INT32_TYPE,B_INT64_TYPE,B_FLOAT_TYPE,B_DOUBLE_TYPE,B_STRING_TYPE,B_POINT_TYPE,B_RECT_TYPE,B_RAW_TYPE,B_MESSAGE_TYPE};
static double RD(){ switch(R(8)){ case 0: return 0.0; case 1: return -0.0; case 2: return INFINITY; case 3: return 1e-310; case 4: return (double)(float)R(1000)/3; default: return (double)(int64)rnd()/ (double)(1+R(1000)); } }
static float RF(){ uint32 b=(uint32)rnd(); float f; if (R(4)==0){ memcpy(&f,&b,4); if (std::isnan(f)) f=1.5f; return f;} return (float)R(100000)/7.0f; }
static std::string RS(bool bin){ uint32 n = R(6)==0 ? R(300) : R(12); std::string s; for(uint32 i=0;i<n;i++) s.push_back(bin?(char)rnd():(char)('a'+R(26))); if (!bin && R(5)==0) s+="\xc3\xa9\xe2\x82\xac"; return s; }
static Scr Gen(int depth){ Scr s; s.what=(uint32)rnd(); uint32 nf=R(depth?4:7); for(uint32 i=0;i<nf;i++){ Fld f; char nm[32]; sprintf(nm,"%s%u", R(4)==0?"":"field_", i); f.name=nm; if (R(10)==0 && i==0) f.name=""; f.type=TYPES[R(12)]; if (f.type==B_MESSAGE_TYPE && depth>=3) f.type=B_INT32_TYPE; uint32 n=1+(R(4)==0?R(20):R(3));
  switch(f.type){ case B_BOOL_TYPE: for(uint32 k=0;k<n;k++) f.iv.push_back(R(2)); break; case B_INT8_TYPE: for(uint32 k=0;k<n;k++) f.iv.push_back((int8)rnd()); break; case B_INT16_TYPE: for(uint32 k=0;k<n;k++) f.iv.push_back((int16)rnd()); break; case B_INT32_TYPE: for(uint32 k=0;k<n;k++) f.iv.push_back((int32)rnd()); break; case B_INT64_TYPE: for(uint32 k=0;k<n;k++) f.iv.push_back((int64)rnd()); break;
   case B_FLOAT_TYPE: for(uint32 k=0;k<n;k++) f.dv.push_back(RF()); break; case B_DOUBLE_TYPE: for(uint32 k=0;k<n;k++) f.dv.push_back(RD()); break; case B_POINT_TYPE: for(uint32 k=0;k<2*n;k++) f.dv.push_back(RF()); break; case B_RECT_TYPE: for(uint32 k=0;k<4*n;k++) f.dv.push_back(RF()); break;
   case B_STRING_TYPE: for(uint32 k=0;k<n;k++) f.sv.push_back(RS(false)); break; case B_RAW_TYPE: for(uint32 k=0;k<n;k++) f.sv.push_back(RS(true)); break; case B_MESSAGE_TYPE: for(uint32 k=0;k<n;k++) f.mv.push_back(Gen(depth+1)); break; }
  s.f.push_back(f);} return s; }
static void CK(status_t r){ if (r.IsError()) { printf("C++ build step failed: %s\n", r()); abort(); } }
static MessageRef BuildCpp(const Scr&s){ MessageRef m=GetMessageFromPool(s.what); for(auto&f:s.f){ const char*n=f.name.c_str(); switch(f.type){
 case B_BOOL_TYPE: for(auto v:f.iv) CK(m()->AddBool(n,v!=0)); break; case B_INT8_TYPE: for(auto v:f.iv) CK(m()->AddInt8(n,(int8)v)); break; case B_INT16_TYPE: for(auto v:f.iv) CK(m()->AddInt16(n,(int16)v)); break; case B_INT32_TYPE: for(auto v:f.iv) CK(m()->AddInt32(n,(int32)v)); break; case B_INT64_TYPE: for(auto v:f.iv) CK(m()->AddInt64(n,v)); break;
 case B_FLOAT_TYPE: for(auto v:f.dv) CK(m()->AddFloat(n,(float)v)); break; case B_DOUBLE_TYPE: for(auto v:f.dv) CK(m()->AddDouble(n,v)); break; case B_POINT_TYPE: for(size_t k=0;k<f.dv.size();k+=2) CK(m()->AddPoint(n,Point((float)f.dv[k],(float)f.dv[k+1]))); break; case B_RECT_TYPE: for(size_t k=0;k<f.dv.size();k+=4) CK(m()->AddRect(n,Rect((float)f.dv[k],(float)f.dv[k+1],(float)f.dv[k+2],(float)f.dv[k+3]))); break;
 case B_STRING_TYPE: for(auto&v:f.sv) CK(m()->AddString(n,v.c_str())); break; case B_RAW_TYPE: for(auto&v:f.sv) { if (v.size()) CK(m()->AddData(n,B_RAW_TYPE,v.data(),(uint32)v.size())); else CK(m()->AddFlat(n,GetByteBufferFromPool(0))); } break; case B_MESSAGE_TYPE: for(auto&v:f.mv) CK(m()->AddMessage(n,BuildCpp(v))); break; } } return m; }
static MMessage* BuildMM(const Scr&s){ MMessage*m=MMAllocMessage(s.what); for(auto&f:s.f){ const char*n=f.name.c_str(); uint32 c; switch(f.type){
 case B_BOOL_TYPE: {c=f.iv.size(); MBool*p=MMPutBoolField(m,MFalse,n,c); for(uint32 k=0;k<c;k++) p[k]=(MBool)f.iv[k];} break; case B_INT8_TYPE: {c=f.iv.size(); int8*p=MMPutInt8Field(m,MFalse,n,c); for(uint32 k=0;k<c;k++) p[k]=(int8)f.iv[k];} break; case B_INT16_TYPE: {c=f.iv.size(); int16*p=MMPutInt16Field(m,MFalse,n,c); for(uint32 k=0;k<c;k++) p[k]=(int16)f.iv[k];} break; case B_INT32_TYPE: {c=f.iv.size(); int32*p=MMPutInt32Field(m,MFalse,n,c); for(uint32 k=0;k<c;k++) p[k]=(int32)f.iv[k];} break; case B_INT64_TYPE: {c=f.iv.size(); int64*p=MMPutInt64Field(m,MFalse,n,c); for(uint32 k=0;k<c;k++) p[k]=f.iv[k];} break;
 case B_FLOAT_TYPE: {c=f.dv.size(); float*p=MMPutFloatField(m,MFalse,n,c); for(uint32 k=0;k<c;k++) p[k]=(float)f.dv[k];} break; case B_DOUBLE_TYPE: {c=f.dv.size(); double*p=MMPutDoubleField(m,MFalse,n,c); for(uint32 k=0;k<c;k++) p[k]=f.dv[k];} break;
 case B_POINT_TYPE: {c=f.dv.size()/2; MPoint*p=MMPutPointField(m,MFalse,n,c); for(uint32 k=0;k<c;k++){p[k].x=(float)f.dv[2*k];p[k].y=(float)f.dv[2*k+1];}} break; case B_RECT_TYPE: {c=f.dv.size()/4; MRect*p=MMPutRectField(m,MFalse,n,c); for(uint32 k=0;k<c;k++){p[k].left=(float)f.dv[4*k];p[k].top=(float)f.dv[4*k+1];p[k].right=(float)f.dv[4*k+2];p[k].bottom=(float)f.dv[4*k+3];}} break;
 case B_STRING_TYPE: {c=f.sv.size(); MByteBuffer**p=MMPutStringField(m,MFalse,n,c); for(uint32 k=0;k<c;k++) p[k]=MBStrdupByteBuffer(f.sv[k].c_str());} break;
 case B_RAW_TYPE: {c=f.sv.size(); MByteBuffer**p=MMPutDataField(m,MFalse,B_RAW_TYPE,n,c); for(uint32 k=0;k<c;k++){ p[k]=MBAllocByteBuffer((uint32)f.sv[k].size(),MFalse); memcpy(&p[k]->bytes,f.sv[k].data(),f.sv[k].size());}} break;
 case B_MESSAGE_TYPE: {c=f.mv.size(); MMessage**p=MMPutMessageField(m,MFalse,n,c); for(uint32 k=0;k<c;k++) p[k]=BuildMM(f.mv[k]);} break; } } return m; }
static bool umUnsupported;
static c_status_t BuildUM(const Scr&s, UMessage*um){ c_status_t r=CB_NO_ERROR; for(auto&f:s.f){ const char*n=f.name.c_str(); uint32 c; switch(f.type){
 case B_BOOL_TYPE: { std::vector<UBool> v(f.iv.begin(),f.iv.end()); r=UMAddBools(um,n,v.data(),v.size()); } break; case B_INT8_TYPE: { std::vector<int8> v(f.iv.begin(),f.iv.end()); r=UMAddInt8s(um,n,v.data(),v.size()); } break; case B_INT16_TYPE: { std::vector<int16> v(f.iv.begin(),f.iv.end()); r=UMAddInt16s(um,n,v.data(),v.size()); } break; case B_INT32_TYPE: { std::vector<int32> v(f.iv.begin(),f.iv.end()); r=UMAddInt32s(um,n,v.data(),v.size()); } break; case B_INT64_TYPE: { std::vector<int64> v(f.iv.begin(),f.iv.end()); r=UMAddInt64s(um,n,v.data(),v.size()); } break;
 case B_FLOAT_TYPE: { std::vector<float> v(f.dv.begin(),f.dv.end()); r=UMAddFloats(um,n,v.data(),v.size()); } break; case B_DOUBLE_TYPE: r=UMAddDoubles(um,n,f.dv.data(),f.dv.size()); break;
 case B_POINT_TYPE: { c=f.dv.size()/2; std::vector<UPoint> v(c); for(uint32 k=0;k<c;k++){v[k].x=(float)f.dv[2*k];v[k].y=(float)f.dv[2*k+1];} r=UMAddPoints(um,n,v.data(),c);} break; case B_RECT_TYPE: { c=f.dv.size()/4; std::vector<URect> v(c); for(uint32 k=0;k<c;k++){v[k].left=(float)f.dv[4*k];v[k].top=(float)f.dv[4*k+1];v[k].right=(float)f.dv[4*k+2];v[k].bottom=(float)f.dv[4*k+3];} r=UMAddRects(um,n,v.data(),c);} break;
 case B_STRING_TYPE: { std::vector<const char*> v; for(auto&x:f.sv) v.push_back(x.c_str()); r=UMAddStrings(um,n,v.data(),v.size()); } break;
 case B_RAW_TYPE: for(auto&x:f.sv){ r=UMAddData(um,n,B_RAW_TYPE,x.data(),(uint32)x.size()); if (r!=CB_NO_ERROR) break; } break;
 case B_MESSAGE_TYPE: for(auto&x:f.mv){ UMessage sub=UMInlineAddMessage(um,n,x.what); if (!UMIsMessageValid(&sub)) {r=CB_ERROR; break;} r=BuildUM(x,&sub); if (r!=CB_NO_ERROR) break; } break; }
 if (r!=CB_NO_ERROR) return r; } return r; }
static void Hex(const char*t,const uint8*b,uint32 n){ printf("%s (%u):",t,n); for(uint32 i=0;i<n&&i<400;i++) printf(" %02x",b[i]); printf("\n"); }
int main(int argc,char**argv){ CompleteSetupSystem css; rs=argc>1?atoll(argv[1]):1; int N=argc>2?atoi(argv[2]):1000; FILE*dump=argc>3?fopen(argv[3],"wb"):NULL; int bad=0; long bytesTot=0; int umOK=0;
 for(int it=0;it<N&&bad<5;it++){ Scr s=Gen(0); MessageRef cm=BuildCpp(s); uint32 cs=cm()->FlattenedSize(); std::vector<uint8> cb(cs+1); cm()->FlattenToBytes(cb.data(),cs); bytesTot+=cs;
  MMessage*mm=BuildMM(s); uint32 ms=MMGetFlattenedSize(mm); std::vector<uint8> mb(ms+1); MMFlattenMessage(mm,mb.data());
  if (ms!=cs||memcmp(cb.data(),mb.data(),cs)) { bad++; printf("it=%d C++ vs Mini bytes differ\n",it); Hex("c++",cb.data(),cs); Hex("mini",mb.data(),ms); }
  // cross parse
  MMessage*mm2=MMAllocMessage(0); if (MMUnflattenMessage(mm2,cb.data(),cs)!=CB_NO_ERROR) {bad++; printf("it=%d Mini rejects C++ bytes\n",it);} else { if (!MMAreMessagesEqual(mm,mm2)) {bad++; printf("it=%d Mini parse of C++ bytes != native mini\n",it);} uint32 s2=MMGetFlattenedSize(mm2); std::vector<uint8> b2(s2+1); MMFlattenMessage(mm2,b2.data()); if (s2!=cs||memcmp(b2.data(),cb.data(),cs)) {bad++; printf("it=%d Mini reflatten differs\n",it);} }
  MMFreeMessage(mm2);
  Message back; if (back.UnflattenFromBytes(mb.data(),ms).IsError()) {bad++; printf("it=%d C++ rejects Mini bytes\n",it);} else if (!(back==*cm())) {bad++; printf("it=%d C++ parse of Mini bytes != native\n",it);}
  MMFreeMessage(mm);
  // micro
  std::vector<uint8> ub(cs+64); UMessage um; if (UMInitializeToEmptyMessage(&um,ub.data(),(uint32)ub.size(),s.what)!=CB_NO_ERROR) {bad++; printf("UM init fail\n");} else { c_status_t r=BuildUM(s,&um); if (r!=CB_NO_ERROR) { bad++; printf("it=%d UM build failed\n",it); Hex("c++",cb.data(),cs);} else { umOK++; uint32 us=UMGetFlattenedSize(&um); if (us!=cs||memcmp(UMGetFlattenedBuffer(&um),cb.data(),cs)) { bad++; printf("it=%d C++ vs Micro bytes differ\n",it); Hex("c++",cb.data(),cs); Hex("micro",UMGetFlattenedBuffer(&um),us);} } }
  // micro reads C++ bytes: spot check via iterator count
  { UMessage ur; if (UMInitializeWithExistingData(&ur,cb.data(),cs)!=CB_NO_ERROR) {bad++; printf("it=%d UM rejects C++ bytes\n",it);} else { if (UMGetWhatCode(&ur)!=s.what||UMGetNumFields(&ur)!=s.f.size()) {bad++; printf("it=%d UM what/numfields\n",it);} for(auto&f:s.f){ uint32 want = (f.type==B_POINT_TYPE)?f.dv.size()/2:(f.type==B_RECT_TYPE)?f.dv.size()/4:(uint32)(f.iv.size()+f.dv.size()+f.sv.size()+f.mv.size()); uint32 got=UMGetNumItemsInField(&ur,f.name.c_str(),f.type); if (got!=want) {bad++; printf("it=%d UM numitems field %s type %08x got %u want %u\n",it,f.name.c_str(),f.type,got,want); break;} } } }
  if (dump){ uint32 le=cs; fwrite(&le,4,1,dump); fwrite(cb.data(),1,cs,dump); }
 }
 if (dump) fclose(dump); printf("done N=%d bytes=%ld umOK=%d bad=%d\n",N,bytesTot,umOK,bad); return bad?1:0; }
