#include "system/ThreadPool.h"
#include "system/SetupSystem.h"
#include <vector>
#include <thread>
#include <mutex>
#include <atomic>
#include <cstdio>
#include <cstdint>
using namespace muscle;
static std::atomic<uint64_t> g_seq(0); static std::atomic<int> g_bad(0); static std::atomic<int> g_active(0); static std::atomic<int> g_maxActive(0);
struct Cl : public IThreadPoolClient { int id; std::mutex subLock; uint32_t nextTicket=0; std::atomic<uint32_t> handled; std::atomic<int> inHandler; uint32_t expectNext=0; bool registered=true;
   Cl(ThreadPool*tp,int i):IThreadPoolClient(tp),id(i),handled(0),inHandler(0){}
   bool Submit(){ std::lock_guard<std::mutex> g(subLock); if (!registered) return false; MessageRef m=GetMessageFromPool(1); m()->AddInt32("t",(int32)nextTicket); if (SendMessageToThreadPool(m).IsOK()) {nextTicket++; return true;} return false; }
   virtual void MessageReceivedFromThreadPool(const MessageRef & msg, uint32) { int was=inHandler.fetch_add(1); if (was!=0) {g_bad=1; printf("client %d: overlapping handlers\n",id);} int a=++g_active; int mx=g_maxActive.load(); while(a>mx && !g_maxActive.compare_exchange_weak(mx,a)){} uint32_t t=(uint32_t)msg()->GetInt32("t"); if (t!=expectNext) {g_bad=1; printf("client %d: got ticket %u expected %u\n",id,t,expectNext);} expectNext=t+1; if ((t&7)==0) std::this_thread::yield(); handled++; --g_active; inHandler.fetch_sub(1); } };
int main(int argc,char**argv){ CompleteSetupSystem css; int rounds=argc>1?atoi(argv[1]):50; long total=0;
  for (int r=0;r<rounds && !g_bad;r++){ uint32 psz=1+(r%5); g_maxActive=0; { ThreadPool pool(psz); int nc=1+(r*7)%9; std::vector<Cl*> cls; for(int i=0;i<nc;i++) cls.push_back(new Cl(&pool,i));
      std::vector<std::thread> ths; for (int t=0;t<3;t++) ths.emplace_back([&,t](){ uint64_t x=r*131+t; for (int k=0;k<2000;k++){ x=x*6364136223846793005ULL+1442695040888963407ULL; Cl*c=cls[(x>>33)%cls.size()]; c->Submit(); } });
      // unregister some clients concurrently
      std::thread un([&](){ for (size_t i=0;i<cls.size();i+=2){ std::this_thread::yield(); Cl*c=cls[i]; uint32_t sub; { std::lock_guard<std::mutex> g(c->subLock); c->registered=false; sub=c->nextTicket; } c->SetThreadPool(NULL); if (c->handled.load()!=sub) {g_bad=1; printf("client %d: unregister returned with handled=%u submitted=%u\n",c->id,c->handled.load(),sub);} } });
      for (auto&t:ths) t.join(); un.join();
      for (auto c:cls){ uint32_t sub; { std::lock_guard<std::mutex> g(c->subLock); c->registered=false; sub=c->nextTicket; } c->SetThreadPool(NULL); if (c->handled.load()!=sub) {g_bad=1; printf("final: client %d handled=%u submitted=%u\n",c->id,c->handled.load(),sub);} total+=sub; delete c; }
      if (g_maxActive.load()>(int)psz) {g_bad=1; printf("maxActive %d > pool size %u\n",g_maxActive.load(),psz);} }
  }
  printf("done total=%ld bad=%d\n", total, g_bad.load()); return g_bad; }
