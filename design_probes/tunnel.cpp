#include "iogateway/PacketTunnelIOGateway.h"
#include "iogateway/MiniPacketTunnelIOGateway.h"
#include "dataio/PacketDataIO.h"
#include "system/SetupSystem.h"
#include <vector>
#include <string>
#include <set>
#include <deque>
#include <algorithm>
#include <cstdio>
#include <cstdint>
using namespace muscle;
static uint64_t rs; static uint64_t rnd(){ rs += 0x9e3779b97f4a7c15ULL; uint64_t z=rs; z=(z^(z>>30))*0xbf58476d1ce4e5b9ULL; z=(z^(z>>27))*0x94d049bb133111ebULL; return z^(z>>31);} static uint32_t R(uint32_t n){return (uint32_t)(rnd()%n);}
struct Pkt { std::string bytes; IPAddressAndPort src; };
class PIO : public PacketDataIO { public: std::deque<Pkt> * q; uint32 mtu; IPAddressAndPort me; IPAddressAndPort last; bool sender;
   PIO(std::deque<Pkt>*qq,uint32 m,const IPAddressAndPort&who,bool s):q(qq),mtu(m),me(who),sender(s){}
   virtual uint32 GetMaximumPacketSize() const {return mtu;}
   virtual const IPAddressAndPort & GetSourceOfLastReadPacket() const {return last;}
   virtual const IPAddressAndPort & GetPacketSendDestination() const {return me;}
   virtual void SetPacketSendDestination(const IPAddressAndPort &) {}
   virtual io_status_t Read(void * b, uint32 size) { if (q->empty()) return io_status_t(0); Pkt p=q->front(); q->pop_front(); uint32 n=(uint32)std::min((size_t)size,p.bytes.size()); memcpy(b,p.bytes.data(),n); last=p.src; return io_status_t((int32)n); }
   virtual io_status_t Write(const void * b, uint32 size) { Pkt p; p.bytes.assign((const char*)b,size); p.src=me; q->push_back(p); return io_status_t((int32)size); }
   virtual io_status_t ReadFrom(void * b, uint32 size, IPAddressAndPort & from) { io_status_t r=Read(b,size); from=last; return r; }
   virtual io_status_t WriteTo(const void * b, uint32 size, const IPAddressAndPort &) { return Write(b,size); }
   virtual void FlushOutput() {} virtual void Shutdown() {} virtual const ConstSocketRef & GetReadSelectSocket() const {return GetNullSocket();} virtual const ConstSocketRef & GetWriteSelectSocket() const {return GetNullSocket();} };
struct Rx : public AbstractGatewayMessageReceiver { std::vector<std::string> msgs; virtual void MessageReceivedFromGateway(const MessageRef & m, void*) { ByteBufferRef b=m()->FlattenToByteBuffer(); msgs.push_back(std::string((const char*)b()->GetBuffer(),b()->GetNumBytes())); } };
int main(int argc,char**argv){ CompleteSetupSystem css; SetConsoleLogLevel(MUSCLE_LOG_CRITICALERROR); uint64_t seed=argc>1?strtoull(argv[1],0,0):1; int runs=argc>2?atoi(argv[2]):500; long delivered=0, sentTot=0, nofault=0; int bad=0;
  for (int r=0;r<runs && !bad;r++){ rs=seed*15485863ULL+r; bool mini=R(4)==0; uint32 mtu = mini? (R(2)?1500:200+R(2000)) : (R(3)==0?25+R(4):R(2)?64+R(100):1500); int ns=1+R(2);
     std::deque<Pkt> wire; std::vector<std::vector<std::string>> sentBy(ns); std::set<std::string> sentAll;
     // senders produce packets
     std::vector<std::deque<Pkt>> per(ns);
     for (int s=0;s<ns;s++){ IPAddressAndPort who(IPAddress((uint64)0, (uint64)(0x7f000001+s)), 1000+s); PIO sio(&per[s],mtu,who,true); AbstractMessageIOGatewayRef g; if (mini) { MiniPacketTunnelIOGateway*mg=new MiniPacketTunnelIOGateway(AbstractMessageIOGatewayRef(),mtu); if (R(2)) mg->SetZLibCompressionLevel(6); g.SetRef(mg);} else g.SetRef(new PacketTunnelIOGateway(AbstractMessageIOGatewayRef(),mtu)); g()->SetDataIO(DummyDataIORef(sio));
        int nm=1+R(6); uint32 fixedSize = R(2)? (8+R(300)) : 0; for (int i=0;i<nm;i++){ MessageRef m=GetMessageFromPool(100+i); uint32 n = fixedSize?fixedSize:R(mini?100:1200); std::string payload; for(uint32 k=0;k<n;k++) payload.push_back((char)rnd()); if (n) m()->AddData("d",B_RAW_TYPE,payload.data(),n); m()->AddInt32("sender",s); ByteBufferRef b=m()->FlattenToByteBuffer(); std::string fs((const char*)b()->GetBuffer(),b()->GetNumBytes()); if (mini && fs.size()+16>mtu) continue; sentBy[s].push_back(fs); sentAll.insert(fs); (void)g()->AddOutgoingMessage(m);} 
        int guard=0; while(g()->HasBytesToOutput() && guard++<100000) (void)g()->DoOutput(); g()->SetDataIO(DataIORef()); }
     // merge + faults
     std::vector<Pkt> seq; { std::vector<size_t> idx(ns,0); while(true){ std::vector<int> av; for(int s=0;s<ns;s++) if(idx[s]<per[s].size()) av.push_back(s); if(av.empty())break; int s=av[R(av.size())]; seq.push_back(per[s][idx[s]++]); } }
     bool faults = R(3)!=0; std::vector<Pkt> out;
     if (!faults) out=seq; else { for (auto&p:seq){ int f=R(10); if (f==0) continue; out.push_back(p); if (f==1) out.push_back(p); } for (size_t i=0;i+1<out.size();i++) if (R(4)==0) std::swap(out[i],out[i+1+R(std::min<size_t>(3,out.size()-i-1))]); }
     for (auto&p:out) wire.push_back(p);
     IPAddressAndPort rwho(IPAddress((uint64)0,(uint64)0x7f0000ff),99); PIO rio(&wire,mtu,rwho,false); Rx rx; AbstractMessageIOGatewayRef rg; if (mini) rg.SetRef(new MiniPacketTunnelIOGateway(AbstractMessageIOGatewayRef(),mtu)); else rg.SetRef(new PacketTunnelIOGateway(AbstractMessageIOGatewayRef(),mtu)); rg()->SetDataIO(DummyDataIORef(rio));
     int guard=0; while(!wire.empty() && guard++<100000) (void)rg()->DoInput(rx);
     rg()->SetDataIO(DataIORef());
     for (auto&m:rx.msgs){ delivered++; if (!sentAll.count(m)) { bad=1; printf("DELIVERED MESSAGE NEVER SENT run=%d mini=%d mtu=%u size=%zu\n",r,(int)mini,mtu,m.size()); break; } }
     for (int s=0;s<ns;s++) sentTot+=sentBy[s].size();
     if (!faults && !bad && ns==1) { nofault++; if (rx.msgs!=sentBy[0]) { bad=1; printf("NO-FAULT SEQUENCE MISMATCH run=%d mini=%d mtu=%u sent=%zu got=%zu\n",r,(int)mini,mtu,sentBy[0].size(),rx.msgs.size()); } }
  }
  printf("done sent=%ld delivered=%ld nofaultruns=%ld bad=%d\n", sentTot, delivered, nofault, bad); return bad; }
