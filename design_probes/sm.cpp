#include "regex/StringMatcher.h"
#include "system/SetupSystem.h"
#include <cstdio>
using namespace muscle;
static void T(const char*p,const char*s){ StringMatcher m; status_t r=m.SetPattern(p); printf("pat[%s] subj[%s] -> set=%s match=%d unique=%d uvlist=%d\n",p,s,r(),m.Match(s),m.IsPatternUnique(),m.IsPatternListOfUniqueValues()); }
int main(){ CompleteSetupSystem css;
 T("<19-21>","20"); T("<19-21>","20abc"); T("<19-21>","020"); T("<19-21>"," 20"); T("<19-21>","+20"); T("<-5>","3"); T("<7->","99999999999"); T("<19-21,25>","25"); T("<19-21>",""); T("~<19-21>","abc");
 T("a,b","a"); T("a,b","a,b"); T("a\\,b","a,b"); T("a\\,b","a"); T("(a|b)c","bc"); T("a(b","a(b"); T("[abc","a"); T("a]","a]"); T("a)","a)");
 T("a.b","a.b"); T("a.b","axb"); T("a+b","a+b"); T("a+b","aab"); T("a$","a$"); T("a$","a"); T("^a","a"); T("^a","^a"); T("a{2}","aa"); T("a|b","a"); T("a|b","a|b");
 T("?","\xc3\xa9"); T("??","\xc3\xa9"); T("[a-c]","b"); T("[^a]","b"); T("[!a]","b"); T("~a*","abc"); T("~a*","xbc"); T("a~b","a~b"); T("\\~a","~a"); T("x<1-3>","x<1-3>"); T("","" ); T("*",""); T("a**b","ab"); T("(a|)","" ); T("a,","a"); T(",a","a"); T(",",""); T("a,,b","b");
 T("a\\","a\\"); T("a\\","a"); T("\\","\\"); T("[a\\]b]","]"); T("a b","a b"); T("a\tb","a\tb");
 return 0; }
