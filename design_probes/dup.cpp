#include "reflector/ReflectServer.h"
#include "reflector/StorageReflectSession.h"
#include "reflector/StorageReflectConstants.h"
#include "iogateway/MessageIOGateway.h"
#include "dataio/TCPSocketDataIO.h"
#include "system/SetupSystem.h"
#include "util/NetworkUtilityFunctions.h"
#include <vector>
#include <cstdio>
using namespace muscle;
struct Client : public AbstractGatewayMessageReceiver { MessageIOGateway gw; int n=0; virtual void MessageReceivedFromGateway(const MessageRef & m, void*) { if (m()->what==7777) {n++; printf("  client got user msg id=%d\n", (int)m()->GetInt32("id"));} } void Send(const MessageRef & m){(void)gw.AddOutgoingMessage(m);} bool Pump(){bool any=false; while(gw.DoOutput().GetByteCount()>0) any=true; while(gw.DoInput(*this).GetByteCount()>0) any=true; return any;} };
static ReflectServer * g_server; static std::vector<Client*> cs;
static void Settle(){ int idle=0; while(idle<6){ bool any=false; for (auto c:cs) any|=c->Pump(); (void)g_server->ServerProcessLoop(0); for(auto c:cs) any|=c->Pump(); idle=any?0:idle+1; } }
static Client * NewClient(){ ConstSocketRef a,b; (void)CreateConnectedSocketPair(a,b,false); Client*c=new Client; c->gw.SetDataIO(DataIORef(new TCPSocketDataIO(a,false))); StorageReflectSessionRef s(new StorageReflectSession); (void)g_server->AddNewSession(s,b); cs.push_back(c); Settle(); return c; }
int main(){ CompleteSetupSystem css; SetConsoleLogLevel(MUSCLE_LOG_ERROR); { ReflectServer server; g_server=&server; Client*A=NewClient(); Client*B=NewClient();
  MessageRef sd=GetMessageFromPool(PR_COMMAND_SETDATA); sd()->AddMessage("a",GetMessageFromPool(1)); sd()->AddMessage("b",GetMessageFromPool(1)); sd()->AddMessage("c/d",GetMessageFromPool(1)); sd()->AddMessage("c/e",GetMessageFromPool(1)); B->Send(sd); Settle();
  const char * keys[] = {"*", "a", "/*/*", "c/*", "/*/*/*/*", "(a|b)", "a,b"};
  int id=0; for (auto k : keys) { B->n=0; MessageRef um=GetMessageFromPool(7777); um()->AddInt32("id",++id); um()->AddString(PR_NAME_KEYS,k); A->Send(um); Settle(); printf("key [%s]: B received %d copies\n", k, B->n); }
  for (auto c:cs) c->gw.SetDataIO(DataIORef()); server.Cleanup(); for (auto c:cs) delete c; } return 0; }
