#include "reflector/ReflectServer.h"
#include "reflector/StorageReflectSession.h"
#include "reflector/StorageReflectConstants.h"
#include "iogateway/MessageIOGateway.h"
#include "dataio/TCPSocketDataIO.h"
#include "system/SetupSystem.h"
#include "util/NetworkUtilityFunctions.h"
#include "regex/QueryFilter.h"
#include "reflector/DataNode.h"
#include <vector>
#include <map>
#include <set>
#include <string>
#include <cstdio>
#include <cstdint>
using namespace muscle;
static uint64_t rs; static uint64_t rnd(){ rs += 0x9e3779b97f4a7c15ULL; uint64_t z=rs; z=(z^(z>>30))*0xbf58476d1ce4e5b9ULL; z=(z^(z>>27))*0x94d049bb133111ebULL; return z^(z>>31);} static uint32_t R(uint32_t n){return (uint32_t)(rnd()%n);}
struct Sub { std::string pat; bool hasFilter; int thr; };
struct Client : public AbstractGatewayMessageReceiver {
   MessageIOGateway gw; std::string root; bool alive=true; int id;
   std::map<std::string,std::string> mirror; // path -> payload bytes
   std::map<std::string,std::vector<std::string>> idx;
   std::map<std::string,Sub> subs; // key = param name
   Queue<MessageRef> other;
   virtual void MessageReceivedFromGateway(const MessageRef & m, void*) {
      if (m()->what == PR_RESULT_DATAITEMS) {
         const String * s; for (uint32 i=0; m()->FindString(PR_NAME_REMOVED_DATAITEMS, i, &s).IsOK(); i++) mirror.erase(s->Cstr());
         for (MessageFieldNameIterator it = m()->GetFieldNameIterator(B_MESSAGE_TYPE); it.HasData(); it++) { MessageRef p; for (uint32 i=0; m()->FindMessage(it.GetFieldName(), i, p).IsOK(); i++) { ByteBufferRef b = p()->FlattenToByteBuffer(); mirror[it.GetFieldName()()] = std::string((const char*)b()->GetBuffer(), b()->GetNumBytes()); } }
      } else if (m()->what == PR_RESULT_PARAMETERS) { root = m()->GetString(PR_NAME_SESSION_ROOT)(); }
      else (void) other.AddTail(m);
   }
   void Send(const MessageRef & m) {(void) gw.AddOutgoingMessage(m);}
   bool Pump() { if (!alive) return false; bool any=false; while(gw.DoOutput().GetByteCount()>0) any=true; while(gw.DoInput(*this).GetByteCount()>0) any=true; return any; }
};
class Inspector : public StorageReflectSession { public: DataNode & Root() {return GetGlobalRoot();} };
static Inspector * g_insp;
static void Walk(DataNode & n, std::map<std::string, std::map<uint32,uint32> > & out) { String p; (void)n.GetNodePath(p); std::map<uint32,uint32> & m = out[p()]; for (ConstHashtableIterator<uint32,uint32> it(n.GetSubscribers()); it.HasData(); it++) m[it.GetKey()]=it.GetValue(); for (DataNodeRefIterator it = n.GetChildIterator(); it.HasData(); it++) Walk(*it.GetValue()(), out); }
static ReflectServer * g_server; static std::vector<Client*> cs;
static void Settle(int rounds=6){ int idle=0; while(idle<rounds){ bool any=false; for (auto c:cs) any|=c->Pump(); (void)g_server->ServerProcessLoop(0); for(auto c:cs) any|=c->Pump(); idle=any?0:idle+1; } }
static int nextid=0;
static Client * NewClient(){ ConstSocketRef a,b; if (CreateConnectedSocketPair(a,b,false).IsError()) exit(10); Client*c=new Client; c->id=nextid++; c->gw.SetDataIO(DataIORef(new TCPSocketDataIO(a,false))); StorageReflectSessionRef s(new StorageReflectSession); if (g_server->AddNewSession(s,b).IsError()) exit(11); cs.push_back(c); c->Send(GetMessageFromPool(PR_COMMAND_GETPARAMETERS)); Settle(); return c; }
// simple per-clause glob: '*' only
// clause semantics written out by hand for a fixed pool of documented forms (no second matcher involved)
static bool clauseMatch(const std::string&p,const std::string&s){
   if (p=="*") return true; if (p=="?") return s.size()==1; if (p=="[ab]"||p=="(a|b)"||p=="a,b") return s=="a"||s=="b"; if (p=="~a") return s!="a"; if (p=="\\a") return s=="a"; if (p=="a*") return !s.empty()&&s[0]=='a'; if (p=="*x") return !s.empty()&&s[s.size()-1]=='x';
   if (p=="[a-c]") return s=="a"||s=="b"||s=="c"; if (p=="(a|zz)") return s=="a"||s=="zz"; if (p=="??") return s.size()==2; if (p=="b,zz,c") return s=="b"||s=="zz"||s=="c"; if (p=="~(a|b)") return !(s=="a"||s=="b");
   bool digits=!s.empty(); for(char c:s) if (!isdigit((unsigned char)c)) digits=false; long v=digits?atol(s.c_str()):-1;
   if (p=="<1-2>") return digits&&v>=1&&v<=2; if (p=="<2->") return digits&&v>=2; if (p=="<-1>") return digits&&v<=1; if (p=="<0,3-4>") return digits&&(v==0||v==3||v==4); if (p=="~1") return s!="1"; if (p=="(1|2)"||p=="1,2"||p=="[12]") return s=="1"||s=="2"; if (p=="[0-9]") return s.size()==1&&digits;
   return p==s; }
static std::vector<std::string> split(const std::string&s){ std::vector<std::string> v; size_t st=0; while(true){ size_t k=s.find('/',st); v.push_back(s.substr(st,k==std::string::npos?k:k-st)); if(k==std::string::npos)break; st=k+1;} return v; }
static bool pathMatch(std::string pat, const std::string & path){ if (pat[0]=='/') pat=pat.substr(1); else pat="*/*/"+pat; auto a=split(pat), b=split(path.substr(1)); if (a.size()!=b.size()) return false; for(size_t i=0;i<a.size();i++) if(!clauseMatch(a[i],b[i])) return false; return true; }
int main(int argc,char**argv){
   CompleteSetupSystem css; SetConsoleLogLevel(MUSCLE_LOG_ERROR);
   uint64_t seed = argc>1?strtoull(argv[1],0,0):1; int nhist = argc>2?atoi(argv[2]):50; int ncmd=argc>3?atoi(argv[3]):60;
   long compares=0, entries=0, invchecks=0; int bad=0;
   for (int h=0; h<nhist && !bad; h++) {
      rs = seed*1000003ULL + h; ReflectServer server; g_server=&server; cs.clear(); nextid=0; {Inspector * ins = new Inspector; AbstractReflectSessionRef ir(ins); if (server.AddNewSession(ir).IsError()) exit(12); g_insp=ins;}
      Client * obs = NewClient(); {MessageRef sp=GetMessageFromPool(PR_COMMAND_SETPARAMETERS); sp()->AddBool(PR_NAME_REFLECT_TO_SELF,true); obs->Send(sp); Settle();} int nc = 2+R(3); for (int i=0;i<nc;i++) NewClient();
      const char * paths[] = {"a","b","a/x","a/y","b/x","c"}; const char * pats0[] = {"*","a","a/*","*/x","b","/*","a/y","/*/*","c"}; const char * patsR[] = {"*","a","a/*","*/x","b","/*","a/y","/*/*","c","?","[ab]","(a|b)/*","a,b","~a","a*","*/?","[a-c]/x","~(a|b)","/*/<1-2>/a","/*/<2->/*","/*/~1/b","/*/(1|2)/a/*","/*/[12]/c","/*/[0-9]/[ab]"}; const char ** pats = getenv("RICH")?patsR:pats0; const int NP5 = 5, NP9 = getenv("RICH")?24:9;
      std::vector<std::string> log;
      for (int k=0;k<ncmd && !bad;k++) {
         std::vector<Client*> live; for (size_t i=1;i<cs.size();i++) if (cs[i]->alive) live.push_back(cs[i]);
         int op = R(100); char buf[256];
         if (live.empty() || op<4) { Client*c=NewClient(); sprintf(buf,"join %d",c->id); log.push_back(buf); }
         else { Client * c = live[R(live.size())];
            if (op<45 && getenv("MORE") && R(3)==0) { int v=R(10); int var=R(5); const char*p=paths[R(6)]; MessageRef m;
               if (var==0){ m=GetMessageFromPool(PR_COMMAND_SETDATATREES); MessageRef tree=GetMessageFromPool(); MessageRef pl=GetMessageFromPool(100); pl()->AddInt32("v",v); tree()->AddMessage(PR_NAME_NODEDATA,pl); MessageRef kids=GetMessageFromPool(); for(int q=0;q<1+(int)R(2);q++){ MessageRef kid=GetMessageFromPool(); MessageRef kp=GetMessageFromPool(101); kp()->AddInt32("v",(int)R(10)); kid()->AddMessage(PR_NAME_NODEDATA,kp); kids()->AddMessage(q?"y":"x",kid);} tree()->AddMessage(PR_NAME_NODECHILDREN,kids); m()->AddMessage(p,tree); sprintf(buf,"c%d settree %s v=%d",c->id,p,v); }
               else if (var==1){ m=GetMessageFromPool(PR_COMMAND_INSERTORDEREDDATA); m()->AddString(PR_NAME_KEYS,R(2)?"a":"c"); int cnt=1+R(2); for(int q=0;q<cnt;q++){ MessageRef pl=GetMessageFromPool(100); pl()->AddInt32("v",(int)R(10)); m()->AddMessage(R(2)?"":"I0",pl);} sprintf(buf,"c%d insertordered x%d",c->id,cnt); }
               else if (var==2){ m=GetMessageFromPool(PR_COMMAND_REMOVEDATA); m()->AddString(PR_NAME_KEYS,pats[R(5)]); Int32QueryFilter qf("v",Int32QueryFilter::OP_LESS_THAN,(int32)R(10)); MessageRef fm=GetMessageFromPool(); (void)qf.SaveToArchive(*fm()); m()->AddMessage(PR_NAME_FILTERS,fm); sprintf(buf,"c%d remove-with-filter",c->id); }
               else if (var==3){ m=GetMessageFromPool(PR_COMMAND_SETDATA); for(int q=0;q<3;q++){ MessageRef pl=GetMessageFromPool(100); pl()->AddInt32("v",(int)R(10)); m()->AddMessage(p,pl);} SetDataNodeFlags fl; fl.SetBit(SETDATANODE_FLAG_ENABLESUPERCEDE); m()->AddFlat(PR_NAME_FLAGS,fl); sprintf(buf,"c%d set x3 supersede %s",c->id,p); }
               else { m=GetMessageFromPool(PR_COMMAND_REORDERDATA); m()->AddString("a/I0",R(2)?"I1":""); m()->AddString("c/I1","I0"); sprintf(buf,"c%d reorder",c->id); }
               c->Send(m); log.push_back(buf); }
            else if (op<45) { const char*p=paths[R(6)]; int v=R(10); MessageRef sd=GetMessageFromPool(PR_COMMAND_SETDATA); MessageRef pl=GetMessageFromPool(100+R(2)); pl()->AddInt32("v",v); sd()->AddMessage(p,pl); c->Send(sd); sprintf(buf,"c%d set %s v=%d",c->id,p,v); log.push_back(buf);} 
            else if (op<60) { const char*p=pats[R(5)]; MessageRef rd=GetMessageFromPool(PR_COMMAND_REMOVEDATA); rd()->AddString(PR_NAME_KEYS,p); c->Send(rd); sprintf(buf,"c%d remove %s",c->id,p); log.push_back(buf);} 
            else if (op<85) { const char*p=pats[R(NP9)]; bool f=R(2); int thr=R(10); MessageRef sp=GetMessageFromPool(PR_COMMAND_SETPARAMETERS); std::string key=std::string("SUBSCRIBE:")+p; if (getenv("NOFILTERCHANGE") && c->subs.count(key)) continue; if (f){ Int32QueryFilter qf("v",Int32QueryFilter::OP_GREATER_THAN_OR_EQUAL_TO,thr); MessageRef fm=GetMessageFromPool(); (void)qf.SaveToArchive(*fm()); sp()->AddMessage(key.c_str(),fm);} else sp()->AddBool(key.c_str(),true); if (R(4)==0) sp()->AddInt32(PR_NAME_MAX_UPDATE_MESSAGE_ITEMS, 1+R(3)); c->Send(sp); c->subs[key]=Sub{p,f,thr}; sprintf(buf,"c%d sub %s f=%d thr=%d",c->id,p,(int)f,thr); log.push_back(buf);} 
            else if (op<94) { if (!c->subs.empty()) { auto it=c->subs.begin(); std::advance(it,R(c->subs.size())); MessageRef rp=GetMessageFromPool(PR_COMMAND_REMOVEPARAMETERS); rp()->AddString(PR_NAME_KEYS, EscapeRegexTokens(it->first.c_str())); c->Send(rp); sprintf(buf,"c%d unsub %s",c->id,it->first.c_str()); log.push_back(buf); c->subs.erase(it); Settle(); for (auto mi=c->mirror.begin(); mi!=c->mirror.end();) { bool m=false; for (auto&sb:c->subs) { if (!pathMatch(sb.second.pat, mi->first)) continue; if (sb.second.hasFilter) { Message pm; (void)pm.UnflattenFromBytes((const uint8*)mi->second.data(), mi->second.size()); int32 v; if (pm.FindInt32("v",v).IsError() || v < sb.second.thr) continue; } m=true;break;} if (!m) mi=c->mirror.erase(mi); else ++mi; } } }
            else { c->alive=false; c->gw.SetDataIO(DataIORef()); sprintf(buf,"c%d leaves",c->id); log.push_back(buf);} }
         if (R(3)==0) {
            Settle();
            // truth via observer GETDATA of all depths 1..5
            obs->mirror.clear(); MessageRef gd=GetMessageFromPool(PR_COMMAND_GETDATA); const char*all[]={"/*","/*/*","/*/*/*","/*/*/*/*","/*/*/*/*/*"}; for(auto a:all) gd()->AddString(PR_NAME_KEYS,a); obs->Send(gd); Settle();
            std::map<std::string,std::string> truth = obs->mirror;
            { std::map<std::string, std::map<uint32,uint32> > st; Walk(g_insp->Root(), st);
              for (auto & kv : st) { if (kv.first=="/") continue; std::map<uint32,uint32> expc; for (size_t i=1;i<cs.size();i++) { Client*c=cs[i]; if(!c->alive) continue; uint32 cnt=0; for (auto&sb:c->subs) if (pathMatch(sb.second.pat, kv.first)) cnt++; if (cnt) expc[(uint32)atoi(c->root.substr(c->root.rfind('/')+1).c_str())]=cnt; }
                 if (expc != kv.second) { bad=1; printf("SUBSCRIBER-TABLE MISMATCH hist=%d step=%d node %s\n  expected:",h,k,kv.first.c_str()); for(auto&e:expc) printf(" %u:%u",e.first,e.second); printf("\n  actual:  "); for(auto&e:kv.second) printf(" %u:%u",e.first,e.second); printf("\n"); for (auto&l:log) printf("   | %s\n", l.c_str()); break; } }
              if (bad) break; invchecks += st.size(); }
            for (size_t i=1;i<cs.size();i++) { Client*c=cs[i]; if(!c->alive) continue; std::map<std::string,std::string> exp;
               for (auto & kv : truth) { if (kv.first.compare(0,c->root.size()+1,c->root+"/")==0 || kv.first==c->root) continue; bool m=false; for (auto & s : c->subs) { if (!pathMatch(s.second.pat, kv.first)) continue; if (s.second.hasFilter) { Message pm; (void)pm.UnflattenFromBytes((const uint8*)kv.second.data(), kv.second.size()); int32 v; if (pm.FindInt32("v",v).IsError() || v < s.second.thr) continue; } m=true; break; } if (m) exp[kv.first]=kv.second; }
               std::map<std::string,std::string> got; for (auto & kv : c->mirror) { if (kv.first.compare(0,c->root.size()+1,c->root+"/")==0 || kv.first==c->root) continue; got[kv.first]=kv.second; }
               compares++; entries+=exp.size();
               if (got != exp) { bad=1; printf("MISMATCH hist=%d step=%d client c%d root=%s\n", h,k,c->id,c->root.c_str()); for (auto&kv:exp) if(!got.count(kv.first)) printf("  missing %s\n",kv.first.c_str()); else if (got[kv.first]!=kv.second) printf("  stale %s\n",kv.first.c_str()); for (auto&kv:got) if(!exp.count(kv.first)) printf("  extra %s\n",kv.first.c_str()); for (auto&s:c->subs) printf("  sub %s f=%d thr=%d\n", s.second.pat.c_str(), s.second.hasFilter, s.second.thr); for (auto&l:log) printf("   | %s\n", l.c_str()); break; }
            }
         }
      }
      for (auto c:cs) {c->gw.SetDataIO(DataIORef());} server.Cleanup(); for (auto c:cs) delete c; cs.clear();
   }
   printf("done: compares=%ld expected-entries=%ld invariant-node-checks=%ld bad=%d\n", compares, entries, invchecks, bad);
   return bad;
}
