#include "util/Hashtable.h"
#include "util/String.h"
#include "system/SetupSystem.h"
#include <vector>
#include <map>
#include <set>
#include <algorithm>
#include <cstdio>
#include <cstdint>
using namespace muscle;
static uint64_t rs; static uint64_t rnd(){ rs += 0x9e3779b97f4a7c15ULL; uint64_t z=rs; z=(z^(z>>30))*0xbf58476d1ce4e5b9ULL; z=(z^(z>>27))*0x94d049bb133111ebULL; return z^(z>>31);} static uint32_t R(uint32_t n){return (uint32_t)(rnd()%n);}
struct BadKey { uint32 v; BadKey(uint32 x=0):v(x){} bool operator==(const BadKey&o)const{return v==o.v;} bool operator!=(const BadKey&o)const{return v!=o.v;} uint32 HashCode() const {return v%3;} };
typedef Hashtable<BadKey,uint32> HT;
struct Model { std::vector<std::pair<uint32,uint32>> v; int find(uint32 k){ for(size_t i=0;i<v.size();i++) if(v[i].first==k) return (int)i; return -1; } };
struct It { HashtableIterator<BadKey,uint32> * it; bool back; std::vector<uint64_t> yielded; std::set<uint32> presentThroughoutAhead; bool reordered; bool done; };
static int bad=0; static std::map<uint32,uint32> gen;
static void audit(HT & t, Model & m, const char * where){ if (t.GetNumItems()!=m.v.size()) {bad=1; printf("SIZE mismatch %u vs %zu after %s\n", t.GetNumItems(), m.v.size(), where); return;} size_t i=0; for (HashtableIterator<BadKey,uint32> it(t, HTIT_FLAG_NOREGISTER); it.HasData(); it++,i++) { if (i>=m.v.size()||it.GetKey().v!=m.v[i].first||it.GetValue()!=m.v[i].second) {bad=1; printf("ORDER mismatch at %zu after %s\n", i, where); return;} } i=m.v.size(); for (HashtableIterator<BadKey,uint32> it(t, HTIT_FLAG_NOREGISTER|HTIT_FLAG_BACKWARDS); it.HasData(); it++) { i--; if (it.GetKey().v!=m.v[i].first) {bad=1; printf("BACK ORDER mismatch after %s\n", where); return;} } }
int main(int argc,char**argv){ CompleteSetupSystem css; uint64_t seed=argc>1?strtoull(argv[1],0,0):1; long nops=argc>2?atol(argv[2]):200000; uint32 keyspace=argc>3?atoi(argv[3]):40; rs=seed;
  size_t maxpop=0; HT * t = new HT; Model m; std::vector<It> its; long travs=0, yields=0, auditcnt=0;
  for (long op=0; op<nops && !bad; op++) { int o=R(100); uint32 k=R(keyspace), k2=R(keyspace), val=(uint32)rnd(); char where[64]; bool reorder=false; std::set<uint32> removed;
     if (o<30) { int i=m.find(k); if (i>=0) m.v[i].second=val; else {m.v.push_back({k,val}); gen[k]++;} if (t->Put(BadKey(k),val).IsError()) bad=1; sprintf(where,"Put %u",k);} 
     else if (o<45) { int i=m.find(k); status_t r=t->Remove(BadKey(k)); if ((i>=0)!=r.IsOK()) {bad=1; printf("Remove status mismatch\n");} if (i>=0) {m.v.erase(m.v.begin()+i); removed.insert(k);} sprintf(where,"Remove %u",k);} 
     else if (o<50) { int i=m.find(k); status_t r=t->MoveToFront(BadKey(k)); if ((i>=0)!=r.IsOK()) bad=1; if (i>0) { auto e=m.v[i]; m.v.erase(m.v.begin()+i); m.v.insert(m.v.begin(),e); reorder=true;} sprintf(where,"MoveToFront %u",k);} 
     else if (o<55) { int i=m.find(k); status_t r=t->MoveToBack(BadKey(k)); if ((i>=0)!=r.IsOK()) bad=1; if (i>=0 && i+1<(int)m.v.size()) { auto e=m.v[i]; m.v.erase(m.v.begin()+i); m.v.push_back(e); reorder=true;} sprintf(where,"MoveToBack %u",k);} 
     else if (o<58) { int i=m.find(k), j=m.find(k2); status_t r=t->MoveToBefore(BadKey(k),BadKey(k2)); bool okexp=(i>=0&&j>=0&&i!=j); if (okexp!=r.IsOK()) {bad=1; printf("MoveToBefore status mismatch i=%d j=%d r=%s\n",i,j,r());} if (okexp) { auto e=m.v[i]; m.v.erase(m.v.begin()+i); j=m.find(k2); m.v.insert(m.v.begin()+j,e); reorder=true;} sprintf(where,"MoveToBefore %u %u",k,k2);} 
     else if (o<61) { int i=m.find(k); if (i<0) { uint32 pos=R(m.v.size()+2); status_t r=t->PutAtPosition(BadKey(k),pos,val); if (r.IsError()) bad=1; if (pos>m.v.size()) pos=m.v.size(); m.v.insert(m.v.begin()+pos,{k,val}); gen[k]++; } sprintf(where,"PutAtPosition %u",k);} 
     else if (o<63) { t->SortByKey([](){ struct F{int Compare(const BadKey&a,const BadKey&b,void*)const{return a.v<b.v?-1:a.v>b.v?1:0;}}; return F(); }()); std::stable_sort(m.v.begin(),m.v.end(),[](const std::pair<uint32,uint32>&a,const std::pair<uint32,uint32>&b){return a.first<b.first;}); reorder=true; sprintf(where,"SortByKey");} 
     else if (o<65) { if (t->RemoveFirst().IsOK()!=(!m.v.empty())) bad=1; if(!m.v.empty()){removed.insert(m.v.front().first); m.v.erase(m.v.begin());} sprintf(where,"RemoveFirst");} 
     else if (o<67) { if (t->RemoveLast().IsOK()!=(!m.v.empty())) bad=1; if(!m.v.empty()){removed.insert(m.v.back().first); m.v.pop_back();} sprintf(where,"RemoveLast");} 
     else if (o<69) { (void)t->EnsureSize(m.v.size()+R(300), R(2)); sprintf(where,"EnsureSize");} 
     else if (o<70) { (void)t->ShrinkToFit(); sprintf(where,"ShrinkToFit");} 
     else if (o<71 && R(4)==0 && !getenv("NOCLEAR")) { for(auto&e:m.v) removed.insert(e.first); t->Clear(R(2)); m.v.clear(); sprintf(where,"Clear");} 
     else if (o<74) { const uint32 * v=t->Get(BadKey(k)); int i=m.find(k); if ((v!=NULL)!=(i>=0) || (v && *v!=m.v[i].second)) {bad=1; printf("Get mismatch\n");} sprintf(where,"Get");} 
     else if (o<76 && its.size()<5) { It x; x.back=R(2); x.it = new HashtableIterator<BadKey,uint32>(*t, x.back?HTIT_FLAG_BACKWARDS:0); x.reordered=false; x.done=false; for(auto&e:m.v) x.presentThroughoutAhead.insert(e.first); if (x.it->HasData()) { x.yielded.push_back(((uint64_t)gen[x.it->GetKey().v]<<32)|x.it->GetKey().v); } its.push_back(x); travs++; sprintf(where,"NewIter");} 
     else if (!its.empty()) { // advance a random iterator
        size_t ii=R(its.size()); It & x=its[ii]; if (x.it->HasData()) { (*x.it)++; if (x.it->HasData()) { uint32 kk=x.it->GetKey().v; yields++; if (m.find(kk)<0) {bad=1; printf("ITER yielded key %u not in table (after %ld ops)\n",kk,op);} uint64_t eid=((uint64_t)gen[kk]<<32)|kk; if (!x.reordered && std::find(x.yielded.begin(),x.yielded.end(),eid)!=x.yielded.end()) {bad=1; printf("ITER yielded entry %u (gen %u) twice without reorder\n",kk,gen[kk]);} x.yielded.push_back(eid);} }
        if (!x.it->HasData()) { if (!x.reordered) { for (uint32 kk : x.presentThroughoutAhead) if (std::find(x.yielded.begin(),x.yielded.end(),((uint64_t)gen[kk]<<32)|kk)==x.yielded.end()) {bad=1; printf("ITER skipped key %u that was present throughout (no reorder); back=%d yielded=%zu\n",kk,(int)x.back,x.yielded.size());} } delete x.it; its.erase(its.begin()+ii); }
        sprintf(where,"Advance"); }
     else sprintf(where,"noop");
     for (auto & x : its) { if (reorder) x.reordered=true; for (uint32 r : removed) x.presentThroughoutAhead.erase(r); }
     if (m.v.size()>maxpop) maxpop=m.v.size();
     if (m.v.size()<300 || R(m.v.size()>5000?20000:200)==0) {audit(*t,m,where); auditcnt++;}
     if (R(5000)==0) { // destroy table with live iterators
        delete t; for (auto & x : its) { if (x.it->HasData()) { (void)x.it->GetKey().v; (*x.it)++; } if (x.it->HasData()) {bad=1; printf("iterator still has data after table destroyed and one advance\n");} delete x.it; } its.clear(); t=new HT; m.v.clear(); }
  }
  for (auto&x:its) delete x.it; delete t;
  printf("maxPopulation=%zu ",maxpop); printf("done ops=%ld traversals=%ld yields=%ld audits=%ld bad=%d\n", nops, travs, yields, auditcnt, bad); return bad; }
