// C07 probe: deeply nested PR_COMMAND_BATCH sent by a client; does the server survive (parse and handle)?
#include "reflector/ReflectServer.h"
#include "reflector/StorageReflectSession.h"
#include "reflector/StorageReflectConstants.h"
#include "iogateway/MessageIOGateway.h"
#include "dataio/TCPSocketDataIO.h"
#include "system/SetupSystem.h"
#include "util/NetworkUtilityFunctions.h"
#include <cstdio>
#include <string>
using namespace muscle;
struct Client : public AbstractGatewayMessageReceiver { MessageIOGateway gw; int pongs=0; virtual void MessageReceivedFromGateway(const MessageRef & m, void*) { if (m()->what==PR_RESULT_PONG) pongs++; } bool Pump(){ bool any=false; while(gw.DoOutput().GetByteCount()>0) any=true; while(gw.DoInput(*this).GetByteCount()>0) any=true; return any; } };
int main(int argc,char**argv){ setvbuf(stdout,NULL,_IONBF,0); CompleteSetupSystem css; SetConsoleLogLevel(MUSCLE_LOG_CRITICALERROR); int depth=argc>1?atoi(argv[1]):1000; ReflectServer server; Client a,w; Client*cs[2]={&a,&w};
 for(auto c:cs){ ConstSocketRef x,y; (void)CreateConnectedSocketPair(x,y,false); c->gw.SetDataIO(DataIORef(new TCPSocketDataIO(x,false))); StorageReflectSessionRef s(new StorageReflectSession); (void)server.AddNewSession(s,y); }
 auto settle=[&]{ int idle=0; while(idle<6){ bool any=false; for(auto c:cs) any|=c->Pump(); (void)server.ServerProcessLoop(0); for(auto c:cs) any|=c->Pump(); idle=any?0:idle+1; } };
 settle(); std::string path; for(int i=0;i<depth;i++){ if (i) path+="/"; path+="a"; } { MessageRef sd=GetMessageFromPool(PR_COMMAND_SETDATA); (void)sd()->AddMessage(path.c_str(),GetMessageFromPool(1)); (void)a.gw.AddOutgoingMessage(sd); } settle(); printf("created a node path %d levels deep\n",depth);
 { MessageRef gd=GetMessageFromPool(PR_COMMAND_GETDATATREES); (void)gd()->AddString(PR_NAME_KEYS,"a"); (void)a.gw.AddOutgoingMessage(gd); } settle(); printf("GETDATATREES survived\n");
 { MessageRef sp=GetMessageFromPool(PR_COMMAND_SETPARAMETERS); (void)sp()->AddBool("SUBSCRIBE:/*/*/a",true); (void)w.gw.AddOutgoingMessage(sp); } settle();
 { MessageRef rd=GetMessageFromPool(PR_COMMAND_REMOVEDATA); (void)rd()->AddString(PR_NAME_KEYS,"a"); (void)a.gw.AddOutgoingMessage(rd); } settle(); printf("REMOVEDATA of the top node survived\n");
 { MessageRef sd=GetMessageFromPool(PR_COMMAND_SETDATA); (void)sd()->AddMessage(path.c_str(),GetMessageFromPool(1)); (void)a.gw.AddOutgoingMessage(sd); } settle(); a.gw.SetDataIO(DataIORef()); settle(); printf("disconnect with the deep path present survived\n"); (void)w.gw.AddOutgoingMessage(GetMessageFromPool(PR_COMMAND_PING)); settle();
 printf("depth %d: attacker pongs=%d witness pongs=%d\n",depth,a.pongs,w.pongs); for(auto c:cs) c->gw.SetDataIO(DataIORef()); settle(); server.Cleanup(); return (w.pongs>0)?0:1; }
