#include "util/Queue.h"
#include "util/String.h"
#include "system/SetupSystem.h"
#include <deque>
#include <string>
#include <algorithm>
#include <cstdio>
#include <cstdint>
using namespace muscle;
static uint64_t rs; static uint64_t rnd(){ rs += 0x9e3779b97f4a7c15ULL; uint64_t z=rs; z=(z^(z>>30))*0xbf58476d1ce4e5b9ULL; z=(z^(z>>27))*0x94d049bb133111ebULL; return z^(z>>31);} static uint32_t R(uint32_t n){return (uint32_t)(rnd()%n);}
static int bad=0; static long ops=0;
template<class T> struct Conv; template<> struct Conv<int32>{ static int32 Make(){return (int32)R(50);} static int32 Def(){return 0;} }; template<> struct Conv<String>{ static String Make(){ char b[40]; sprintf(b,"s%u%s",R(50),R(3)==0?"_a_long_string_beyond_sso":""); return String(b);} static String Def(){return String();} };
template<class T> static void Audit(Queue<T>&q, std::deque<T>&m, const char*op){ ops++; if (q.GetNumItems()!=m.size()) {bad=1; printf("SIZE %u vs %zu after %s\n",q.GetNumItems(),m.size(),op); return;} for (uint32 i=0;i<q.GetNumItems();i++) if (!(q[i]==m[i])) {bad=1; printf("ITEM %u differs after %s\n",i,op); return;} }
template<class T> static void Run(long n){ Queue<T> * q=new Queue<T>; std::deque<T> m; char op[64];
  for (long it=0; it<n && !bad; it++){ int o=R(44); T v=Conv<T>::Make(); uint32 sz=(uint32)m.size(); uint32 k=sz?R(sz+1):0, k2=sz?R(sz+1):0; status_t r;
   switch(o){
   case 0: case 1: r=q->AddTail(v); m.push_back(v); strcpy(op,"AddTail"); break;
   case 2: case 3: r=q->AddHead(v); m.push_front(v); strcpy(op,"AddHead"); break;
   case 4: r=q->RemoveHead(); if (r.IsOK()!=(sz>0)) bad=1; if(sz) m.pop_front(); strcpy(op,"RemoveHead"); break;
   case 5: r=q->RemoveTail(); if (r.IsOK()!=(sz>0)) bad=1; if(sz) m.pop_back(); strcpy(op,"RemoveTail"); break;
   case 6: { T out; r=q->RemoveHead(out); if (r.IsOK()!=(sz>0)) bad=1; if(sz){ if(!(out==m.front())) {bad=1; printf("RemoveHead value\n");} m.pop_front(); } strcpy(op,"RemoveHead(out)"); } break;
   case 7: r=q->InsertItemAt(k,v); if (r.IsOK()) m.insert(m.begin()+k,v); else {bad=1;} sprintf(op,"InsertItemAt %u",k); break;
   case 8: r=q->InsertItemAt(sz+1+R(3),v); if (r.IsOK()) m.push_back(v); else bad=1; strcpy(op,"InsertItemAt beyond end (documented = AddTail)"); break;
   case 9: r=q->RemoveItemAt(k); if (r.IsOK()!=(k<sz)) {bad=1; printf("RemoveItemAt status\n");} if (k<sz) m.erase(m.begin()+k); sprintf(op,"RemoveItemAt %u",k); break;
   case 10: r=q->ReplaceItemAt(k,v); if (r.IsOK()!=(k<sz)) bad=1; if(k<sz) m[k]=v; strcpy(op,"ReplaceItemAt"); break;
   case 11: if (sz){ r=q->AddTail((*q)[R(sz)==0?0:k%sz]); m.push_back(m[R(1)?0:0]); /*resync below*/ m.back()=(*q)[q->GetNumItems()-1]; } strcpy(op,"AddTail own item"); break;
   case 12: if (sz){ uint32 idx=k%sz; T copy=m[idx]; r=q->AddHead((*q)[idx]); m.push_front(copy);} strcpy(op,"AddHead own item"); break;
   case 13: if (sz){ uint32 idx=k%sz; T copy=m[idx]; r=q->InsertItemAt(k2,(*q)[idx]); if (r.IsOK()) m.insert(m.begin()+k2,copy);} strcpy(op,"InsertItemAt own item"); break;
   case 14: { Queue<T> o2; std::deque<T> m2; int c=R(6); for(int i=0;i<c;i++){T x=Conv<T>::Make(); (void)o2.AddTail(x); m2.push_back(x);} r=q->AddTailMulti(o2); m.insert(m.end(),m2.begin(),m2.end()); strcpy(op,"AddTailMulti"); } break;
   case 15: { Queue<T> o2; std::deque<T> m2; int c=R(6); for(int i=0;i<c;i++){T x=Conv<T>::Make(); (void)o2.AddTail(x); m2.push_back(x);} r=q->AddHeadMulti(o2); m.insert(m.begin(),m2.begin(),m2.end()); strcpy(op,"AddHeadMulti"); } break;
   case 16: if (sz<200){ std::deque<T> c=m; r=q->AddTailMulti(*q); m.insert(m.end(),c.begin(),c.end()); } strcpy(op,"AddTailMulti self"); break;
   case 17: if (sz<200 && !getenv("MASKF20")){ std::deque<T> c=m; r=q->AddHeadMulti(*q); m.insert(m.begin(),c.begin(),c.end()); } strcpy(op,"AddHeadMulti self"); break;
   case 18: { Queue<T> o2; std::deque<T> m2; int c=R(6); for(int i=0;i<c;i++){T x=Conv<T>::Make(); (void)o2.AddTail(x); m2.push_back(x);} r=q->InsertItemsAt(k,o2); if (r.IsOK()) m.insert(m.begin()+k,m2.begin(),m2.end()); else {bad=1; printf("InsertItemsAt failed\n");} sprintf(op,"InsertItemsAt %u",k);} break;
   case 19: if (sz<200 && !(getenv("MASKF20") && k==0)){ std::deque<T> c=m; r=q->InsertItemsAt(k,*q); if (r.IsOK()) m.insert(m.begin()+k,c.begin(),c.end()); } sprintf(op,"InsertItemsAt self %u",k); break;
   case 20: { uint32 c=R(5); uint32 got=q->RemoveHeadMulti(c); uint32 e=std::min(c,sz); if (got!=e) {bad=1; printf("RemoveHeadMulti count\n");} m.erase(m.begin(),m.begin()+e); strcpy(op,"RemoveHeadMulti"); } break;
   case 21: { uint32 c=R(5); uint32 got=q->RemoveTailMulti(c); uint32 e=std::min(c,sz); if (got!=e) {bad=1; printf("RemoveTailMulti count\n");} m.erase(m.end()-e,m.end()); strcpy(op,"RemoveTailMulti"); } break;
   case 22: if (sz){ q->Swap(k%sz,k2%sz); std::swap(m[k%sz],m[k2%sz]); } strcpy(op,"Swap"); break;
   case 23: { uint32 a=std::min(k,k2), b=std::max(k,k2); q->ReverseItemOrdering(a,b); if (b>sz) b=sz; if (b>a) std::reverse(m.begin()+a,m.begin()+b); sprintf(op,"Reverse %u %u",a,b);} break;
   case 24: { uint32 a=std::min(k,k2), b=std::max(k,k2); q->Sort(a,b); if (b>sz) b=sz; if (b>a) std::stable_sort(m.begin()+a,m.begin()+b); sprintf(op,"Sort %u %u",a,b);} break;
   case 25: { uint32 want=R(40); r=q->EnsureSize(want,true); if (r.IsOK()){ size_t was=m.size(); while(m.size()<want) m.push_back(Conv<T>::Def()); while(m.size()>want) m.pop_back(); if (getenv("MASKF19")) for (size_t i=was;i<m.size();i++) m[i]=(*q)[(uint32)i]; } sprintf(op,"EnsureSize set %u",want);} break;
   case 26: { uint32 want=R(100), ex=R(10); bool sh=R(2); if (sh && getenv("MASKF21") && want<sz) want=sz; (void)q->EnsureSize(want,false,ex,sh); } strcpy(op,"EnsureSize"); break;
   case 27: (void)q->ShrinkToFit(R(3)); strcpy(op,"ShrinkToFit"); break;
   case 28: q->Normalize(); if (!q->IsNormalized()) {bad=1; printf("not normalized\n");} strcpy(op,"Normalize"); break;
   case 29: q->Clear(R(2)); m.clear(); strcpy(op,"Clear"); break;
   case 30: { Queue<T> c(*q); if (!(c==*q)) {bad=1; printf("copy != orig\n");} Queue<T> d; d=*q; if (d!=*q) bad=1; strcpy(op,"copy"); } break;
   case 31: { Queue<T> o2; std::deque<T> m2; int c=R(8); for(int i=0;i<c;i++){T x=Conv<T>::Make(); (void)o2.AddHead(x); m2.push_front(x);} q->SwapContents(o2); m.swap(m2); Audit(o2,m2,"swap other side"); strcpy(op,"SwapContents"); } break;
   case 32: { int32 r1=q->IndexOf(v); auto f=std::find(m.begin(),m.end(),v); int32 r2=f==m.end()?-1:(int32)(f-m.begin()); if (r1!=r2) {bad=1; printf("IndexOf %d vs %d\n",r1,r2);} strcpy(op,"IndexOf"); } break;
   case 33: { int32 r1=q->LastIndexOf(v); int32 r2=-1; for (int32 i=(int32)sz-1;i>=0;i--) if (m[i]==v){r2=i;break;} if (r1!=r2) {bad=1; printf("LastIndexOf %d vs %d\n",r1,r2);} strcpy(op,"LastIndexOf"); } break;
   case 34: { uint32 c=q->RemoveAllInstancesOf(v); uint32 e=(uint32)std::count(m.begin(),m.end(),v); m.erase(std::remove(m.begin(),m.end(),v),m.end()); if (c!=e) {bad=1; printf("RemoveAllInstancesOf count\n");} strcpy(op,"RemoveAllInstancesOf"); } break;
   case 35: if (sz){ uint32 idx=k%sz; T val=m[idx]; uint32 c=q->RemoveAllInstancesOf((*q)[idx]); uint32 e=(uint32)std::count(m.begin(),m.end(),val); m.erase(std::remove(m.begin(),m.end(),val),m.end()); if (c!=e) {bad=1; printf("RemoveAllInstancesOf(own) count %u vs %u\n",c,e);} } strcpy(op,"RemoveAllInstancesOf own item"); break;
   case 36: { r=q->RemoveFirstInstanceOf(v); auto f=std::find(m.begin(),m.end(),v); if (r.IsOK()!=(f!=m.end())) bad=1; if (f!=m.end()) m.erase(f); strcpy(op,"RemoveFirstInstanceOf"); } break;
   case 37: { delete q; q=new Queue<T>; for (auto&x:m) (void)q->AddTail(x); strcpy(op,"rebuild"); } break;
   case 38: { Queue<T> moved(std::move(*q)); *q = std::move(moved); strcpy(op,"move roundtrip"); } break;
   case 39: { uint32 c=q->RemoveDuplicateItems(); std::deque<T> u(m); std::sort(u.begin(),u.end()); u.erase(std::unique(u.begin(),u.end()),u.end()); if (c!=m.size()-u.size()) {bad=1; printf("RemoveDuplicateItems count\n");} m=u; strcpy(op,"RemoveDuplicateItems"); } break;
   case 40: { T d=q->GetWithDefault(k+R(3)); (void)d; strcpy(op,"GetWithDefault"); } break;
   default: if (sz>3000){ q->Clear(); m.clear(); } strcpy(op,"noop"); break; }
   Audit(*q,m,op);
  }
  delete q; }
int main(int argc,char**argv){ CompleteSetupSystem css; rs=argc>1?strtoull(argv[1],0,0):1; long n=argc>2?atol(argv[2]):500000; Run<int32>(n); printf("int32 done ops=%ld bad=%d\n",ops,bad); if(!bad) Run<String>(n); printf("String done ops=%ld bad=%d\n",ops,bad); return bad; }
