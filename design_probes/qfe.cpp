#include "regex/QueryFilter.h"
#include "system/SetupSystem.h"
using namespace muscle;
int main(int argc,char**argv){ CompleteSetupSystem css; for(int i=1;i<argc;i++){ ConstQueryFilterRef f=CreateQueryFilterFromExpression(argv[i]); printf("[%s] -> %s\n",argv[i], f()?"ok":f.GetStatus()()); if (f()) f()->Print(stdout);} return 0; }
