#include "reflector/ReflectServer.h"
#include "reflector/StorageReflectSession.h"
#include "reflector/StorageReflectConstants.h"
#include "iogateway/MessageIOGateway.h"
#include "dataio/TCPSocketDataIO.h"
#include "system/SetupSystem.h"
#include "util/NetworkUtilityFunctions.h"
#include "regex/QueryFilter.h"
#include <vector>
#include <map>
#include <set>
#include <string>
#include <cstdio>
#include <cstdint>
using namespace muscle;
static uint64_t rs; static uint64_t rnd(){ rs += 0x9e3779b97f4a7c15ULL; uint64_t z=rs; z=(z^(z>>30))*0xbf58476d1ce4e5b9ULL; z=(z^(z>>27))*0x94d049bb133111ebULL; return z^(z>>31);} static uint32_t R(uint32_t n){return (uint32_t)(rnd()%n);}
struct Client : public AbstractGatewayMessageReceiver {
   MessageIOGateway gw; std::string root; std::string sid; bool alive=true; int id; bool self=false;
   std::map<std::string,int> nodes; // relative path -> v
   std::vector<std::pair<int,std::string>> got; // (msgid, senderfield)
   std::map<std::string,std::string> mirror;
   virtual void MessageReceivedFromGateway(const MessageRef & m, void*) {
      if (m()->what == PR_RESULT_PARAMETERS) { root = m()->GetString(PR_NAME_SESSION_ROOT)(); sid = root.substr(root.rfind('/')+1); }
      else if (m()->what == PR_RESULT_DATAITEMS) { for (MessageFieldNameIterator it = m()->GetFieldNameIterator(B_MESSAGE_TYPE); it.HasData(); it++) mirror[it.GetFieldName()()]="x"; }
      else if (m()->what == 7777) got.push_back(std::make_pair((int)m()->GetInt32("id"), std::string(m()->GetString(PR_NAME_SESSION)())));
   }
   void Send(const MessageRef & m) {(void) gw.AddOutgoingMessage(m);}
   bool Pump() { if (!alive) return false; bool any=false; while(gw.DoOutput().GetByteCount()>0) any=true; while(gw.DoInput(*this).GetByteCount()>0) any=true; return any; }
};
static ReflectServer * g_server; static std::vector<Client*> cs;
static void Settle(int rounds=6){ int idle=0; while(idle<rounds){ bool any=false; for (auto c:cs) any|=c->Pump(); (void)g_server->ServerProcessLoop(0); for(auto c:cs) any|=c->Pump(); idle=any?0:idle+1; } }
static int nextid=0;
static Client * NewClient(){ ConstSocketRef a,b; if (CreateConnectedSocketPair(a,b,false).IsError()) exit(10); Client*c=new Client; c->id=nextid++; c->gw.SetDataIO(DataIORef(new TCPSocketDataIO(a,false))); StorageReflectSessionRef s(new StorageReflectSession); if (g_server->AddNewSession(s,b).IsError()) exit(11); cs.push_back(c); c->Send(GetMessageFromPool(PR_COMMAND_GETPARAMETERS)); Settle(); return c; }
// clause semantics written out by hand for a fixed pool of documented forms (no second matcher involved)
static bool clauseMatch(const std::string&p,const std::string&s){
   if (p=="*") return true; if (p=="?") return s.size()==1; if (p=="[ab]"||p=="(a|b)"||p=="a,b") return s=="a"||s=="b"; if (p=="~a") return s!="a"; if (p=="\\a") return s=="a"; if (p=="a*") return !s.empty()&&s[0]=='a'; if (p=="*x") return !s.empty()&&s[s.size()-1]=='x';
   if (p=="[a-c]") return s=="a"||s=="b"||s=="c"; if (p=="(a|zz)") return s=="a"||s=="zz"; if (p=="??") return s.size()==2; if (p=="b,zz,c") return s=="b"||s=="zz"||s=="c"; if (p=="~(a|b)") return !(s=="a"||s=="b");
   bool digits=!s.empty(); for(char c:s) if (!isdigit((unsigned char)c)) digits=false; long v=digits?atol(s.c_str()):-1;
   if (p=="<1-2>") return digits&&v>=1&&v<=2; if (p=="<2->") return digits&&v>=2; if (p=="<-1>") return digits&&v<=1; if (p=="<0,3-4>") return digits&&(v==0||v==3||v==4); if (p=="~1") return s!="1"; if (p=="(1|2)"||p=="1,2"||p=="[12]") return s=="1"||s=="2"; if (p=="[0-9]") return s.size()==1&&digits;
   return p==s; }
static std::vector<std::string> split(const std::string&s){ std::vector<std::string> v; size_t st=0; while(true){ size_t k=s.find('/',st); v.push_back(s.substr(st,k==std::string::npos?k:k-st)); if(k==std::string::npos)break; st=k+1;} return v; }
static bool pathMatch(std::string pat, const std::string & path){ if (pat[0]=='/') pat=pat.substr(1); else pat="*/*/"+pat; auto a=split(pat), b=split(path.substr(1)); if (a.size()!=b.size()) return false; for(size_t i=0;i<a.size();i++) if(!clauseMatch(a[i],b[i])) return false; return true; }
int main(int argc,char**argv){
   CompleteSetupSystem css; SetConsoleLogLevel(MUSCLE_LOG_ERROR);
   uint64_t seed = argc>1?strtoull(argv[1],0,0):1; int nhist = argc>2?atoi(argv[2]):50; int nmsg=argc>3?atoi(argv[3]):40;
   long checks=0; int bad=0;
   for (int h=0; h<nhist && !bad; h++) {
      rs = seed*1000003ULL + h; ReflectServer server; g_server=&server; cs.clear(); nextid=0;
      int nc = 3+R(4); for (int i=0;i<nc;i++) NewClient();
      const char * paths[] = {"a","b","a/x","a/y","b/x","c"};
      for (auto c : cs) { int n=R(5); MessageRef sd=GetMessageFromPool(PR_COMMAND_SETDATA); bool any=false; for (int j=0;j<n;j++) { const char*p=paths[R(6)]; int v=R(10); MessageRef pl=GetMessageFromPool(1); pl()->AddInt32("v",v); if (sd()->HasName(p)) continue; sd()->AddMessage(p,pl); c->nodes[p]=v; any=true; std::string ps=p; size_t k=ps.find('/'); if (k!=std::string::npos && !c->nodes.count(ps.substr(0,k))) c->nodes[ps.substr(0,k)]=-1; } if (any) c->Send(sd); if (R(4)==0) { MessageRef sp=GetMessageFromPool(PR_COMMAND_SETPARAMETERS); sp()->AddBool(PR_NAME_REFLECT_TO_SELF,true); c->Send(sp); c->self=true; } }
      Settle();
      const char * pats[] = {"*","a","a/*","*/x","b","/*/*","/*","c","/*/*/*","/*/*/a/x","zz"};
      int msgid=0;
      for (int k=0;k<nmsg && !bad;k++) {
         Client * s = cs[R(cs.size())]; int np = R(4); if (getenv("ONEPAT") && np>1) np=1; std::vector<std::string> ps; bool filt=false; int thr=0;
         MessageRef um=GetMessageFromPool(7777); um()->AddInt32("id",++msgid); if (R(2)) um()->AddString(PR_NAME_SESSION, "999");
         for (int j=0;j<np;j++) { std::string p = pats[R(11)]; if (getenv("RICH") && R(3)!=0) { static const char*nc[]={"*","?","[ab]","(a|b)","a,b","~a","\\a","a*","*x","[a-c]","(a|zz)","??","b,zz,c","~(a|b)","a","b","x","zz"}; static const char*sc[]={"*","<1-2>","<2->","<-1>","<0,3-4>","~1","(1|2)","1,2","[12]","[0-9]","?","1","2"}; std::string n1=nc[R(18)]; std::string n2=R(2)?std::string("/")+nc[R(18)]:std::string(); if (R(2)) p=n1+n2; else p=std::string("/*/")+sc[R(13)]+(R(5)?"/"+n1+n2:std::string()); } if (!getenv("NOABS") && R(6)==0) p = cs[R(cs.size())]->root + "/a"; ps.push_back(p); um()->AddString(PR_NAME_KEYS,p.c_str()); }
         if (np>0 && R(3)==0) { filt=true; thr=R(10); Int32QueryFilter qf("v",Int32QueryFilter::OP_GREATER_THAN_OR_EQUAL_TO,thr); MessageRef fm=GetMessageFromPool(); (void)qf.SaveToArchive(*fm()); um()->AddMessage(PR_NAME_FILTERS,fm); }
         for (auto c:cs) c->got.clear();
         s->Send(um); Settle();
         for (auto c : cs) { bool exp=false;
            if (np==0) exp = (c!=s) || s->self; // broadcast
            else { for (auto & p : ps) { // session node
                  std::vector<std::pair<std::string,int>> nl; nl.push_back(std::make_pair(c->root,-1)); for (auto&kv:c->nodes) nl.push_back(std::make_pair(c->root+"/"+kv.first,kv.second));
                  for (auto & n : nl) { if (!pathMatch(p,n.first)) continue; if (filt && n.second < thr) continue; exp=true; } }
               if (c==s && !s->self) exp=false; }
            int cnt=0; for (auto&g:c->got) if (g.first==msgid) cnt++; checks++;
            bool senderok=true; for (auto&g:c->got) if (g.second.size() && g.second!=s->sid) senderok=false;
            if ((getenv("TOLDUP") ? ((cnt>0) != exp) : (cnt != (exp?1:0))) || !senderok) { bad=1; printf("MISMATCH hist=%d msg=%d sender c%d(self=%d) receiver c%d root=%s expected=%d got=%d senderok=%d filt=%d thr=%d pats:",h,k,s->id,s->self,c->id,c->root.c_str(),exp,cnt,senderok,filt,thr); for(auto&p:ps) printf(" [%s]",p.c_str()); printf("\n   receiver nodes:"); for(auto&kv:c->nodes) printf(" %s=%d",kv.first.c_str(),kv.second); printf("\n"); break; }
         }
      }
      for (auto c:cs) {c->gw.SetDataIO(DataIORef());} server.Cleanup(); for (auto c:cs) delete c; cs.clear();
   }
   printf("done: checks=%ld bad=%d\n", checks, bad);
   return bad;
}
