import sys, struct, io
sys.path.insert(0,'/repo/lang/python3')
import message
data=open(sys.argv[1],'rb').read(); off=0; n=0; bad=0
while off<len(data):
    (l,)=struct.unpack_from('<I',data,off); off+=4; b=data[off:off+l]; off+=l; n+=1
    m=message.Message()
    try:
        m.SetFromFlattenedBuffer(b)
        out=m.GetFlattenedBuffer()
        fs=m.FlattenedSize()
    except Exception as e:
        bad+=1; print("msg",n,"exception",repr(e)); 
        if bad>5: break
        continue
    if out!=b or fs!=len(b):
        bad+=1; print("msg",n,"python reflatten differs: len",len(b),len(out),"fs",fs)
        for i,(x,y) in enumerate(zip(b,out)):
            if x!=y: print(" first diff at",i,b[max(0,i-24):i+8].hex(),out[max(0,i-24):i+8].hex()); break
        if bad>5: break
print("python leg: msgs",n,"bad",bad)
