// C01 probe: Messages built by random op sequences through the public API; exact size, bit-exact round trip, reflatten identity
#include "message/Message.h"
#include "system/SetupSystem.h"
#include <vector>
#include <string>
#include <map>
#include <cstdio>
#include <cstring>
using namespace muscle;
static uint64_t rs; static uint64_t rnd(){ rs += 0x9e3779b97f4a7c15ULL; uint64_t z=rs; z=(z^(z>>30))*0xbf58476d1ce4e5b9ULL; z=(z^(z>>27))*0x94d049bb133111ebULL; return z^(z>>31);} static uint32_t R(uint32_t n){return (uint32_t)(rnd()%n);}
static const uint32 TYPES[]={B_BOOL_TYPE,B_INT8_TYPE,B_INT16_TYPE,B_INT32_TYPE,B_INT64_TYPE,B_FLOAT_TYPE,B_DOUBLE_TYPE,B_POINT_TYPE,B_RECT_TYPE,B_STRING_TYPE,B_RAW_TYPE,0x75737231/*user*/,B_MESSAGE_TYPE,B_POINTER_TYPE,B_TAG_TYPE};
static long cells[15][8]; static long statesSeen=0;
static uint32 ES(uint32 t){ switch(t){ case B_BOOL_TYPE: case B_INT8_TYPE: return 1; case B_INT16_TYPE: return 2; case B_INT32_TYPE: case B_FLOAT_TYPE: return 4; case B_INT64_TYPE: case B_DOUBLE_TYPE: case B_POINT_TYPE: return 8; case B_RECT_TYPE: return 16; } return 0; }
static std::string RB(uint32 t){ uint32 es=ES(t); std::string s; if (es){ static const uint8 pool[][8]={{0,0,0,0,0,0,0,0},{0xff,0xff,0xff,0xff,0xff,0xff,0xff,0xff},{0,0,0xc0,0x7f,0,0,0xf8,0x7f},{1,0,0x80,0x7f,1,0,0xf0,0x7f},{0,0,0,0x80,0,0,0,0x80},{0,0,0x80,0xff,0,0,0xf0,0xff}}; bool usePool=R(3)==0; uint32 pi=R(6); for(uint32 i=0;i<es;i++) s.push_back(usePool?(char)pool[pi][i%8]:(char)rnd()); if (t==B_BOOL_TYPE) s[0]&=1; } else { uint32 n= R(5)==0 ? 13+R(6) : R(4)==0 ? R(400) : 1+R(8); if (n==0&&t!=B_RAW_TYPE) n=1; for(uint32 i=0;i<n;i++) s.push_back((char)rnd()); } return s; }
static std::string RStr(){ uint32 n=R(5)==0?13+R(6):R(6)==0?R(300):R(8); std::string s; for(uint32 i=0;i<n;i++){ char c=(char)(1+R(255)); s.push_back(c);} return s; }
static MessageRef Gen(int depth);
static int dummyTarget;
static void Op(Message&m,const String&fn,uint32 t,int depth){ uint32 n=0; (void)m.GetInfo(fn,NULL,&n); uint32 op=R(10); uint32 idx=n?R(n):0; status_t r;
 if (t==B_STRING_TYPE){ std::string s=RStr(); if (op<5||n==0) r=m.AddString(fn,s.c_str()); else if (op<7) r=m.PrependString(fn,s.c_str()); else if (op<9) r=m.ReplaceString(false,fn,idx,s.c_str()); else r=m.RemoveData(fn,idx); }
 else if (t==B_MESSAGE_TYPE){ MessageRef s=Gen(depth+1); if (op<5||n==0) r=m.AddMessage(fn,s); else if (op<7) r=m.PrependMessage(fn,s); else if (op<9) r=m.ReplaceMessage(false,fn,idx,s); else r=m.RemoveData(fn,idx); }
 else if (t==B_POINTER_TYPE){ if (op<8||n==0) r=m.AddPointer(fn,&dummyTarget); else r=m.RemoveData(fn,idx); }
 else if (t==B_TAG_TYPE){ if (op<8||n==0) r=m.AddTag(fn,RefCountableRef(GetMessageFromPool(1))); else r=m.RemoveData(fn,idx); }
 else { std::string b=RB(t); if (b.empty()){ if (op<9||n==0) r=m.AddFlat(fn,GetByteBufferFromPool(0)); else r=m.RemoveData(fn,idx); } else if (op<5||n==0) r=m.AddData(fn,t,b.data(),b.size()); else if (op<7) r=m.PrependData(fn,t,b.data(),b.size()); else if (op<9) r=m.ReplaceData(false,fn,t,idx,b.data(),b.size()); else r=m.RemoveData(fn,idx); }
 if (r.IsError()) { printf("build op failed: %s (type %08x op %u n %u)\n",r(),t,op,n); abort(); } }
static MessageRef Gen(int depth){ MessageRef m=GetMessageFromPool((uint32)rnd()); uint32 nf=R(depth?4:9); for(uint32 i=0;i<nf;i++){ char nm[64]; uint32 nk=R(12); if (nk==0) nm[0]=0; else if (nk==1) sprintf(nm,"a_rather_long_field_name_beyond_the_small_buffer_%u",i); else if (nk==2) sprintf(nm,"\xc3\xa9\xff%u",i); else sprintf(nm,"f%u",i); int ti=R(15); uint32 t=TYPES[ti]; if (t==B_MESSAGE_TYPE&&depth>=3) {t=B_INT32_TYPE; ti=3;} if (t==0x75737231&&R(2)) t=(uint32)rnd()|0x01010101; if (ES(t)==0 && t!=B_STRING_TYPE&&t!=B_MESSAGE_TYPE&&t!=B_POINTER_TYPE&&t!=B_TAG_TYPE&&t!=B_RAW_TYPE) { /* user type */ ti=11; }
   uint32 tc; if (m()->GetInfo(nm,&tc).IsOK() && tc!=t) continue; uint32 nops = 1+(R(3)==0?R(40):R(5)); if (R(30)==0) nops=300; for(uint32 k=0;k<nops;k++) Op(*m(),nm,t,depth); uint32 n=0; (void)m()->GetInfo(nm,NULL,&n); cells[ti][n==0?0:n==1?1:n==2?2:n<10?3:n<100?4:5]++; if (R(6)==0) (void)m()->MoveName(nm,*m()); }
 return m; }
static int bad=0;
static bool SameStruct(const Message&a,const Message&b,bool skipNonFlat,std::string&why){ if (a.what!=b.what){why="what";return false;} MessageFieldNameIterator ia(a), ib(b); while(true){ while(skipNonFlat&&ia.HasData()){ uint32 tc; (void)a.GetInfo(ia.GetFieldName(),&tc); if (tc==B_POINTER_TYPE||tc==B_TAG_TYPE) ia++; else break; } if (!ia.HasData()||!ib.HasData()) break; const String&fa=ia.GetFieldName(); const String&fb=ib.GetFieldName(); if (fa!=fb){why=std::string("field order/name: ")+fa()+" vs "+fb(); return false;} uint32 ta,tb,na,nb; (void)a.GetInfo(fa,&ta,&na); (void)b.GetInfo(fb,&tb,&nb); if (ta!=tb||na!=nb){why=std::string("type/count of ")+fa(); return false;}
   for(uint32 i=0;i<na;i++){ if (ta==B_MESSAGE_TYPE){ ConstMessageRef sa,sb; if (a.FindMessage(fa,i,sa).IsError()||b.FindMessage(fb,i,sb).IsError()){why="FindMessage";return false;} if (!SameStruct(*sa(),*sb(),skipNonFlat,why)) return false; } else { const void*pa=NULL,*pb=NULL; uint32 la=0,lb=0; status_t ra=a.FindData(fa,ta,i,&pa,&la), rb=b.FindData(fb,tb,i,&pb,&lb); if (ra.IsError()!=rb.IsError()){why="FindData status";return false;} if (ra.IsOK() && (la!=lb||memcmp(pa,pb,la))){why=std::string("item bytes of ")+fa(); return false;} } } ia++; ib++; }
 while(skipNonFlat&&ia.HasData()){ uint32 tc; (void)a.GetInfo(ia.GetFieldName(),&tc); if (tc==B_POINTER_TYPE||tc==B_TAG_TYPE) ia++; else break; } if (ia.HasData()||ib.HasData()){why="field count";return false;} return true; }
int main(int argc,char**argv){ setvbuf(stdout,NULL,_IONBF,0); CompleteSetupSystem css; rs=argc>1?atoll(argv[1]):1; int N=argc>2?atoi(argv[2]):5000; long bytes=0; Message reused;
 for(int it=0;it<N&&bad<5;it++){ MessageRef m=Gen(0); uint32 n=m()->FlattenedSize(); uint8*buf=new uint8[n?n:1]; m()->FlattenToBytes(buf,n); bytes+=n; std::string why;
  Message m2; status_t r=m2.UnflattenFromBytes(buf,n); if (r.IsError()){bad++; printf("it=%d parse failed %s\n",it,r()); m()->Print(stdout);} else {
   if (!SameStruct(*m(),m2,true,why)){bad++; printf("it=%d structural difference: %s\n",it,why.c_str());}
   uint32 n2=m2.FlattenedSize(); uint8*buf2=new uint8[n2?n2:1]; m2.FlattenToBytes(buf2,n2); if (n2!=n||memcmp(buf,buf2,n)){bad++; printf("it=%d reflatten differs (%u vs %u)\n",it,n,n2);} delete [] buf2;
   r=reused.UnflattenFromBytes(buf,n); if (r.IsError()||!SameStruct(m2,reused,false,why)){bad++; printf("it=%d reused-object parse differs: %s\n",it,why.c_str());}
   Message m3(m2); if (m3.CalculateChecksum()!=m2.CalculateChecksum()||m3.FlattenedSize()!=n){bad++; printf("it=%d copy differs\n",it);}
   ByteBufferRef bb=m()->FlattenToByteBuffer(); if (bb()==NULL||bb()->GetNumBytes()!=n||memcmp(bb()->GetBuffer(),buf,n)){bad++; printf("it=%d FlattenToByteBuffer differs\n",it);} }
  delete [] buf; }
 printf("done msgs=%d bytes=%ld bad=%d\n cells(type x count-class 0,1,2,<10,<100,>=100):\n",N,bytes,bad); for(int t=0;t<15;t++){ printf("  %08x:",TYPES[t]); for(int c=0;c<6;c++) printf(" %ld",cells[t][c]); printf("\n"); } return bad?1:0; }
