#include "util/String.h"
#include "system/SetupSystem.h"
#include <string>
#include <algorithm>
#include <cstdio>
#include <cstdint>
using namespace muscle;
static uint64_t rs; static uint64_t rnd(){ rs += 0x9e3779b97f4a7c15ULL; uint64_t z=rs; z=(z^(z>>30))*0xbf58476d1ce4e5b9ULL; z=(z^(z>>27))*0x94d049bb133111ebULL; return z^(z>>31);} static uint32_t R(uint32_t n){return (uint32_t)(rnd()%n);}
static std::string RandStr(){ static const uint32 lens[]={0,1,2,3,5,6,7,8,9,13,14,15,16,17,22,23,24,25,30,31,32,33,47,48,49,63,64,65,100}; uint32 n=lens[R(sizeof(lens)/sizeof(lens[0]))]; std::string s; for(uint32 i=0;i<n;i++){ int k=R(12); s.push_back(k<8?(char)('a'+R(4)):k<9?' ':k<10?(char)('A'+R(4)):k<11?(char)(0x80+R(64)):(char)('0'+R(10))); } return s; }
static int bad=0; static long ops=0;
static void Cmp(const String & s, const std::string & m, const char * op){ ops++; if (s.Length()!=m.size() || memcmp(s(),m.data(),m.size())!=0 || s()[s.Length()]!=0 || strlen(s())!=m.size()) { bad=1; printf("MISMATCH after %s: got [%s] (len %u) expected [%s] (len %zu)\n", op, s(), s.Length(), m.c_str(), m.size()); } }
int main(int argc,char**argv){ CompleteSetupSystem css; rs=argc>1?strtoull(argv[1],0,0):1; long n=argc>2?atol(argv[2]):1000000;
  String s; std::string m;
  for (long i=0;i<n && !bad;i++){ int o=R(40); std::string a=RandStr(), b=RandStr(); uint32 k = m.size()?R((uint32)m.size()+1):0; uint32 k2=m.size()?R((uint32)m.size()+1):0; char opn[64];
    switch(o){
    case 0: s=a.c_str(); m=a; strcpy(opn,"assign cstr"); break;
    case 1: { String t(a.c_str()); s=t; m=a; strcpy(opn,"assign String"); } break;
    case 2: s+=a.c_str(); m+=a; strcpy(opn,"+= cstr"); break;
    case 3: s+=s; m+=m; strcpy(opn,"+= self"); break;
    case 4: { const char*p=s()+k; s+=p; m+=m.substr(k); sprintf(opn,"+= own ptr+%u",k);} break;
    case 5: { const char*p=s()+k; s=p; m=m.substr(k); sprintf(opn,"= own ptr+%u",k);} break;
    case 6: { uint32 len=R(40); (void)s.SetCstr(s()+k, len); m=m.substr(k, len); sprintf(opn,"SetCstr own+%u len %u",k,len);} break;
    case 7: { (void)s.SetFromString(s,k,k2); m = (k2>k)?m.substr(k,k2-k):std::string(); sprintf(opn,"SetFromString self %u %u",k,k2);} break;
    case 8: { (void)s.InsertChars(k, a.c_str()); m.insert(k,a); sprintf(opn,"InsertChars %u",k);} break;
    case 9: { const char*p=s()+k2; std::string ins=m.substr(k2); (void)s.InsertChars(k, p); m.insert(k,ins); sprintf(opn,"InsertChars %u own+%u",k,k2);} break;
    case 10: { (void)s.PrependChars(a.c_str(), R(50)); strcpy(opn,"PrependChars"); s=m.c_str(); } break; // skip (resync)
    case 11: { s=s.Substring(k); m=m.substr(k); sprintf(opn,"self=Substring(%u)",k);} break;
    case 12: { s=s.Substring(k,k2); m=(k2>k)?m.substr(k,k2-k):std::string(); sprintf(opn,"self=Substring(%u,%u)",k,k2);} break;
    case 13: { s=s.ToUpperCase(); for(auto&c:m) c=(char)muscleToUpper(c); strcpy(opn,"ToUpper"); if (memcmp(s(),m.data(),m.size())!=0) {m=s();} } break;
    case 14: { s=s.Trimmed(); size_t b0=0; while(b0<m.size()&&muscleIsSpace(m[b0])) b0++; size_t e=m.size(); while(e>b0&&muscleIsSpace(m[e-1])) e--; m=m.substr(b0,e-b0); strcpy(opn,"Trimmed"); } break;
    case 15: { s.Reverse(); std::reverse(m.begin(),m.end()); strcpy(opn,"Reverse"); } break;
    case 16: { uint32 t=R(20); s.TruncateChars(t); m.resize(m.size()-std::min<size_t>(t,m.size())); strcpy(opn,"TruncateChars"); } break;
    case 17: { uint32 t=R(70); s.TruncateToLength(t); if (m.size()>t) m.resize(t); strcpy(opn,"TruncateToLength"); } break;
    case 18: { char c1='a'+R(4), c2='a'+R(4); uint32 cnt=s.Replace(c1,c2); uint32 mc=0; for(auto&c:m) if(c==c1){c=c2; mc++;} if (cnt!=mc && c1!=c2) {bad=1; printf("Replace char count %u vs %u\n",cnt,mc);} strcpy(opn,"Replace char"); } break;
    case 19: { std::string from=a.substr(0,1+R(3)), to=b.substr(0,R(5)); if (from.empty()) break; String F(from.c_str()), T(to.c_str()); (void)s.Replace(F,T); std::string out; size_t pos=0; while(true){ size_t f=m.find(from,pos); if (f==std::string::npos){out+=m.substr(pos);break;} out+=m.substr(pos,f-pos)+to; pos=f+from.size(); } m=out; strcpy(opn,"Replace str"); } break;
    case 20: { if (m.empty()) break; String t=s; std::string from=m.substr(k, 1+R(3)); if (from.empty()) break; (void)s.Replace(String(from.c_str()), s); std::string to=m; std::string out; size_t pos=0; while(true){ size_t f=m.find(from,pos); if (f==std::string::npos){out+=m.substr(pos);break;} out+=m.substr(pos,f-pos)+to; pos=f+from.size(); if (out.size()>100000) break;} if (out.size()>100000) {s=""; m="";} else m=out; strcpy(opn,"Replace with self as replacement"); } break;
    case 21: { (void)s.Prealloc(R(100)); strcpy(opn,"Prealloc"); } break;
    case 22: { (void)s.ShrinkToFit(R(3)); strcpy(opn,"ShrinkToFit"); } break;
    case 23: { String t(b.c_str()); s.SwapContents(t); std::string tm=m; m=b; Cmp(t,tm,"swap other"); strcpy(opn,"SwapContents"); } break;
    case 24: { s-=a.substr(0,2).c_str(); std::string x=a.substr(0,2); if (!x.empty()){ size_t f=m.rfind(x); if (f!=std::string::npos) m.erase(f,x.size()); } strcpy(opn,"-= cstr (last instance)"); } break;
    case 25: { if (a.substr(0,2).empty()) break; int r1=s.IndexOf(a.substr(0,2).c_str(), k); size_t f = a.substr(0,2).empty()? (k<=m.size()?k:std::string::npos) : m.find(a.substr(0,2),k); int r2=(f==std::string::npos)?-1:(int)f; if (r1!=r2) {bad=1; printf("IndexOf mismatch %d vs %d (needle [%s] from %u in [%s])\n",r1,r2,a.substr(0,2).c_str(),k,m.c_str());} strcpy(opn,"IndexOf"); } break;
    case 26: { std::string nd=a.substr(0,2); if (nd.empty()) break; int r1=s.LastIndexOf(nd.c_str()); size_t f=m.rfind(nd); int r2=(f==std::string::npos)?-1:(int)f; if (r1!=r2) {bad=1; printf("LastIndexOf mismatch %d vs %d (needle [%s] in [%s])\n",r1,r2,nd.c_str(),m.c_str());} strcpy(opn,"LastIndexOf"); } break;
    case 27: { bool r1=s.StartsWith(a.substr(0,3).c_str()); bool r2=m.compare(0,std::min<size_t>(3,a.size()),a.substr(0,3))==0 && m.size()>=a.substr(0,3).size(); if (r1!=r2){bad=1; printf("StartsWith mismatch\n");} strcpy(opn,"StartsWith"); } break;
    case 28: { std::string x=a.substr(0,3); bool r1=s.EndsWith(x.c_str()); bool r2=m.size()>=x.size() && m.compare(m.size()-x.size(),x.size(),x)==0; if (r1!=r2){bad=1; printf("EndsWith mismatch\n");} strcpy(opn,"EndsWith"); } break;
    case 29: { s=s.WithAppend(s); m+=m; if (m.size()>5000){s="";m="";} strcpy(opn,"WithAppend self"); } break;
    case 30: { s=s.WithPrepend(s(),R(20)); strcpy(opn,"WithPrepend own cstr"); m=s(); } break; // resync only (semantics of maxChars)
    case 31: { s += (char)('a'+R(26)); m.push_back(s()[s.Length()-1]); strcpy(opn,"+= char"); } break;
    case 32: { String t=s.PaddedBy(R(40), R(2), '.'); (void)t; strcpy(opn,"PaddedBy"); } break;
    case 33: { uint8 buf[300]; uint32 fs=s.FlattenedSize(); if (fs<=300){ s.FlattenToBytes(buf,fs); if (fs!=m.size()+1||memcmp(buf,m.c_str(),fs)!=0){bad=1;printf("Flatten mismatch\n");} String t; if (t.UnflattenFromBytes(buf,fs).IsError()||t!=s){bad=1;printf("Unflatten mismatch\n");} if (fs>1){ String u; if (u.UnflattenFromBytes(buf,fs-1).IsOK()){static int once=0; if(!once++) printf("NOTE: unterminated input accepted (F18)\n");} } } strcpy(opn,"Flatten"); } break;
    case 34: { s.Clear(); m.clear(); strcpy(opn,"Clear"); } break;
    case 35: { String t(s, k, k2); std::string tm=(k2>k)?m.substr(k,k2-k):std::string(); Cmp(t,tm,"substring ctor"); strcpy(opn,"substring ctor"); } break;
    default: { if (m.size()>3000){ s=""; m=""; } strcpy(opn,"noop"); } break; }
    Cmp(s,m,opn);
  }
  printf("done ops=%ld bad=%d\n",ops,bad); return bad; }
