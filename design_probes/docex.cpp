// documentation-example table: every worked example found in the anchored headers, run verbatim
#include "util/Queue.h"
#include "util/String.h"
#include "util/Hashtable.h"
#include "regex/StringMatcher.h"
#include "regex/PathMatcher.h"
#include "system/SetupSystem.h"
#include <cstdio>
#include <string>
using namespace muscle;
static int bad=0; static std::string QS(const Queue<int>&q){ std::string s; for(uint32 i=0;i<q.GetNumItems();i++){ if (i) s+=","; s+=std::to_string(q[i]); } return s; }
#define EX(desc,got,want) do{ std::string g_=(got), w_=(want); printf("%s %-70s got [%s]%s\n", g_==w_?"ok  ":"FAIL", desc, g_.c_str(), g_==w_?"":(std::string("  want [")+w_+"]").c_str()); if (g_!=w_) bad++; }while(0)
int main(){ CompleteSetupSystem css;
 { Queue<int> a={1,2,3,4}, b={5,6,7,8}; (void)a.AddTailMulti(b); EX("Queue.h:164 a.AddTail(b)",QS(a),"1,2,3,4,5,6,7,8"); }
 { Queue<int> a={1,2,3,4}, b={5,6,7,8}; (void)a.AddHeadMulti(b); EX("Queue.h:230 a.AddHead(b)",QS(a),"5,6,7,8,1,2,3,4"); }
 { Queue<int> a={1,2,3,4}, b={5,6,7,8}; (void)a.InsertItemsAt(2,b); EX("Queue.h:426 a.InsertItemsAt(2,b)",QS(a),"1,2,5,6,7,8,3,4"); }
 { Queue<int> a={1,2,3,4}; const int b[]={5,6,7}; (void)a.InsertItemsAt(2,b,ARRAYITEMS(b)); EX("Queue.h:440 a.InsertItemsAt(2,array)",QS(a),"1,2,5,6,7,3,4"); }
 { Queue<int> a={1,2,3,4,5}; a.ReverseItemOrdering(); EX("Queue.h:696 ReverseItemOrdering A..E",QS(a),"5,4,3,2,1"); }
 EX("String.h:963 Substring(\"is a\")", String("this is a test").Substring("is a")(), " test");
 EX("String.h:982 Substring(1,\"is a\")", String("this is a test").Substring(1,"is a")(), "his ");
 { Hashtable<String,String> t; (void)t.Put("1","2"); (void)t.Put("2","3"); EX("String.h:1211 table {1->2,2->3} on 1,2,3,4", String("1,2,3,4").WithReplacements(t)(), "2,3,3,4"); EX("String.h:1210 chained single replacements", String("1,2,3,4").WithReplacements("1","2").WithReplacements("2","3")(), "3,3,3,4"); }
 EX("String.h:1295 Arg(13).Arg(\"bakers dozen\")", String("%1 is a %2").Arg(13).Arg("bakers dozen")(), "13 is a bakers dozen");
 EX("String.h:1537 ParseNumericSuffix(Joe-54)", std::to_string(String("Joe-54").ParseNumericSuffix()).c_str(), "54");
 { StringMatcher m("<19-21>"); std::string r; for(const char*s:{"18","19","20","21","22","20abc","020"}) if (m.Match(s)) { r+=s; r+=" "; } EX("StringMatcher.h:62 <19-21> matches 19,20,21 only", r, "19 20 21 "); }
 { StringMatcher m("<-19>"); std::string r; for(const char*s:{"0","19","20"}) if (m.Match(s)) { r+=s; r+=" "; } EX("StringMatcher.h:64 <-19>", r, "0 19 "); }
 { StringMatcher m("<21->"); std::string r; for(const char*s:{"20","21","4000000000"}) if (m.Match(s)) { r+=s; r+=" "; } EX("StringMatcher.h:65 <21->", r, "21 4000000000 "); }
 { StringMatcher m("<->"); std::string r; for(const char*s:{"0","7","abc",""}) if (m.Match(s)) { r+="["; r+=s; r+="] "; } EX("StringMatcher.h:65 <-> matches everything, same as *", r, "[0] [7] [abc] [] "); }
 { StringMatcher m("<19-21,25,30-50>"); std::string r; for(const char*s:{"19","22","25","29","30","50","51"}) if (m.Match(s)) { r+=s; r+=" "; } EX("StringMatcher.h:69 <19-21,25,30-50>", r, "19 25 30 50 "); }
 { StringMatcher m("~A*"); std::string r; for(const char*s:{"Apple","apple","B",""}) if (m.Match(s)) { r+="["; r+=s; r+="] "; } EX("StringMatcher.h:77 ~A* = does NOT begin with A", r, "[apple] [B] [] "); }
 { StringMatcher m("`^a[0-9]+$"); std::string r; for(const char*s:{"a1","a","ba12"}) if (m.Match(s)) { r+=s; r+=" "; } EX("StringMatcher.h:72 backtick = raw regex", r, "a1 "); }
 EX("StringMatcher.h:254 ToCaseInsensitive(Hello)", ToCaseInsensitive("Hello")(), "[Hh][Ee][Ll][Ll][Oo]");
 { std::string r; for(const char*p:{"","/","/test","test/me","/test/me/thoroughly"}) r+=std::to_string(GetPathDepth(p))+" "; EX("PathMatcher.h:220 GetPathDepth examples", r, "0 0 1 2 3 "); }
 { StringMatcher m("<5>"); EX("StringMatcher.h:94 <5> never unique", m.IsPatternUnique()?"unique":"not unique", "not unique"); }
 printf("failed examples: %d\n",bad); return bad?1:0; }
