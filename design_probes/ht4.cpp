// C09 probe, third part: positional puts, moves, index/neighbour queries, value queries, set operations, cross-table move/copy/swap, what-if equality
#include "util/Hashtable.h"
#include "system/SetupSystem.h"
#include <vector>
#include <algorithm>
#include <cstdio>
using namespace muscle;
static uint64_t rs; static uint64_t rnd(){ rs += 0x9e3779b97f4a7c15ULL; uint64_t z=rs; z=(z^(z>>30))*0xbf58476d1ce4e5b9ULL; z=(z^(z>>27))*0x94d049bb133111ebULL; return z^(z>>31);} static uint32_t R(uint32_t n){return (uint32_t)(rnd()%n);}
struct BK { uint32 v; BK(uint32 x=0):v(x){} bool operator==(const BK&o)const{return v==o.v;} bool operator!=(const BK&o)const{return v!=o.v;} bool operator<(const BK&o)const{return v<o.v;} uint32 HashCode() const {return v%3;} operator uint32() const {return v;} };
typedef Hashtable<BK,uint32> HT; typedef std::vector<std::pair<uint32,uint32>> M;
static int bad=0; static long checks=0; static const char*lastop="";
#define FAIL(...) do{ bad++; printf(__VA_ARGS__); printf("   (after %s)\n",lastop); }while(0)
static int find(const M&m,uint32 k){ for(size_t i=0;i<m.size();i++) if (m[i].first==k) return (int)i; return -1; }
static void Same(const HT&t,const M&m,const char*w){ checks++; if (t.GetNumItems()!=m.size()){ FAIL("%s: size %u vs %zu",w,t.GetNumItems(),m.size()); return;} uint32 i=0; for(ConstHashtableIterator<BK,uint32> it(t); it.HasData(); it++,i++){ if (i>=m.size()||it.GetKey().v!=m[i].first||it.GetValue()!=m[i].second){ FAIL("%s: entry %u differs",w,i); return; } } }
static void put(M&m,uint32 k,uint32 v){ int i=find(m,k); if (i>=0) m[i].second=v; else m.push_back({k,v}); }
int main(int argc,char**argv){ CompleteSetupSystem css; rs=argc>1?atoll(argv[1]):1; long n=argc>2?atol(argv[2]):200000; uint32 ks=argc>3?atoi(argv[3]):24; HT t,u; M m,um;
 for(long it=0;it<n&&bad<10;it++){ uint32 k=R(ks),k2=R(ks),v=R(6),pos=R(ks+3); int i=find(m,k), j=find(m,k2); status_t r;
  switch(R(30)){
   case 0: lastop="PutAtFront"; r=t.PutAtFront(k,v); if (i>=0){ m.erase(m.begin()+i);} m.insert(m.begin(),{k,v}); break;
   case 1: lastop="PutAtBack"; r=t.PutAtBack(k,v); if (i>=0) m.erase(m.begin()+i); m.push_back({k,v}); break;
   case 2: lastop="PutBefore"; r=t.PutBefore(k,k2,v); if (k==k2||j<0) put(m,k,v); else { if (i>=0) m.erase(m.begin()+i); j=find(m,k2); m.insert(m.begin()+j,{k,v}); } break;
   case 3: lastop="PutBehind"; r=t.PutBehind(k,k2,v); if (k==k2||j<0) put(m,k,v); else { if (i>=0) m.erase(m.begin()+i); j=find(m,k2); m.insert(m.begin()+j+1,{k,v}); } break;
   case 4: lastop="MoveToBehind"; r=t.MoveToBehind(k,k2); { bool okexp=(i>=0&&j>=0&&i!=j); if (r.IsOK()!=okexp) FAIL("MoveToBehind status %s, i=%d j=%d",r(),i,j); if (okexp){ auto e=m[i]; m.erase(m.begin()+i); j=find(m,k2); m.insert(m.begin()+j+1,e);} } break;
   case 5: lastop="MoveToPosition"; r=t.MoveToPosition(k,pos); if (r.IsOK()!=(i>=0)) FAIL("MoveToPosition status"); if (i>=0){ auto e=m[i]; m.erase(m.begin()+i); uint32 p=std::min<uint32>(pos,(uint32)m.size()); m.insert(m.begin()+p,e);} break;
   case 6: case 7: case 8: lastop="Put"; (void)t.Put(k,v); put(m,k,v); break;
   case 9: case 10: lastop="Remove"; r=t.Remove(k); if (r.IsOK()!=(i>=0)) FAIL("Remove status"); if (i>=0) m.erase(m.begin()+i); break;
   case 11: { lastop="IndexOfKey/GetKeyAt"; if (t.IndexOfKey(k)!=i) FAIL("IndexOfKey(%u)=%d want %d",k,t.IndexOfKey(k),i); const BK*pk=t.GetKeyAt(pos); if ((pk!=NULL)!=(pos<m.size())||(pk&&pk->v!=m[pos].first)) FAIL("GetKeyAt(%u)",pos); const uint32*pv=t.GetValueAt(pos); if ((pv!=NULL)!=(pos<m.size())||(pv&&*pv!=m[pos].second)) FAIL("GetValueAt(%u)",pos); BK rk(99999); if (t.GetKeyAt(pos,rk).IsOK()!=(pos<m.size())) FAIL("GetKeyAt status"); checks+=3; } break;
   case 12: { lastop="GetKeyBefore/After"; const BK*b=t.GetKeyBefore(k); const BK*a=t.GetKeyAfter(k); bool wb=(i>0), wa=(i>=0&&i+1<(int)m.size()); if ((b!=NULL)!=wb||(b&&b->v!=m[i-1].first)) FAIL("GetKeyBefore(%u)",k); if ((a!=NULL)!=wa||(a&&a->v!=m[i+1].first)) FAIL("GetKeyAfter(%u)",k); checks+=2; } break;
   case 13: { lastop="value queries"; bool cv=false; int fi=-1,li=-1; for(size_t q=0;q<m.size();q++) if (m[q].second==v){ cv=true; if (fi<0) fi=(int)q; li=(int)q; } if (t.ContainsValue(v)!=cv) FAIL("ContainsValue"); if (t.IndexOfValue(v)!=fi) FAIL("IndexOfValue fwd %d want %d",t.IndexOfValue(v),fi); if (t.IndexOfValue(v,true)!=li) FAIL("IndexOfValue back %d want %d",t.IndexOfValue(v,true),li); const BK*fk=t.GetFirstKeyWithValue(v); const BK*lk=t.GetLastKeyWithValue(v); if ((fk!=NULL)!=cv||(fk&&fk->v!=m[fi].first)) FAIL("GetFirstKeyWithValue"); if ((lk!=NULL)!=cv||(lk&&lk->v!=m[li].first)) FAIL("GetLastKeyWithValue"); checks+=5; } break;
   case 14: { lastop="SortByValue"; t.SortByValue(); std::stable_sort(m.begin(),m.end(),[](const std::pair<uint32,uint32>&a,const std::pair<uint32,uint32>&b){return a.second<b.second;}); } break;
   case 15: break;
   case 16: { lastop="Intersect"; uint32 rem=t.Intersect(u); M nm; for(auto&e:m) if (find(um,e.first)>=0) nm.push_back(e); if (rem!=m.size()-nm.size()) FAIL("Intersect count %u want %zu",rem,m.size()-nm.size()); m=nm; } break;
   case 17: { lastop="Put(table)"; (void)t.Put(u); for(auto&e:um) put(m,e.first,e.second); } break;
   case 18: { lastop="Remove(table)"; (void)t.Remove(u); M nm; for(auto&e:m) if (find(um,e.first)<0) nm.push_back(e); m=nm; } break;
   case 19: { lastop="MoveToTable"; r=t.MoveToTable(k,u); if (r.IsOK()!=(i>=0)) FAIL("MoveToTable status"); if (i>=0){ put(um,k,m[i].second); m.erase(m.begin()+i);} } break;
   case 20: { lastop="CopyToTable"; r=t.CopyToTable(k,u); if (r.IsOK()!=(i>=0)) FAIL("CopyToTable status"); if (i>=0) put(um,k,m[i].second); } break;
   case 21: { lastop="SwapWithTable"; int ui=find(um,k); r=t.SwapWithTable(k,u); if (r.IsOK()!=(i>=0||ui>=0)) FAIL("SwapWithTable status"); if (i>=0&&ui>=0) std::swap(m[i].second,um[ui].second); else if (i>=0){ put(um,k,m[i].second); m.erase(m.begin()+i);} else if (ui>=0){ put(m,k,um[ui].second); um.erase(um.begin()+ui);} } break;
   case 22: { lastop="set predicates"; bool sub=true,sup=true,common=false; for(auto&e:m){ if (find(um,e.first)<0) sub=false; else common=true; } for(auto&e:um) if (find(m,e.first)<0) sup=false; if (t.AreKeysASubsetOf(u)!=sub) FAIL("AreKeysASubsetOf"); if (t.AreKeysASupersetOf(u)!=sup) FAIL("AreKeysASupersetOf"); if (t.AreKeySetsEqual(u)!=(sub&&sup)) FAIL("AreKeySetsEqual"); if (t.HasKeysInCommonWith(u)!=common) FAIL("HasKeysInCommonWith"); checks+=4; } break;
   case 23: { lastop="WouldBeEqualToAfterPut"; HT c(t); M cm=m; if (R(2)){ (void)c.Put(k,v); put(cm,k,v);} else if (R(2)){ (void)c.Put(k2,v+1); put(cm,k2,v+1);} bool want; { M a=m; put(a,k,v); M sa=a, sb=cm; std::sort(sa.begin(),sa.end()); std::sort(sb.begin(),sb.end()); want=(sa==sb); } bool f30 = getenv("MASKF30") && i<0 && find(cm,k)>=0 && cm[find(cm,k)].second!=v; if (!f30 && t.WouldBeEqualToAfterPut(c,k,v)!=want) { FAIL("WouldBeEqualToAfterPut = %d want %d",(int)!want,(int)want); printf("   this:"); for(auto&e:m) printf(" %u=%u",e.first,e.second); printf("\n   rhs: "); for(auto&e:cm) printf(" %u=%u",e.first,e.second); printf("\n   imagined Put(%u,%u)\n",k,v); } bool wantO; { M a=m; put(a,k,v); wantO=(a==cm); } if (!f30 && t.WouldBeEqualToAfterPut(c,k,v,true)!=wantO) FAIL("WouldBeEqualToAfterPut(ordered) = %d want %d",(int)!wantO,(int)wantO); checks+=2; } break;
   case 24: { lastop="WouldBeEqualToAfterRemove"; HT c(t); M cm=m; if (R(2)){ (void)c.Remove(k); int ci=find(cm,k); if (ci>=0) cm.erase(cm.begin()+ci);} else if (R(2)){ (void)c.Remove(k2); int ci=find(cm,k2); if (ci>=0) cm.erase(cm.begin()+ci);} M a=m; if (i>=0) a.erase(a.begin()+i); M sa=a,sb=cm; std::sort(sa.begin(),sa.end()); std::sort(sb.begin(),sb.end()); if (t.WouldBeEqualToAfterRemove(c,k)!=(sa==sb)) FAIL("WouldBeEqualToAfterRemove want %d",(int)(sa==sb)); if (t.WouldBeEqualToAfterRemove(c,k,true)!=(a==cm)) FAIL("WouldBeEqualToAfterRemove(ordered) want %d",(int)(a==cm)); checks+=2; } break;
   case 25: { lastop="IsEqualTo"; HT c(t); if (!t.IsEqualTo(c,true)||!(t==c)) FAIL("copy not equal"); if (m.size()>=2){ (void)c.MoveToBack(m[0].first); if (!t.IsEqualTo(c,false)) FAIL("reordered copy unequal without ordering"); if (t.IsEqualTo(c,true)) FAIL("reordered copy equal with ordering"); } checks+=3; } break;
   case 26: { lastop="u traffic"; if (R(2)){ (void)u.Put(k,v); put(um,k,v);} else { int ui=find(um,k); (void)u.Remove(k); if (ui>=0) um.erase(um.begin()+ui);} } break;
   case 27: { lastop="WithDefault"; uint32 g=t.GetWithDefault(k,777); if (g!=(i>=0?m[i].second:777u)) FAIL("GetWithDefault"); uint32 rv=t.RemoveWithDefault(k2,888); if (rv!=(j>=0?m[j].second:888u)) FAIL("RemoveWithDefault"); if (j>=0) m.erase(m.begin()+j); } break;
   case 28: { lastop="GetOrPut/PutAndGet"; uint32*p=t.GetOrPut(k,v); if (!p||*p!=(i>=0?m[i].second:v)) FAIL("GetOrPut"); if (i<0) m.push_back({k,v}); uint32*q=t.PutAndGet(k2,v+1); if (!q||*q!=v+1) FAIL("PutAndGet"); put(m,k2,v+1); } break;
   default: { lastop="ComputeInvertedTable"; Hashtable<uint32,BK> inv=t.ComputeInvertedTable<DEFAULT_HASH_FUNCTOR(uint32)>(); for(auto&e:m){ const BK*pk=inv.Get(e.second); if (!pk) { FAIL("inverted table lacks value %u",e.second); break; } } checks++; } break; }
  Same(t,m,"t"); Same(u,um,"u"); if (m.size()>ks*2) { t.Clear(); m.clear(); } }
 printf("done checks=%ld bad=%d\n",checks,bad); return bad?1:0; }
