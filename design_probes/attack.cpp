// C06 probe (isolation part): silent victims, one attacker sending hostile commands; victims' state must not change
#include "reflector/ReflectServer.h"
#include "reflector/StorageReflectSession.h"
#include "reflector/StorageReflectConstants.h"
#include "iogateway/MessageIOGateway.h"
#include "dataio/TCPSocketDataIO.h"
#include "system/SetupSystem.h"
#include "util/NetworkUtilityFunctions.h"
#include <vector>
#include <map>
#include <string>
#include <cstdio>
using namespace muscle;
static uint64_t rs; static uint64_t rnd(){ rs += 0x9e3779b97f4a7c15ULL; uint64_t z=rs; z=(z^(z>>30))*0xbf58476d1ce4e5b9ULL; z=(z^(z>>27))*0x94d049bb133111ebULL; return z^(z>>31);} static uint32_t R(uint32_t n){return (uint32_t)(rnd()%n);}
struct Client : public AbstractGatewayMessageReceiver { MessageIOGateway gw; std::string root; std::string sid; bool alive=true; Queue<MessageRef> got; MessageRef params;
   virtual void MessageReceivedFromGateway(const MessageRef & m, void*) { if (m()->what == PR_RESULT_PARAMETERS) { params=m; const String*s; if (m()->FindString(PR_NAME_SESSION_ROOT,&s).IsOK()) { root=s->Cstr(); sid=root.substr(root.rfind('/')+1);} } else (void)got.AddTail(m); }
   void Send(const MessageRef & m) {(void) gw.AddOutgoingMessage(m);}
   bool Pump() { if (!alive) return false; bool any=false; while(gw.DoOutput().GetByteCount()>0) any=true; io_status_t r; while((r=gw.DoInput(*this)).GetByteCount()>0) any=true; if (r.IsError()) alive=false; return any; } };
class Inspector : public StorageReflectSession { public: DataNode & Root() {return GetGlobalRoot();} };
static Inspector * g_insp; static ReflectServer * g_server; static std::vector<Client*> cs;
static void Settle(int rounds=6){ int idle=0; while(idle<rounds){ bool any=false; for (auto c:cs) any|=c->Pump(); (void)g_server->ServerProcessLoop(0); for(auto c:cs) any|=c->Pump(); idle=any?0:idle+1; } }
static Client * NewClient(){ ConstSocketRef a,b; if (CreateConnectedSocketPair(a,b,false).IsError()) exit(10); Client*c=new Client; c->gw.SetDataIO(DataIORef(new TCPSocketDataIO(a,false))); StorageReflectSessionRef s(new StorageReflectSession); if (g_server->AddNewSession(s,b).IsError()) exit(11); cs.push_back(c); MessageRef gp=GetMessageFromPool(PR_COMMAND_GETPARAMETERS); c->Send(gp); Settle(); return c; }
static void Snap(DataNode&n,const std::string&skipRoot,const std::string&attId,std::map<std::string,std::string>&out){ String p=n.GetNodePath(); std::string ps=p(); if (!(ps==skipRoot||ps.compare(0,skipRoot.size()+1,skipRoot+"/")==0)){ std::string v; if (n.GetData()()){ ByteBufferRef b=n.GetData()()->FlattenToByteBuffer(); v.assign((const char*)b()->GetBuffer(),b()->GetNumBytes()); } v+="|idx:"; if (n.GetIndex()) for(uint32 i=0;i<n.GetIndex()->GetNumItems();i++){ v+=(*n.GetIndex())[i]()->GetNodeName()(); v+=","; } v+="|subs:"; std::map<uint32,uint32> sm; for (ConstHashtableIterator<uint32,uint32> it(n.GetSubscribers()); it.HasData(); it++) sm[it.GetKey()]=it.GetValue(); for(auto&e:sm){ char b[64]; sprintf(b,"%u:%u,",e.first,e.second); if (std::to_string(e.first)!=attId) v+=b; } out[ps]=v; } for(DataNodeRefIterator it=n.GetChildIterator(); it.HasData(); it++) Snap(*it.GetValue()(),skipRoot,attId,out); }
static std::string ParamSnap(Client*c){ c->params.Reset(); c->Send(GetMessageFromPool(PR_COMMAND_GETPARAMETERS)); Settle(); if (c->params()==NULL) return "<no reply>"; Message m(*c->params()); static const char*vol[]={PR_NAME_SERVER_CURRENTTIMELOCAL,PR_NAME_SERVER_CURRENTTIMEUTC,PR_NAME_SERVER_MEM_AVAILABLE,PR_NAME_SERVER_MEM_USED,PR_NAME_SERVER_MEM_MAX,PR_NAME_SERVER_RUNTIME,PR_NAME_SERVER_UPTIME}; for(auto v:vol) (void)m.RemoveName(v); ByteBufferRef b=m.FlattenToByteBuffer(); return std::string((const char*)b()->GetBuffer(),b()->GetNumBytes()); }
int main(int argc,char**argv){ CompleteSetupSystem css; SetConsoleLogLevel(MUSCLE_LOG_CRITICALERROR); uint64_t seed=argc>1?strtoull(argv[1],0,0):1; int nh=argc>2?atoi(argv[2]):30; int nc=argc>3?atoi(argv[3]):80; long cmds=0,snaps=0; int bad=0; std::map<uint32,long> byWhat;
 for(int h=0;h<nh&&!bad;h++){ rs=seed*1000003ULL+h; ReflectServer server; g_server=&server; cs.clear(); { Inspector*ins=new Inspector; AbstractReflectSessionRef ir(ins); if (server.AddNewSession(ir).IsError()) exit(12); g_insp=ins; }
  Client*v1=NewClient(); Client*v2=NewClient(); Client*att=NewClient();
  for(Client*v:{v1,v2}){ MessageRef sd=GetMessageFromPool(PR_COMMAND_SETDATA); const char*ps[]={"a","a/x","b","idx"}; for(auto p:ps){ MessageRef pl=GetMessageFromPool(7); (void)pl()->AddInt32("v",(int32)R(100)); (void)sd()->AddMessage(p,pl);} v->Send(sd); MessageRef io=GetMessageFromPool(PR_COMMAND_INSERTORDEREDDATA); (void)io()->AddString(PR_NAME_KEYS,"idx"); for(int i=0;i<3;i++){ MessageRef pl=GetMessageFromPool(8); (void)pl()->AddInt32("i",i); (void)io()->AddMessage("",pl);} v->Send(io);
     MessageRef sp=GetMessageFromPool(PR_COMMAND_SETPARAMETERS); (void)sp()->AddBool("SUBSCRIBE:/*/*/a",true); (void)sp()->AddBool("SUBSCRIBE:b",true); (void)sp()->AddInt32("myparam",42); (void)sp()->AddBool(PR_NAME_SUBSCRIBE_QUIETLY,true); v->Send(sp); }
  Settle(); std::map<std::string,std::string> before; Snap(g_insp->Root(),att->root,att->sid,before); std::string p1=ParamSnap(v1), p2=ParamSnap(v2); const uint32 nSess=server.GetSessions().GetNumItems(); if (h==0&&getenv("SHOW")) for(auto&kv:before) printf("  SNAP %s -> %zu bytes ...%s\n",kv.first.c_str(),kv.second.size(),kv.second.substr(kv.second.find("|idx:")).c_str());
  std::vector<std::string> keys={"/*/*/a","/*/*","/*","/*/*/*","/*/*/idx","/*/*/idx/*","a","*","../"+v1->sid+"/a","..","*/..","","/","//",v1->root+"/a",v1->root+"/idx",v1->root,v2->root+"/b","/*/"+v1->sid,"/*/"+v1->sid+"/*","/*/"+v1->sid+"/idx/I0",v1->root+"/idx/I1","/*/(" + v1->sid + "|" + v2->sid + ")/a","~"+att->sid,"/*/~"+att->sid+"/*", v1->root+"/newnode", v1->root+"/a/deeper"};
  static const uint32 whats[]={PR_COMMAND_SETDATA,PR_COMMAND_REMOVEDATA,PR_COMMAND_INSERTORDEREDDATA,PR_COMMAND_REORDERDATA,PR_COMMAND_KICK,PR_COMMAND_ADDBANS,PR_COMMAND_REMOVEBANS,PR_COMMAND_ADDREQUIRES,PR_COMMAND_REMOVEREQUIRES,PR_COMMAND_SETPARAMETERS,PR_COMMAND_REMOVEPARAMETERS,PR_COMMAND_JETTISONRESULTS,PR_COMMAND_SETDATATREES,PR_COMMAND_JETTISONDATATREES,PR_COMMAND_GETDATATREES,PR_COMMAND_GETDATA,PR_COMMAND_BATCH,12345};
  std::vector<std::string> log;
  for(int k=0;k<nc&&!bad;k++){ uint32 w=whats[R(18)]; MessageRef m=GetMessageFromPool(w); std::string desc="what="+std::to_string(w);
    std::function<void(MessageRef&,int)> fill=[&](MessageRef&m,int depth){ uint32 nk=1+R(3); for(uint32 i=0;i<nk;i++){ const std::string&key=keys[R(keys.size())]; desc+=" ["+key+"]"; switch(R(6)){ case 0: case 1: (void)m()->AddString(PR_NAME_KEYS,key.c_str()); break; case 2: { MessageRef pl=GetMessageFromPool(666); (void)pl()->AddInt32("evil",1); (void)m()->AddMessage(key.c_str(),pl);} break; case 3: (void)m()->AddString(key.c_str(), R(2)?"I0":"a"); break; case 4: (void)m()->AddBool((std::string("SUBSCRIBE:")+key).c_str(),true); break; case 5: (void)m()->AddString(PR_NAME_SESSION, R(2)?v1->sid.c_str():v1->root.c_str()); (void)m()->AddInt32(PR_NAME_PRIVILEGE_BITS,-1); break; } }
      if (m()->what==PR_COMMAND_BATCH && depth<2){ for(int b=0;b<2;b++){ MessageRef sub=GetMessageFromPool(whats[R(16)]); fill(sub,depth+1); (void)m()->AddMessage(PR_NAME_KEYS,sub);} } };
    fill(m,0); if (R(5)==0) (void)m()->AddBool(PR_NAME_REMOVE_QUIETLY,true); att->Send(m); log.push_back(desc); cmds++; byWhat[w]++; if (getenv("SELFTEST")&&k==nc/2){ MessageRef rd=GetMessageFromPool(PR_COMMAND_REMOVEDATA); (void)rd()->AddString(PR_NAME_KEYS,"idx/I1"); v2->Send(rd); }
    if (R(4)==0||k==nc-1){ Settle(); snaps++; std::map<std::string,std::string> after; Snap(g_insp->Root(),att->root,att->sid,after);
      if (after!=before){ bad++; printf("hist %d step %d: VICTIM STATE CHANGED\n",h,k); for(auto&kv:before) if (!after.count(kv.first)) printf("  node removed: %s\n",kv.first.c_str()); else if (after[kv.first]!=kv.second) printf("  node changed: %s\n",kv.first.c_str()); for(auto&kv:after) if (!before.count(kv.first)) printf("  node created: %s\n",kv.first.c_str()); }
      if (!v1->alive||!v2->alive||server.GetSessions().GetNumItems()<nSess-(att->alive?0:1)) { bad++; printf("hist %d step %d: a victim session was disconnected\n",h,k); }
      if (!bad && (ParamSnap(v1)!=p1||ParamSnap(v2)!=p2)) { bad++; printf("hist %d step %d: victim parameters changed\n",h,k); }
      if (bad) for(size_t i=(log.size()>12?log.size()-12:0);i<log.size();i++) printf("   | %s\n",log[i].c_str());
      if (!att->alive) break; } }
  for(auto c:cs){ c->gw.SetDataIO(DataIORef()); } Settle(); server.Cleanup(); for(auto c:cs) delete c; cs.clear(); }
 printf("done histories=%d attackerCommands=%ld snapshots=%ld bad=%d\n",nh,cmds,snaps,bad); return bad?1:0; }
