#include "util/Queue.h"
#include "system/SetupSystem.h"
#include <cstdio>
using namespace muscle;
int main(){ CompleteSetupSystem css;
 { Queue<int32> q; (void)q.EnsureSize(10,true); printf("fresh EnsureSize(10,true):"); for(uint32 i=0;i<q.GetNumItems();i++) printf(" %d",q[i]); printf("\n"); }
 { Queue<int32> q; for(int i=1;i<=20;i++) (void)q.AddTail(i*111); q.Clear(); (void)q.EnsureSize(10,true); printf("after fill 20, Clear(), EnsureSize(10,true):"); for(uint32 i=0;i<q.GetNumItems();i++) printf(" %d",q[i]); printf("\n"); }
 { Queue<int32> q; for(int i=1;i<=20;i++) (void)q.AddTail(i*111); while(q.GetNumItems()>2) (void)q.RemoveTail(); (void)q.EnsureSize(8,true); printf("after fill 20, RemoveTail to 2, EnsureSize(8,true):"); for(uint32 i=0;i<q.GetNumItems();i++) printf(" %d",q[i]); printf("\n"); }
 { Queue<int32> q; for(int i=1;i<=3;i++) (void)q.AddTail(i*111); (void)q.RemoveHead(); (void)q.RemoveHead(); (void)q.RemoveHead(); (void)q.EnsureSize(3,true); printf("small-inline: fill 3, remove 3, EnsureSize(3,true):"); for(uint32 i=0;i<q.GetNumItems();i++) printf(" %d",q[i]); printf("\n"); }
 { Queue<int32> q; for(int i=1;i<=20;i++) (void)q.AddTail(i*111); (void)q.EnsureSize(5,true); (void)q.EnsureSize(9,true); printf("fill 20, EnsureSize(5,true), EnsureSize(9,true):"); for(uint32 i=0;i<q.GetNumItems();i++) printf(" %d",q[i]); printf("\n"); }
 return 0; }
