// F24 reproducer: a failed TRY upgrade blocks (preferWriters, one parked writer, one other reader)
#include "system/ReaderWriterMutex.h"
#include "system/SetupSystem.h"
#include "util/TimeUtilityFunctions.h"
#include <thread>
#include <atomic>
#include <cstdio>
#include <unistd.h>
using namespace muscle;
int main(int argc,char**argv){ CompleteSetupSystem css; bool pw = argc>1 ? atoi(argv[1]) : 1; ReaderWriterMutex m("f24",pw); std::atomic<int> t2Holding{0}, tryReturned{0}, t3Started{0};
 std::thread t2([&]{ (void)m.LockReadOnly(); t2Holding=1; while(!tryReturned.load()) usleep(1000); (void)m.UnlockReadOnly(); });
 while(!t2Holding.load()) usleep(1000);
 (void)m.LockReadOnly();                       // T1 (main) holds read too
 std::thread t3([&]{ t3Started=1; (void)m.LockReadWrite(); (void)m.UnlockReadWrite(); });
 while(!t3Started.load()) usleep(1000); usleep(200000);   // let T3 park as a writer
 std::thread wd([&]{ sleep(3); if (!tryReturned.load()) { printf("TryLockReadWrite() has not returned after 3 s (preferWriters=%d): T1 blocked inside a try call, T2 waits for it, T3 parked -> deadlock\n",pw); fflush(stdout); _exit(1);} });
 uint64 t0=GetRunTime64(); status_t s=m.TryLockReadWrite(); uint64 t1=GetRunTime64(); tryReturned=1;
 printf("TryLockReadWrite returned %s after %llu us (preferWriters=%d)\n", s(), (unsigned long long)(t1-t0), pw);
 if (s.IsOK()) (void)m.UnlockReadWrite(); (void)m.UnlockReadOnly(); t2.join(); t3.join(); wd.detach(); return 0; }
