// C03 probe (WebSocket): client <-> server gateways over two chopped pipes, with and without HTTP upgrade, with and without slave gateway
#include "iogateway/WebSocketMessageIOGateway.h"
#include "iogateway/MessageIOGateway.h"
#include "iogateway/PlainTextMessageIOGateway.h"
#include "iogateway/RawDataMessageIOGateway.h"
#include "dataio/DataIO.h"
#include "system/SetupSystem.h"
#include <vector>
#include <string>
#include <deque>
#include <cstdio>
using namespace muscle;
static uint64_t rs; static uint64_t rnd(){ rs += 0x9e3779b97f4a7c15ULL; uint64_t z=rs; z=(z^(z>>30))*0xbf58476d1ce4e5b9ULL; z=(z^(z>>27))*0x94d049bb133111ebULL; return z^(z>>31);} static uint32_t R(uint32_t n){return (uint32_t)(rnd()%n);}
struct Pipe { std::deque<uint8_t> q; };
static uint32_t chop(uint32_t n){ if (n==0) return 0; switch(R(6)){ case 0: return 0; case 1: return 1; case 2: return n; case 3: return 1+R(n<8?n:8); default: return 1+R(n);} }
class ChopIO : public DataIO { public: Pipe * rd; Pipe * wr; ChopIO(Pipe*r,Pipe*w):rd(r),wr(w){}
   virtual io_status_t Read(void * b, uint32 size) { uint32_t avail=(uint32_t)rd->q.size(); uint32_t n = chop(avail<size?avail:size); for (uint32_t i=0;i<n;i++){ ((uint8_t*)b)[i]=rd->q.front(); rd->q.pop_front(); } return io_status_t((int32)n); }
   virtual io_status_t Write(const void * b, uint32 size) { uint32_t n=chop(size); for (uint32_t i=0;i<n;i++) wr->q.push_back(((const uint8_t*)b)[i]); return io_status_t((int32)n); }
   virtual void FlushOutput() {} virtual void Shutdown() {} virtual const ConstSocketRef & GetReadSelectSocket() const {return GetNullSocket();} virtual const ConstSocketRef & GetWriteSelectSocket() const {return GetNullSocket();} };
static bool g_items; static void Items(const MessageRef&m,std::vector<std::string>&out){ if (!g_items){ ByteBufferRef b=m()->FlattenToByteBuffer(); out.push_back(std::string((const char*)b()->GetBuffer(),b()->GetNumBytes())); return; } const String*s; for(uint32 i=0;m()->FindString(PR_NAME_TEXT_LINE,i,&s).IsOK();i++) out.push_back(std::string("T:")+s->Cstr()); const void*d; uint32 n; for(uint32 i=0;m()->FindData(PR_NAME_DATA_CHUNKS,B_RAW_TYPE,i,&d,&n).IsOK();i++) out.push_back(std::string("B:")+std::string((const char*)d,n)); }
struct Rx : public AbstractGatewayMessageReceiver { std::vector<std::string> got; virtual void MessageReceivedFromGateway(const MessageRef & m, void*) { Items(m,got); } };
static MessageRef Gen(bool slave){ if (slave){ MessageRef m=GetMessageFromPool(R(1000)); uint32 nf=R(4); for(uint32 i=0;i<nf;i++){ char fn[8]; sprintf(fn,"f%u",i); if (R(2)) (void)m()->AddInt32(fn,(int32)rnd()); else (void)m()->AddString(fn,std::string(R(3)==0?R(70000):R(200),'x').c_str()); } return m; }
  if (R(2)){ MessageRef m=GetMessageFromPool(PR_COMMAND_TEXT_STRINGS); uint32 n=1; for(uint32 i=0;i<n;i++){ uint32 len = R(4)==0 ? (R(2)?125+R(3):65534+R(4)) : 1+R(300); std::string s; for(uint32 k=0;k<len;k++) s.push_back((char)('a'+R(26))); (void)m()->AddString(PR_NAME_TEXT_LINE,s.c_str()); } return m; }
  MessageRef m=GetMessageFromPool(PR_COMMAND_RAW_DATA); uint32 len = R(4)==0 ? (R(2)?125+R(3):65534+R(4)) : 1+R(300); std::string s; for(uint32 k=0;k<len;k++) s.push_back((char)rnd()); (void)m()->AddData(PR_NAME_DATA_CHUNKS,B_RAW_TYPE,s.data(),(uint32)s.size()); return m; }
int main(int argc,char**argv){ CompleteSetupSystem css; SetConsoleLogLevel(MUSCLE_LOG_ERROR); uint64_t seed=argc>1?strtoull(argv[1],0,0):1; int runs=argc>2?atoi(argv[2]):200; long ok=0,msgs=0; int bad=0;
 for(int r=0;r<runs&&!bad;r++){ rs=seed*1000003ULL+r; bool handshake=R(2), slave=R(2); if (getenv("NOSLAVE")) slave=false; if (getenv("NOHS")) handshake=false; if (getenv("HS")) handshake=true; if (getenv("SLAVE")) slave=true; Pipe c2s,s2c; static const bool yes=true,no=false; WebSocketMessageIOGatewayRef C,S; if (handshake){ C.SetRef(new WebSocketMessageIOGateway("/chat","example.com","muscle","")); S.SetRef(new WebSocketMessageIOGateway()); } else { C.SetRef(new WebSocketMessageIOGateway(&yes)); S.SetRef(new WebSocketMessageIOGateway(&no)); }
  if (slave){ C()->SetSlaveGateway(AbstractMessageIOGatewayRef(new MessageIOGateway)); S()->SetSlaveGateway(AbstractMessageIOGatewayRef(new MessageIOGateway)); }
  C()->SetDataIO(DataIORef(new ChopIO(&s2c,&c2s))); S()->SetDataIO(DataIORef(new ChopIO(&c2s,&s2c))); Rx rc,rsv; std::vector<std::string> sentC,sentS; uint32 nm=1+R(6);
  for(uint32 i=0;i<nm;i++){ MessageRef m=Gen(slave); g_items=!slave; if (R(2)){ (void)C()->AddOutgoingMessage(m); Items(m,sentC);} else { (void)S()->AddOutgoingMessage(m); Items(m,sentS);} }
  int idle=0; for(int it=0;it<2000000&&idle<50;it++){ bool any=false; if (C()->DoOutput().GetByteCount()>0) any=true; if (S()->DoInput(rsv).GetByteCount()>0) any=true; if (S()->DoOutput().GetByteCount()>0) any=true; if (C()->DoInput(rc).GetByteCount()>0) any=true; idle=any?0:idle+1; }
  msgs+=nm; if (rsv.got!=sentC||rc.got!=sentS){ bad++; printf("run %d handshake=%d slave=%d: server got %zu of %zu, client got %zu of %zu",r,handshake,slave,rsv.got.size(),sentC.size(),rc.got.size(),sentS.size()); for(size_t i=0;i<sentC.size()&&i<rsv.got.size();i++) if (sentC[i]!=rsv.got[i]) printf(" [c->s msg %zu differs: sent %zu bytes got %zu]",i,sentC[i].size(),rsv.got[i].size()); for(size_t i=0;i<sentS.size()&&i<rc.got.size();i++) if (sentS[i]!=rc.got[i]) printf(" [s->c msg %zu differs: sent %zu bytes got %zu]",i,sentS[i].size(),rc.got[i].size()); printf("\n"); } else ok++; }
 printf("done runs=%d ok=%ld msgs=%ld bad=%d\n",runs,ok,msgs,bad); return bad?1:0; }
