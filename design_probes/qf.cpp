// C14 probe: random filter trees vs an independent evaluator written from QueryFilter.h docs; archive round trip; hostile archives
#include "regex/QueryFilter.h"
#include "message/Message.h"
#include "system/SetupSystem.h"
#include "util/ByteBuffer.h"
#include <vector>
#include <string>
#include <memory>
#include <cstdio>
#include <cstring>
#include <algorithm>
using namespace muscle;
static uint64_t rs; static uint64_t rnd(){ rs += 0x9e3779b97f4a7c15ULL; uint64_t z=rs; z=(z^(z>>30))*0xbf58476d1ce4e5b9ULL; z=(z^(z>>27))*0x94d049bb133111ebULL; return z^(z>>31);} static uint32_t R(uint32_t n){return (uint32_t)(rnd()%n);}
enum K {WHAT,EXISTS,I32,I64,STR,RAW,MSG,MINT,MAXT,AND,OR,NAND,NOR,XOR,NK};
struct N { K k; std::string fn; uint32 idx=0; uint8 op=0; int64 v=0, mask=0, def=0; uint8 maskOp=0; bool hasDef=false; std::string sv, sdef; uint32 tc=B_ANY_TYPE; uint32 lo=0,hi=0,n=0; bool hasKid=false,hasDefMsg=false; MessageRef defMsg; std::vector<N> kids; };
static const char* FN[]={"a","b","s","t","m","r","x","zz"};
static std::string RStr(){ static const char al[]="aAbB"; std::string s; uint32 n=R(4); for(uint32 i=0;i<n;i++) s.push_back(al[R(4)]); return s; }
static MessageRef GenMsg(int depth){ MessageRef m=GetMessageFromPool(R(6)); uint32 c;
 c=R(4); for(uint32 i=0;i<c;i++) (void)m()->AddInt32("a",(int32)R(5)-2); c=R(3); for(uint32 i=0;i<c;i++) (void)m()->AddInt32("b",(int32)R(5)-2);
 c=R(3); for(uint32 i=0;i<c;i++) (void)m()->AddString("s",RStr().c_str()); c=R(2); for(uint32 i=0;i<c;i++) (void)m()->AddString("t",RStr().c_str());
 c=R(3); for(uint32 i=0;i<c;i++) (void)m()->AddInt64("x",(int64)R(5)-2);
 c=R(3); for(uint32 i=0;i<c;i++){ std::string r=RStr(); if (r.empty()) r="b"; if (r.size()) (void)m()->AddData("r",B_RAW_TYPE,r.data(),r.size()); else (void)m()->AddFlat("r",GetByteBufferFromPool(0)); }
 if (depth<2){ c=R(3); for(uint32 i=0;i<c;i++) (void)m()->AddMessage("m",GenMsg(depth+1)); }
 return m; }
static N Gen(int depth){ N n; n.k=(K)R(depth>=3?MSG:NK); n.fn=FN[R(8)]; n.idx=R(4)==0?R(3):0; if (R(30)==0) n.idx=0xFFFFFFFFu;
 switch(n.k){ case WHAT: n.lo=R(6); n.hi=R(3)?n.lo:R(6); break; case EXISTS: { static const uint32 t[]={B_ANY_TYPE,B_INT32_TYPE,B_STRING_TYPE,B_MESSAGE_TYPE,B_RAW_TYPE,B_INT64_TYPE}; n.tc=t[R(6)]; } break;
  case I32: case I64: n.op=(uint8)R(7); n.v=(int64)R(5)-2; if (R(3)==0){ n.maskOp=(uint8)R(8); n.mask=(int64)R(4);} if (R(3)==0){n.hasDef=true;n.def=(int64)R(5)-2;} break;
  case STR: n.op=(uint8)R(25); n.sv=RStr(); if (R(3)==0){n.hasDef=true;n.sdef=RStr();} break;
  case RAW: n.op=(uint8)R(13); n.sv=RStr(); n.tc=R(2)?B_ANY_TYPE:B_RAW_TYPE; if (R(3)==0){n.hasDef=true;n.sdef=RStr(); if (getenv("MASKF22") && n.sdef.empty()) n.sdef="a";} break;
  case MSG: n.fn=R(4)?"m":n.fn; n.hasKid=R(4)!=0; if (n.hasKid) n.kids.push_back(Gen(depth+1)); if (R(3)==0){n.hasDefMsg=true; n.defMsg=GenMsg(2);} break;
  case MINT: case MAXT: n.n=R(5)==0?MUSCLE_NO_LIMIT:R(5); /*fall*/ default: { uint32 c=R(5); for(uint32 i=0;i<c;i++) n.kids.push_back(Gen(depth+1)); } break; }
 return n; }
static ConstByteBufferRef BB(const std::string&s){ return GetByteBufferFromPool((uint32)s.size(),(const uint8*)s.data()); }
static QueryFilterRef Build(const N&n){ switch(n.k){
 case WHAT: return QueryFilterRef(new WhatCodeQueryFilter(n.lo,n.hi)); case EXISTS: return QueryFilterRef(new ValueExistsQueryFilter(n.fn.c_str(),n.tc,n.idx));
 case I32: { Int32QueryFilter*f=new Int32QueryFilter(n.fn.c_str(),n.op,(int32)n.v,n.idx); if (n.maskOp) f->SetMask(n.maskOp,(int32)n.mask); if (n.hasDef) f->SetAssumedDefault((int32)n.def); return QueryFilterRef(f);} 
 case I64: { Int64QueryFilter*f=new Int64QueryFilter(n.fn.c_str(),n.op,n.v,n.idx); if (n.maskOp) f->SetMask(n.maskOp,n.mask); if (n.hasDef) f->SetAssumedDefault(n.def); return QueryFilterRef(f);} 
 case STR: { StringQueryFilter*f=new StringQueryFilter(n.fn.c_str(),n.op,n.sv.c_str(),n.idx); if (n.hasDef) f->SetAssumedDefault(n.sdef.c_str()); return QueryFilterRef(f);} 
 case RAW: { RawDataQueryFilter*f=new RawDataQueryFilter(n.fn.c_str(),n.op,BB(n.sv),n.tc,n.idx); if (n.hasDef) f->SetAssumedDefault(BB(n.sdef)); return QueryFilterRef(f);} 
 case MSG: return QueryFilterRef(new MessageQueryFilter(n.hasKid?ConstQueryFilterRef(Build(n.kids[0])):ConstQueryFilterRef(), n.hasDefMsg?ConstMessageRef(n.defMsg):ConstMessageRef(), n.fn.c_str(), n.idx));
 default: { MultiQueryFilter*f; switch(n.k){ case MINT: f=new MinimumThresholdQueryFilter(n.n); break; case MAXT: f=new MaximumThresholdQueryFilter(n.n); break; case AND: f=new AndQueryFilter; break; case OR: f=new OrQueryFilter; break; case NAND: f=new NandQueryFilter; break; case NOR: f=new NorQueryFilter; break; default: f=new XorQueryFilter; break; } for(auto&k:n.kids) (void)f->GetChildren().AddTail(Build(k)); return QueryFilterRef(f);} } }
static std::string lower(std::string s){ for(auto&c:s) c=(char)tolower((unsigned char)c); return s; }
static bool starts(const std::string&a,const std::string&b){ return a.size()>=b.size() && a.compare(0,b.size(),b)==0; } static bool ends(const std::string&a,const std::string&b){ return a.size()>=b.size() && a.compare(a.size()-b.size(),b.size(),b)==0; } static bool has(const std::string&a,const std::string&b){ return a.find(b)!=std::string::npos; }
template<class T> static bool cmp(uint8 op,const T&a,const T&b,bool&ok){ ok=true; switch(op){ case 0: return a==b; case 1: return a<b; case 2: return a>b; case 3: return a<=b; case 4: return a>=b; case 5: return a!=b; } ok=false; return false; }
template<class T> static T domask(uint8 m,T v,T k){ switch(m){ case 1: return v&k; case 2: return v|k; case 3: return v^k; case 4: return ~(v&k); case 5: return ~(v|k); case 6: return ~(v^k); default: return v; } }
static long hostile=0,hostileOK=0;
static void Mutate(Message&a,int depth){ uint32 nm=1+R(3); for(uint32 q=0;q<nm;q++){ Queue<String> names; for(MessageFieldNameIterator it(a); it.HasData(); it++) (void)names.AddTail(it.GetFieldName()); static const char* known[]={"fn","idx","op","val","def","type","min","max","kid","defmsg","mop","msk","usedef","kids","minwhat","maxwhat","v","m","d"};
  String tgt = (names.HasItems()&&R(3)) ? names[R(names.GetNumItems())] : String(known[R(19)]);
  switch(R(9)){ case 0: (void)a.RemoveName(tgt); break; case 1: (void)a.RemoveName(tgt); (void)a.AddInt32(tgt,(int32)rnd()); break; case 2: (void)a.RemoveName(tgt); (void)a.AddString(tgt,R(2)?"`((a{1,9}){1,9}":"*[a-"); break; case 3: (void)a.RemoveName(tgt); (void)a.AddInt8(tgt,(int8)rnd()); break;
   case 4: a.what = QUERY_FILTER_TYPE_WHATCODE + R(22); break; case 5: { MessageRef sub; if (a.FindMessage(tgt,sub).IsOK() && depth<4) { MessageRef c=GetMessageFromPool(*sub()); Mutate(*c(),depth+1); (void)a.ReplaceMessage(false,tgt,c);} } break;
   case 6: (void)a.RemoveName(tgt); (void)a.AddMessage(tgt,GetMessageFromPool(QUERY_FILTER_TYPE_WHATCODE+R(22))); break; case 7: (void)a.RemoveName(tgt); (void)a.AddInt64(tgt,(int64)rnd()); break; case 8: (void)a.RemoveName(tgt); { uint8 b[3]={1,2,3}; (void)a.AddData(tgt,B_RAW_TYPE,b,1+R(3)); } break; } } }
static long exprs=0,exprPairs=0,soup=0,soupOK=0; static std::string curExpr;
static bool unspecified; // set when the docs do not determine the answer (op out of range etc.)
static bool RefEval(const N&n,const Message&m){ switch(n.k){
 case WHAT: return m.what>=n.lo && m.what<=n.hi;
 case EXISTS: { uint32 c=0,tc=0; if (m.GetInfo(n.fn.c_str(),&tc,&c).IsError()) return false; if (n.tc!=B_ANY_TYPE && tc!=n.tc) return false; return n.idx<c; }
 case I32: { int32 v; if (m.FindInt32(n.fn.c_str(),n.idx,v).IsError()){ if(!n.hasDef) return false; v=(int32)n.def; } if (n.maskOp>6) {unspecified=true; return false;} if (n.maskOp) v=domask<int32>(n.maskOp,v,(int32)n.mask); bool ok; bool r=cmp<int32>(n.op,v,(int32)n.v,ok); if(!ok) unspecified=true; return r; }
 case I64: { int64 v; if (m.FindInt64(n.fn.c_str(),n.idx,v).IsError()){ if(!n.hasDef) return false; v=n.def; } if (n.maskOp>6) {unspecified=true; return false;} if (n.maskOp) v=domask<int64>(n.maskOp,v,n.mask); bool ok; bool r=cmp<int64>(n.op,v,n.v,ok); if(!ok) unspecified=true; return r; }
 case STR: { const char*p; std::string s; if (m.FindString(n.fn.c_str(),n.idx,&p).IsError()){ if(!n.hasDef) return false; s=n.sdef; } else s=p; std::string v=n.sv; uint8 op=n.op; if (op>=24) {unspecified=true; return false;} if (op>=12){ s=lower(s); v=lower(v); op-=12; }
   if (s.empty()||v.empty()) if (op>=6) unspecified=true; // empty-needle searches: String docs silent (see C17)
   switch(op){ case 6: return starts(s,v); case 7: return ends(s,v); case 8: return has(s,v); case 9: return starts(v,s); case 10: return ends(v,s); case 11: return has(v,s); default: { bool ok; return cmp<std::string>(op,s,v,ok);} } }
 case RAW: { const void*p; uint32 nb; std::string s; if (m.FindData(n.fn.c_str(),n.tc,n.idx,&p,&nb).IsError()){ if(!n.hasDef) return false; s=n.sdef; } else s.assign((const char*)p,nb); const std::string&v=n.sv; if (n.op>=12) {unspecified=true; return false;} if (v.empty()||s.empty()) unspecified=true;
   switch(n.op){ case 6: return starts(s,v); case 7: return ends(s,v); case 8: return has(s,v); case 9: return starts(v,s); case 10: return ends(v,s); case 11: return has(v,s); default: { bool ok; return cmp<std::string>(n.op,s,v,ok);} } }
 case MSG: { ConstMessageRef sub; if (m.FindMessage(n.fn.c_str(),n.idx,sub).IsError()){ if(!n.hasDefMsg) return false; sub=n.defMsg; } if (!n.hasKid) return true; return RefEval(n.kids[0],*sub()); }
 default: { uint32 c=0; for(auto&k:n.kids) if (RefEval(k,m)) c++; uint32 nk=(uint32)n.kids.size(); switch(n.k){
   case XOR: return (c&1)!=0; case AND: return c==nk; case OR: return nk==0 ? true : c>0; case NAND: return nk==0 ? false : c<nk; case NOR: return nk==0 ? false : c==0;
   case MINT: return nk==0 ? true : c>std::min(n.n,nk-1); case MAXT: return nk==0 ? false : !(c>std::min(n.n,nk-1)); default: return false; } } } }

static const char* NOPS[]={"==","<",">","<=",">=","!="}; static const char* SOPS[]={"==","<",">","<=",">=","!=","startswith","endswith","contains","isstartof","isendof","issubstringof"};
// returns false if the tree is not expressible in the documented grammar
static bool ToExpr(const N&n,std::string&o);
static bool Operand(const N&n,std::string&o){ if (n.k==NAND) return ToExpr(n,o); o+="("; if (!ToExpr(n,o)) return false; o+=")"; return true; }
static bool ToExpr(const N&n,std::string&o){ if (getenv("MASKF23") && n.k<=STR && (n.idx||n.hasDef)) return false; char b[128]; auto fld=[&](const std::string&def,bool hd){ std::string f=n.fn; if (n.idx){ sprintf(b,":%u",n.idx); f+=b; } if (hd) f+="|"+def; return f; };
 switch(n.k){ case WHAT: if (n.lo!=n.hi) return false; sprintf(b,"what == %u",n.lo); o+=b; return true;
  case EXISTS: { const char*c=""; switch(n.tc){ case B_ANY_TYPE: c=""; break; case B_INT32_TYPE: c="(int32)"; break; case B_STRING_TYPE: c="(string)"; break; case B_INT64_TYPE: c="(int64)"; break; default: return false; } o+=std::string("exists ")+c+fld("",false); return true; }
  case I32: case I64: { if (n.maskOp||n.op>5||n.idx==0xFFFFFFFFu) return false; sprintf(b,"%lld",(long long)n.def); std::string f=fld(b,n.hasDef); sprintf(b," %s (%s)%lld",NOPS[n.op],n.k==I32?"int32":"int64",(long long)n.v); o+=f+b; return true; }
  case STR: { if (n.op>11||n.idx==0xFFFFFFFFu) return false; if (n.sv.empty()||(n.hasDef&&n.sdef.empty())) return false; o+=fld(n.sdef,n.hasDef)+" "+SOPS[n.op]+" \""+n.sv+"\""; return true; }
  case AND: case OR: case XOR: { if (n.kids.size()<2) return false; const char*j=n.k==AND?" && ":n.k==OR?" || ":" ^ "; for(size_t i=0;i<n.kids.size();i++){ if (i) o+=j; if (!Operand(n.kids[i],o)) return false; } return true; }
  case NAND: { if (n.kids.size()!=1) return false; o+="!"; return Operand(n.kids[0],o); }
  default: return false; } }
int main(int argc,char**argv){ CompleteSetupSystem css; rs=argc>1?atoll(argv[1]):1; int N_=argc>2?atoi(argv[2]):2000; long noteq=0,pairs=0,unspec=0,trues=0,arch=0,archfail=0; int bad=0;
 for(int it=0;it<N_&&bad<8;it++){ N t=Gen(0); QueryFilterRef f=Build(t);
  // archive round trip
  QueryFilterRef g; { Message a; status_t r=f()->SaveToArchive(a); if (r.IsError()) { archfail++; if (bad<8){bad++; printf("it=%d SaveToArchive failed: %s\n",it,r()); f()->Print(stdout);} } else { arch++; uint32 fs=a.FlattenedSize(); std::vector<uint8> b(fs+1); a.FlattenToBytes(b.data(),fs); Message a2; (void)a2.UnflattenFromBytes(b.data(),fs); g=GetGlobalQueryFilterFactory()()->CreateQueryFilter(a2); if (g()==NULL) {bad++; printf("it=%d restore failed\n",it); f()->Print(stdout);} else if (!g()->IsEqualTo(*f())) noteq++; } }
  if (getenv("HOSTILE")) for(int h=0;h<10;h++){ Message a; if (f()->SaveToArchive(a).IsError()) break; Mutate(a,0); hostile++; QueryFilterRef hf=GetGlobalQueryFilterFactory()()->CreateQueryFilter(a); if (hf()){ hostileOK++; for(int j=0;j<5;j++){ MessageRef m=GenMsg(0); ConstMessageRef cm=m; (void)hf()->Matches(cm,NULL);} Message a3; (void)hf()->SaveToArchive(a3); } }
  ConstQueryFilterRef ef; { std::string e; if (ToExpr(t,e)) { exprs++; ef=CreateQueryFilterFromExpression(e.c_str()); if (ef()==NULL){ bad++; printf("it=%d expression rejected: [%s] (%s)\n",it,e.c_str(),ef.GetStatus()()); } else curExpr=e; } }
  if (getenv("SOUP")) for(int h=0;h<20;h++){ static const char* tk[]={"(",")","&&","||","^","!","exists","what","a","s:1","b|3","==","<",">=","!=","startswith","contains","matches","matchesregex","(int32)","(string)","(float)","(bool)","\"aA\"","\"","12","-3","1.5f","true","|",":","and","not","is","`((a{1,3}){1,3})"," "}; std::string e; uint32 nt=R(3)==0?R(200):R(14); for(uint32 q=0;q<nt;q++){ e+=tk[R(36)]; if (R(4)) e+=" "; } soup++; ConstQueryFilterRef sf=CreateQueryFilterFromExpression(e.c_str()); if (sf()){ soupOK++; for(int j=0;j<3;j++){ MessageRef m=GenMsg(0); ConstMessageRef cm=m; (void)sf()->Matches(cm,NULL);} } }
  for(int j=0;j<20;j++){ MessageRef m=GenMsg(0); if (ef()){ ConstMessageRef cm3=m; unspecified=false; bool w=RefEval(t,*m()); bool g3=ef()->Matches(cm3,NULL); exprPairs++; if (!unspecified && g3!=w){ bad++; printf("it=%d j=%d EXPRESSION MISMATCH got=%d want=%d [%s]\n",it,j,g3,w,curExpr.c_str()); ef()->Print(stdout); m()->Print(stdout); break; } } ConstMessageRef cm=m; uint32 cs0=m()->CalculateChecksum(); unspecified=false; bool want=RefEval(t,*m()); bool got=f()->Matches(cm,NULL); pairs++; if (unspecified) {unspec++;} else { if (want) trues++; if (got!=want){ bad++; printf("it=%d j=%d MISMATCH got=%d want=%d\n",it,j,got,want); f()->Print(stdout); m()->Print(stdout); break; } }
    if (g()){ ConstMessageRef cm2=m; bool got2=g()->Matches(cm2,NULL); if (got2!=got){ bad++; printf("it=%d j=%d restored filter decides differently (%d vs %d)\n",it,j,got2,got); f()->Print(stdout); g()->Print(stdout); m()->Print(stdout); break; } }
    if (m()->CalculateChecksum()!=cs0) {bad++; printf("message changed by evaluation\n");} } }
 printf("exprs=%ld exprPairs=%ld soup=%ld soupParsed=%ld ",exprs,exprPairs,soup,soupOK); printf("noteq=%ld hostile=%ld instantiated=%ld ",noteq,hostile,hostileOK); printf("done trees=%d pairs=%ld unspecified=%ld true=%ld archived=%ld archfail=%ld bad=%d\n",N_,pairs,unspec,trues,arch,archfail,bad); return bad?1:0; }
