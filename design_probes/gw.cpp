#include "iogateway/MessageIOGateway.h"
#include "iogateway/TemplatingMessageIOGateway.h"
#include "iogateway/PlainTextMessageIOGateway.h"
#include "iogateway/RawDataMessageIOGateway.h"
#include "iogateway/SLIPFramedDataMessageIOGateway.h"
#include "dataio/DataIO.h"
#include "system/SetupSystem.h"
#include <vector>
#include <string>
#include <deque>
#include <cstdio>
#include <cstdint>
using namespace muscle;
static uint64_t rs; static uint64_t rnd(){ rs += 0x9e3779b97f4a7c15ULL; uint64_t z=rs; z=(z^(z>>30))*0xbf58476d1ce4e5b9ULL; z=(z^(z>>27))*0x94d049bb133111ebULL; return z^(z>>31);} static uint32_t R(uint32_t n){return (uint32_t)(rnd()%n);}
struct Pipe { std::deque<uint8_t> q; };
static uint32_t chop(uint32_t n){ if (n==0) return 0; switch(R(6)){ case 0: return 0; case 1: return 1; case 2: return n; case 3: return 1+R(n<8?n:8); default: return 1+R(n);} }
class ChopIO : public DataIO { public: Pipe * rd; Pipe * wr; ChopIO(Pipe*r,Pipe*w):rd(r),wr(w){}
   virtual io_status_t Read(void * b, uint32 size) { uint32_t avail=(uint32_t)rd->q.size(); uint32_t n = chop(avail<size?avail:size); for (uint32_t i=0;i<n;i++){ ((uint8_t*)b)[i]=rd->q.front(); rd->q.pop_front(); } return io_status_t((int32)n); }
   virtual io_status_t Write(const void * b, uint32 size) { uint32_t n=chop(size); for (uint32_t i=0;i<n;i++) wr->q.push_back(((const uint8_t*)b)[i]); return io_status_t((int32)n); }
   virtual void FlushOutput() {} virtual void Shutdown() {} virtual const ConstSocketRef & GetReadSelectSocket() const {return GetNullSocket();} virtual const ConstSocketRef & GetWriteSelectSocket() const {return GetNullSocket();} };
struct Rx : public AbstractGatewayMessageReceiver { std::vector<MessageRef> msgs; virtual void MessageReceivedFromGateway(const MessageRef & m, void*) {msgs.push_back(m);} };
static MessageRef RandMsg(int shape){ MessageRef m = GetMessageFromPool(1000+shape); int nf = (shape%4); for (int i=0;i<nf;i++){ char fn[16]; sprintf(fn,"f%d",i); switch((shape+i)%5){ case 0: m()->AddInt32(fn,(int32)rnd()); break; case 1: { std::string s(R(3)==0?R(3000):R(40),'a'+R(3)); m()->AddString(fn,s.c_str()); } break; case 2: m()->AddDouble(fn, (double)R(1000)/7); m()->AddDouble(fn, 2.0); break; case 3: { MessageRef sub=GetMessageFromPool(5); sub()->AddInt16("q",(int16)R(100)); sub()->AddString("z", R(2)?"hello":""); m()->AddMessage(fn,sub);} break; case 4: { uint8 buf[64]; uint32 n=1+R(63); for(uint32 k=0;k<n;k++) buf[k]=(uint8)rnd(); m()->AddData(fn,B_RAW_TYPE,buf,n);} break; } } return m; }
static std::string Flat(const MessageRef & m){ ByteBufferRef b=m()->FlattenToByteBuffer(); return std::string((const char*)b()->GetBuffer(), b()->GetNumBytes()); }
int main(int argc,char**argv){ CompleteSetupSystem css; SetConsoleLogLevel(MUSCLE_LOG_ERROR);
   uint64_t seed=argc>1?strtoull(argv[1],0,0):1; int runs=argc>2?atoi(argv[2]):200; long ok=0; int bad=0;
   for (int r=0;r<runs && !bad;r++) { rs=seed*7919+r; int kind=R(16);
      Pipe p; ChopIO sio(NULL,&p), rio(&p,NULL); Rx rx;
      AbstractMessageIOGatewayRef S,Rg; std::string desc;
      if (kind<10) { int enc = MUSCLE_MESSAGE_ENCODING_DEFAULT+kind; S.SetRef(new MessageIOGateway(enc)); Rg.SetRef(new MessageIOGateway()); desc="msg enc"+std::to_string(kind);} 
      else if (kind<12) { uint32 lru = kind==10?200:1024*1024; S.SetRef(new TemplatingMessageIOGateway(lru, R(2)?MUSCLE_MESSAGE_ENCODING_DEFAULT:MUSCLE_MESSAGE_ENCODING_ZLIB_6)); Rg.SetRef(new TemplatingMessageIOGateway(lru)); desc="templating lru"+std::to_string(lru);} 
      else if (kind==12) { S.SetRef(new PlainTextMessageIOGateway); Rg.SetRef(new PlainTextMessageIOGateway); desc="text"; }
      else if (kind==13) { S.SetRef(new RawDataMessageIOGateway(R(2)?0:7)); Rg.SetRef(new RawDataMessageIOGateway(R(2)?0:1+R(9))); desc="raw"; }
      else if (kind==14) { S.SetRef(new SLIPFramedDataMessageIOGateway); Rg.SetRef(new SLIPFramedDataMessageIOGateway); desc="slip"; }
      else { S.SetRef(new PlainTextMessageIOGateway); Rg.SetRef(new PlainTextMessageIOGateway); desc="textforeign"; }
      S()->SetDataIO(DummyDataIORef(sio)); Rg()->SetDataIO(DummyDataIORef(rio));
      int nm=1+R(12); std::vector<MessageRef> sent; std::vector<std::string> sentLines; std::string sentBytes; std::vector<std::string> sentChunks;
      int queued=0; int idle=0; long steps=0; std::string foreignText;
      while(idle<50 && steps<2000000) { steps++; bool prog=false; int a=R(3);
         if (a==0 && queued<nm && kind==15) { int nl=1+R(4); for(int i=0;i<nl;i++){ std::string l(R(4)==0?0:R(30),'a'+R(26)); const char* terms[]={"\r\n","\n","\r"}; std::string t=terms[R(3)]; for(char ch:l) p.q.push_back((uint8_t)ch); for(char ch:t) p.q.push_back((uint8_t)ch); foreignText+=l+t; } queued++; prog=true; }
         else if (a==0 && queued<nm) { MessageRef m;
            if (kind<12) { m=RandMsg(R(2)?R(3):R(20)); sent.push_back(m); }
            else if (kind==12) { m=GetMessageFromPool(PR_COMMAND_TEXT_STRINGS); int nl=1+R(4); for(int i=0;i<nl;i++){ std::string l(R(5)==0?0:R(4)==0?R(5000):R(30),'a'+R(26)); m()->AddString(PR_NAME_TEXT_LINE,l.c_str()); sentLines.push_back(l);} }
            else { m=GetMessageFromPool(PR_COMMAND_RAW_DATA); int nchunk=1+R(3); for(int i=0;i<nchunk;i++){ uint32 n=1+R(R(4)==0?9000:40); std::string c; for(uint32 k=0;k<n;k++) c.push_back((char)(R(3)==0?(R(2)?0300:0333):rnd())); m()->AddData(PR_NAME_DATA_CHUNKS,B_RAW_TYPE,c.data(),(uint32)c.size()); sentBytes+=c; sentChunks.push_back(c);} }
            (void)S()->AddOutgoingMessage(m); queued++; prog=true; }
         else if (a==1) { uint32 mb = R(3)==0?MUSCLE_NO_LIMIT:(1+R(R(2)?16:4000)); io_status_t st=S()->DoOutput(mb); if (st.IsError()) {bad=1; printf("DoOutput error %s [%s]\n", st.GetStatus()(), desc.c_str()); break;} if (st.GetByteCount()>0) prog=true; }
         else { uint32 mb = R(3)==0?MUSCLE_NO_LIMIT:(1+R(R(2)?16:4000)); io_status_t st=Rg()->DoInput(rx, mb); if (st.IsError()) {bad=1; printf("DoInput error %s [%s]\n", st.GetStatus()(), desc.c_str()); break;} if (st.GetByteCount()>0) prog=true; }
         if (queued<nm || S()->HasBytesToOutput() || !p.q.empty()) { if (prog) idle=0; else idle += (queued>=nm)?0:0; } else idle++;
         if (!prog && queued>=nm && !S()->HasBytesToOutput() && p.q.empty()) idle++; }
      if (bad) break;
      if (steps>=2000000) { bad=1; printf("STUCK [%s] queued=%d hasbytes=%d pipe=%zu\n", desc.c_str(), queued, (int)S()->HasBytesToOutput(), p.q.size()); break; }
      // compare
      if (kind<12) { if (rx.msgs.size()!=sent.size()) { bad=1; printf("COUNT MISMATCH [%s] sent=%zu got=%zu\n",desc.c_str(),sent.size(),rx.msgs.size()); } else for (size_t i=0;i<sent.size();i++) if (Flat(sent[i])!=Flat(rx.msgs[i])) { bad=1; printf("CONTENT MISMATCH [%s] msg %zu\n",desc.c_str(),i); sent[i]()->Print(stdout); rx.msgs[i]()->Print(stdout); break; } }
      else if (kind==15) { std::vector<std::string> el; { std::string cur; for (size_t i=0;i<foreignText.size();i++){ char ch=foreignText[i]; if (ch=='\r'){ el.push_back(cur); cur.clear(); if (i+1<foreignText.size() && foreignText[i+1]=='\n') i++; } else if (ch=='\n'){ el.push_back(cur); cur.clear(); } else cur.push_back(ch);} } std::vector<std::string> gl; for (auto&m:rx.msgs){ const String*s2; for(uint32 i=0;m()->FindString(PR_NAME_TEXT_LINE,i,&s2).IsOK();i++) gl.push_back(s2->Cstr()); } if (gl!=el) { bad=1; printf("FOREIGN TEXT MISMATCH expected %zu lines got %zu\n", el.size(), gl.size()); for (size_t i=0;i<el.size()||i<gl.size();i++) printf("  %zu: exp[%s] got[%s]\n", i, i<el.size()?el[i].c_str():"-", i<gl.size()?gl[i].c_str():"-"); std::string esc; for(char ch:foreignText) esc += ch=='\r'?"\\r":ch=='\n'?"\\n":std::string(1,ch); printf("  text: %s\n", esc.c_str()); } }
      else if (kind==12) { std::vector<std::string> gl; for (auto&m:rx.msgs){ const String*s; for(uint32 i=0;m()->FindString(PR_NAME_TEXT_LINE,i,&s).IsOK();i++) gl.push_back(s->Cstr()); } if (gl!=sentLines) { bad=1; printf("TEXT MISMATCH sent %zu lines got %zu\n", sentLines.size(), gl.size()); for (size_t i=0;i<sentLines.size()&&i<gl.size();i++) if (sentLines[i]!=gl[i]) {printf(" first diff at %zu: sentlen=%zu gotlen=%zu\n",i,sentLines[i].size(),gl[i].size()); break;} } }
      else if (kind==13) { std::string gb; for (auto&m:rx.msgs){ const void*d; uint32 n; for(uint32 i=0;m()->FindData(PR_NAME_DATA_CHUNKS,B_RAW_TYPE,i,&d,&n).IsOK();i++) gb.append((const char*)d,n);} // raw with minchunk may hold a partial tail
            if (gb != sentBytes.substr(0,gb.size()) || (sentBytes.size()-gb.size())>=10) { bad=1; printf("RAW MISMATCH sent=%zu got=%zu\n",sentBytes.size(),gb.size()); } }
      else { std::vector<std::string> gc; for (auto&m:rx.msgs){ const void*d; uint32 n; for(uint32 i=0;m()->FindData(PR_NAME_DATA_CHUNKS,B_RAW_TYPE,i,&d,&n).IsOK();i++) gc.push_back(std::string((const char*)d,n)); } if (gc!=sentChunks) { bad=1; printf("SLIP MISMATCH sent %zu chunks got %zu\n", sentChunks.size(), gc.size()); } }
      if (!bad) ok++;
      S()->SetDataIO(DataIORef()); Rg()->SetDataIO(DataIORef());
      if (bad) printf("  failing run r=%d kind=%d desc=%s nm=%d\n", r, kind, desc.c_str(), nm);
   }
   printf("done ok=%ld bad=%d\n", ok, bad); return bad; }
