// C11 probe: exactly-once / FIFO / wake-up for Thread messaging, both signalling mechanisms, restart cycles (no hooks)
#include "system/Thread.h"
#include "util/SocketMultiplexer.h"
#include "system/SetupSystem.h"
#include "util/TimeUtilityFunctions.h"
#include <thread>
#include <atomic>
#include <mutex>
#include <shared_mutex>
#include <vector>
#include <map>
#include <cstdio>
#include <unistd.h>
using namespace muscle;
struct Rng { uint64_t s; uint64_t next(){ s += 0x9e3779b97f4a7c15ULL; uint64_t z=s; z=(z^(z>>30))*0xbf58476d1ce4e5b9ULL; z=(z^(z>>27))*0x94d049bb133111ebULL; return z^(z>>31);} uint32_t R(uint32_t n){return (uint32_t)(next()%n);} };
static std::atomic<long> progress, bad, totalSent, totalRecvInt, totalReplies, spurious, restarts;
static std::mutex logLock; static std::map<int,int> lastSeenInt; /* sender -> last seq seen by internal thread */
class EchoThread : public Thread { public: bool _selFirst; EchoThread(bool s,bool selFirst=false):Thread(s),_selFirst(selFirst){} 
 virtual void InternalThreadEntry(){ if (!_selFirst) { Thread::InternalThreadEntry(); return; } SocketMultiplexer sm; const int fd=GetInternalThreadWakeupSocket().GetFileDescriptor(); while(true){ (void)sm.RegisterSocketForReadReady(fd); if (sm.WaitForEvents().IsError()) break; MessageRef m; uint32 nl; bool quit=false; while(WaitForNextMessageFromOwner(m,0,&nl).IsOK()){ if (MessageReceivedFromOwner(m,nl).IsError()) {quit=true; break;} } if (quit) break; } }

 virtual status_t MessageReceivedFromOwner(const MessageRef & m, uint32) { if (m()==NULL) return B_ERROR; progress++; int snd=m()->GetInt32("snd"), seq=m()->GetInt32("seq"); { std::lock_guard<std::mutex> g(logLock); int&l=lastSeenInt[snd]; if (seq!=l+1) { bad++; printf("internal thread: sender %d seq %d after %d (loss/dup/reorder)\n",snd,seq,l);} l=seq; } totalRecvInt++;
   int burst = (seq%7==0)?3:1; for(int b=0;b<burst;b++){ MessageRef r=GetMessageFromPool(2); (void)r()->AddInt32("snd",snd); (void)r()->AddInt32("seq",seq); (void)r()->AddInt32("b",b); (void)r()->AddInt32("of",burst); if (SendMessageToOwner(r).IsError()) {bad++; printf("SendMessageToOwner failed\n");} } return B_NO_ERROR; } };
int main(int argc,char**argv){ CompleteSetupSystem css; uint64_t seed=argc>1?atoll(argv[1]):1; int runs=argc>2?atoi(argv[2]):50; Rng g{seed};
 std::thread wd([]{ long last=-1; int idle=0; while(true){ sleep(1); long p=progress.load(); if (p==last){ if (++idle>=15){ printf("HANG: no progress for 15 s (sent=%ld recvInt=%ld replies=%ld)\n",totalSent.load(),totalRecvInt.load(),totalReplies.load()); fflush(stdout); _exit(3);} } else {idle=0; last=p;} } }); wd.detach();
 for(int run=0;run<runs&&!bad.load();run++){ bool sockets=g.R(2); int nHelpers=g.R(4); int perSender=50+g.R(300); bool selFirst = sockets && getenv("SELECTFIRST") && g.R(2); EchoThread t(sockets,selFirst); { std::lock_guard<std::mutex> gl(logLock); lastSeenInt.clear(); }
  std::shared_mutex life; std::atomic<int> helpersDone{0}; std::vector<long> expectReplies(nHelpers+1,0);
  // some messages queued before the first start
  int ownerSeq=0; auto ownerSend=[&]{ MessageRef m=GetMessageFromPool(1); (void)m()->AddInt32("snd",0); (void)m()->AddInt32("seq",++ownerSeq); if (t.SendMessageToInternalThread(m).IsError()) {bad++; printf("send failed\n");} totalSent++; };
  int pre=g.R(4); for(int i=0;i<pre;i++) ownerSend();
  if (t.StartInternalThread().IsError()) {bad++; printf("start failed\n");}
  std::vector<std::thread> hs; for(int h=1;h<=nHelpers;h++) hs.emplace_back([&,h]{ Rng r{seed*1000+run*10+h}; for(int i=1;i<=perSender;i++){ { std::shared_lock<std::shared_mutex> sl(life); MessageRef m=GetMessageFromPool(1); (void)m()->AddInt32("snd",h); (void)m()->AddInt32("seq",i); if (t.SendMessageToInternalThread(m).IsError()) {bad++; printf("helper send failed\n");} totalSent++; } if (r.R(3)==0) sched_yield(); if (r.R(50)==0) usleep(r.R(300)); } helpersDone++; });
  // owner: interleave sends, receives in three modes, restarts
  std::map<int,std::pair<int,int>> lastReply; long gotReplies=0; auto expectTotal=[&]{ long e=0; for(int s=0;s<=nHelpers;s++){ int n=(s==0)?ownerSeq:perSender; for(int q=1;q<=n;q++) e+=(q%7==0)?3:1; } return e; };
  auto handleReply=[&](const MessageRef&r){ int snd=r()->GetInt32("snd"),seq=r()->GetInt32("seq"),b=r()->GetInt32("b"),of=r()->GetInt32("of"); auto&l=lastReply[snd]; bool ok = (l.first==0&&seq==1&&b==0) || (b>0 ? (seq==l.first && b==l.second+1) : (seq==l.first+1)); if (!ok){ bad++; printf("owner: reply snd=%d seq=%d b=%d after seq=%d b=%d\n",snd,seq,b,l.first,l.second);} (void)of; l={seq,b}; gotReplies++; totalReplies++; progress++; };
  Rng r{g.next()}; while(ownerSeq<perSender || helpersDone.load()<nHelpers){ uint32_t c=r.R(20); if (c<8 && ownerSeq<perSender) ownerSend(); else if (c<16){ MessageRef rep; uint64 w = (c<11)?0:(c<14)?GetRunTime64()+r.R(500):GetRunTime64()+MillisToMicros(5); status_t s=t.GetNextReplyFromInternalThread(rep,w); if (s.IsOK()) handleReply(rep); }
    else if (c==16 && r.R(10)==0){ std::unique_lock<std::shared_mutex> ul(life); t.ShutdownInternalThread(); int q=r.R(3); for(int i=0;i<q&&ownerSeq<perSender;i++) ownerSend(); if (t.StartInternalThread().IsError()) {bad++; printf("restart failed\n");} restarts++; }
    else sched_yield(); }
  for(auto&h:hs) h.join();
  // drain with blocking waits: every reply must arrive (lost wake-up shows up as HANG)
  long want=expectTotal(); while(gotReplies<want && !bad.load()){ MessageRef rep; status_t s=t.GetNextReplyFromInternalThread(rep,MUSCLE_TIME_NEVER); if (s.IsOK()) handleReply(rep); else if (s==B_TIMED_OUT) spurious++; else { bad++; printf("blocking GetNextReply error %s\n",s()); } }
  t.ShutdownInternalThread(); MessageRef extra; if (t.GetNextReplyFromInternalThread(extra,0).IsOK()) {bad++; printf("extra reply after all expected were received\n");}
 }
 printf("done runs=%d sent=%ld recvInternal=%ld replies=%ld restarts=%ld spuriousTimeoutsOnInfiniteWait=%ld bad=%ld\n",runs,totalSent.load(),totalRecvInt.load(),totalReplies.load(),restarts.load(),spurious.load(),bad.load()); return bad?1:0; }
