// C15 probe, escape and uniqueness parts: EscapeRegexTokens(s) must match s and nothing near it; RemoveEscapeChars inverts; escaped patterns are unique
#include "regex/StringMatcher.h"
#include "system/SetupSystem.h"
#include <string>
#include <set>
#include <map>
#include <cstdio>
#include <cstring>
using namespace muscle;
static uint64_t rs; static uint64_t rnd(){ rs += 0x9e3779b97f4a7c15ULL; uint64_t z=rs; z=(z^(z>>30))*0xbf58476d1ce4e5b9ULL; z=(z^(z>>27))*0x94d049bb133111ebULL; return z^(z>>31);} static uint32_t R(uint32_t n){return (uint32_t)(rnd()%n);}
static const char AL[]="ab1.+*?,()[]|\\<>~-{}^$ w`/=!&#%'\"\t:;_@"; static const int NA=sizeof(AL)-1;
int main(int argc,char**argv){ CompleteSetupSystem css; rs=argc>1?atoll(argv[1]):1; long N=argc>2?atol(argv[2]):100000; long checks=0,neigh=0; int bad=0; std::map<std::string,int> kinds;
 for(long it=0;it<N&&bad<40;it++){ std::string s; uint32 n=1+R(R(5)==0?20:6); for(uint32 i=0;i<n;i++){ if (R(12)==0) s.push_back((char)(1+R(255))); else s.push_back(AL[R(NA)]); } if (getenv("MASKF12")&&s[0]=='`') s[0]='a';
  String e=EscapeRegexTokens(s.c_str()); StringMatcher sm; status_t r=sm.SetPattern(e,true); checks++;
  auto report=[&](const char*what,const std::string&t){ std::string key=what; if (kinds[key]++<4) printf("%s: s=[%s] escaped=[%s] other=[%s]\n",what,s.c_str(),e(),t.c_str()); bad++; };
  if (r.IsError()) { report("escaped pattern rejected",""); continue; }
  if (!sm.Match(s.c_str())) { report("escaped pattern does not match its own string",""); continue; }
  if (!sm.IsPatternUnique()) report("escaped pattern not reported unique","");
  if (CanWildcardStringMatchMultipleValues(e)) report("CanWildcardStringMatchMultipleValues(escaped) is true","");
  String back=RemoveEscapeChars(e); if (s!=back()) report("RemoveEscapeChars(Escape(s)) != s",back());
  // neighbours: deletions, substitutions, insertions, prefixes, case flips, the escaped text itself
  std::set<std::string> nb; for(size_t i=0;i<s.size();i++){ std::string t=s; t.erase(i,1); nb.insert(t); t=s; t[i]=AL[R(NA)]; nb.insert(t); t=s; t.insert(i,1,AL[R(NA)]); nb.insert(t); t=s; if (isalpha((unsigned char)t[i])) { t[i]^=0x20; nb.insert(t);} } nb.insert(s+s); nb.insert(s+"a"); nb.insert("a"+s); nb.insert(e()); nb.insert(""); nb.erase(s);
  for(auto&t:nb){ neigh++; if (t.find('\0')!=std::string::npos) continue; if (sm.Match(t.c_str())) { report("escaped pattern also matches another string",t); break; } } }
 printf("done strings=%ld neighbourChecks=%ld bad=%d\n",checks,neigh,bad); for(auto&kv:kinds) printf("  %6d x %s\n",kv.second,kv.first.c_str()); return bad?1:0; }
