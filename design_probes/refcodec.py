# independent reference codec written from the layout comment in Message::Flatten (C08 `ref/codec` prototype)
import struct, sys
PM00=1347235888
FIXED={1112493900:1,1113150533:1,1397248596:2,1280265799:4,1179406164:4,1280069191:8,1145195589:8,1112559188:8,1380270932:16}
B_MESSAGE=1297303367
def decode(b, off=0, end=None):
    if end is None: end=len(b)
    proto,what,nf=struct.unpack_from('<3I',b,off); off+=12
    assert proto==PM00, 'bad protocol'
    fields=[]
    for _ in range(nf):
        (nl,)=struct.unpack_from('<I',b,off); off+=4
        name=b[off:off+nl-1]; assert b[off+nl-1]==0; off+=nl
        tc,dl=struct.unpack_from('<2I',b,off); off+=8
        pay=b[off:off+dl]; assert len(pay)==dl; off+=dl
        if tc in FIXED:
            es=FIXED[tc]; assert dl%es==0; items=[pay[i:i+es] for i in range(0,dl,es)]
        elif tc==B_MESSAGE:
            items=[]; p=0
            while p<dl:
                (ml,)=struct.unpack_from('<I',pay,p); p+=4; items.append(decode(pay,p,p+ml)); p+=ml
            assert p==dl
        else:
            (n,)=struct.unpack_from('<I',pay,0); p=4; items=[]
            for _ in range(n):
                (il,)=struct.unpack_from('<I',pay,p); p+=4; items.append(pay[p:p+il]); assert len(items[-1])==il; p+=il
            assert p==dl
        fields.append((name,tc,items))
    assert off==end, 'trailing bytes'
    return (what,fields)
def encode(m):
    what,fields=m; out=[struct.pack('<3I',PM00,what,len(fields))]
    for name,tc,items in fields:
        if tc in FIXED: pay=b''.join(items)
        elif tc==B_MESSAGE: pay=b''.join(struct.pack('<I',len(e))+e for e in (encode(i) for i in items))
        else: pay=struct.pack('<I',len(items))+b''.join(struct.pack('<I',len(i))+i for i in items)
        out.append(struct.pack('<I',len(name)+1)+name+b'\0'+struct.pack('<2I',tc,len(pay))+pay)
    return b''.join(out)
data=open(sys.argv[1],'rb').read(); off=0; n=0; bad=0; items=0
while off<len(data):
    (l,)=struct.unpack_from('<I',data,off); off+=4; b=data[off:off+l]; off+=l; n+=1
    try:
        m=decode(b); r=encode(m); items+=sum(len(f[2]) for f in m[1])
        if r!=b: bad+=1; print('msg',n,'re-encode differs')
    except Exception as e:
        bad+=1; print('msg',n,'decode failed',repr(e))
print('reference codec: msgs',n,'top-level items',items,'bad',bad)
