// C06 probe (isolation part): silent victims, one attacker sending hostile commands; victims' state must not change
#include "reflector/ReflectServer.h"
#include "reflector/StorageReflectSession.h"
#include "reflector/StorageReflectConstants.h"
#include "iogateway/MessageIOGateway.h"
#include "dataio/TCPSocketDataIO.h"
#include "system/SetupSystem.h"
#include "util/NetworkUtilityFunctions.h"
#include <vector>
#include <map>
#include <string>
#include <cstdio>
using namespace muscle;
static uint64_t rs; static uint64_t rnd(){ rs += 0x9e3779b97f4a7c15ULL; uint64_t z=rs; z=(z^(z>>30))*0xbf58476d1ce4e5b9ULL; z=(z^(z>>27))*0x94d049bb133111ebULL; return z^(z>>31);} static uint32_t R(uint32_t n){return (uint32_t)(rnd()%n);}
struct Client : public AbstractGatewayMessageReceiver { MessageIOGateway gw; std::string root; std::string sid; bool alive=true; Queue<MessageRef> got; MessageRef params;
   virtual void MessageReceivedFromGateway(const MessageRef & m, void*) { if (m()->what == PR_RESULT_PARAMETERS) { params=m; const String*s; if (m()->FindString(PR_NAME_SESSION_ROOT,&s).IsOK()) { root=s->Cstr(); sid=root.substr(root.rfind('/')+1);} } else (void)got.AddTail(m); }
   void Send(const MessageRef & m) {(void) gw.AddOutgoingMessage(m);}
   bool Pump() { if (!alive) return false; bool any=false; while(gw.DoOutput().GetByteCount()>0) any=true; io_status_t r; while((r=gw.DoInput(*this)).GetByteCount()>0) any=true; if (r.IsError()) alive=false; return any; } };
class Inspector : public StorageReflectSession { public: DataNode & Root() {return GetGlobalRoot();} };
static Inspector * g_insp; static ReflectServer * g_server; static std::vector<Client*> cs;
static void Settle(int rounds=6){ int idle=0; while(idle<rounds){ bool any=false; for (auto c:cs) any|=c->Pump(); (void)g_server->ServerProcessLoop(0); for(auto c:cs) any|=c->Pump(); idle=any?0:idle+1; } }
static Client * NewClient(){ ConstSocketRef a,b; if (CreateConnectedSocketPair(a,b,false).IsError()) exit(10); Client*c=new Client; c->gw.SetDataIO(DataIORef(new TCPSocketDataIO(a,false))); StorageReflectSessionRef s(new StorageReflectSession); if (g_server->AddNewSession(s,b).IsError()) exit(11); cs.push_back(c); MessageRef gp=GetMessageFromPool(PR_COMMAND_GETPARAMETERS); c->Send(gp); Settle(); return c; }
static void Snap(DataNode&n,const std::string&skipRoot,const std::string&attId,std::map<std::string,std::string>&out){ String p=n.GetNodePath(); std::string ps=p(); if (!(ps==skipRoot||ps.compare(0,skipRoot.size()+1,skipRoot+"/")==0)){ std::string v; if (n.GetData()()){ ByteBufferRef b=n.GetData()()->FlattenToByteBuffer(); v.assign((const char*)b()->GetBuffer(),b()->GetNumBytes()); } v+="|idx:"; if (n.GetIndex()) for(uint32 i=0;i<n.GetIndex()->GetNumItems();i++){ v+=(*n.GetIndex())[i]()->GetNodeName()(); v+=","; } v+="|subs:"; std::map<uint32,uint32> sm; for (ConstHashtableIterator<uint32,uint32> it(n.GetSubscribers()); it.HasData(); it++) sm[it.GetKey()]=it.GetValue(); for(auto&e:sm){ char b[64]; sprintf(b,"%u:%u,",e.first,e.second); if (std::to_string(e.first)!=attId) v+=b; } out[ps]=v; } for(DataNodeRefIterator it=n.GetChildIterator(); it.HasData(); it++) Snap(*it.GetValue()(),skipRoot,attId,out); }
static std::string ParamSnap(Client*c){ c->params.Reset(); c->Send(GetMessageFromPool(PR_COMMAND_GETPARAMETERS)); Settle(); if (c->params()==NULL) return "<no reply>"; Message m(*c->params()); static const char*vol[]={PR_NAME_SERVER_CURRENTTIMELOCAL,PR_NAME_SERVER_CURRENTTIMEUTC,PR_NAME_SERVER_MEM_AVAILABLE,PR_NAME_SERVER_MEM_USED,PR_NAME_SERVER_MEM_MAX,PR_NAME_SERVER_RUNTIME,PR_NAME_SERVER_UPTIME}; for(auto v:vol) (void)m.RemoveName(v); ByteBufferRef b=m.FlattenToByteBuffer(); return std::string((const char*)b()->GetBuffer(),b()->GetNumBytes()); }

#include <unistd.h>
#include <sys/socket.h>
// one scenario: victim V (nodes + subscription to everything), leaver L whose outgoing byte stream is cut after `cut` bytes
static std::string StreamBytes(const std::vector<MessageRef>&ms){ std::string out; for(auto&m:ms){ ByteBufferRef b=m()->FlattenToByteBuffer(); uint32 hdr[2]={B_HOST_TO_LENDIAN_INT32(b()->GetNumBytes()),B_HOST_TO_LENDIAN_INT32(MUSCLE_MESSAGE_ENCODING_DEFAULT)}; out.append((const char*)hdr,8); out.append((const char*)b()->GetBuffer(),b()->GetNumBytes()); } return out; }
static void AnySubs(DataNode&n,const std::string&id,int&count){ for (ConstHashtableIterator<uint32,uint32> it(n.GetSubscribers()); it.HasData(); it++) if (std::to_string(it.GetKey())==id) count++; for(DataNodeRefIterator it=n.GetChildIterator(); it.HasData(); it++) AnySubs(*it.GetValue()(),id,count); }
int main(int argc,char**argv){ CompleteSetupSystem css; SetConsoleLogLevel(MUSCLE_LOG_CRITICALERROR); uint64_t seed=argc>1?strtoull(argv[1],0,0):1; int ns=argc>2?atoi(argv[2]):5; long cuts=0; int bad=0; long removedNotices=0;
 for(int sc=0;sc<ns&&!bad;sc++){ rs=seed*1000003ULL+sc; // the leaver's stream: establish state, then more commands
  std::vector<MessageRef> ms; { MessageRef sd=GetMessageFromPool(PR_COMMAND_SETDATA); const char*ps[]={"a","a/x","b","idx"}; for(auto p:ps){ MessageRef pl=GetMessageFromPool(7); (void)pl()->AddInt32("v",(int32)R(100)); (void)sd()->AddMessage(p,pl);} ms.push_back(sd);
    MessageRef io=GetMessageFromPool(PR_COMMAND_INSERTORDEREDDATA); (void)io()->AddString(PR_NAME_KEYS,"idx"); for(int i=0;i<2;i++){ MessageRef pl=GetMessageFromPool(8); (void)pl()->AddInt32("i",i); (void)io()->AddMessage("",pl);} ms.push_back(io);
    MessageRef sp=GetMessageFromPool(PR_COMMAND_SETPARAMETERS); (void)sp()->AddBool("SUBSCRIBE:/*/*/*",true); (void)sp()->AddBool("SUBSCRIBE:b",true); ms.push_back(sp);
    uint32 extra=R(4); for(uint32 i=0;i<extra;i++){ MessageRef m; switch(R(4)){ case 0: m=GetMessageFromPool(PR_COMMAND_REMOVEDATA); (void)m()->AddString(PR_NAME_KEYS,R(2)?"a":"idx/*"); break; case 1: m=GetMessageFromPool(PR_COMMAND_GETDATA); (void)m()->AddString(PR_NAME_KEYS,"/*/*/*"); break; case 2: m=GetMessageFromPool(PR_COMMAND_SETDATA); { MessageRef pl=GetMessageFromPool(9); (void)m()->AddMessage(R(2)?"c":"a/x/deep",pl);} break; default: m=GetMessageFromPool(PR_COMMAND_REORDERDATA); (void)m()->AddString("idx/I1","I0"); break; } ms.push_back(m);} }
  std::string stream=StreamBytes(ms); std::vector<size_t> cutsAt; for(size_t k=0;k<=stream.size();k++) if (stream.size()<=700||k<40||R(stream.size()/300+1)==0||k+12>stream.size()) cutsAt.push_back(k);
  for(size_t ci=0;ci<cutsAt.size()&&!bad;ci++){ size_t cut=cutsAt[ci]; ReflectServer server; g_server=&server; cs.clear(); { Inspector*ins=new Inspector; AbstractReflectSessionRef ir(ins); if (server.AddNewSession(ir).IsError()) exit(12); g_insp=ins; }
   Client*v=NewClient(); { MessageRef sd=GetMessageFromPool(PR_COMMAND_SETDATA); MessageRef pl=GetMessageFromPool(7); (void)sd()->AddMessage("mine",pl); v->Send(sd); MessageRef sp=GetMessageFromPool(PR_COMMAND_SETPARAMETERS); (void)sp()->AddBool("SUBSCRIBE:/*/*/*",true); (void)sp()->AddBool("SUBSCRIBE:/*/*/*/*",true); v->Send(sp); } Settle();
   // the leaver: raw socket, we write the prefix ourselves
   ConstSocketRef a,b; if (CreateConnectedSocketPair(a,b,false).IsError()) exit(10); StorageReflectSessionRef ls(new StorageReflectSession); if (g_server->AddNewSession(ls,b).IsError()) exit(11); Settle(); std::string lroot=std::string(ls()->GetSessionRootPath()()); std::string lid=lroot.substr(lroot.rfind('/')+1);
   size_t off=0; while(off<cut){ size_t n=std::min(cut-off,(size_t)(1+R(200))); ssize_t w=send(a.GetFileDescriptor(),stream.data()+off,n,0); if (w>0) off+=(size_t)w; Settle(2); } Settle();
   // what the victim's mirror holds of the leaver before the cut
   std::map<std::string,int> seen; for(uint32 i=0;i<v->got.GetNumItems();i++){ const MessageRef&m=v->got[i]; if (m()->what!=PR_RESULT_DATAITEMS) continue; for(MessageFieldNameIterator it=m()->GetFieldNameIterator(B_MESSAGE_TYPE); it.HasData(); it++) seen[it.GetFieldName()()]=1; const String*s; for(uint32 k=0;m()->FindString(PR_NAME_REMOVED_DATAITEMS,k,&s).IsOK();k++) seen.erase(s->Cstr()); } v->got.Clear();
   a.Reset(); Settle(); cuts++;
   // oracle
   std::map<std::string,std::string> after; Snap(g_insp->Root(),"/nonexistent","x",after); for(auto&kv:after) if (kv.first==lroot||kv.first.compare(0,lroot.size()+1,lroot+"/")==0){ bad++; printf("scenario %d cut %zu: node of departed session remains: %s\n",sc,cut,kv.first.c_str()); break; }
   int marks=0; AnySubs(g_insp->Root(),lid,marks); if (marks){ bad++; printf("scenario %d cut %zu: %d subscriber marks of departed session %s remain\n",sc,cut,marks,lid.c_str()); }
   for(uint32 i=0;i<v->got.GetNumItems();i++){ const MessageRef&m=v->got[i]; if (m()->what!=PR_RESULT_DATAITEMS) continue; const String*s; for(uint32 k=0;m()->FindString(PR_NAME_REMOVED_DATAITEMS,k,&s).IsOK();k++){ seen.erase(s->Cstr()); removedNotices++; } for(MessageFieldNameIterator it=m()->GetFieldNameIterator(B_MESSAGE_TYPE); it.HasData(); it++) seen[it.GetFieldName()()]=1; }
   for(auto&kv:seen) if (kv.first.compare(0,lroot.size()+1,lroot+"/")==0){ bad++; printf("scenario %d cut %zu: subscriber was never told that %s vanished\n",sc,cut,kv.first.c_str()); break; }
   int before=0; for(uint32 i=0;i<v->got.GetNumItems();i++) if (v->got[i]()->what==PR_RESULT_PONG) before++; v->Send(GetMessageFromPool(PR_COMMAND_PING)); Settle(); int pongs=0; for(uint32 i=0;i<v->got.GetNumItems();i++) if (v->got[i]()->what==PR_RESULT_PONG) pongs++; if (pongs<=before){ bad++; printf("scenario %d cut %zu: ping unanswered\n",sc,cut);} 
   for(auto c:cs){ c->gw.SetDataIO(DataIORef()); } Settle(); server.Cleanup(); for(auto c:cs) delete c; cs.clear(); }
  printf("scenario %d: stream %zu bytes, %zu cut positions\n",sc,stream.size(),cutsAt.size()); }
 printf("done scenarios=%d cuts=%ld removalNoticesSeen=%ld bad=%d\n",ns,cuts,removedNotices,bad); return bad?1:0; }
