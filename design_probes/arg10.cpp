#include "util/String.h"
#include <cstdio>
using namespace muscle;
int main(){ String f("%1 %2 %3 %4 %5 %6 %7 %8 %9 %10"); String r=f; const char*v[]={"a","b","c","d","e","f","g","h","i","j"}; for(int i=0;i<10;i++) r=r.Arg(v[i]); printf("[%s]\n",r()); return 0; }
