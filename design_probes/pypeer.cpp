// C08 probe (frame leg): C++ MessageIOGateway <-TCP loopback-> lang/python3/message_transceiver_thread.py echo peer
#include "iogateway/MessageIOGateway.h"
#include "dataio/TCPSocketDataIO.h"
#include "util/NetworkUtilityFunctions.h"
#include "util/SocketMultiplexer.h"
#include "system/SetupSystem.h"
#include <vector>
#include <string>
#include <cstdio>
#include <unistd.h>
using namespace muscle;
static uint64_t rs=1; static uint64_t rnd(){ rs += 0x9e3779b97f4a7c15ULL; uint64_t z=rs; z=(z^(z>>30))*0xbf58476d1ce4e5b9ULL; z=(z^(z>>27))*0x94d049bb133111ebULL; return z^(z>>31);} static uint32_t R(uint32_t n){return (uint32_t)(rnd()%n);}
struct Rx : public AbstractGatewayMessageReceiver { std::vector<std::string> got; virtual void MessageReceivedFromGateway(const MessageRef & m, void*) { ByteBufferRef b=m()->FlattenToByteBuffer(); got.push_back(std::string((const char*)b()->GetBuffer(),b()->GetNumBytes())); } };
int main(int argc,char**argv){ CompleteSetupSystem css; int n=argc>1?atoi(argv[1]):50; uint16 port=0; ConstSocketRef as=CreateAcceptingSocket(0,20,&port,invalidIP); if (as()==NULL){ printf("cannot listen\n"); return 2;} printf("listening on %u\n",port); fflush(stdout);
 char cmd[256]; sprintf(cmd,"python3 /tmp/sb/proto/pyecho.py %u %d &",port,n); if (system(cmd)) return 2;
 ConstSocketRef s; for(int i=0;i<100&&s()==NULL;i++){ s=Accept(as); if (s()==NULL) usleep(100000); } if (s()==NULL){ printf("no connection\n"); return 2;} (void)SetSocketBlockingEnabled(s,false);
 MessageIOGateway gw; gw.SetDataIO(DataIORef(new TCPSocketDataIO(s,false))); Rx rx; std::vector<std::string> sent;
 for(int i=0;i<n;i++){ MessageRef m=GetMessageFromPool((uint32)rnd()); uint32 nf=R(5); for(uint32 f=0;f<nf;f++){ char fn[8]; sprintf(fn,"f%u",f); switch(R(6)){ case 0: (void)m()->AddInt32(fn,(int32)rnd()); (void)m()->AddInt32(fn,7); break; case 1: (void)m()->AddString(fn,std::string(R(4)==0?R(5000):R(40),'p').c_str()); break; case 2: (void)m()->AddBool(fn,R(2)); break; case 3: (void)m()->AddDouble(fn,1.25*i); break; case 4: { MessageRef sub=GetMessageFromPool(5); (void)sub()->AddInt16("q",(int16)i); (void)m()->AddMessage(fn,sub);} break; default: (void)m()->AddInt64(fn,(int64)rnd()); break; } } ByteBufferRef b=m()->FlattenToByteBuffer(); sent.push_back(std::string((const char*)b()->GetBuffer(),b()->GetNumBytes())); (void)gw.AddOutgoingMessage(m); }
 SocketMultiplexer sm; uint64 end=GetRunTime64()+SecondsToMicros(30); while(rx.got.size()<(size_t)n && GetRunTime64()<end){ (void)sm.RegisterSocketForReadReady(s.GetFileDescriptor()); if (gw.HasBytesToOutput()) (void)sm.RegisterSocketForWriteReady(s.GetFileDescriptor()); (void)sm.WaitForEvents(GetRunTime64()+MillisToMicros(200)); if (gw.HasBytesToOutput()) (void)gw.DoOutput(); if (gw.DoInput(rx).IsError()) break; }
 bool same = rx.got==sent; printf("sent %zu, echoed back %zu, identical=%d\n",sent.size(),rx.got.size(),(int)same); return same?0:1; }
