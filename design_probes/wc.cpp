// C15 probe: grammar-generated simple patterns vs an independent backtracking matcher over the AST
#include "regex/StringMatcher.h"
#include "system/SetupSystem.h"
#include <vector>
#include <string>
#include <memory>
#include <cstdio>
#include <cstring>
#include <map>
using namespace muscle;
static uint64_t rs; static uint64_t rnd(){ rs += 0x9e3779b97f4a7c15ULL; uint64_t z=rs; z=(z^(z>>30))*0xbf58476d1ce4e5b9ULL; z=(z^(z>>27))*0x94d049bb133111ebULL; return z^(z>>31);} static uint32_t R(uint32_t n){return (uint32_t)(rnd()%n);}
static const char ALPHA[]="ab1.+*?,()[]|\\<>~-{}^$ w`"; static const int NA=sizeof(ALPHA)-1;
struct Node; typedef std::vector<Node> Seq;
struct Node { int k; char c; std::string set; std::vector<Seq> alts; }; // k: 0 lit, 1 star, 2 q, 3 set, 4 group
static Seq GenSeq(int depth){ Seq s; uint32 n=R(5); for(uint32 i=0;i<n;i++){ Node x; uint32 t=R(10); if (t<5){ x.k=0; x.c=ALPHA[R(NA)]; } else if (t<7) x.k=1; else if (t==7) x.k=2; else if (t==8){ x.k=3; uint32 m=1+R(3); for(uint32 j=0;j<m;j++){ static const char sc[]="ab1w-"; x.set.push_back(sc[R(4)]); } if (R(3)==0) x.set="a-b"; if (R(5)==0) x.set="1-9"; } else if (depth<2){ x.k=4; uint32 m=1+R(3); for(uint32 j=0;j<m;j++) x.alts.push_back(GenSeq(depth+1)); } else { x.k=0; x.c='a'; } s.push_back(x);} return s; }
static bool NeedsEsc(char c){ return strchr("*?,()[]|\\{}^$",c)!=NULL; }
static void Print(const Seq&s,std::string&o,bool atStart){ for(size_t i=0;i<s.size();i++){ const Node&x=s[i]; bool first=atStart&&o.empty(); switch(x.k){ case 0: if (first&&x.c=='`'&&getenv("MASKF12")) { o+="[`]"; break; } if (NeedsEsc(x.c)||(first&&strchr("<~`",x.c))||(getenv("ESCALL")&&R(4)==0)) o.push_back('\\'); o.push_back(x.c); break; case 1: o.push_back('*'); break; case 2: o.push_back('?'); break; case 3: o+="["+x.set+"]"; break; case 4: o.push_back('('); for(size_t j=0;j<x.alts.size();j++){ if (j) o.push_back('|'); Print(x.alts[j],o,false);} o.push_back(')'); break; } } }
static bool InSet(const std::string&set,char c){ if (set.size()==3&&set[1]=='-') return c>=set[0]&&c<=set[2]; return set.find(c)!=std::string::npos; }
static bool M(const Seq&s,size_t i,const std::string&t,size_t p,const std::vector<std::pair<const Seq*,size_t>>&cont);
static bool Cont(const std::string&t,size_t p,std::vector<std::pair<const Seq*,size_t>> cont){ if (cont.empty()) return p==t.size(); auto c=cont.back(); cont.pop_back(); return M(*c.first,c.second,t,p,cont); }
static bool M(const Seq&s,size_t i,const std::string&t,size_t p,const std::vector<std::pair<const Seq*,size_t>>&cont){ if (i==s.size()) return Cont(t,p,cont); const Node&x=s[i]; switch(x.k){
 case 0: return p<t.size()&&t[p]==x.c&&M(s,i+1,t,p+1,cont); case 2: return p<t.size()&&M(s,i+1,t,p+1,cont); case 3: return p<t.size()&&InSet(x.set,t[p])&&M(s,i+1,t,p+1,cont);
 case 1: for(size_t q=p;q<=t.size();q++) if (M(s,i+1,t,q,cont)) return true; return false;
 case 4: { auto c2=cont; c2.push_back({&s,i+1}); for(auto&a:x.alts) if (M(a,0,t,p,c2)) return true; return false; } } return false; }
static void Sample(const Seq&s,std::string&o){ for(auto&x:s) switch(x.k){ case 0: o.push_back(x.c); break; case 1: { uint32 n=R(3); for(uint32 i=0;i<n;i++) o.push_back(ALPHA[R(NA)]);} break; case 2: o.push_back(ALPHA[R(NA)]); break; case 3: if (x.set.size()==3&&x.set[1]=='-') o.push_back((char)(x.set[0]+R(x.set[2]-x.set[0]+1))); else o.push_back(x.set[R(x.set.size())]); break; case 4: Sample(x.alts[R(x.alts.size())],o); break; } }
int main(int argc,char**argv){ CompleteSetupSystem css; rs=argc>1?atoll(argv[1]):1; int N=argc>2?atoi(argv[2]):20000; long checks=0,pos=0,rejected=0; int bad=0; std::map<std::string,int> kinds;
 for(int it=0;it<N;it++){ std::vector<Seq> alts; uint32 na=1+(R(4)==0?R(3):0); for(uint32 i=0;i<na;i++) alts.push_back(GenSeq(0)); bool neg=R(8)==0; std::string pat; if (neg) pat="~"; for(size_t i=0;i<alts.size();i++){ if (i) pat.push_back(','); std::string part; Print(alts[i],part,i==0&&!neg); if (i==0&&neg&&!part.empty()&&strchr("<`",part[0])) { if (part[0]=='`'&&getenv("MASKF12")) part="[`]"+part.substr(1); else part="\\"+part; } pat+=part; }
  if (pat.empty()||pat=="~") continue; // the empty pattern is the documented match-nothing state
  bool emptyAlt=false; for(auto&a:alts) if (a.empty()) emptyAlt=true; for(auto&a:alts) for(auto&x:a) if (x.k==4) for(auto&g:x.alts) if (g.empty()) emptyAlt=true;
  if (emptyAlt && getenv("NOEMPTYALT")) continue;
  StringMatcher sm; status_t r=sm.SetPattern(pat.c_str(),true); if (r.IsError()){ rejected++; if (bad<15 && !getenv("QUIETREJ")){ std::string key="rejected"; if (kinds[key]++<6) printf("pattern [%s] rejected: %s\n",pat.c_str(),r()); } continue; }
  for(int j=0;j<12;j++){ std::string t; if (j<5) Sample(alts[R(alts.size())],t); else if (j<8){ Sample(alts[R(alts.size())],t); if (t.size()&&R(2)) t.erase(R(t.size()),1); else t.insert(t.begin()+R(t.size()+1),ALPHA[R(NA)]); } else { uint32 n=R(5); for(uint32 i=0;i<n;i++) t.push_back(ALPHA[R(NA)]); }
   bool want=false; for(auto&a:alts) if (M(a,0,t,0,{})) {want=true; break;} if (neg) want=!want; bool got=sm.Match(t.c_str()); checks++; if (want) pos++; if (got!=want){ bad++; if (bad<=15) printf("MISMATCH pattern [%s] subject [%s] got=%d want=%d\n",pat.c_str(),t.c_str(),got,want); break; } } }
 printf("done patterns=%d checks=%ld positives=%ld rejected=%ld bad=%d\n",N,checks,pos,rejected,bad); return bad?1:0; }
