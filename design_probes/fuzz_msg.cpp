// C02 thorough-tier engine prototype: libFuzzer target for Message::Unflatten and MessageIOGateway input (first byte selects the entry point)
#include "message/Message.h"
#include "iogateway/MessageIOGateway.h"
#include "dataio/DataIO.h"
#include "system/SetupSystem.h"
#include <deque>
#include <cstdint>
using namespace muscle;
class MemIO : public DataIO { public: const uint8_t*p; size_t n; size_t step; MemIO(const uint8_t*pp,size_t nn,size_t st):p(pp),n(nn),step(st?st:1){}
   virtual io_status_t Read(void * b, uint32 size) { size_t k=n<size?n:size; if (k>step) k=step; memcpy(b,p,k); p+=k; n-=k; return io_status_t((int32)k); }
   virtual io_status_t Write(const void *, uint32 size) { return io_status_t((int32)size); }
   virtual void FlushOutput() {} virtual void Shutdown() {} virtual const ConstSocketRef & GetReadSelectSocket() const {return GetNullSocket();} virtual const ConstSocketRef & GetWriteSelectSocket() const {return GetNullSocket();} };
struct Rx : public AbstractGatewayMessageReceiver { virtual void MessageReceivedFromGateway(const MessageRef & m, void*) { if (m()) { (void)m()->FlattenedSize(); (void)m()->CalculateChecksum(); } } };
static CompleteSetupSystem * g_css;
extern "C" int LLVMFuzzerInitialize(int*,char***){ g_css=new CompleteSetupSystem; SetConsoleLogLevel(MUSCLE_LOG_NONE); return 0; }
extern "C" int LLVMFuzzerTestOneInput(const uint8_t*data,size_t size){ if (size<2) return 0; uint8_t sel=data[0]; data++; size--;
 if ((sel&1)==0){ uint8_t*copy=new uint8_t[size]; memcpy(copy,data,size); Message m; if (m.UnflattenFromBytes(copy,(uint32)size).IsOK()){ (void)m.FlattenedSize(); (void)m.CalculateChecksum(); } delete [] copy; }
 else { MessageIOGateway gw; gw.SetMaxIncomingMessageSize(1024*1024); MemIO io(data,size,(sel>>1)); gw.SetDataIO(DummyDataIORef(io)); Rx rx; for(int i=0;i<100000&&io.n>0;i++){ if (gw.DoInput(rx).IsError()) break; } gw.SetDataIO(DataIORef()); }
 return 0; }
