// C04/C14 probe: subscription filtered by ChildCountQueryFilter — is the subscriber told when the child count (not the node data) makes the node enter/leave the filter?
#include "reflector/ReflectServer.h"
#include "reflector/StorageReflectSession.h"
#include "reflector/StorageReflectConstants.h"
#include "iogateway/MessageIOGateway.h"
#include "dataio/TCPSocketDataIO.h"
#include "regex/QueryFilter.h"
#include "system/SetupSystem.h"
#include "util/NetworkUtilityFunctions.h"
#include <cstdio>
#include <set>
#include <string>
using namespace muscle;
struct Client : public AbstractGatewayMessageReceiver { MessageIOGateway gw; std::set<std::string> mirror; virtual void MessageReceivedFromGateway(const MessageRef & m, void*) { if (m()->what!=PR_RESULT_DATAITEMS) return; const String*s; for(uint32 i=0;m()->FindString(PR_NAME_REMOVED_DATAITEMS,i,&s).IsOK();i++){ printf("      subscriber told: removed %s\n",s->Cstr()); mirror.erase(s->Cstr()); } for(MessageFieldNameIterator it=m()->GetFieldNameIterator(B_MESSAGE_TYPE); it.HasData(); it++){ printf("      subscriber told: %s present\n",it.GetFieldName()()); mirror.insert(it.GetFieldName()()); } } bool Pump(){ bool any=false; while(gw.DoOutput().GetByteCount()>0) any=true; while(gw.DoInput(*this).GetByteCount()>0) any=true; return any; } };
int main(){ CompleteSetupSystem css; SetConsoleLogLevel(MUSCLE_LOG_CRITICALERROR); ReflectServer server; Client o,s; Client*cs[2]={&o,&s}; for(auto c:cs){ ConstSocketRef x,y; (void)CreateConnectedSocketPair(x,y,false); c->gw.SetDataIO(DataIORef(new TCPSocketDataIO(x,false))); StorageReflectSessionRef ss(new StorageReflectSession); (void)server.AddNewSession(ss,y); }
 auto settle=[&]{ int idle=0; while(idle<6){ bool any=false; for(auto c:cs) any|=c->Pump(); (void)server.ServerProcessLoop(0); for(auto c:cs) any|=c->Pump(); idle=any?0:idle+1; } }; settle();
 { MessageRef sp=GetMessageFromPool(PR_COMMAND_SETPARAMETERS); ChildCountQueryFilter f(ChildCountQueryFilter::OP_GREATER_THAN_OR_EQUAL_TO,1); MessageRef fm=GetMessageFromPool(); (void)f.SaveToArchive(*fm()); (void)sp()->AddMessage("SUBSCRIBE:/*/*/a",fm); (void)s.gw.AddOutgoingMessage(sp); settle(); printf("subscribed to /*/*/a with filter childcount >= 1\n"); }
 auto set=[&](const char*p){ MessageRef sd=GetMessageFromPool(PR_COMMAND_SETDATA); (void)sd()->AddMessage(p,GetMessageFromPool(1)); (void)o.gw.AddOutgoingMessage(sd); printf("   owner: set %s\n",p); settle(); };
 auto rem=[&](const char*p){ MessageRef rd=GetMessageFromPool(PR_COMMAND_REMOVEDATA); (void)rd()->AddString(PR_NAME_KEYS,p); (void)o.gw.AddOutgoingMessage(rd); printf("   owner: remove %s\n",p); settle(); };
 set("a"); printf("   -> a has 0 children: subscriber's mirror holds %zu entries (want 0)\n",s.mirror.size());
 set("a/x"); printf("   -> a has 1 child: subscriber's mirror holds %zu entries (want 1: a now passes the filter)\n",s.mirror.size());
 set("a"); printf("   -> a's data rewritten while it has 1 child: mirror %zu (want 1)\n",s.mirror.size());
 rem("a/x"); printf("   -> a has 0 children again: mirror %zu (want 0)\n",s.mirror.size());
 for(auto c:cs) c->gw.SetDataIO(DataIORef()); settle(); server.Cleanup(); return 0; }
