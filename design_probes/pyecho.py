# python peer: accept one TCP connection (acceptFrom mode) or connect; echo every Message back unchanged
import sys, time
sys.path.insert(0,'/repo/lang/python3')
import message, message_transceiver_thread as mtt
port=int(sys.argv[1]); n=int(sys.argv[2])
t=mtt.MessageTransceiverThread("127.0.0.1", port)
t.start()
got=0; deadline=time.time()+30
while got<n and time.time()<deadline:
    ev=t.GetNextIncomingEvent(True)
    if ev is None: continue
    if ev==mtt.MTT_EVENT_CONNECTED: continue
    if ev==mtt.MTT_EVENT_DISCONNECTED: break
    t.SendOutgoingMessage(ev); got+=1
time.sleep(0.3)
t.Destroy()
print("python echoed",got)
