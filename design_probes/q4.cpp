#include "util/Queue.h"
#include <cstdio>
using namespace muscle;
static void P(const char*t,const Queue<int32>&q){printf("%s:",t);for(uint32 i=0;i<q.GetNumItems();i++)printf(" %d",q[i]);printf("\n");}
int main(){
 { Queue<int32> q; (void)q.EnsureSize(20); for(int i=1;i<=3;i++)(void)q.AddTail(i); (void)q.AddHeadMulti(q); P("AddHeadMulti(self) spare cap",q);}
 { Queue<int32> q; for(int i=1;i<=3;i++)(void)q.AddTail(i); (void)q.ShrinkToFit(); (void)q.AddHeadMulti(q); P("AddHeadMulti(self) realloc",q);}
 { Queue<int32> q; (void)q.EnsureSize(20); for(int i=1;i<=3;i++)(void)q.AddTail(i); (void)q.InsertItemsAt(0,q); P("InsertItemsAt(0,self) spare cap",q);}
 { Queue<int32> q; (void)q.EnsureSize(20); for(int i=1;i<=3;i++)(void)q.AddTail(i); (void)q.InsertItemsAt(1,q); P("InsertItemsAt(1,self) spare cap",q);}
 { Queue<int32> q; (void)q.EnsureSize(20); for(int i=1;i<=3;i++)(void)q.AddTail(i); (void)q.AddTailMulti(q); P("AddTailMulti(self) spare cap",q);}
 return 0;}
