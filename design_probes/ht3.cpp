// C09 probe: OrderedKeysHashtable / OrderedValuesHashtable stay sorted and agree with a model under put/update/remove/copy/swap with live iterators
#include "util/Hashtable.h"
#include "system/SetupSystem.h"
#include <map>
#include <vector>
#include <algorithm>
#include <cstdio>
using namespace muscle;
static uint64_t rs; static uint64_t rnd(){ rs += 0x9e3779b97f4a7c15ULL; uint64_t z=rs; z=(z^(z>>30))*0xbf58476d1ce4e5b9ULL; z=(z^(z>>27))*0x94d049bb133111ebULL; return z^(z>>31);} static uint32_t R(uint32_t n){return (uint32_t)(rnd()%n);}
static int bad=0; static long audits=0;
template<class T> static void Audit(const T&t,const std::map<uint32,uint32>&m,bool byValue,const char*w){ audits++; if (t.GetNumItems()!=m.size()){bad++; printf("size %u vs %zu after %s\n",t.GetNumItems(),m.size(),w); return;} bool first=true; uint32 prev=0; uint32 n=0; for(ConstHashtableIterator<uint32,uint32> it(t); it.HasData(); it++,n++){ auto f=m.find(it.GetKey()); if (f==m.end()||f->second!=it.GetValue()){bad++; printf("entry %u mismatch after %s\n",n,w); return;} uint32 sk=byValue?it.GetValue():it.GetKey(); if (!first&&sk<prev){bad++; printf("NOT SORTED at %u (%u after %u) after %s byValue=%d\n",n,sk,prev,w,(int)byValue); return;} prev=sk; first=false; } if (n!=m.size()){bad++; printf("iteration yielded %u of %zu after %s\n",n,m.size(),w);} for(auto&kv:m){ const uint32*v=t.Get(kv.first); if (!v||*v!=kv.second){bad++; printf("Get mismatch after %s\n",w); return;} } }
template<class T> static void Run(bool byValue,long nops,uint32 keyspace){ T t; std::map<uint32,uint32> m; std::vector<HashtableIterator<uint32,uint32>*> its;
 for(long op=0;op<nops&&!bad;op++){ uint32 o=R(100),k=R(keyspace),v=R(byValue?30:1000000); const char*w="";
  if (o<45){ if (t.Put(k,v).IsError()){bad++;} m[k]=v; w="Put"; }
  else if (o<65){ bool had=m.erase(k)>0; if (t.Remove(k).IsOK()!=had){bad++; printf("Remove status\n");} w="Remove"; }
  else if (o<70){ if (!m.empty()){ if (R(2)){ uint32 fk=*t.GetFirstKey(); m.erase(fk); (void)t.RemoveFirst(); } else { uint32 lk=*t.GetLastKey(); m.erase(lk); (void)t.RemoveLast(); } } w="RemoveFirst/Last"; }
  else if (o<75){ uint32*pv=t.Get(k); if (pv){ *pv=v; m[k]=v; if (t.Reposition(k).IsError()){bad++; printf("Reposition failed\n");} } w="modify+Reposition"; }
  else if (o<78){ T c(t); if (!(c==t)){bad++; printf("copy != original\n");} Audit(c,m,byValue,"copy"); T d; d=t; d.SwapContents(c); Audit(d,m,byValue,"assign+swap"); w="copy"; }
  else if (o<80){ t.SetAutoSortEnabled(false,false); for(int i=0;i<5;i++){ uint32 kk=R(keyspace),vv=R(byValue?30:1000000); (void)t.Put(kk,vv); m[kk]=vv; } t.SetAutoSortEnabled(true,true); w="autosort off/bulk/on"; }
  else if (o<83){ (void)t.EnsureSize((uint32)m.size()+R(100),R(2)); w="EnsureSize"; }
  else if (o<85&&its.size()<4){ its.push_back(new HashtableIterator<uint32,uint32>(t,R(2)?HTIT_FLAG_BACKWARDS:0)); w="NewIter"; }
  else if (!its.empty()){ size_t i=R((uint32)its.size()); if (its[i]->HasData()){ uint32 kk=its[i]->GetKey(); if (m.find(kk)==m.end()){ /* may be the scratch copy of a just-removed entry: allowed until advanced */ } (*its[i])++; if (its[i]->HasData()&&m.find(its[i]->GetKey())==m.end()){bad++; printf("iterator yields removed key %u\n",its[i]->GetKey());} } else { delete its[i]; its.erase(its.begin()+i);} w="Advance"; }
  if (R(1000)==0){ t.Clear(R(2)); m.clear(); w="Clear"; }
  Audit(t,m,byValue,w); }
 for(auto i:its) delete i; }
int main(int argc,char**argv){ CompleteSetupSystem css; rs=argc>1?atoll(argv[1]):1; long n=argc>2?atol(argv[2]):100000; Run<OrderedKeysHashtable<uint32,uint32>>(false,n,80); Run<OrderedValuesHashtable<uint32,uint32>>(true,n,80); Run<OrderedKeysHashtable<uint32,uint32>>(false,n/4,700); Run<OrderedValuesHashtable<uint32,uint32>>(true,n/4,700); printf("done audits=%ld bad=%d\n",audits,bad); return bad?1:0; }
