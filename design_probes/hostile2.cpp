#include "reflector/ReflectServer.h"
#include "reflector/StorageReflectSession.h"
#include "reflector/StorageReflectConstants.h"
#include "iogateway/MessageIOGateway.h"
#include "dataio/TCPSocketDataIO.h"
#include "system/SetupSystem.h"
#include "util/NetworkUtilityFunctions.h"
#include "regex/QueryFilter.h"
#include "reflector/DataNode.h"
#include <vector>
#include <string>
#include <cstdio>
#include <cstdint>
#include <unistd.h>
#include <sys/wait.h>
using namespace muscle;
static uint64_t rs; static uint64_t rnd(){ rs += 0x9e3779b97f4a7c15ULL; uint64_t z=rs; z=(z^(z>>30))*0xbf58476d1ce4e5b9ULL; z=(z^(z>>27))*0x94d049bb133111ebULL; return z^(z>>31);} static uint32_t R(uint32_t n){return (uint32_t)(rnd()%n);}
struct Client : public AbstractGatewayMessageReceiver { MessageIOGateway gw; bool reads=true; int pongs=0; virtual void MessageReceivedFromGateway(const MessageRef & m, void*) { if (m()->what==PR_RESULT_PONG) pongs++; } void Send(const MessageRef & m){(void)gw.AddOutgoingMessage(m);} bool Pump(){bool any=false; while(gw.DoOutput().GetByteCount()>0) any=true; if (reads) while(gw.DoInput(*this).GetByteCount()>0) any=true; return any;} };
static ReflectServer * g_server; static std::vector<Client*> cs;
static void Settle(int maxrounds=100000){ int idle=0; int rounds=0; while(idle<6 && rounds++<maxrounds){ bool any=false; for (auto c:cs) any|=c->Pump(); (void)g_server->ServerProcessLoop(0); for(auto c:cs) any|=c->Pump(); idle=any?0:idle+1; } }
static Client * NewClient(){ ConstSocketRef a,b; (void)CreateConnectedSocketPair(a,b,false); if (!getenv("BIGBUF")) { (void)SetSocketSendBufferSize(b,2048); (void)SetSocketReceiveBufferSize(a,2048); } Client*c=new Client; c->gw.SetDataIO(DataIORef(new TCPSocketDataIO(a,false))); StorageReflectSessionRef s(new StorageReflectSession); (void)g_server->AddNewSession(s,b); cs.push_back(c); Settle(); return c; }
static std::string RandPattern(){ static const char * atoms[] = {"a","b","x","*","?","[ab]","[a-","(a|b)","(a|","~","<1-5>","<","\\","\\*",",","|","^","$","{","}","+",".","/","//","..","`a*","`(","`[a-z]+","%","\xff","<99999999999-3>","I0","I1","_unknown_","0","1","2","(((((","[[[[","a{2}","\\w","*/*","!SnKy"}; std::string s; int n=1+R(R(5)==0?40:5); for(int i=0;i<n;i++) s+=atoms[R(sizeof(atoms)/sizeof(atoms[0]))]; if (R(30)==0) s=std::string(1+R(20000),'a'+R(3)); if (R(30)==0) { s.clear(); for(int i=0;i<200;i++) s+="a/"; } return s; }
static MessageRef RandFilter(int depth){ MessageRef fm=GetMessageFromPool(); int k=R(8);
   if (k==0) { Int32QueryFilter f("v",R(8),(int32)R(10)); (void)f.SaveToArchive(*fm()); }
   else if (k==1) { StringQueryFilter f("s",R(30),RandPattern().c_str()); (void)f.SaveToArchive(*fm()); }
   else if (k==2 && depth<4) { AndQueryFilter f; int n=R(4); for(int i=0;i<n;i++){ MessageRef kid=RandFilter(depth+1); (void)fm()->AddMessage("kid",kid);} (void)f.SaveToArchive(*fm()); fm()->what = R(2)?QUERY_FILTER_TYPE_MINMATCH:R(2)?QUERY_FILTER_TYPE_MAXMATCH:QUERY_FILTER_TYPE_XOR; }
   else if (k==3) { ValueExistsQueryFilter f("v",R(2)?B_ANY_TYPE:B_INT32_TYPE,R(3)); (void)f.SaveToArchive(*fm()); }
   else if (k==4) { WhatCodeQueryFilter f(R(10),R(200)); (void)f.SaveToArchive(*fm()); }
   else if (k==5) { fm()->what = QUERY_FILTER_TYPE_WHATCODE + R(25); fm()->AddString("fn","v"); fm()->AddInt32("idx",(int32)rnd()); fm()->AddInt8("op",(int8)rnd()); if (R(2)) fm()->AddString("val","x"); else fm()->AddInt32("val",5); if (R(2)) fm()->AddMessage("kid",GetMessageFromPool(R(100))); }
   else if (k==6) { ChildCountQueryFilter f(R(6),R(3)); (void)f.SaveToArchive(*fm()); }
   else { NodeNameQueryFilter f(R(30),RandPattern().c_str()); (void)f.SaveToArchive(*fm()); }
   return fm; }
static MessageRef RandMsg(int depth, bool allowJettFilter){ static const uint32 whats[] = {PR_COMMAND_SETPARAMETERS,PR_COMMAND_GETPARAMETERS,PR_COMMAND_REMOVEPARAMETERS,PR_COMMAND_SETDATA,PR_COMMAND_GETDATA,PR_COMMAND_REMOVEDATA,PR_COMMAND_JETTISONRESULTS,PR_COMMAND_INSERTORDEREDDATA,PR_COMMAND_PING,PR_COMMAND_KICK,PR_COMMAND_ADDBANS,PR_COMMAND_REMOVEBANS,PR_COMMAND_BATCH,PR_COMMAND_NOOP,PR_COMMAND_REORDERDATA,PR_COMMAND_ADDREQUIRES,PR_COMMAND_REMOVEREQUIRES,PR_COMMAND_SETDATATREES,PR_COMMAND_GETDATATREES,PR_COMMAND_JETTISONDATATREES,PR_COMMAND_RESERVED21,12345,0,0xffffffff,PR_RESULT_DATAITEMS};
   uint32 what = whats[R(sizeof(whats)/sizeof(whats[0]))]; MessageRef m=GetMessageFromPool(what);
   static const char * names[] = {PR_NAME_KEYS,PR_NAME_FILTERS,PR_NAME_FLAGS,PR_NAME_TREE_REQUEST_ID,PR_NAME_MAXDEPTH,PR_NAME_REFLECT_TO_SELF,PR_NAME_MAX_UPDATE_MESSAGE_ITEMS,PR_NAME_REPLY_ENCODING,PR_NAME_KEEPALIVE_INTERVAL_SECONDS,PR_NAME_PRIVILEGE_BITS,PR_NAME_SESSION,PR_NAME_REMOVE_FROM_INDEX,PR_NAME_SUBSCRIBE_QUIETLY,PR_NAME_REMOVE_QUIETLY,PR_NAME_DISABLE_SUBSCRIPTIONS,PR_NAME_ROUTE_GATEWAY_TO_NEIGHBORS,PR_NAME_ROUTE_NEIGHBORS_TO_GATEWAY,PR_NAME_REMOVED_DATAITEMS,PR_NAME_REJECTED_MESSAGE,"a","b","a/b","a/b/c","L","L/I0","x"};
   int nf=R(6); for (int i=0;i<nf;i++){ std::string fn; int nk=R(10); if (nk<6) fn=names[R(sizeof(names)/sizeof(names[0]))]; else if (nk<8) fn=std::string("SUBSCRIBE:")+RandPattern(); else fn=RandPattern(); int cnt=1+R(3); int ty=R(9);
      bool isFilterField = (fn==PR_NAME_FILTERS); if (what==PR_COMMAND_JETTISONRESULTS && isFilterField && !allowJettFilter) continue;
      for (int j=0;j<cnt;j++) switch(ty){ case 0: case 1: (void)m()->AddString(fn.c_str(),RandPattern().c_str()); break; case 2: (void)m()->AddInt32(fn.c_str(),(int32)(R(3)==0?rnd():R(100))); break; case 3: { MessageRef sub = (isFilterField||R(3)==0)?RandFilter(0):(depth<3&&R(3)==0?RandMsg(depth+1,allowJettFilter):GetMessageFromPool(R(10))); if (R(2)) sub()->AddInt32("v",R(10)); (void)m()->AddMessage(fn.c_str(),sub);} break; case 4: (void)m()->AddBool(fn.c_str(),R(2)); break; case 5: { uint8 d[16]; for(int k=0;k<16;k++) d[k]=(uint8)rnd(); (void)m()->AddData(fn.c_str(),B_RAW_TYPE,d,1+R(16)); } break; case 6: (void)m()->AddInt64(fn.c_str(),(int64)rnd()); break; case 7: { SetDataNodeFlags f; f.SetWord(0,R(64)); (void)m()->AddFlat(fn.c_str(),f);} break; default: (void)m()->AddFloat(fn.c_str(),1.5f); break; } }
   return m; }

// ---- state-aware recipes: well-formed commands that drive the stateful paths, then optionally mutated ----
static MessageRef Payload(){ MessageRef p=GetMessageFromPool(100+R(3)); (void)p()->AddInt32("v",(int32)R(10)); if (R(3)==0) (void)p()->AddString("s",RandPattern().c_str()); return p; }
static MessageRef GoodFilter(){ MessageRef fm=GetMessageFromPool(); switch(R(4)){ case 0: { Int32QueryFilter f("v",R(6),(int32)R(10)); (void)f.SaveToArchive(*fm()); } break; case 1: { StringQueryFilter f("s",R(28),R(2)?"a*":"[ab]?"); (void)f.SaveToArchive(*fm()); } break; case 2: { AndQueryFilter f(ConstQueryFilterRef(new Int32QueryFilter("v",Int32QueryFilter::OP_GREATER_THAN,2)),ConstQueryFilterRef(new WhatCodeQueryFilter(100,101))); (void)f.SaveToArchive(*fm()); } break; default: { ChildCountQueryFilter f(R(6),R(3)); (void)f.SaveToArchive(*fm()); } break; } return fm; }
static MessageRef Recipe(bool allowJF){ static const char*nodes[]={"a","b","a/b","a/b/c","L","x"}; static const char*pats[]={"*","a","a/*","*/b","/*/*/*","/*/*/a","/*/*/L/*","L/*","/*/*","(a|b)","~a","[ab]","a/b/c","/*/*/*/*"}; MessageRef m;
 switch(R(16)){
  case 0: case 1: { m=GetMessageFromPool(PR_COMMAND_SETDATA); int n=1+R(4); for(int i=0;i<n;i++) (void)m()->AddMessage(nodes[R(6)],Payload()); if (R(4)==0){ SetDataNodeFlags f; if (R(2)) f.SetBit(SETDATANODE_FLAG_QUIET); if (R(2)) f.SetBit(SETDATANODE_FLAG_DONTCREATENODE); if (R(2)) f.SetBit(SETDATANODE_FLAG_DONTOVERWRITEDATA); (void)m()->AddFlat(PR_NAME_FLAGS,f);} } break;
  case 2: { m=GetMessageFromPool(PR_COMMAND_INSERTORDEREDDATA); (void)m()->AddString(PR_NAME_KEYS,R(4)?"L":pats[R(14)]); int n=1+R(4); for(int i=0;i<n;i++){ char b[8]; sprintf(b,"I%u",R(6)); (void)m()->AddMessage(R(2)?"":b,Payload()); } } break;
  case 3: { m=GetMessageFromPool(PR_COMMAND_REORDERDATA); int n=1+R(3); for(int i=0;i<n;i++){ char a[16],b[8]; sprintf(a,"L/I%u",R(6)); sprintf(b,"I%u",R(6)); (void)m()->AddString(R(4)?a:pats[R(14)], R(3)?b:""); } } break;
  case 4: case 5: { m=GetMessageFromPool(PR_COMMAND_SETPARAMETERS); int n=1+R(3); for(int i=0;i<n;i++){ std::string k=std::string("SUBSCRIBE:")+pats[R(14)]; if (R(2)) (void)m()->AddBool(k.c_str(),true); else (void)m()->AddMessage(k.c_str(),GoodFilter()); } if (R(4)==0) (void)m()->AddBool(PR_NAME_SUBSCRIBE_QUIETLY,true); if (R(6)==0) (void)m()->AddBool(PR_NAME_REFLECT_TO_SELF,true); if (R(6)==0) (void)m()->AddInt32(PR_NAME_MAX_UPDATE_MESSAGE_ITEMS,(int32)R(4)); if (R(8)==0) (void)m()->AddInt32(PR_NAME_REPLY_ENCODING,(int32)(MUSCLE_MESSAGE_ENCODING_DEFAULT+R(12))); if (R(8)==0) (void)m()->AddString(PR_NAME_KEYS,R(2)?pats[R(14)]:"/*/*"); } break;
  case 6: { m=GetMessageFromPool(PR_COMMAND_REMOVEPARAMETERS); (void)m()->AddString(PR_NAME_KEYS,R(3)?"SUBSCRIBE:*":R(2)?"*":PR_NAME_REFLECT_TO_SELF); } break;
  case 7: case 8: { m=GetMessageFromPool(PR_COMMAND_GETDATA); int n=1+R(3); for(int i=0;i<n;i++) (void)m()->AddString(PR_NAME_KEYS,pats[R(14)]); if (R(3)==0) for(int i=0;i<n;i++) (void)m()->AddMessage(PR_NAME_FILTERS,GoodFilter()); } break;
  case 9: { m=GetMessageFromPool(PR_COMMAND_REMOVEDATA); (void)m()->AddString(PR_NAME_KEYS,pats[R(14)]); if (R(3)==0) (void)m()->AddMessage(PR_NAME_FILTERS,GoodFilter()); if (R(4)==0) (void)m()->AddBool(PR_NAME_REMOVE_QUIETLY,true); } break;
  case 10: { m=GetMessageFromPool(PR_COMMAND_JETTISONRESULTS); if (R(3)) (void)m()->AddString(PR_NAME_KEYS,pats[R(14)]); if (allowJF && R(2)) (void)m()->AddMessage(PR_NAME_FILTERS,GoodFilter()); } break;
  case 11: { m=GetMessageFromPool(PR_COMMAND_GETDATATREES); (void)m()->AddString(PR_NAME_KEYS,pats[R(14)]); if (R(2)) (void)m()->AddString(PR_NAME_TREE_REQUEST_ID,"t1"); if (R(2)) (void)m()->AddInt32(PR_NAME_MAXDEPTH,(int32)R(4)); } break;
  case 12: { m=GetMessageFromPool(PR_COMMAND_SETDATATREES); MessageRef tree=GetMessageFromPool(); (void)tree()->AddMessage(PR_NAME_NODEDATA,Payload()); MessageRef kids=GetMessageFromPool(); MessageRef kid=GetMessageFromPool(); (void)kid()->AddMessage(PR_NAME_NODEDATA,Payload()); (void)kids()->AddMessage("k1",kid); (void)tree()->AddMessage(PR_NAME_NODECHILDREN,kids); if (R(2)){ (void)tree()->AddString(PR_NAME_NODEINDEX,"k1"); } (void)m()->AddMessage(nodes[R(6)],tree); } break;
  case 13: { m=GetMessageFromPool(PR_COMMAND_JETTISONDATATREES); if (R(2)) (void)m()->AddString(PR_NAME_TREE_REQUEST_ID,R(2)?"t1":"*"); } break;
  case 14: { m=GetMessageFromPool(PR_COMMAND_BATCH); int n=1+R(4); for(int i=0;i<n;i++) (void)m()->AddMessage(PR_NAME_KEYS,Recipe(allowJF)); } break;
  default: { m=GetMessageFromPool(1000+R(5)); (void)m()->AddString(PR_NAME_KEYS,pats[R(14)]); if (R(2)) (void)m()->AddInt32("payload",1); } break; }
 // mutation: sometimes damage one aspect of an otherwise valid command
 if (R(5)==0){ Queue<String> names; for(MessageFieldNameIterator it(*m()); it.HasData(); it++) (void)names.AddTail(it.GetFieldName()); if (names.HasItems()){ String tgt=names[R(names.GetNumItems())]; switch(R(5)){ case 0: (void)m()->RemoveName(tgt); break; case 1: (void)m()->RemoveName(tgt); (void)m()->AddString(tgt,RandPattern().c_str()); break; case 2: (void)m()->RemoveName(tgt); (void)m()->AddInt32(tgt,(int32)rnd()); break; case 3: (void)m()->Rename(tgt,RandPattern().c_str()); break; case 4: (void)m()->AddMessage(tgt,RandFilter(0)); break; } } }
 return m; }
int main(int argc,char**argv){ uint64_t seed=argc>1?strtoull(argv[1],0,0):1; int nseq=argc>2?atoi(argv[2]):100; int nmsg=argc>3?atoi(argv[3]):40; bool allowJF = getenv("JETTFILTER")!=NULL; int crashes=0,hangs=0,unans=0;
  for (int s=0;s<nseq;s++){ fflush(stdout); pid_t pid=fork(); if (pid==0){ alarm(30); CompleteSetupSystem css; SetConsoleLogLevel(MUSCLE_LOG_NONE); rs=seed*1000003ULL+s; ReflectServer server; g_server=&server; Client*att=NewClient(); Client*slow=NewClient(); Client*wit=NewClient(); Client*att2=NewClient();
        // slow client subscribes to everything then stops reading
        { MessageRef sp=GetMessageFromPool(PR_COMMAND_SETPARAMETERS); sp()->AddBool("SUBSCRIBE:/*/*/*",true); sp()->AddBool("SUBSCRIBE:/*/*/*/*",true); slow->Send(sp); Settle(); slow->reads = (R(3)==0); }
        for (int k=0;k<nmsg;k++){ Client*a = R(4)==0?slow:(R(2)?att:att2); if (R(12)==0) a->reads=!a->reads; MessageRef m = (getenv("BLIND")||R(10)<3) ? RandMsg(0,allowJF) : Recipe(allowJF); FILE*f=fopen("/tmp/sb/proto/last.txt","w"); if(f){ fprintf(f,"seq %d msg %d\n",s,k); String str=m()->ToString(); fputs(str(),f); fclose(f);} a->Send(m); int before=wit->pongs; wit->Send(GetMessageFromPool(PR_COMMAND_PING)); Settle(3000); if (wit->pongs<=before) { printf("UNANSWERED PING seq=%d msg=%d\n",s,k); _exit(3);} }
        for (auto c:cs) c->gw.SetDataIO(DataIORef()); server.Cleanup(); for (auto c:cs) delete c; _exit(0); }
     int st=0; waitpid(pid,&st,0); if (WIFSIGNALED(st)) { if (WTERMSIG(st)==SIGALRM) {hangs++; printf("HANG in seq %d\n",s); system("head -60 /tmp/sb/proto/last.txt");} else {crashes++; printf("CRASH sig=%d in seq %d\n",WTERMSIG(st),s); system("head -40 /tmp/sb/proto/last.txt");} } else if (WEXITSTATUS(st)==3) unans++; else if (WEXITSTATUS(st)!=0) {crashes++; printf("ABNORMAL exit %d in seq %d\n",WEXITSTATUS(st),s); system("head -40 /tmp/sb/proto/last.txt");}
     if (crashes+hangs>=3) break; }
  printf("done seqs=%d crashes=%d hangs=%d unanswered=%d\n",nseq,crashes,hangs,unans); return 0; }
