// C03/C08 probe: C MiniMessageGateway and MicroMessageGateway <-> C++ MessageIOGateway over chopped pipes, both directions
#include "iogateway/MessageIOGateway.h"
#include "dataio/DataIO.h"
#include "system/SetupSystem.h"
#include "lang/c/minimessage/MiniMessageGateway.h"
#include "lang/c/micromessage/MicroMessageGateway.h"
#include <vector>
#include <string>
#include <deque>
#include <cstdio>
#include <cstring>
using namespace muscle;
static uint64_t rs; static uint64_t rnd(){ rs += 0x9e3779b97f4a7c15ULL; uint64_t z=rs; z=(z^(z>>30))*0xbf58476d1ce4e5b9ULL; z=(z^(z>>27))*0x94d049bb133111ebULL; return z^(z>>31);} static uint32_t R(uint32_t n){return (uint32_t)(rnd()%n);}
struct Pipe { std::deque<uint8_t> q; };
static uint32_t chop(uint32_t n){ if (n==0) return 0; switch(R(6)){ case 0: return 0; case 1: return 1; case 2: return n; case 3: return 1+R(n<8?n:8); default: return 1+R(n);} }
class ChopIO : public DataIO { public: Pipe * rd; Pipe * wr; ChopIO(Pipe*r,Pipe*w):rd(r),wr(w){}
   virtual io_status_t Read(void * b, uint32 size) { uint32_t avail=(uint32_t)rd->q.size(); uint32_t n = chop(avail<size?avail:size); for (uint32_t i=0;i<n;i++){ ((uint8_t*)b)[i]=rd->q.front(); rd->q.pop_front(); } return io_status_t((int32)n); }
   virtual io_status_t Write(const void * b, uint32 size) { uint32_t n=chop(size); for (uint32_t i=0;i<n;i++) wr->q.push_back(((const uint8_t*)b)[i]); return io_status_t((int32)n); }
   virtual void FlushOutput() {} virtual void Shutdown() {} virtual const ConstSocketRef & GetReadSelectSocket() const {return GetNullSocket();} virtual const ConstSocketRef & GetWriteSelectSocket() const {return GetNullSocket();} };
static int32 CSend(const uint8*buf,uint32 n,void*arg){ Pipe*p=(Pipe*)arg; uint32 k=chop(n); for(uint32 i=0;i<k;i++) p->q.push_back(buf[i]); return (int32)k; }
static int32 CRecv(uint8*buf,uint32 n,void*arg){ Pipe*p=(Pipe*)arg; uint32 avail=(uint32)p->q.size(); uint32 k=chop(avail<n?avail:n); for(uint32 i=0;i<k;i++){ buf[i]=p->q.front(); p->q.pop_front(); } return (int32)k; }
struct Rx : public AbstractGatewayMessageReceiver { std::vector<std::string> got; virtual void MessageReceivedFromGateway(const MessageRef & m, void*) { ByteBufferRef b=m()->FlattenToByteBuffer(); got.push_back(std::string((const char*)b()->GetBuffer(),b()->GetNumBytes())); } };
static MessageRef Gen(int depth){ MessageRef m=GetMessageFromPool((uint32)rnd()); uint32 nf=R(depth?3:6); for(uint32 i=0;i<nf;i++){ char fn[16]; sprintf(fn,"f%u",i); uint32 c=1+R(3); switch(R(7)){ case 0: for(uint32 k=0;k<c;k++) (void)m()->AddInt32(fn,(int32)rnd()); break; case 1: for(uint32 k=0;k<c;k++) (void)m()->AddString(fn,std::string(R(4)==0?R(3000):R(30),'s').c_str()); break; case 2: for(uint32 k=0;k<c;k++) (void)m()->AddBool(fn,R(2)); break; case 3: if (depth<2) for(uint32 k=0;k<c;k++) (void)m()->AddMessage(fn,Gen(depth+1)); break; case 4: for(uint32 k=0;k<c;k++){ uint8 d[8]={1,2,3,4,5,6,7,8}; (void)m()->AddData(fn,B_RAW_TYPE,d,1+R(8)); } break; case 5: for(uint32 k=0;k<c;k++) (void)m()->AddDouble(fn,1.5*k); break; default: for(uint32 k=0;k<c;k++) (void)m()->AddInt64(fn,(int64)rnd()); break; } } return m; }
static std::string Flat(const MessageRef&m){ ByteBufferRef b=m()->FlattenToByteBuffer(); return std::string((const char*)b()->GetBuffer(),b()->GetNumBytes()); }
int main(int argc,char**argv){ CompleteSetupSystem css; SetConsoleLogLevel(MUSCLE_LOG_ERROR); uint64_t seed=argc>1?strtoull(argv[1],0,0):1; int runs=argc>2?atoi(argv[2]):200; long ok=0,msgs=0; int bad=0;
 for(int r=0;r<runs&&!bad;r++){ rs=seed*1000003ULL+r; int mode=R(4); /*0: C++ -> mini, 1: mini -> C++, 2: C++ -> micro, 3: micro -> C++*/ Pipe p; Pipe dummy; uint32 nm=1+R(5); std::vector<std::string> sent,got; std::vector<MessageRef> ms; for(uint32 i=0;i<nm;i++){ ms.push_back(Gen(0)); sent.push_back(Flat(ms.back())); }
  MessageIOGateway cpp; Rx rx;
  if (mode==0||mode==2){ cpp.SetDataIO(DataIORef(new ChopIO(&dummy,&p))); for(auto&m:ms) (void)cpp.AddOutgoingMessage(m); }
  else cpp.SetDataIO(DataIORef(new ChopIO(&p,&dummy)));
  MMessageGateway*mg=MGAllocMessageGateway(); static uint8 ubin[200000], ubout[200000]; UMessageGateway ug; UGGatewayInitialize(&ug,ubin,sizeof(ubin),ubout,sizeof(ubout));
  if (mode==1){ for(auto&s:sent){ MMessage*mm=MMAllocMessage(0); if (MMUnflattenMessage(mm,s.data(),(uint32)s.size())!=CB_NO_ERROR){ printf("harness: mini parse\n"); return 2;} if (MGAddOutgoingMessage(mg,mm)!=CB_NO_ERROR){ printf("harness: MGAdd\n"); return 2;} MMFreeMessage(mm);} }
  size_t microNext=0;
  int idle=0; for(int it=0;it<3000000&&idle<60;it++){ bool any=false;
    switch(mode){
     case 0: if (cpp.DoOutput().GetByteCount()>0) any=true; { MMessage*rm=NULL; int32 n=MGDoInput(mg,R(2)?~0u:1+R(50),CRecv,&p,&rm); if (n<0){ bad++; printf("run %d: MGDoInput error\n",r); } if (n>0) any=true; if (rm){ uint32 fs=MMGetFlattenedSize(rm); std::string s(fs,0); MMFlattenMessage(rm,&s[0]); got.push_back(s); MMFreeMessage(rm); any=true; } } break;
     case 1: { int32 n=MGDoOutput(mg,R(2)?~0u:1+R(50),CSend,&p); if (n<0){bad++; printf("run %d: MGDoOutput error\n",r);} if (n>0) any=true; } if (cpp.DoInput(rx).GetByteCount()>0) any=true; break;
     case 2: if (cpp.DoOutput().GetByteCount()>0) any=true; { UMessage um; UMInitializeToInvalid(&um); int32 n=UGDoInput(&ug,R(2)?~0u:1+R(50),CRecv,&p,&um); if (n<0){ bad++; printf("run %d: UGDoInput error\n",r);} if (n>0) any=true; if (UMIsMessageValid(&um)){ got.push_back(std::string((const char*)UMGetFlattenedBuffer(&um),UMGetFlattenedSize(&um))); any=true; } } break;
     case 3: if (!UGHasBytesToOutput(&ug) && microNext<sent.size()){ /* build by copying the flattened bytes' fields is overkill: use the what code + one int field */ UMessage um=UGGetOutgoingMessage(&ug,ms[microNext]()->what); if (UMIsMessageValid(&um)){ (void)UMAddInt32(&um,"seq",(int32)microNext); (void)UMAddString(&um,"txt",std::string(R(4)==0?R(3000):R(30),'u').c_str()); UGOutgoingMessagePrepared(&ug,&um); sent[microNext]=std::string((const char*)UMGetFlattenedBuffer(&um),UMGetFlattenedSize(&um)); microNext++; any=true; } }
             { int32 n=UGDoOutput(&ug,R(2)?~0u:1+R(50),CSend,&p); if (n<0){bad++; printf("run %d: UGDoOutput error\n",r);} if (n>0) any=true; } if (cpp.DoInput(rx).GetByteCount()>0) any=true; break; }
    idle=any?0:idle+1; }
  if (mode==1||mode==3) got=rx.got; msgs+=nm;
  if (got!=sent){ bad++; printf("run %d mode %d: got %zu of %zu messages",r,mode,got.size(),sent.size()); for(size_t i=0;i<got.size()&&i<sent.size();i++) if (got[i]!=sent[i]) printf(" [msg %zu differs %zu vs %zu bytes]",i,got[i].size(),sent[i].size()); printf("\n"); } else ok++;
  MGFreeMessageGateway(mg); }
 printf("done runs=%d ok=%ld msgs=%ld bad=%d\n",runs,ok,msgs,bad); return bad?1:0; }
