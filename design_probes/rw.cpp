// C18 probe: random balanced scripts on ReaderWriterMutex, harness-side holder record, no hooks
#include "system/ReaderWriterMutex.h"
#include "system/SetupSystem.h"
#include "util/TimeUtilityFunctions.h"
#include <thread>
#include <atomic>
#include <vector>
#include <cstdio>
#include <cstdlib>
#include <unistd.h>
using namespace muscle;
static const int MAXT=4;
static std::atomic<int> rd[MAXT], wr[MAXT], upg[MAXT]; static std::atomic<long> progress, bad, nAcqR, nAcqW, nFail, nUpg, overlapRR, maxOvershootUs;
static std::atomic<int> state[MAXT]; // for hang diagnostics: op code in flight
struct Rng { uint64_t s; uint64_t next(){ s += 0x9e3779b97f4a7c15ULL; uint64_t z=s; z=(z^(z>>30))*0xbf58476d1ce4e5b9ULL; z=(z^(z>>27))*0x94d049bb133111ebULL; return z^(z>>31);} uint32_t R(uint32_t n){return (uint32_t)(next()%n);} };
static void CheckAfterAcquire(int me,bool write,int nT){ for(int t=0;t<nT;t++) if (t!=me){ if (wr[t].load()>0 && !upg[t].load()) { bad++; printf("EXCLUSION: thread %d acquired %s while thread %d holds write\n",me,write?"write":"read",t); } if (write && rd[t].load()>0 && !upg[t].load()) { bad++; printf("EXCLUSION: thread %d acquired write while thread %d holds read\n",me,t);} if (!write && rd[t].load()>0) overlapRR++; } }
static void Spin(Rng&r){ uint32_t k=r.R(4); if (k==0) return; if (k==1) { sched_yield(); return; } volatile int x=0; for(uint32_t i=0;i<r.R(3000);i++) x++; }
static void Script(const ReaderWriterMutex*m,int me,int nT,uint64_t seed,int nOps){ Rng r{seed}; int myR=0,myW=0;
 for(int i=0;i<nOps || myR || myW;i++){ bool winding = i>=nOps; uint32_t c=winding?(myW? (r.R(2)&&myR?5:4) : 5):r.R(10); progress++;
  uint64 to; switch(r.R(4)){ case 0: to=0; break; case 1: to=GetRunTime64()+r.R(2000); break; case 2: to=GetRunTime64()+MillisToMicros(20); break; default: to=MUSCLE_TIME_NEVER; }
  if (c<=1 && myR+myW<3){ state[me]=1; uint64 t0=GetRunTime64(); status_t s=m->LockReadOnly(to); uint64 t1=GetRunTime64(); state[me]=0; if (s.IsOK()){ myR++; rd[me]++; nAcqR++; CheckAfterAcquire(me,false,nT); } else { nFail++; if (to!=MUSCLE_TIME_NEVER && t1>to+0 && (long)(t1-(to?to:t0))>maxOvershootUs.load()) maxOvershootUs=(long)(t1-(to?to:t0)); if (myR+myW>0) {bad++; printf("recursive read acquire failed while holding: %s\n",s());} } }
  else if (c<=3 && myR+myW<3){ bool isUp=(myW==0&&myR>0); if (isUp){ upg[me]=1; nUpg++; } state[me]=2+isUp; uint64 t0=GetRunTime64(); status_t s=m->LockReadWrite(to); uint64 t1=GetRunTime64(); state[me]=0; if (s.IsOK()){ myW++; wr[me]++; upg[me]=0; nAcqW++; CheckAfterAcquire(me,true,nT);} else { upg[me]=0; nFail++; if (to!=MUSCLE_TIME_NEVER && (long)(t1-(to?to:t0))>maxOvershootUs.load()) maxOvershootUs=(long)(t1-(to?to:t0)); if (myW>0) {bad++; printf("recursive write acquire failed: %s\n",s());} } }
  else if (c==4 && myW>0){ wr[me]--; myW--; status_t s=m->UnlockReadWrite(); if (s.IsError()) {bad++; printf("UnlockReadWrite failed: %s\n",s());} }
  else if (c==5 && myR>0){ rd[me]--; myR--; status_t s=m->UnlockReadOnly(); if (s.IsError()) {bad++; printf("UnlockReadOnly failed: %s\n",s());} }
  else if (c==6 && myW==0){ status_t s=m->UnlockReadWrite(); if (s.IsOK()) {bad++; printf("UnlockReadWrite succeeded without a write lock\n");} }
  else if (c==7 && myR==0){ status_t s=m->UnlockReadOnly(); if (s.IsOK()) {bad++; printf("UnlockReadOnly succeeded without a read lock\n");} }
  else Spin(r);
 } state[me]=-1; }
int main(int argc,char**argv){ CompleteSetupSystem css; uint64_t seed=argc>1?atoll(argv[1]):1; int runs=argc>2?atoi(argv[2]):200; Rng g{seed};
 std::thread wd([]{ long last=-1; int idle=0; while(true){ sleep(1); long p=progress.load(); if (p==last){ if (++idle>=15){ printf("HANG: no progress for 15 s; states:"); for(int t=0;t<MAXT;t++) printf(" t%d(op=%d r=%d w=%d)",t,state[t].load(),rd[t].load(),wr[t].load()); printf("\n"); fflush(stdout); _exit(3);} } else {idle=0; last=p;} } }); wd.detach();
 for(int run=0;run<runs && bad.load()==0;run++){ int nT=2+g.R(3); bool pw=g.R(2); ReaderWriterMutex m("probe",pw); for(int t=0;t<MAXT;t++){rd[t]=0;wr[t]=0;upg[t]=0;state[t]=0;} std::vector<std::thread> th; for(int t=0;t<nT;t++) th.emplace_back(Script,&m,t,nT,g.next(),20+g.R(200)); for(auto&x:th) x.join();
  // quiescent: a fresh writer must get the lock at once
  if (m.TryLockReadWrite().IsError()) {bad++; printf("run %d: lock not free after all scripts released\n",run);} else (void)m.UnlockReadWrite(); }
 printf("done runs=%d readAcq=%ld writeAcq=%ld upgrades=%ld failedTimed=%ld readerOverlapsSeen=%ld maxOvershootUs=%ld bad=%ld\n",runs,nAcqR.load(),nAcqW.load(),nUpg.load(),nFail.load(),overlapRR.load(),maxOvershootUs.load(),bad.load()); return bad?1:0; }
