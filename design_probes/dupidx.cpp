// C13 structural invariant probe: can a client make an index list a child twice (or a non-child)?
#include "reflector/ReflectServer.h"
#include "reflector/StorageReflectSession.h"
#include "reflector/StorageReflectConstants.h"
#include "reflector/DataNode.h"
#include "iogateway/MessageIOGateway.h"
#include "dataio/TCPSocketDataIO.h"
#include "system/SetupSystem.h"
#include "util/NetworkUtilityFunctions.h"
#include <cstdio>
#include <string>
using namespace muscle;
struct Client : public AbstractGatewayMessageReceiver { MessageIOGateway gw; virtual void MessageReceivedFromGateway(const MessageRef &, void*) {} bool Pump(){ bool any=false; while(gw.DoOutput().GetByteCount()>0) any=true; while(gw.DoInput(*this).GetByteCount()>0) any=true; return any; } };
class Inspector : public StorageReflectSession { public: DataNode & Root() {return GetGlobalRoot();} status_t Restore(const Message&m,const String&p){ return RestoreNodeTreeFromMessage(m,p,true); } status_t Save(Message&m,const String&p){ const DataNode*n=GetDataNode(p); return n?SaveNodeTreeToMessage(m,n,p,true):B_DATA_NOT_FOUND; } };
static void Dump(DataNode&n){ if (getenv("ALL")) printf("   node %s\n",n.GetNodePath()()); if (n.GetIndex()&&n.GetIndex()->HasItems()){ printf("   index of %s:",n.GetNodePath()()); for(uint32 i=0;i<n.GetIndex()->GetNumItems();i++) printf(" %s",(*n.GetIndex())[i]()->GetNodeName()()); printf("   (children:"); for(DataNodeRefIterator it=n.GetChildIterator(); it.HasData(); it++) printf(" %s",it.GetValue()()->GetNodeName()()); printf(")\n"); } for(DataNodeRefIterator it=n.GetChildIterator(); it.HasData(); it++) Dump(*it.GetValue()()); }
int main(){ CompleteSetupSystem css; SetConsoleLogLevel(MUSCLE_LOG_CRITICALERROR); ReflectServer server; Inspector*ins=new Inspector; { AbstractReflectSessionRef ir(ins); (void)server.AddNewSession(ir); } Client a; { ConstSocketRef x,y; (void)CreateConnectedSocketPair(x,y,false); a.gw.SetDataIO(DataIORef(new TCPSocketDataIO(x,false))); StorageReflectSessionRef s(new StorageReflectSession); (void)server.AddNewSession(s,y); }
 auto settle=[&]{ int idle=0; while(idle<6){ bool any=a.Pump(); (void)server.ServerProcessLoop(0); any|=a.Pump(); idle=any?0:idle+1; } }; settle();
 { printf("1) SETDATA a/x with ADDTOINDEX, three times:\n"); for(int i=0;i<3;i++){ MessageRef sd=GetMessageFromPool(PR_COMMAND_SETDATA); (void)sd()->AddMessage("a/x",GetMessageFromPool(i)); SetDataNodeFlags f; f.SetBit(SETDATANODE_FLAG_ADDTOINDEX); (void)sd()->AddFlat(PR_NAME_FLAGS,f); (void)a.gw.AddOutgoingMessage(sd); settle(); } Dump(ins->Root()); }
 { printf("2) SETDATATREES t with children {k1,k2} and index [k1,k1,zz,k2,k1]:\n"); MessageRef m=GetMessageFromPool(PR_COMMAND_SETDATATREES); MessageRef tree=GetMessageFromPool(); (void)tree()->AddMessage(PR_NAME_NODEDATA,GetMessageFromPool(1)); MessageRef kids=GetMessageFromPool(); for(const char*k:{"k1","k2"}){ MessageRef kid=GetMessageFromPool(); (void)kid()->AddMessage(PR_NAME_NODEDATA,GetMessageFromPool(2)); (void)kids()->AddMessage(k,kid);} (void)tree()->AddMessage(PR_NAME_NODECHILDREN,kids); MessageRef idx=GetMessageFromPool(); for(const char*k:{"k1","k1","zz","k2","k1"}) (void)idx()->AddString(PR_NAME_KEYS,k); (void)tree()->AddMessage(PR_NAME_NODEINDEX,idx); (void)m()->AddMessage("t",tree); status_t r=ins->Restore(*tree(),"t"); printf("   RestoreNodeTreeFromMessage (in-process, inspector session) returned %s\n",r()); settle(); Dump(ins->Root()); Message saved; r=ins->Save(saved,"t"); printf("   SaveNodeTreeToMessage returned %s; re-restoring under t2: ",r()); r=ins->Restore(saved,"t2"); printf("%s\n",r()); Dump(ins->Root()); }
 { printf("3) INSERTORDEREDDATA under a with explicit existing name I0 twice:\n"); for(int i=0;i<2;i++){ MessageRef io=GetMessageFromPool(PR_COMMAND_INSERTORDEREDDATA); (void)io()->AddString(PR_NAME_KEYS,"b"); (void)io()->AddMessage("I0",GetMessageFromPool(5)); if (i==0){ MessageRef sd=GetMessageFromPool(PR_COMMAND_SETDATA); (void)sd()->AddMessage("b",GetMessageFromPool(1)); (void)a.gw.AddOutgoingMessage(sd);} (void)a.gw.AddOutgoingMessage(io); settle(); } Dump(ins->Root()); }
 a.gw.SetDataIO(DataIORef()); settle(); server.Cleanup(); return 0; }
