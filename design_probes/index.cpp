#include "reflector/ReflectServer.h"
#include "reflector/StorageReflectSession.h"
#include "reflector/StorageReflectConstants.h"
#include "iogateway/MessageIOGateway.h"
#include "dataio/TCPSocketDataIO.h"
#include "system/SetupSystem.h"
#include "util/NetworkUtilityFunctions.h"
#include <vector>
#include <map>
#include <set>
#include <string>
#include <cstdio>
#include <cstdint>
using namespace muscle;
static uint64_t rs; static uint64_t rnd(){ rs += 0x9e3779b97f4a7c15ULL; uint64_t z=rs; z=(z^(z>>30))*0xbf58476d1ce4e5b9ULL; z=(z^(z>>27))*0x94d049bb133111ebULL; return z^(z>>31);} static uint32_t R(uint32_t n){return (uint32_t)(rnd()%n);}
static int g_badop=0; static std::string g_badmsg;
struct Client : public AbstractGatewayMessageReceiver {
   MessageIOGateway gw; std::string root; bool alive=true; int id; bool subscribed=false;
   std::map<std::string,std::string> mirror;
   std::map<std::string,std::vector<std::string>> idx;
   virtual void MessageReceivedFromGateway(const MessageRef & m, void*) {
      if (m()->what == PR_RESULT_DATAITEMS) {
         const String * s; for (uint32 i=0; m()->FindString(PR_NAME_REMOVED_DATAITEMS, i, &s).IsOK(); i++) mirror.erase(s->Cstr());
         for (MessageFieldNameIterator it = m()->GetFieldNameIterator(B_MESSAGE_TYPE); it.HasData(); it++) mirror[it.GetFieldName()()] = "x";
      } else if (m()->what == PR_RESULT_INDEXUPDATED) {
         for (MessageFieldNameIterator it = m()->GetFieldNameIterator(B_STRING_TYPE); it.HasData(); it++) { if (!getenv("OWN") && root.size() && strncmp(it.GetFieldName()(), (root+"/").c_str(), root.size()+1)==0) continue; std::vector<std::string> & L = idx[it.GetFieldName()()]; const String * s; for (uint32 i=0; m()->FindString(it.GetFieldName(), i, &s).IsOK(); i++) { const char * c=s->Cstr(); char op=c[0]; if (op==INDEX_OP_CLEARED) {L.clear(); continue;} unsigned pos=0; const char*col=strchr(c,':'); pos=(unsigned)atol(c+1); std::string name=col?col+1:""; if (op==INDEX_OP_ENTRYINSERTED) { if (pos>L.size()) {g_badop++; g_badmsg="insert pos beyond end: "+std::string(c)+" at "+it.GetFieldName()(); pos=L.size();} L.insert(L.begin()+pos,name);} else if (op==INDEX_OP_ENTRYREMOVED) { if (pos>=L.size()||L[pos]!=name) {g_badop++; g_badmsg="remove mismatch: "+std::string(c)+" at "+it.GetFieldName()();} else L.erase(L.begin()+pos);} } }
      } else if (m()->what == PR_RESULT_PARAMETERS) { root = m()->GetString(PR_NAME_SESSION_ROOT)(); }
   }
   void Send(const MessageRef & m) {(void) gw.AddOutgoingMessage(m);}
   bool Pump() { if (!alive) return false; bool any=false; while(gw.DoOutput().GetByteCount()>0) any=true; while(gw.DoInput(*this).GetByteCount()>0) any=true; return any; }
};
static ReflectServer * g_server; static std::vector<Client*> cs;
static void Settle(int rounds=6){ int idle=0; while(idle<rounds){ bool any=false; for (auto c:cs) any|=c->Pump(); (void)g_server->ServerProcessLoop(0); for(auto c:cs) any|=c->Pump(); idle=any?0:idle+1; } }
static int nextid=0;
static Client * NewClient(){ ConstSocketRef a,b; if (CreateConnectedSocketPair(a,b,false).IsError()) exit(10); Client*c=new Client; c->id=nextid++; c->gw.SetDataIO(DataIORef(new TCPSocketDataIO(a,false))); StorageReflectSessionRef s(new StorageReflectSession); if (g_server->AddNewSession(s,b).IsError()) exit(11); cs.push_back(c); c->Send(GetMessageFromPool(PR_COMMAND_GETPARAMETERS)); Settle(); if (getenv("OWN") && c->id>0) { MessageRef sd=GetMessageFromPool(PR_COMMAND_SETDATA); sd()->AddMessage("Z",GetMessageFromPool(1)); c->Send(sd); MessageRef io=GetMessageFromPool(PR_COMMAND_INSERTORDEREDDATA); io()->AddString(PR_NAME_KEYS,"Z"); io()->AddMessage("q",GetMessageFromPool(2)); c->Send(io); Settle(); } return c; }
int main(int argc,char**argv){
   CompleteSetupSystem css; SetConsoleLogLevel(MUSCLE_LOG_ERROR);
   uint64_t seed = argc>1?strtoull(argv[1],0,0):1; int nhist = argc>2?atoi(argv[2]):50; int ncmd=argc>3?atoi(argv[3]):60;
   long compares=0, entries=0; int bad=0;
   for (int h=0; h<nhist && !bad; h++) {
      rs = seed*1000003ULL + h; ReflectServer server; g_server=&server; cs.clear(); nextid=0; g_badop=0;
      Client * obs = NewClient(); {MessageRef sp=GetMessageFromPool(PR_COMMAND_SETPARAMETERS); sp()->AddBool(PR_NAME_REFLECT_TO_SELF,true); obs->Send(sp); Settle();}
      int nc = 2+R(2); for (int i=0;i<nc;i++) NewClient();
      std::vector<std::string> log; char buf[256];
      const char * lists[] = {"L","M"}; const char * names[] = {"I0","I1","I2","I3","k1","k2","zz"};
      for (int k=0;k<ncmd && !bad;k++) {
         std::vector<Client*> live; for (size_t i=1;i<cs.size();i++) if (cs[i]->alive) live.push_back(cs[i]);
         if (live.empty()) break; Client * c = live[R(live.size())]; int op=R(100); const char * L = lists[R(2)];
         if (op<10) { MessageRef sd=GetMessageFromPool(PR_COMMAND_SETDATA); sd()->AddMessage(L,GetMessageFromPool(1)); c->Send(sd); sprintf(buf,"c%d set %s",c->id,L); log.push_back(buf);} 
         else if (op<40) { MessageRef io=GetMessageFromPool(PR_COMMAND_INSERTORDEREDDATA); io()->AddString(PR_NAME_KEYS, R(5)==0?"*":L); int n=1+R(2); for(int j=0;j<n;j++) io()->AddMessage(names[R(7)], GetMessageFromPool(2)); c->Send(io); sprintf(buf,"c%d insertordered under %s n=%d",c->id,L,n); log.push_back(buf);} 
         else if (op<50) { MessageRef sd=GetMessageFromPool(PR_COMMAND_SETDATA); SetDataNodeFlags f(SETDATANODE_FLAG_ADDTOINDEX); sd()->AddFlat(PR_NAME_FLAGS,f); std::string p=std::string(L)+"/"+names[R(7)]; sd()->AddMessage(p.c_str(),GetMessageFromPool(3)); c->Send(sd); sprintf(buf,"c%d set+index %s",c->id,p.c_str()); log.push_back(buf);} 
         else if (op<58) { MessageRef sd=GetMessageFromPool(PR_COMMAND_SETDATA); std::string p=std::string(L)+"/"+names[R(7)]; sd()->AddMessage(p.c_str(),GetMessageFromPool(4)); c->Send(sd); sprintf(buf,"c%d set plain %s",c->id,p.c_str()); log.push_back(buf);} 
         else if (op<72) { MessageRef ro=GetMessageFromPool(PR_COMMAND_REORDERDATA); std::string p=std::string(L)+"/"+(R(4)==0?"*":names[R(7)]); const char * before = R(4)==0?PR_NAME_REMOVE_FROM_INDEX:names[R(7)]; ro()->AddString(p.c_str(), before); c->Send(ro); sprintf(buf,"c%d reorder %s before %s",c->id,p.c_str(),before); log.push_back(buf);} 
         else if (op<84) { MessageRef rd=GetMessageFromPool(PR_COMMAND_REMOVEDATA); std::string p = R(4)==0?std::string(L):(std::string(L)+"/"+(R(5)==0?"*":names[R(7)])); rd()->AddString(PR_NAME_KEYS,p.c_str()); c->Send(rd); sprintf(buf,"c%d remove %s",c->id,p.c_str()); log.push_back(buf);} 
         else if (op<94) { if (!c->subscribed) { MessageRef sp=GetMessageFromPool(PR_COMMAND_SETPARAMETERS); sp()->AddBool("SUBSCRIBE:*",true); c->Send(sp); c->subscribed=true; sprintf(buf,"c%d subscribes *",c->id); log.push_back(buf);} else { MessageRef gd=GetMessageFromPool(PR_COMMAND_GETDATA); gd()->AddString(PR_NAME_KEYS,"*"); c->Send(gd); sprintf(buf,"c%d getdata *",c->id); log.push_back(buf);} }
         else if (op<97) { NewClient(); log.push_back("join"); }
         else { c->alive=false; c->gw.SetDataIO(DataIORef()); sprintf(buf,"c%d leaves",c->id); log.push_back(buf);} 
         if (R(3)==0) {
            Settle();
            obs->idx.clear(); obs->mirror.clear(); MessageRef gd=GetMessageFromPool(PR_COMMAND_GETDATA); gd()->AddString(PR_NAME_KEYS,"/*/*/*"); obs->Send(gd); Settle();
            if (g_badop) { bad=1; printf("BADOP hist=%d step=%d: %s\n",h,k,g_badmsg.c_str()); for (auto&l:log) printf("   | %s\n", l.c_str()); break; }
            for (size_t i=1;i<cs.size();i++) { Client*c2=cs[i]; if(!c2->alive||!c2->subscribed) continue;
               // compare index for every list node in truth that c2 knows about (path in truth mirror)
               for (auto & kv : obs->mirror) { const std::string & p = kv.first; if (!getenv("OWN") && p.compare(0,c2->root.size()+1,c2->root+"/")==0) continue; std::vector<std::string> t = obs->idx.count(p)?obs->idx[p]:std::vector<std::string>(); std::vector<std::string> g = c2->idx.count(p)?c2->idx[p]:std::vector<std::string>(); compares++; entries+=t.size();
                  if (t!=g) { bad=1; printf("MISMATCH hist=%d step=%d client c%d (root %s) node %s\n  truth:", h,k,c2->id,c2->root.c_str(),p.c_str()); for(auto&x:t) printf(" %s",x.c_str()); printf("\n  got:  "); for(auto&x:g) printf(" %s",x.c_str()); printf("\n"); for (auto&l:log) printf("   | %s\n", l.c_str()); break; } }
               if (bad) break; }
         }
      }
      for (auto c:cs) {c->gw.SetDataIO(DataIORef());} server.Cleanup(); for (auto c:cs) delete c; cs.clear();
   }
   printf("done: compares=%ld truth-entries=%ld bad=%d\n", compares, entries, bad);
   return bad;
}
