#include "util/String.h"
#include "util/Hashtable.h"
#include <cstdio>
using namespace muscle;
int main(){ { Hashtable<String,String> t; (void)t.Put("aab","X"); String s("aaab"); printf("table {aab->X} on [aaab]: [%s]   (single-string Replace gives [%s])\n", s.WithReplacements(t)(), s.WithReplacements("aab","X")()); }
 { Hashtable<String,String> t; (void)t.Put("bb","B"); (void)t.Put("-b","1"); String s("a-bbb-"); printf("table {bb->B,-b->1} on [a-bbb-]: [%s]\n", s.WithReplacements(t)()); }
 { Hashtable<String,String> t; (void)t.Put("abab","X"); String s("ababab abaabab"); printf("table {abab->X} on [ababab abaabab]: [%s] (single: [%s])\n", s.WithReplacements(t)(), s.WithReplacements("abab","X")()); }
 return 0; }
