// C10 probe: Ref/ObjectPool lifecycle under concurrent copy/drop, small pools (hook-less)
#include "util/RefCount.h"
#include "util/ObjectPool.h"
#include "system/SetupSystem.h"
#include <thread>
#include <atomic>
#include <mutex>
#include <vector>
#include <cstdio>
#include <unistd.h>
using namespace muscle;
enum {POOLED=1, IN_USE=2, DEAD=3};
static std::atomic<long> bad, ctor, dtor, obtains, recycles, heapNews, derefs, drops, lastDropOffThread;
struct Tracked : public RefCountable { mutable std::atomic<int> st{POOLED}; mutable std::atomic<int> shadow{0}; int *payload; int id=0; bool isDefault=false;
 Tracked(){ payload=new int[4]; payload[0]=0; ctor++; }
 ~Tracked(){ int s=st.load(); if (s==IN_USE && shadow.load()>0) { bad++; printf("destroyed while %d references exist\n",shadow.load()); } st=DEAD; delete [] payload; dtor++; }
 Tracked(const Tracked&)=delete;
 Tracked & operator=(const Tracked & rhs){ // called by ObjectPool::ReleaseObject with the default object: this is the recycle point
   if (rhs.isDefault && !isDefault){ if (shadow.load()>0) { bad++; printf("recycled while %d references exist (id %d)\n",shadow.load(),id);} int e=IN_USE; if (!st.compare_exchange_strong(e,POOLED)) { bad++; printf("recycle found state %d (double release?) id %d\n",e,id);} recycles++; payload[0]=0; id=0; } return *this; } };
DECLARE_REFTYPES(Tracked);
typedef ObjectPool<Tracked,512> Pool;
static Pool * pools[2];
static TrackedRef Obtain(int which,int id){ Tracked*t; if (which<2){ t=pools[which]->ObtainObject(); if (!t) return TrackedRef(); int e=POOLED; if (!t->st.compare_exchange_strong(e,IN_USE)) { bad++; printf("obtained object in state %d (handed out twice?)\n",e);} if (t->payload[0]!=0||t->id!=0) { bad++; printf("obtained object not in default state\n"); } obtains++; } else { t=new Tracked; t->st=IN_USE; heapNews++; } t->id=id; t->payload[0]=id; t->shadow++; TrackedRef r(t); return r; }
// shadow discipline: ++ after a real reference exists, -- before it is dropped  => shadow <= real
static void Copy(TrackedRef&dst,const TrackedRef&src){ TrackedRef old; old.SwapContents(dst); dst=src; if (dst()) dst()->shadow++; if (old()) { old()->shadow--; drops++; } /* old dropped here */ }
static void Drop(TrackedRef&r){ if (r()) { r()->shadow--; drops++; } r.Reset(); }
static void Use(const TrackedRef&r){ if (r()){ derefs++; if (r()->st.load()!=IN_USE) { bad++; printf("dereferenced object in state %d\n",r()->st.load()); } if (r()->payload[0]!=r()->id) { bad++; printf("payload %d != id %d\n",r()->payload[0],r()->id);} } }
struct Slot { std::mutex m; TrackedRef r; }; static Slot slots[6]; static bool hot; static uint32_t nSlots=6;
struct Rng { uint64_t s; uint64_t next(){ s += 0x9e3779b97f4a7c15ULL; uint64_t z=s; z=(z^(z>>30))*0xbf58476d1ce4e5b9ULL; z=(z^(z>>27))*0x94d049bb133111ebULL; return z^(z>>31);} uint32_t R(uint32_t n){return (uint32_t)(next()%n);} };
static void Worker(int me,uint64_t seed,int nOps){ Rng r{seed}; TrackedRef mine[5]; for(int i=0;i<nOps;i++){ int a=r.R(5), b=r.R(5); switch(hot ? (r.R(40)==0?0:1+r.R(9)) : r.R(10)){
  case 0: { TrackedRef n=Obtain(r.R(3),me*1000000+i+1); Copy(mine[a],n); Drop(n);} break;
  case 1: case 2: { Slot&s=slots[r.R(nSlots)]; TrackedRef t; { std::lock_guard<std::mutex> g(s.m); t=s.r; if (t()) t()->shadow++; } Use(t); Copy(mine[a],t); Drop(t);} break;           // take a copy from a shared slot
  case 3: case 4: { Slot&s=slots[r.R(nSlots)]; TrackedRef t=mine[a]; if (t()) t()->shadow++; { std::lock_guard<std::mutex> g(s.m); t.SwapContents(s.r); } Drop(t); } break; // publish; the old slot value is dropped outside the lock
  case 5: Copy(mine[a],mine[b]); break; case 6: Drop(mine[a]); break; case 7: mine[a].SwapContents(mine[b]); break;
  case 8: { ConstTrackedRef c=mine[a]; if (c()) c()->shadow++; Use(mine[a]); TrackedRef back=CastAwayConstFromRef(c); if (back()) back()->shadow++; if (c()) c()->shadow--; c.Reset(); Copy(mine[b],back); Drop(back);} break;
  default: Use(mine[a]); if (r.R(4)==0) sched_yield(); break; } }
 for(auto&m:mine) Drop(m); }
int main(int argc,char**argv){ CompleteSetupSystem css; uint64_t seed=argc>1?atoll(argv[1]):1; int runs=argc>2?atoi(argv[2]):20; Rng g{seed};
 for(int run=0;run<runs&&!bad.load();run++){ Pool p0(2+g.R(3)), p1(8+g.R(8)); pools[0]=&p0; pools[1]=&p1; const_cast<Tracked&>(p0.GetDefaultObject()).isDefault=true; const_cast<Tracked&>(p1.GetDefaultObject()).isDefault=true;
  hot=g.R(2); nSlots=hot?2:6; int nT=hot?8:2+g.R(5); std::vector<std::thread> th; for(int t=0;t<nT;t++) th.emplace_back(Worker,t,g.next(),3000+g.R(3000)); for(auto&x:th) x.join();
  for(auto&s:slots) Drop(s.r);
  p0.PerformSanityCheck(); p1.PerformSanityCheck();
  if (obtains.load()!=recycles.load()) { bad++; printf("run %d: obtains %ld != recycles %ld at quiescence\n",run,obtains.load(),recycles.load()); } }
 long c=ctor.load(), d=dtor.load(); printf("done runs=%d ctor=%ld dtor=%ld obtains=%ld recycles=%ld heapNews=%ld derefs=%ld drops=%ld bad=%ld\n",runs,c,d,obtains.load(),recycles.load(),heapNews.load(),derefs.load(),drops.load(),bad.load()); return bad?1:0; }
