// C07 probe: deeply nested PR_COMMAND_BATCH sent by a client; does the server survive (parse and handle)?
#include "reflector/ReflectServer.h"
#include "reflector/StorageReflectSession.h"
#include "reflector/StorageReflectConstants.h"
#include "iogateway/MessageIOGateway.h"
#include "dataio/TCPSocketDataIO.h"
#include "system/SetupSystem.h"
#include "util/NetworkUtilityFunctions.h"
#include <cstdio>
using namespace muscle;
struct Client : public AbstractGatewayMessageReceiver { MessageIOGateway gw; int pongs=0; virtual void MessageReceivedFromGateway(const MessageRef & m, void*) { if (m()->what==PR_RESULT_PONG) pongs++; } bool Pump(){ bool any=false; while(gw.DoOutput().GetByteCount()>0) any=true; while(gw.DoInput(*this).GetByteCount()>0) any=true; return any; } };
int main(int argc,char**argv){ CompleteSetupSystem css; SetConsoleLogLevel(MUSCLE_LOG_CRITICALERROR); int depth=argc>1?atoi(argv[1]):1000; ReflectServer server; Client a,w; Client*cs[2]={&a,&w};
 for(auto c:cs){ ConstSocketRef x,y; (void)CreateConnectedSocketPair(x,y,false); c->gw.SetDataIO(DataIORef(new TCPSocketDataIO(x,false))); StorageReflectSessionRef s(new StorageReflectSession); (void)server.AddNewSession(s,y); }
 auto settle=[&]{ int idle=0; while(idle<6){ bool any=false; for(auto c:cs) any|=c->Pump(); (void)server.ServerProcessLoop(0); for(auto c:cs) any|=c->Pump(); idle=any?0:idle+1; } };
 settle(); MessageRef m=GetMessageFromPool(PR_COMMAND_PING); for(int i=0;i<depth;i++){ MessageRef b=GetMessageFromPool(PR_COMMAND_BATCH); (void)b()->AddMessage(PR_NAME_KEYS,m); m=b; }
 printf("sending batch nested %d deep (%u bytes)\n",depth,m()->FlattenedSize()); fflush(stdout); (void)a.gw.AddOutgoingMessage(m); settle(); (void)w.gw.AddOutgoingMessage(GetMessageFromPool(PR_COMMAND_PING)); settle();
 printf("depth %d: attacker pongs=%d witness pongs=%d\n",depth,a.pongs,w.pongs); for(auto c:cs) c->gw.SetDataIO(DataIORef()); settle(); server.Cleanup(); return (w.pongs>0)?0:1; }
