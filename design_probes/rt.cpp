#include "message/Message.h"
#include "system/SetupSystem.h"
#include <cstdio>
#include <cmath>
using namespace muscle;
static int bad=0;
static void Check(Message & m, const char * what){ uint32 n=m.FlattenedSize(); ByteBufferRef b=GetByteBufferFromPool(n); m.FlattenToBytes(b()->GetBuffer(), n); Message m2; status_t r=m2.UnflattenFromByteBuffer(b); ByteBufferRef b2=m2.FlattenToByteBuffer(); bool same = r.IsOK() && b2() && (*b2()==*b()); printf("%-40s size=%u unflat=%s bytes-identical=%d eq=%d eq2=%d chk=%d\n", what, n, r(), (int)same, (int)(m==m2), (int)(m2==m), (int)(m.CalculateChecksum()==m2.CalculateChecksum())); if (!same) bad=1; }
int main(){ CompleteSetupSystem css;
 { Message m(1); m.AddInt32("i",1); m.AddInt32("i",2); m.RemoveData("i",1); Check(m,"int32 array-of-one"); }
 { Message m(1); m.AddString("s","a"); m.AddString("s","b"); m.RemoveData("s",0); Check(m,"string array-of-one"); }
 { Message m(1); m.AddMessage("m",GetMessageFromPool(5)); m.AddMessage("m",GetMessageFromPool(6)); m.RemoveData("m",0); Check(m,"message array-of-one"); }
 { Message m(1); uint8 d[3]={1,2,3}; m.AddData("r",B_RAW_TYPE,d,3); m.AddData("r",B_RAW_TYPE,d,2); m.RemoveData("r",1); Check(m,"raw array-of-one"); }
 { Message m(1); m.AddBool("b",true); m.AddBool("b",false); m.RemoveData("b",0); Check(m,"bool array-of-one"); }
 { Message m(1); m.AddFloat("f",NAN); Check(m,"float NaN inline"); }
 { Message m(1); m.AddFloat("f",NAN); m.AddFloat("f",-0.0f); Check(m,"float NaN array"); }
 { Message m(1); m.AddPoint("p",Point(1,2)); m.AddPoint("p",Point(3,4)); m.RemoveData("p",1); Check(m,"point array-of-one"); }
 { Message m(1); uint8 d[3]={1,2,3}; m.AddData("u",0x12345678,d,3); Check(m,"user type inline"); }
 { Message m(1); m.AddString("",""); Check(m,"empty name, empty string"); }
 { Message m(1); m.AddPointer("p",&m); m.AddInt8("x",5); Check(m,"pointer + int8"); }
 { Message m(1); uint8 d[1]={0}; ByteBufferRef z=GetByteBufferFromPool(0); m.AddFlat("z",z); Check(m,"zero-length raw via AddFlat"); }
 printf("bad=%d\n",bad); return bad; }
