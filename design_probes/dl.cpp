#include <mutex>
#include <thread>
#include <unistd.h>
int main(int argc,char**){ std::mutex a,b; if (argc>1){ volatile unsigned long x=0; for(;;) x++; } std::thread t1([&]{ std::lock_guard<std::mutex> g(a); usleep(100000); std::lock_guard<std::mutex> h(b); }); std::thread t2([&]{ std::lock_guard<std::mutex> g(b); usleep(100000); std::lock_guard<std::mutex> h(a); }); t1.join(); t2.join(); return 0; }
