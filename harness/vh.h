// vh.h -- common support for the /verif harnesses (header only, no muscle dependency).
//
// Protocol between a harness process and bin/check (lib/driver.py):
//   argv:   --seed S --from K --cases N --out FILE [--prog FILE] [--opt name=value ...]
//   cases are addressed by (seed, stream, index); every case seeds its own PRNG from
//   vh::case_seed(), so any partition of [from, from+cases) over workers / restarts
//   after a crash generates exactly the cases a single crash-free run would.
//   --prog FILE : before each case the harness pwrite()s "k\n" at offset 0 (crash attribution)
//   --out FILE  : JSON lines
//       {"t":"viol","key":K,"case":k,"detail":D}      one per violation (max 5 details/key, rest counted)
//       FILE.dg : binary sidecar, the uint64 digests of the distinct non-trivial cases of this worker (capped at 250000)
//       {"t":"summary","cases":n,"stats":{..},"distinct":d,"nontrivial":m,"samples":[..],"violkeys":{key:count}}
//   exit status 0 = harness ran to completion (violations are in the file), 3 = usage,
//   anything else = crash (sanitizer report / abort / signal) -> the driver reads stderr.
#ifndef VERIF_VH_H
#define VERIF_VH_H
#include <cstdio>
#include <cstdlib>
#include <cstring>
#include <cstdint>
#include <cstdarg>
#include <string>
#include <map>
#include <set>
#include <vector>
#include <mutex>
#include <unistd.h>
#include <fcntl.h>

namespace vh {

struct Rng {
   uint64_t s;
   explicit Rng(uint64_t seed = 1) : s(seed) {}
   uint64_t next() { s += 0x9e3779b97f4a7c15ULL; uint64_t z = s; z = (z ^ (z >> 30)) * 0xbf58476d1ce4e5b9ULL; z = (z ^ (z >> 27)) * 0x94d049bb133111ebULL; return z ^ (z >> 31); }
   uint32_t R(uint32_t n) { return n ? (uint32_t)(next() % n) : 0; }          // [0,n)
   uint32_t range(uint32_t lo, uint32_t hi) { return lo + R(hi - lo + 1); }     // [lo,hi]
   bool chance(uint32_t num, uint32_t den) { return R(den) < num; }
   double unit() { return (double)(next() >> 11) / 9007199254740992.0; }
};

static inline uint64_t mix64(uint64_t z) { z += 0x9e3779b97f4a7c15ULL; z = (z ^ (z >> 30)) * 0xbf58476d1ce4e5b9ULL; z = (z ^ (z >> 27)) * 0x94d049bb133111ebULL; return z ^ (z >> 31); }
static inline uint64_t case_seed(uint64_t seed, uint64_t stream, uint64_t k) { return mix64(mix64(mix64(seed) ^ (stream * 0x9E3779B1ULL)) ^ (k * 0xD6E8FEB86659FD93ULL)); }
static inline uint64_t fnv(const void * p, size_t n, uint64_t h = 1469598103934665603ULL) { const unsigned char * b = (const unsigned char *)p; for (size_t i = 0; i < n; i++) { h ^= b[i]; h *= 1099511628211ULL; } return h; }
static inline uint64_t fnvs(const std::string & s, uint64_t h = 1469598103934665603ULL) { return fnv(s.data(), s.size(), h); }

static inline std::string jesc(const std::string & s)
{
   std::string o; o.reserve(s.size() + 8);
   for (size_t i = 0; i < s.size(); i++) {
      unsigned char c = (unsigned char)s[i];
      if (c == '"') o += "\\\""; else if (c == '\\') o += "\\\\"; else if (c == '\n') o += "\\n"; else if (c == '\t') o += "\\t";
      else if (c < 0x20 || c >= 0x7f) { char b[8]; snprintf(b, sizeof(b), "\\u%04x", c); o += b; }
      else o += (char)c;
   }
   return o;
}
static inline std::string hex(const void * p, size_t n, size_t maxBytes = 256)
{
   static const char * d = "0123456789abcdef"; std::string o; const unsigned char * b = (const unsigned char *)p;
   for (size_t i = 0; i < n && i < maxBytes; i++) { o += d[b[i] >> 4]; o += d[b[i] & 15]; }
   if (n > maxBytes) o += "...";
   return o;
}
static inline std::string fmt(const char * f, ...)
{
   char buf[4096]; va_list ap; va_start(ap, f); vsnprintf(buf, sizeof(buf), f, ap); va_end(ap); return std::string(buf);
}

struct Ctx {
   uint64_t seed; long from; long cases; std::string out; std::string prog; std::map<std::string, std::string> opt;
   int progfd; FILE * outf; long curCase; long casesRun;
   std::map<std::string, long> stats; std::map<std::string, long> violKeys; std::set<uint64_t> distinctSet; std::set<uint64_t> ntSet; long nontrivial;
   std::vector<std::string> samples; size_t maxSamples; std::mutex mu; long totalViol;
   Ctx() : seed(1), from(0), cases(100), progfd(-1), outf(NULL), curCase(-1), casesRun(0), nontrivial(0), maxSamples(6), totalViol(0) {}
};
static inline Ctx & ctx() { static Ctx c; return c; }

static inline void init(int argc, char ** argv)
{
   Ctx & c = ctx();
   for (int i = 1; i < argc; i++) {
      std::string a = argv[i];
      if (a == "--seed" && i + 1 < argc) c.seed = strtoull(argv[++i], NULL, 10);
      else if (a == "--from" && i + 1 < argc) c.from = atol(argv[++i]);
      else if (a == "--cases" && i + 1 < argc) c.cases = atol(argv[++i]);
      else if (a == "--out" && i + 1 < argc) c.out = argv[++i];
      else if (a == "--prog" && i + 1 < argc) c.prog = argv[++i];
      else if (a == "--opt" && i + 1 < argc) { std::string kv = argv[++i]; size_t e = kv.find('='); if (e == std::string::npos) c.opt[kv] = "1"; else c.opt[kv.substr(0, e)] = kv.substr(e + 1); }
      else { fprintf(stderr, "vh: unknown argument %s\n", a.c_str()); exit(3); }
   }
   c.outf = c.out.empty() ? stdout : fopen(c.out.c_str(), "w");
   if (!c.outf) { fprintf(stderr, "vh: cannot open %s\n", c.out.c_str()); exit(3); }
   if (!c.prog.empty()) c.progfd = open(c.prog.c_str(), O_WRONLY | O_CREAT, 0644);
}
static inline std::string opt(const char * name, const char * def = "") { Ctx & c = ctx(); std::map<std::string, std::string>::const_iterator it = c.opt.find(name); return it == c.opt.end() ? std::string(def) : it->second; }
static inline long optl(const char * name, long def = 0) { std::string s = opt(name, ""); return s.empty() ? def : atol(s.c_str()); }
static inline bool has_opt(const char * name) { return ctx().opt.count(name) > 0; }

static inline void begin_case(long k)
{
   Ctx & c = ctx(); c.curCase = k; c.casesRun++;
   if (c.progfd >= 0) { char b[32]; int n = snprintf(b, sizeof(b), "%-20ld\n", k); if (pwrite(c.progfd, b, n, 0) < 0) {} }
}
// free-form progress note (e.g. the sub-step inside a case), also for crash attribution
static inline void note(const std::string & s)
{
   Ctx & c = ctx();
   if (c.progfd >= 0) { char b[512]; int n = snprintf(b, sizeof(b), "%-20ld\n%-480.480s\n", c.curCase, s.c_str()); if (pwrite(c.progfd, b, n, 0) < 0) {} }
}
static inline void stat(const std::string & name, long add = 1) { Ctx & c = ctx(); std::lock_guard<std::mutex> g(c.mu); c.stats[name] += add; }
static inline void statmax(const std::string & name, long v) { Ctx & c = ctx(); std::lock_guard<std::mutex> g(c.mu); long & r = c.stats[name]; if (v > r) r = v; }
static inline void distinct(uint64_t digest, bool nontrivial = true) { Ctx & c = ctx(); std::lock_guard<std::mutex> g(c.mu); if (c.distinctSet.size() < 4000000) { if (c.distinctSet.insert(digest).second && nontrivial) { c.nontrivial++; if (c.ntSet.size() < 250000) c.ntSet.insert(digest); } } }
static inline void sample(const std::string & s) { Ctx & c = ctx(); std::lock_guard<std::mutex> g(c.mu); if (c.samples.size() < c.maxSamples) c.samples.push_back(s); }
static inline bool want_sample() { Ctx & c = ctx(); return c.samples.size() < c.maxSamples; }
static inline void viol(const std::string & key, const std::string & detail)
{
   Ctx & c = ctx(); std::lock_guard<std::mutex> g(c.mu);
   long n = ++c.violKeys[key]; c.totalViol++;
   if (n <= 5) { fprintf(c.outf, "{\"t\":\"viol\",\"key\":\"%s\",\"case\":%ld,\"detail\":\"%s\"}\n", jesc(key).c_str(), c.curCase, jesc(detail).c_str()); fflush(c.outf); }
}
static inline long violations() { return ctx().totalViol; }
static inline int finish()
{
   Ctx & c = ctx(); std::lock_guard<std::mutex> g(c.mu);
   std::string s = "{\"t\":\"summary\",\"cases\":" + fmt("%ld", c.casesRun) + ",\"distinct\":" + fmt("%zu", c.distinctSet.size()) + ",\"nontrivial\":" + fmt("%ld", c.nontrivial) + ",\"stats\":{";
   bool first = true;
   for (std::map<std::string, long>::const_iterator it = c.stats.begin(); it != c.stats.end(); ++it) { if (!first) s += ","; first = false; s += "\"" + jesc(it->first) + "\":" + fmt("%ld", it->second); }
   s += "},\"violkeys\":{"; first = true;
   for (std::map<std::string, long>::const_iterator it = c.violKeys.begin(); it != c.violKeys.end(); ++it) { if (!first) s += ","; first = false; s += "\"" + jesc(it->first) + "\":" + fmt("%ld", it->second); }
   s += "},\"samples\":["; first = true;
   for (size_t i = 0; i < c.samples.size(); i++) { if (!first) s += ","; first = false; s += "\"" + jesc(c.samples[i]) + "\""; }
   s += "]}\n";
   fputs(s.c_str(), c.outf); fflush(c.outf);
   if (c.outf != stdout) {
      fclose(c.outf);
      // sidecar with the digests of the distinct non-trivial cases (at most 250000), so that the driver can count distinct cases across workers
      FILE * dg = fopen((c.out + ".dg").c_str(), "wb");
      if (dg) { for (std::set<uint64_t>::const_iterator it = c.ntSet.begin(); it != c.ntSet.end(); ++it) { uint64_t v = *it; if (fwrite(&v, sizeof(v), 1, dg) != 1) break; } fclose(dg); }
   }
   return 0;
}

}  // namespace vh
#endif
