// h_hostile -- C07: one client's traffic can never hang or crash the server.
// One case = one fresh stepped ReflectServer (reflectbench.h) + a witness, a subscribed slow client and two attackers
// (2 KB socket buffers, reading switched on and off) + one hostile sequence of ~50 injected Messages from a STATE-AWARE
// generator: (a) recipes (per command family a short scenario establishing the documented precondition of every handler
// branch, built from what exists in the server right now: node paths, queued result Messages, payload fields, index nodes,
// subscriptions), (b) random mutation of recipe steps, (c) a blind stream.  After every injected Message the witness pings;
// the pong must arrive within 2000 server steps, and the process RSS must not grow by more than 256 MiB.
// Hangs / crashes are decided by the driver (cpu-budget, sanitizer report, deadlock); vh::note() names the step.
// modes (--opt mode=): hostile (default) | regress | deepnest (F6, open) | regexbomb (F10, open)
// opts: nmsg=50 (injected Messages per case)
#include "reflectbench.h"
#include "regex/QueryFilter.h"
#include "reflector/FilterSessionFactory.h"
#include "util/MiscUtilityFunctions.h"
#include <deque>
#include <time.h>
#include "vh.h"
using namespace muscle;

static vh::Rng g(1);
static uint32_t R(uint32_t n) { return g.R(n); }
static bool Ch(uint32_t num, uint32_t den) { return g.R(den) < num; }
enum { STREAM_HOSTILE = 7001, STREAM_DEEPNEST = 7002, STREAM_BOMB = 7003 };
static bool g_bombMode = false;   // regexbomb leg: patterns are NOT defused

// ---- pattern grammar ---------------------------------------------------------------------------------------------------
// The open findings F10 (regcomp() cost of bounded repetition) and its raw-regex sibling (back-references in raw POSIX
// regexes: backtick patterns and OP_REGULAR_EXPRESSION_MATCH filter values) are reachable from every pattern string, so
// EVERY string this harness puts into a Message goes through Defuse(): per path clause at most one '{', numbers after it
// cut to 2 digits, clause cut to 300 characters when it holds a '{'; in raw-regex clauses backslash-digit loses its backslash;
// at most 400 '*' per clause ('*' and '?' in raw clauses): regcomp() needs memory quadratic in the length of a run of
// nullable items (8000 stars = 1.6 GB), found by this harness and filed with the F10 family.
// What was cut is counted (unspecified_*).  The regexbomb leg sends those constructs undefused.
static std::string DefuseClause(const std::string & c, bool raw)
{
   size_t st = 0; if (st < c.size() && c[st] == '~') st++;
   const bool isRaw = raw || (st < c.size() && c[st] == '`');
   std::string o; o.reserve(c.size()); size_t bracePos = std::string::npos; int stars = 0;
   for (size_t i = 0; i < c.size(); i++) {
      const char ch = c[i];
      if ((ch == '*' || (isRaw && ch == '?')) && ++stars > 400) { if (stars == 401) vh::stat("unspecified_star_run_cut"); continue; }
      if (ch == '\\' && i + 1 < c.size()) {
         if (isRaw && isdigit((unsigned char)c[i + 1])) { vh::stat("unspecified_raw_regex_backreference_defused"); continue; }
         o += ch; o += c[++i]; continue;
      }
      if (ch == '{') { if (bracePos != std::string::npos) { vh::stat("unspecified_nested_interval_defused"); continue; } bracePos = o.size(); }
      o += ch;
   }
   if (bracePos != std::string::npos) {
      std::string p = o.substr(0, bracePos); int run = 0;
      for (size_t i = bracePos; i < o.size(); i++) { if (isdigit((unsigned char)o[i])) { if (++run > 2) { vh::stat("unspecified_interval_bound_cut"); continue; } } else run = 0; p += o[i]; }
      if (p.size() > 300) { p.resize(300); vh::stat("unspecified_interval_clause_cut"); }
      o = p;
   }
   return o;
}
static std::string Defuse(const std::string & s, bool raw = false)
{
   if (g_bombMode) return s;
   if (s.find('{') == std::string::npos && s.find('\\') == std::string::npos && s.size() <= 400) return s;
   if (raw) return DefuseClause(s, true);
   std::string o; size_t st = 0;
   while (true) { size_t k = s.find('/', st); o += DefuseClause(s.substr(st, k == std::string::npos ? k : k - st), false); if (k == std::string::npos) break; o += '/'; st = k + 1; }
   return o;
}

static std::string AggressivePattern()
{
   static const char * atoms[] = {"a","b","x","*","?","[ab]","[a-","[^a]","[]","(a|b)","(a|","(a,b)",")","~","<1-5>","<","<5->","<-5>",">","\\","\\*","\\(",",","|","^","$","{","}","{2}","{1,3}","+",".","/","//","..",
      "`a*","`(","`[a-z]+","`.*","%","\xff","\x01","<99999999999-3>","<0-99999999999999999999>","I0","I1","_unknown_","0","1","2","(((((","[[[[","]]]]","a{2}","\\w","\\1","\\2","*/*","!SnKy","SUBSCRIBE:","**","?*",
      "[[:alpha:]]","[[:bogus:]]","[z-a]","(","()","(|)","(*)"," ","\t","L","L/*","a/b","/*/*","/*/*/*","~a","`~","~`a"};
   const uint32_t na = sizeof(atoms) / sizeof(atoms[0]);
   std::string s; const uint32_t sel = R(40);
   if (sel == 0) { s = std::string(1 + R(20000), "abc*?"[R(5)]); vh::stat("pat_long_run"); }
   else if (sel == 1) { for (int i = 0; i < 200; i++) s += (i % 7 == 3) ? "*/" : "a/"; s += "a"; vh::stat("pat_200_deep_path"); }
   else if (sel == 2) { s = "("; for (int i = 0; i < 500; i++) { if (i) s += '|'; s += vh::fmt("alt%d", i); } s += ")"; vh::stat("pat_long_alternation"); }
   else if (sel == 3) { while (s.size() < 10240) { const char * a = atoms[R(na)]; if (strchr(a, '/') == NULL) s += a; } vh::stat("pat_10k_clause"); }
   else if (sel == 4) { s = "<"; for (int i = 0; i < 1000; i++) { if (i) s += ','; s += vh::fmt("%u-%u", R(100000), (unsigned)g.next()); } s += ">"; vh::stat("pat_many_ranges"); }
   else if (sel == 5) { s = vh::fmt("<%llu-%llu>", (unsigned long long)g.next(), (unsigned long long)g.next()); vh::stat("pat_huge_range"); }
   else { const int n = 1 + R(R(5) == 0 ? 40 : 5); for (int i = 0; i < n; i++) s += atoms[R(na)]; }
   return Defuse(s);
}
// the F31 shape: stacked wildcards, groups, backslash-digit (literal in the simple syntax since the F11 fix), vs long names
static std::string StackedPattern()
{
   static const char * shapes[] = {"(*)(*)(*)\\2\\3\\4b", "*a*a*a*a*a*b", "(a*)*b", "((a|aa)*)*b", "(*)*(*)*\\1", "?*?*?*?*?*b", "[a]*[a]*[a]*[a]*b", "(a,aa,aaa)*b", "(*)(*)\\1\\2", "*(*(*(*)))\\3",
      "(*a)(*a)(*a)(*a)c", "~(*)(*)(*)\\2\\3\\4b", "(((*)*)*)*b", "*?*?*?*?*?*?*?*?", "(*|*|*)(*|*|*)b", "\\1\\2\\3(*)(*)(*)", "a*a*a*a*a*a*a*a*a*a*a*a*[b]"};
   vh::stat("pat_stacked");
   return Defuse(shapes[R(sizeof(shapes) / sizeof(shapes[0]))]);
}
static std::string SegVariant(const std::string & seg)
{
   if (seg.empty()) return seg;
   switch (R(16)) {
      case 0: case 1: case 2: return "*";
      case 3: return seg.substr(0, 1 + R((uint32_t)seg.size() > 8 ? 8 : (uint32_t)seg.size())) + "*";
      case 4: { std::string s = seg; if (s.size() < 64) s[R((uint32_t)s.size())] = '?'; return s; }
      case 5: return std::string("[") + seg[0] + "z]" + (seg.size() < 64 ? seg.substr(1) : std::string("*"));
      case 6: return "(" + (seg.size() < 64 ? seg : std::string("*")) + "|zz)";
      case 7: return (seg.size() < 64 ? seg : std::string("*")) + ",zz";
      case 8: return "~zz";
      case 9: return "*" + seg.substr(seg.size() - 1) ;
      case 10: return seg.size() > 40 ? StackedPattern() : seg;
      default: return seg.size() < 200 || Ch(1, 2) ? seg : std::string("*");
   }
}

// ---- payloads and filters ----------------------------------------------------------------------------------------------
static std::string PayloadString()
{
   static const char * w[] = {"apple", "abba", "ab", "b", "", "a*", "Zebra", "(x)", "aaaaaaaaaaaaaaaaaaaaaaaaaaaaaaaaaaaaaaaaaaaaaaaaab"};
   if (Ch(1, 12)) return std::string(100 + R(400), 'a');
   return w[R(sizeof(w) / sizeof(w[0]))];
}
static MessageRef Payload(bool bulky)
{
   MessageRef p = GetMessageFromPool(100 + R(3));
   (void)p()->AddInt32("v", (int32)R(10));
   if (Ch(2, 3)) (void)p()->AddString("s", PayloadString().c_str());
   if (bulky || Ch(1, 4)) { uint8 buf[1400]; const uint32 n = bulky ? 400 + R(1000) : 1 + R(64); for (uint32 i = 0; i < n; i++) buf[i] = (uint8)(i * 7 + n); (void)p()->AddData("pad", B_RAW_TYPE, buf, n); }
   if (Ch(1, 4)) { MessageRef sub = GetMessageFromPool(7); (void)sub()->AddInt32("v", (int32)R(10)); (void)p()->AddMessage("m", sub); }
   if (Ch(1, 6)) (void)p()->AddFloat("f", 1.5f * R(4));
   if (Ch(1, 6)) (void)p()->AddBool("t", Ch(1, 2));
   return p;
}
static MessageRef Arch(const QueryFilter & f) { MessageRef m = GetMessageFromPool(); if (f.SaveToArchive(*m()).IsError()) rb::Abort("SaveToArchive failed"); return m; }
static ConstQueryFilterRef LeafFilter() { return ConstQueryFilterRef(new Int32QueryFilter("v", (uint8)R(6), (int32)R(10))); }
static MessageRef GoodFilter(int depth = 0);
static ConstQueryFilterRef GoodFilterObj(int depth)
{
   MessageRef a = GoodFilter(depth + 1);
   ConstQueryFilterRef r = GetGlobalQueryFilterFactory()()->CreateQueryFilter(*a());
   return r() ? r : LeafFilter();
}
// valid archived filters built from the fields the payloads really carry (v, s, pad, m, f, t), the what codes 100..102,
// child counts and node names in use
static MessageRef GoodFilter(int depth)
{
   static const char * simplePats[] = {"a*", "[ab]?", "*b*", "(apple|abba)", "~a*", "?", "*", "a,b,ab", "<1-5>"};
   static const char * regexPats[] = {"a.*", "^[ab]+$", "b|ab", "(a|b)*", "^$", "a{1,3}b", "[[:alpha:]]+"};
   static const char * namePats[] = {"a*", "I?", "[ab]", "L", "*", "~x", "(a|b|c)", "I<0-3>"};
   switch (R(depth < 3 ? 12 : 6)) {
      case 0: return Arch(Int32QueryFilter("v", (uint8)R(6), (int32)R(10)));
      case 1: {
         const uint8 op = (uint8)R(StringQueryFilter::NUM_STRING_OPERATORS); std::string v;
         const bool wild = (op == StringQueryFilter::OP_SIMPLE_WILDCARD_MATCH || op == StringQueryFilter::OP_SIMPLE_WILDCARD_MATCH_IGNORECASE);
         const bool rx = (op == StringQueryFilter::OP_REGULAR_EXPRESSION_MATCH || op == StringQueryFilter::OP_REGULAR_EXPRESSION_MATCH_IGNORECASE);
         if (wild) v = Ch(1, 4) ? StackedPattern() : simplePats[R(sizeof(simplePats) / sizeof(simplePats[0]))];
         else if (rx) v = regexPats[R(sizeof(regexPats) / sizeof(regexPats[0]))];
         else v = PayloadString();
         if (Ch(1, 5)) return Arch(StringQueryFilter("s", op, Defuse(v, rx).c_str(), R(2), "abba"));
         return Arch(StringQueryFilter("s", op, Defuse(v, rx).c_str(), Ch(1, 8) ? 1 : 0));
      }
      case 2: return Arch(WhatCodeQueryFilter(99 + R(3), 100 + R(4)));
      case 3: return Arch(ChildCountQueryFilter((uint8)R(6), (int32)R(4)));
      case 4: { static const char * fns[] = {"pad", "v", "s", "m", "zz", "f", "t"}; static const uint32 tcs[] = {B_ANY_TYPE, B_INT32_TYPE, B_RAW_TYPE, B_STRING_TYPE, B_MESSAGE_TYPE}; return Arch(ValueExistsQueryFilter(fns[R(7)], tcs[R(5)], R(2))); }
      case 5: { const uint8 op = Ch(1, 2) ? (uint8)StringQueryFilter::OP_SIMPLE_WILDCARD_MATCH : (uint8)R(StringQueryFilter::NUM_STRING_OPERATORS); return Arch(NodeNameQueryFilter(op, Defuse(Ch(1, 6) ? StackedPattern() : std::string(namePats[R(8)]), true).c_str())); }
      case 6: { AndQueryFilter f(LeafFilter(), ConstQueryFilterRef(new WhatCodeQueryFilter(100, 101))); return Arch(f); }
      case 7: {
         const int n = R(5); MessageRef m;
         switch (R(6)) {
            case 0: { AndQueryFilter f; for (int i = 0; i < n; i++) (void)f.GetChildren().AddTail(GoodFilterObj(depth)); m = Arch(f); } break;
            case 1: { OrQueryFilter f; for (int i = 0; i < n; i++) (void)f.GetChildren().AddTail(GoodFilterObj(depth)); m = Arch(f); } break;
            case 2: { NandQueryFilter f; for (int i = 0; i < n; i++) (void)f.GetChildren().AddTail(GoodFilterObj(depth)); m = Arch(f); } break;
            case 3: { NorQueryFilter f; for (int i = 0; i < n; i++) (void)f.GetChildren().AddTail(GoodFilterObj(depth)); m = Arch(f); } break;
            case 4: { XorQueryFilter f; for (int i = 0; i < n; i++) (void)f.GetChildren().AddTail(GoodFilterObj(depth)); m = Arch(f); } break;
            default: { MinimumThresholdQueryFilter f(R(4)); for (int i = 0; i < n; i++) (void)f.GetChildren().AddTail(GoodFilterObj(depth)); m = Arch(f); } break;
         }
         return m;
      }
      case 8: return Arch(MessageQueryFilter(GoodFilterObj(depth), Ch(1, 3) ? ConstMessageRef(Payload(false)) : ConstMessageRef(), "m", R(2)));
      case 9: { uint8 b[8]; for (int i = 0; i < 8; i++) b[i] = (uint8)(i * 7 + 8); return Arch(RawDataQueryFilter("pad", (uint8)R(12), GetByteBufferFromPool(1 + R(8), b), Ch(1, 2) ? B_RAW_TYPE : B_ANY_TYPE, 0)); }
      case 10: return Arch(Int32QueryFilter("v", (uint8)R(6), (int32)R(10), R(2), 5));
      default: { FloatQueryFilter f("f", (uint8)R(6), 1.5f); return Arch(f); }
   }
}
static void AddRandomTyped(Message & m, const char * fn, int ty);
// type-confused / damaged archives
static MessageRef HostileFilter()
{
   MessageRef f = GoodFilter(0);
   static const char * afn[] = {"fn", "idx", "op", "val", "kid", "min", "max", "type", "mop", "msk", "def", "defmsg"};
   const int nd = 1 + R(3);
   for (int d = 0; d < nd; d++) {
      const char * t = afn[R(12)];
      switch (R(8)) {
         case 0: f()->what = QUERY_FILTER_TYPE_WHATCODE - 2 + R(24); break;
         case 1: (void)f()->RemoveName(t); break;
         case 2: (void)f()->RemoveName(t); AddRandomTyped(*f(), t, R(12)); break;
         case 3: AddRandomTyped(*f(), t, R(12)); break;
         case 4: (void)f()->RemoveName("idx"); (void)f()->AddInt32("idx", Ch(1, 2) ? (int32)g.next() : -1); break;
         case 5: (void)f()->RemoveName("op"); (void)f()->AddInt8("op", (int8)g.next()); break;
         case 6: (void)f()->AddMessage("kid", Ch(1, 2) ? GetMessageFromPool((uint32)g.next()) : HostileFilter()); break;
         default: (void)f()->RemoveName("val"); (void)f()->AddString("val", Defuse(AggressivePattern(), true).c_str()); if (Ch(1, 2)) { (void)f()->RemoveName("op"); (void)f()->AddInt8("op", (int8)(StringQueryFilter::OP_SIMPLE_WILDCARD_MATCH + R(4))); } if (Ch(1, 2)) f()->what = Ch(1, 2) ? QUERY_FILTER_TYPE_STRING : QUERY_FILTER_TYPE_NODENAME; if (!f()->HasName("fn")) (void)f()->AddString("fn", "s"); break;
      }
   }
   return f;
}
// nested (valid) archive, depth <= 500: chains of sub-Message filters, AND/OR/NAND thresholds and XOR
static MessageRef DeepFilter(int depth)
{
   MessageRef cur = Arch(Int32QueryFilter("v", (uint8)R(6), (int32)R(10)));
   const int kind = R(4);
   for (int i = 0; i < depth; i++) {
      MessageRef up = GetMessageFromPool();
      const int k = (kind == 3) ? R(3) : kind;
      if (k == 0) { up()->what = QUERY_FILTER_TYPE_MESSAGE; (void)up()->AddString("fn", "m"); }
      else if (k == 1) { up()->what = QUERY_FILTER_TYPE_MINMATCH; if (Ch(1, 2)) (void)up()->AddInt32("min", 1); }
      else { up()->what = Ch(1, 2) ? QUERY_FILTER_TYPE_MAXMATCH : QUERY_FILTER_TYPE_XOR; (void)up()->AddInt32("max", 1); }
      (void)up()->AddMessage("kid", cur); cur = up;
   }
   return cur;
}
static MessageRef AnyFilter()
{
   const uint32_t s = R(20);
   if (s < 13) return GoodFilter(0);
   if (s < 18) { vh::stat("filter_hostile"); return HostileFilter(); }
   if (s < 19) { vh::stat("filter_deep"); return DeepFilter(2 + R(60)); }
   vh::stat("filter_deep_500"); return DeepFilter(400 + R(101));
}
static void AddRandomTyped(Message & m, const char * fn, int ty)
{
   const int cnt = Ch(1, 12) ? 20 : 1 + R(3);
   for (int j = 0; j < cnt; j++) switch (ty) {
      case 0: case 1: (void)m.AddString(fn, AggressivePattern().c_str()); break;
      case 2: (void)m.AddInt32(fn, (int32)(R(3) == 0 ? g.next() : R(100))); break;
      case 3: (void)m.AddMessage(fn, Ch(1, 2) ? AnyFilter() : (Ch(1, 2) ? Payload(false) : GetMessageFromPool(R(10)))); break;
      case 4: (void)m.AddBool(fn, Ch(1, 2)); break;
      case 5: { uint8 d[16]; for (int k = 0; k < 16; k++) d[k] = (uint8)g.next(); (void)m.AddData(fn, B_RAW_TYPE, d, 1 + R(16)); } break;
      case 6: (void)m.AddInt64(fn, (int64)g.next()); break;
      case 7: { SetDataNodeFlags f; f.SetWord(0, R(64)); (void)m.AddFlat(fn, f); } break;
      case 8: (void)m.AddFloat(fn, 1.5f); break;
      case 9: (void)m.AddInt8(fn, (int8)g.next()); (void)m.AddInt16(fn, (int16)g.next()); break;
      case 10: (void)m.AddPoint(fn, Point(1.0f, 2.0f)); break;
      default: (void)m.AddDouble(fn, 2.5); (void)m.AddRect(fn, Rect(0, 0, 1, 1)); break;
   }
}

// ---- the case: bench, clients, observation, injection --------------------------------------------------------------------
struct NodeInfo { std::string path; uint32 depth; bool hasIndex; uint32 nkids; };
static long RssKB() { FILE * f = fopen("/proc/self/statm", "r"); if (!f) return 0; long a = 0, b = 0; if (fscanf(f, "%ld %ld", &a, &b) != 2) b = 0; fclose(f); return b * (sysconf(_SC_PAGESIZE) / 1024); }
static double ThreadCpu() { struct timespec ts; clock_gettime(CLOCK_THREAD_CPUTIME_ID, &ts); return ts.tv_sec + ts.tv_nsec * 1e-9; }
static const char * WhatName(uint32 w)
{
   static const char * n[] = {"BEGIN", "SETPARAMETERS", "GETPARAMETERS", "REMOVEPARAMETERS", "SETDATA", "GETDATA", "REMOVEDATA", "JETTISONRESULTS", "INSERTORDEREDDATA", "PING", "KICK", "ADDBANS", "REMOVEBANS", "BATCH", "NOOP",
      "REORDERDATA", "ADDREQUIRES", "REMOVEREQUIRES", "SETDATATREES", "GETDATATREES", "JETTISONDATATREES"};
   if (w >= BEGIN_PR_COMMANDS && w <= PR_COMMAND_JETTISONDATATREES) return n[w - BEGIN_PR_COMMANDS];
   if (w > PR_COMMAND_JETTISONDATATREES && w <= END_PR_COMMANDS) return "RESERVEDCMD";
   if (w >= BEGIN_PR_RESULTS && w <= END_PR_RESULTS) return "RESULTCODE";
   return "USER";
}
static std::string Summ(const Message & m)
{
   std::string s = vh::fmt("%s(%u){", WhatName(m.what), m.what); int nf = 0;
   for (MessageFieldNameIterator it = m.GetFieldNameIterator(); it.HasData(); it++) {
      if (++nf > 6 || s.size() > 330) { s += "..."; break; }
      const String & fn = it.GetFieldName(); uint32 tc = 0, n = 0; (void)m.GetInfo(fn, &tc, &n);
      std::string name = fn(); if (name.size() > 40) name = name.substr(0, 40) + vh::fmt("..(%u)", fn.Length());
      char t[5] = {(char)(tc >> 24), (char)(tc >> 16), (char)(tc >> 8), (char)tc, 0};
      s += name + ":" + t + vh::fmt("x%u", n);
      if (tc == B_STRING_TYPE) { const String * v; if (m.FindString(fn, &v).IsOK()) { std::string vs = v->Cstr(); if (vs.size() > 40) vs = vs.substr(0, 40) + vh::fmt("..(%u)", v->Length()); s += "=" + vs; } }
      s += " ";
   }
   return s + "}";
}

struct Case {
   rb::Bench * b; rb::Client * wit; rb::Client * sub; std::vector<rb::Client *> att;
   long k; int msgNo, nmsg; std::string recipe; int step; bool inRecipe, mutate, bad, priv;
   std::deque<std::string> trace; uint64_t digest; long maxQ; int recipesDone; int32 pingTag;
   std::vector<NodeInfo> nodes; bool nodesValid; uint16 factoryPort;
   Case() : factoryPort(0), b(NULL), wit(NULL), sub(NULL), k(0), msgNo(0), nmsg(50), step(0), inRecipe(false), mutate(true), bad(false), priv(false), digest(1469598103934665603ULL), maxQ(0), recipesDone(0), pingTag(0), nodesValid(false) {}
};
static bool Done(const Case & c) { return c.bad || c.msgNo >= c.nmsg; }
static rb::Client * A(Case & c) { return c.att[R((uint32_t)c.att.size())]; }
static rb::Client * Other(Case & c, rb::Client * s) { for (int i = 0; i < 4; i++) { rb::Client * o = A(c); if (o != s) return o; } return c.sub; }
static const char * Who(const Case & c, const rb::Client * s) { if (s == c.wit) return "wit"; if (s == c.sub) return "sub"; for (size_t i = 0; i < c.att.size(); i++) if (c.att[i] == s) return i == 0 ? "att0" : i == 1 ? "att1" : "attN"; return "?"; }
static uint32 QLen(const rb::Client * s) { return s->session() ? rb::Bench::ServerSideQueueLength(*s->session()) : 0; }
static const Queue<MessageRef> * QOf(const rb::Client * s) { return (s->session() && s->session()->GetGateway()()) ? &s->session()->GetGateway()()->GetOutgoingMessageQueue() : NULL; }
static uint32 QCount(const rb::Client * s, uint32 what) { const Queue<MessageRef> * q = QOf(s); uint32 n = 0; if (q) for (uint32 i = 0; i < q->GetNumItems(); i++) if ((*q)[i]() && (*q)[i]()->what == what) n++; return n; }
static const char * Bucket(uint32 n) { return n == 0 ? "q0" : n == 1 ? "q1" : n == 2 ? "q2" : "qmany"; }

static void WalkNodes(DataNode & n, std::vector<NodeInfo> & out)
{
   if (n.GetDepth() >= 2) { NodeInfo i; i.path = n.GetNodePath()(); i.depth = n.GetDepth(); i.hasIndex = (n.GetIndex() != NULL); i.nkids = n.GetNumChildren(); out.push_back(i); }
   for (DataNodeRefIterator it = n.GetChildIterator(); it.HasData(); it++) if (it.GetValue()()) WalkNodes(*it.GetValue()(), out);
}
static const std::vector<NodeInfo> & Nodes(Case & c)
{
   if (!c.nodesValid) { c.nodes.clear(); if (c.b->insp->Attached()) WalkNodes(c.b->insp->Root(), c.nodes); c.nodesValid = true; }
   return c.nodes;
}
// a path that exists right now (depth >= minDepth), preferably (not) under `own`; "" if none
static std::string ExistingPath(Case & c, uint32 minDepth, const rb::Client * under = NULL)
{
   const std::vector<NodeInfo> & v = Nodes(c); std::vector<const NodeInfo *> ok;
   for (size_t i = 0; i < v.size(); i++) if (v[i].depth >= minDepth && (under == NULL || rb::Under(v[i].path, under->root))) ok.push_back(&v[i]);
   return ok.empty() ? std::string() : ok[R((uint32_t)ok.size())]->path;
}
// pattern matching (with high probability) the absolute node path p; relative form = session-relative part (what the
// server prefixes with */*/ for GET/SUBSCRIBE/JETTISON/KICK and resolves under the sender's node for SET/REMOVE/INSERT/REORDER)
static std::string PatFor(const std::string & absPath, bool allowRelative = true)
{
   std::vector<std::string> seg = rb::SplitPath(absPath.size() && absPath[0] == '/' ? absPath.substr(1) : absPath);
   const bool rel = allowRelative && seg.size() > 2 && Ch(1, 2); std::string o;
   for (size_t i = rel ? 2 : 0; i < seg.size(); i++) { if (!o.empty() || !rel) o += "/"; o += (i < 2 && Ch(2, 3)) ? std::string("*") : SegVariant(seg[i]); }
   return Defuse(o);
}
static std::string RelOf(const std::string & absPath) { std::vector<std::string> seg = rb::SplitPath(absPath.substr(1)); std::string o; for (size_t i = 2; i < seg.size(); i++) { if (i > 2) o += "/"; o += seg[i]; } return o; }

static void Fail(Case & c, const std::string & key, const std::string & what)
{
   if (c.bad) return; c.bad = true;
   std::string d = what + vh::fmt(" | case %ld msg %d | last steps: ", c.k, c.msgNo);
   for (size_t i = 0; i < c.trace.size(); i++) { d += c.trace[i]; d += " ;; "; }
   vh::viol(key, d);
}
static void ObserveQueues(Case & c)
{
   std::vector<rb::Client *> all = c.att; all.push_back(c.sub);
   for (size_t i = 0; i < all.size(); i++) if (all[i]->alive && all[i]->readPaused) { const long q = (long)QLen(all[i]); if (q > c.maxQ) c.maxQ = q; }
}
static void CountReplies(Case & c)
{
   std::vector<rb::Client *> all = c.att; all.push_back(c.sub);
   for (size_t i = 0; i < all.size(); i++) {
      rb::Client * s = all[i];
      for (size_t j = 0; j < s->got.size(); j++) {
         const uint32 w = s->got[j]()->what;
         switch (w) {
            case PR_RESULT_PARAMETERS: vh::stat("reply_parameters"); break; case PR_RESULT_DATAITEMS: vh::stat("reply_dataitems"); if (s->got[j]()->HasName(PR_NAME_REMOVED_DATAITEMS)) vh::stat("reply_dataitems_with_removals"); break;
            case PR_RESULT_ERRORUNIMPLEMENTED: vh::stat("reply_unimplemented"); break; case PR_RESULT_INDEXUPDATED: vh::stat("reply_indexupdated"); break;
            case PR_RESULT_PONG: vh::stat("reply_pong_to_attacker"); break; case PR_RESULT_ERRORACCESSDENIED: vh::stat("reply_accessdenied"); break;
            case PR_RESULT_DATATREES: vh::stat("reply_datatrees"); break; case PR_RESULT_NOOP: vh::stat("reply_noop"); break;
            default: vh::stat(w >= BEGIN_PR_COMMANDS && w <= END_PR_RESULTS ? "reply_other_reserved" : "reply_user_message_delivered"); break;
         }
      }
      s->got.clear(); s->mirror.clear(); s->idx.clear(); s->params.Reset();
   }
}
// steps the bench until the witness's pong (tag) has arrived AND the bench is quiet; logical bound 2000 server steps
static bool PingAndSettle(Case & c, const char * rssKey)
{
   if (!c.wit->alive) { Fail(c, "witness-disconnected", "the witness's connection was closed by the server"); return false; }
   const int32 tag = ++c.pingTag; MessageRef p = GetMessageFromPool(PR_COMMAND_PING); (void)p()->AddInt32("tag", tag); c.wit->Send(p);
   const long rss0 = RssKB();
   bool pong = false; int idle = 0, steps = 0; size_t seen = 0;
   while (steps < 2000 && !(pong && idle >= 4)) {
      idle = c.b->Step() ? 0 : idle + 1; steps++;
      for (; seen < c.wit->got.size(); seen++) if (c.wit->got[seen]()->what == PR_RESULT_PONG && c.wit->got[seen]()->GetInt32("tag") == tag) pong = true;
      if (!pong && (!c.wit->alive || !c.b->SessionAttached(c.wit->id))) break;
   }
   c.wit->got.clear(); c.wit->mirror.clear(); c.wit->idx.clear();
   vh::statmax("max_steps_until_pong_and_quiet", steps);
   if (!pong) {
      const bool gone = !c.wit->alive || !c.b->SessionAttached(c.wit->id);
      // (the bench keeps a reference to every session object, so a kicked client sees no EOF: detachment is read from the server)
      if (gone && c.priv) { vh::stat("unspecified_witness_kicked_by_privileged_client"); rb::Options fast; fast.handshake = false; c.wit = c.b->AddClient(fast); return true; }
      Fail(c, gone ? "witness-disconnected" : "witness-ping-unanswered", vh::fmt("no pong after %d server steps (witness alive=%d, attached=%d)", steps, (int)c.wit->alive, (int)c.b->SessionAttached(c.wit->id)));
      return false;
   }
   vh::stat("pings_answered");
   if (idle < 4) vh::stat("not_quiescent_within_step_bound");
   const long grow = RssKB() - rss0; vh::statmax("max_rss_growth_kb_per_message", grow);
   if (grow > 256 * 1024) { Fail(c, rssKey, vh::fmt("process RSS grew by %ld KiB while one injected Message was handled", grow)); return false; }
   return true;
}
static void MutateMsg(Case & c, MessageRef & m);
static void ReplaceDead(Case & c);
// THE injection point: note (crash attribution), coverage cells from the state right now, send, witness ping, oracle
static bool Inject(Case & c, rb::Client * from, MessageRef m, const char * stepName)
{
   if (Done(c) || m() == NULL) return false;
   c.step++;
   if (c.inRecipe && c.mutate) {
      if (Ch(1, 25)) { vh::stat("mutation_dropped_step"); return true; }
      if (Ch(1, 25)) { from = Ch(1, 3) ? c.sub : Other(c, from); vh::stat("mutation_swapped_sender"); }
      if (Ch(1, 6)) MutateMsg(c, m);
   }
   if (!from->alive || !c.b->SessionAttached(from->id)) { ReplaceDead(c); if (!from->alive || !c.b->SessionAttached(from->id)) from = A(c); }
   const uint32 what = m()->what; const uint32 q = QLen(from);
   std::string note = vh::fmt("msg %d %s/%d:%s from=%s reads=%d q=%u | ", c.msgNo, c.recipe.c_str(), c.step, stepName, Who(c, from), (int)!from->readPaused, q) + Summ(*m());
   vh::note(note); c.trace.push_back(note); if (c.trace.size() > 10) c.trace.pop_front();
   c.digest = vh::fnvs(note, c.digest);
   vh::stat(std::string("cmd_") + WhatName(what));
   // handler x precondition cells, from the state observed right now
   const bool hasKey = m()->HasName(PR_NAME_KEYS, B_STRING_TYPE), hasFilter = m()->HasName(PR_NAME_FILTERS, B_MESSAGE_TYPE);
   uint32 before = 0; size_t paramsBefore = 0;
   if (what == PR_COMMAND_JETTISONRESULTS) { const Queue<MessageRef> * fq = QOf(from); if (fq) for (uint32 i = 0; i < fq->GetNumItems(); i++) if ((*fq)[i]() && (*fq)[i]()->what == PR_RESULT_DATAITEMS && (*fq)[i]()->HasName(PR_NAME_REMOVED_DATAITEMS)) { vh::stat(hasKey ? "cell_jettres_key_with_queued_removal_notices" : "cell_jettres_nokey_with_queued_removal_notices"); break; } }
   if (what == PR_COMMAND_JETTISONRESULTS) { before = QCount(from, PR_RESULT_DATAITEMS); vh::stat(std::string("cell_jettres_") + (hasKey ? (hasFilter ? "keyfilter_" : "key_") : "nokey_") + Bucket(before)); }
   else if (what == PR_COMMAND_JETTISONDATATREES) { before = QCount(from, PR_RESULT_DATATREES); vh::stat(std::string("cell_jetttrees_") + (m()->HasName(PR_NAME_TREE_REQUEST_ID, B_STRING_TYPE) ? "id_" : "noid_") + Bucket(before)); }
   else if (what == PR_COMMAND_SETDATA) { SetDataNodeFlags f; if (m()->FindFlat(PR_NAME_FLAGS, f).IsOK() && f.IsBitSet(SETDATANODE_FLAG_ENABLESUPERCEDE)) vh::stat(std::string("cell_supersede_subscriber_") + Bucket(QCount(c.sub, PR_RESULT_DATAITEMS))); }
   else if (what == PR_COMMAND_REMOVEPARAMETERS && from->session()) paramsBefore = from->session()->GetParametersConst().GetNumNames();
   else if (what == PR_COMMAND_SETPARAMETERS && from->session()) {
      std::vector<std::string> subs = rb::Inspector::SubscriptionsOf(*from->session());
      for (MessageFieldNameIterator it = m()->GetFieldNameIterator(); it.HasData(); it++) if (it.GetFieldName().StartsWith("SUBSCRIBE:")) {
         bool have = false; for (size_t i = 0; i < subs.size(); i++) if (subs[i] == it.GetFieldName().Substring(10)()) have = true;
         vh::stat(have ? "cell_subscribe_existing_path_refilter" : "cell_subscribe_new_path");
      }
   }
   if (vh::has_opt("dump")) { String t = m()->ToString(); fprintf(stderr, "---- %s\n%.*s\n", note.c_str(), (int)vh::optl("dump", 4000), t()); }
   from->Send(m); c.msgNo++; c.nodesValid = false;
   const bool ok = PingAndSettle(c, g_bombMode ? "alloc-rss-growth" : "rss-growth");
   if (ok) {
      if (what == PR_COMMAND_JETTISONRESULTS && before > 0) { const uint32 after = QCount(from, PR_RESULT_DATAITEMS); if (after < before) vh::stat(hasFilter ? "jettres_with_filter_removed_queued_messages" : "jettres_removed_queued_messages"); }
      if (what == PR_COMMAND_JETTISONDATATREES && before > 0 && QCount(from, PR_RESULT_DATATREES) < before) vh::stat("jetttrees_removed_queued_messages");
      if (what == PR_COMMAND_REMOVEPARAMETERS && from->session()) { const size_t a = from->session()->GetParametersConst().GetNumNames(); const size_t d = paramsBefore > a ? paramsBefore - a : 0; vh::stat(d == 0 ? "cell_removeparams_removed_0" : d == 1 ? "cell_removeparams_removed_1" : "cell_removeparams_removed_many"); }
      ObserveQueues(c); CountReplies(c);
   }
   return ok;
}

// ---- Message builders (state-aware) ------------------------------------------------------------------------------------
static const char * const kNodes[] = {"a", "b", "c", "a/b", "a/b/c", "L", "x", "L/I0", "a/d", "b/b"};
static const char * const kPats[] = {"*", "a", "a/*", "*/b", "/*/*/*", "/*/*/a", "/*/*/L/*", "L/*", "/*/*", "(a|b)", "~a", "[ab]", "a/b/c", "/*/*/*/*", "a,b", "/*/*/(a|L)/*", "*/*"};
static std::string NodeName() { return kNodes[R(sizeof(kNodes) / sizeof(kNodes[0]))]; }
static std::string StockPat() { return kPats[R(sizeof(kPats) / sizeof(kPats[0]))]; }
// a key for a global command (GET/SUBSCRIBE/JETTISON/KICK/route): mostly from a path that exists now
static std::string GlobalKey(Case & c, const rb::Client * preferUnder = NULL)
{
   const uint32_t s = R(10);
   if (s < 6) { std::string p = ExistingPath(c, 3, Ch(1, 2) ? preferUnder : NULL); if (p.empty()) p = ExistingPath(c, 2); if (!p.empty()) return PatFor(p); }
   if (s < 9) return StockPat();
   return Ch(1, 3) ? StackedPattern() : AggressivePattern();
}
// a key for a session-relative command (SET/REMOVE/INSERT/REORDER) of sender s
static std::string OwnKey(Case & c, const rb::Client * s, uint32 minDepth = 3)
{
   const uint32_t sel = R(10);
   if (sel < 6) { std::string p = ExistingPath(c, minDepth, s); if (!p.empty()) { std::string rel = RelOf(p); if (Ch(1, 2)) return rel; std::vector<std::string> seg = rb::SplitPath(rel); std::string o; for (size_t i = 0; i < seg.size(); i++) { if (i) o += "/"; o += SegVariant(seg[i]); } return Defuse(o); } }
   if (sel < 9) { std::string p = StockPat(); while (!p.empty() && p[0] == '/') p = p.substr(1); return p; }
   return AggressivePattern();
}
static void AddFlags(Message & m, uint32 bits) { if (Ch(1, 5)) { (void)m.AddInt32(PR_NAME_FLAGS, (int32)bits); return; } SetDataNodeFlags f; f.SetWord(0, bits); (void)m.AddFlat(PR_NAME_FLAGS, f); }
static MessageRef M_SetData(Case & c, const rb::Client * s, bool bulky, int flagsMode = -1)
{
   MessageRef m = GetMessageFromPool(PR_COMMAND_SETDATA); const int n = 1 + R(4);
   for (int i = 0; i < n; i++) { std::string p = Ch(1, 3) ? RelOf(ExistingPath(c, 3, s).empty() ? s->root + "/a" : ExistingPath(c, 3, s)) : NodeName(); if (p.empty()) p = "a"; (void)m()->AddMessage(p.c_str(), Payload(bulky)); }
   if (flagsMode >= 0) AddFlags(*m(), (uint32)flagsMode); else if (Ch(1, 4)) AddFlags(*m(), R(32));
   return m;
}
static MessageRef M_Subscribe(Case & c, const rb::Client * s, int maxItems)
{
   MessageRef m = GetMessageFromPool(PR_COMMAND_SETPARAMETERS); const int n = 1 + R(3);
   for (int i = 0; i < n; i++) { std::string k = "SUBSCRIBE:" + (Ch(1, 3) ? std::string(Ch(1, 2) ? "/*/*/*" : "/*/*/*/*") : GlobalKey(c)); if (Ch(1, 2)) (void)m()->AddBool(k.c_str(), true); else (void)m()->AddMessage(k.c_str(), AnyFilter()); }
   if (Ch(1, 5)) (void)m()->AddBool(PR_NAME_SUBSCRIBE_QUIETLY, true);
   if (maxItems >= 0) (void)m()->AddInt32(PR_NAME_MAX_UPDATE_MESSAGE_ITEMS, maxItems); else if (Ch(1, 6)) (void)m()->AddInt32(PR_NAME_MAX_UPDATE_MESSAGE_ITEMS, (int32)R(4));
   if (Ch(1, 6)) (void)m()->AddBool(PR_NAME_REFLECT_TO_SELF, true);
   (void)s; return m;
}
static MessageRef M_GetData(Case & c, const rb::Client * s)
{
   MessageRef m = GetMessageFromPool(PR_COMMAND_GETDATA); const int n = Ch(1, 10) ? 8 + R(13) : 1 + R(3);
   for (int i = 0; i < n; i++) (void)m()->AddString(PR_NAME_KEYS, GlobalKey(c, s).c_str());
   if (Ch(1, 3)) { const int nf = Ch(1, 4) ? R(n + 2) : n; for (int i = 0; i < nf; i++) (void)m()->AddMessage(PR_NAME_FILTERS, AnyFilter()); }
   return m;
}
static MessageRef M_RemoveData(Case & c, const rb::Client * s)
{
   MessageRef m = GetMessageFromPool(PR_COMMAND_REMOVEDATA); const int n = 1 + R(2);
   for (int i = 0; i < n; i++) (void)m()->AddString(PR_NAME_KEYS, OwnKey(c, s).c_str());
   if (Ch(1, 3)) (void)m()->AddMessage(PR_NAME_FILTERS, AnyFilter());
   if (Ch(1, 4)) (void)m()->AddBool(PR_NAME_REMOVE_QUIETLY, true);
   return m;
}
// a filter that (probably) matches the payload p: built from the fields p really carries
static MessageRef FilterFor(const Message & p)
{
   int32 v; const String * sv;
   const uint32_t sel = R(6);
   if (sel < 3 && p.FindInt32("v", v).IsOK()) { static const uint8 ops[] = {Int32QueryFilter::OP_EQUAL_TO, Int32QueryFilter::OP_GREATER_THAN_OR_EQUAL_TO, Int32QueryFilter::OP_LESS_THAN_OR_EQUAL_TO, Int32QueryFilter::OP_NOT_EQUAL_TO}; const int o = R(4); return Arch(Int32QueryFilter("v", ops[o], o == 3 ? v + 1 : v)); }
   if (sel == 3 && p.FindString("s", &sv).IsOK() && sv->Length() < 64) return Arch(StringQueryFilter("s", StringQueryFilter::OP_STARTS_WITH, sv->Substring(0, 1)));
   if (sel == 4) return Arch(WhatCodeQueryFilter(p.what, p.what + R(2)));
   if (sel == 5 && p.HasName("pad")) return Arch(ValueExistsQueryFilter("pad"));
   return Arch(Int32QueryFilter("v", Int32QueryFilter::OP_GREATER_THAN_OR_EQUAL_TO, 0));
}
// JETTISONRESULTS built from the sender's OWN server-side queue: key from a queued path, filter from the queued payload
static MessageRef M_JettResults(Case & c, const rb::Client * s, bool allowFilter = true)
{
   MessageRef m = GetMessageFromPool(PR_COMMAND_JETTISONRESULTS);
   if (Ch(1, 6)) return m;   // no key: clears every queued result
   const Queue<MessageRef> * q = QOf(s); const int nk = 1 + R(2);
   for (int k = 0; k < nk; k++) {
      std::string key; MessageRef filt;
      if (q && q->HasItems() && Ch(5, 6)) {
         std::vector<const Message *> di; for (uint32 i = 0; i < q->GetNumItems(); i++) if ((*q)[i]() && (*q)[i]()->what == PR_RESULT_DATAITEMS) di.push_back((*q)[i]());
         if (!di.empty()) {
            const Message * d = di[Ch(1, 2) ? di.size() - 1 : R((uint32_t)di.size())]; std::vector<String> names;
            for (MessageFieldNameIterator it = d->GetFieldNameIterator(B_MESSAGE_TYPE); it.HasData(); it++) names.push_back(it.GetFieldName());
            const String * rn; for (uint32 i = 0; i < 3 && d->FindString(PR_NAME_REMOVED_DATAITEMS, i, &rn).IsOK(); i++) names.push_back(*rn);
            if (!names.empty()) { const String & pick = names[R((uint32_t)names.size())]; key = Ch(1, 3) ? Defuse(pick()) : PatFor(pick()); MessageRef pm; if (d->FindMessage(pick, pm).IsOK()) filt = FilterFor(*pm()); vh::stat("jettres_key_from_queued_path"); }
         }
      }
      if (key.empty()) key = GlobalKey(c, NULL);
      (void)m()->AddString(PR_NAME_KEYS, key.c_str());
      if (allowFilter && Ch(1, 2)) (void)m()->AddMessage(PR_NAME_FILTERS, (filt() && Ch(3, 4)) ? filt : AnyFilter());
   }
   return m;
}
static MessageRef M_GetTrees(Case & c, const rb::Client * s)
{
   MessageRef m = GetMessageFromPool(PR_COMMAND_GETDATATREES); const int n = 1 + R(2);
   for (int i = 0; i < n; i++) (void)m()->AddString(PR_NAME_KEYS, GlobalKey(c, s).c_str());
   if (Ch(2, 3)) (void)m()->AddString(PR_NAME_TREE_REQUEST_ID, Ch(1, 2) ? "t1" : Ch(1, 2) ? "t2" : "other");
   if (Ch(1, 2)) (void)m()->AddInt32(PR_NAME_MAXDEPTH, Ch(1, 8) ? -5 : (int32)R(4));
   if (Ch(1, 5)) (void)m()->AddMessage(PR_NAME_FILTERS, AnyFilter());
   return m;
}
static MessageRef M_JettTrees()
{
   MessageRef m = GetMessageFromPool(PR_COMMAND_JETTISONDATATREES);
   static const char * ids[] = {"t1", "t2", "t*", "*", "t[12]", "~t1", "nomatch", "(t1|t2)"};
   if (Ch(3, 4)) { const int n = 1 + R(2); for (int i = 0; i < n; i++) (void)m()->AddString(PR_NAME_TREE_REQUEST_ID, Ch(1, 8) ? AggressivePattern().c_str() : ids[R(8)]); }
   return m;
}
static MessageRef M_Insert(Case & c, const rb::Client * s)
{
   MessageRef m = GetMessageFromPool(PR_COMMAND_INSERTORDEREDDATA);
   (void)m()->AddString(PR_NAME_KEYS, Ch(3, 4) ? "L" : OwnKey(c, s).c_str());
   const int n = 1 + R(4); for (int i = 0; i < n; i++) { std::string before = Ch(1, 2) ? std::string() : vh::fmt("I%u", R(8)); (void)m()->AddMessage(before.c_str(), Payload(Ch(1, 3))); }
   if (Ch(1, 8)) (void)m()->AddMessage(PR_NAME_FILTERS, AnyFilter());
   return m;
}
static MessageRef M_Reorder(Case & c, const rb::Client * s)
{
   MessageRef m = GetMessageFromPool(PR_COMMAND_REORDERDATA); const int n = 1 + R(3);
   for (int i = 0; i < n; i++) { std::string k = Ch(3, 4) ? (Ch(1, 4) ? std::string("L/*") : vh::fmt("L/I%u", R(8))) : OwnKey(c, s); std::string v = Ch(1, 3) ? std::string() : Ch(1, 6) ? std::string("nonexistent") : vh::fmt("I%u", R(8)); (void)m()->AddString(k.c_str(), v.c_str()); }
   return m;
}
static MessageRef M_RemoveParams(Case & c, const rb::Client * s)
{
   MessageRef m = GetMessageFromPool(PR_COMMAND_REMOVEPARAMETERS); const int n = 1 + R(2);
   std::vector<std::string> have; if (s->session()) for (MessageFieldNameIterator it = s->session()->GetParametersConst().GetFieldNameIterator(); it.HasData(); it++) have.push_back(it.GetFieldName()());
   static const char * stock[] = {"SUBSCRIBE:*", "*", PR_NAME_REFLECT_TO_SELF, "!*", "SUBSCRIBE:/*", "(SUBSCRIBE:a|!Self)", "SUBSCRIBE:\\*", "~SUBSCRIBE:*", "SUBSCRIBE:?*", PR_NAME_KEYS, PR_NAME_MAX_UPDATE_MESSAGE_ITEMS, "[!S]*", PR_NAME_REPLY_ENCODING, PR_NAME_KEEPALIVE_INTERVAL_SECONDS};
   for (int i = 0; i < n; i++) {
      std::string k; const uint32_t sel = R(10);
      if (sel < 4 && !have.empty()) { k = have[R((uint32_t)have.size())]; if (Ch(1, 2)) { String e = k.c_str(); EscapeRegexTokens(e); k = e(); } else if (Ch(1, 3) && k.size() > 3) k = k.substr(0, 1 + R((uint32_t)k.size() - 1)) + "*"; }
      else if (sel < 9) k = stock[R(sizeof(stock) / sizeof(stock[0]))]; else k = AggressivePattern();
      (void)m()->AddString(PR_NAME_KEYS, Defuse(k).c_str());
   }
   (void)c; return m;
}
static MessageRef M_SetParamsMisc(Case & c, const rb::Client * s)
{
   MessageRef m = GetMessageFromPool(PR_COMMAND_SETPARAMETERS); const int n = 1 + R(5);
   for (int i = 0; i < n; i++) switch (R(12)) {
      case 0: (void)m()->AddInt32(PR_NAME_REPLY_ENCODING, Ch(1, 4) ? (int32)g.next() : (int32)(MUSCLE_MESSAGE_ENCODING_DEFAULT + R(12))); break;
      case 1: (void)m()->AddInt32(PR_NAME_KEEPALIVE_INTERVAL_SECONDS, Ch(1, 3) ? (int32)g.next() : (int32)R(3)); break;
      case 2: (void)m()->AddInt32(PR_NAME_MAX_UPDATE_MESSAGE_ITEMS, Ch(1, 4) ? -1 : (int32)R(4)); break;
      case 3: (void)m()->AddBool(PR_NAME_DISABLE_SUBSCRIPTIONS, true); break;
      case 4: (void)m()->AddBool(PR_NAME_ROUTE_GATEWAY_TO_NEIGHBORS, true); break;
      case 5: (void)m()->AddBool(PR_NAME_ROUTE_NEIGHBORS_TO_GATEWAY, true); break;
      case 6: (void)m()->AddInt32(PR_NAME_PRIVILEGE_BITS, -1); break;
      case 7: (void)m()->AddBool(PR_NAME_REFLECT_TO_SELF, true); break;
      case 8: { const int nk = 1 + R(3); for (int j = 0; j < nk; j++) (void)m()->AddString(PR_NAME_KEYS, Ch(1, 2) ? "/*/*" : GlobalKey(c, s).c_str()); if (Ch(1, 2)) (void)m()->AddMessage(PR_NAME_FILTERS, AnyFilter()); } break;
      case 9: (void)m()->AddString(vh::fmt("user%u", R(6)).c_str(), PayloadString().c_str()); break;
      default: { std::string k = "SUBSCRIBE:" + GlobalKey(c, s); if (Ch(1, 2)) (void)m()->AddBool(k.c_str(), true); else (void)m()->AddMessage(k.c_str(), AnyFilter()); } break;
   }
   return m;
}
static MessageRef M_Route(Case & c, const rb::Client * s)
{
   MessageRef m = GetMessageFromPool(Ch(1, 8) ? (uint32)g.next() : 1000 + R(5));
   if (m()->what >= BEGIN_PR_COMMANDS && m()->what <= END_PR_COMMANDS) m()->what = 77;
   if (Ch(3, 4)) { const int n = 1 + R(2); for (int i = 0; i < n; i++) { std::string k; const uint32_t sel = R(6); if (sel == 0) k = "/*/*"; else if (sel == 1) k = "/*/" + c.sub->sid; else if (sel == 2) k = "/*/" + c.wit->sid; else k = GlobalKey(c, s); (void)m()->AddString(PR_NAME_KEYS, k.c_str()); } if (Ch(1, 3)) (void)m()->AddMessage(PR_NAME_FILTERS, AnyFilter()); }
   if (Ch(1, 3)) (void)m()->AddString(PR_NAME_SESSION, Ch(1, 2) ? c.wit->sid.c_str() : "999999"); else if (Ch(1, 8)) (void)m()->AddInt32(PR_NAME_SESSION, 5);
   if (Ch(1, 2)) (void)m()->AddMessage("payload", Payload(Ch(1, 3)));
   return m;
}
static MessageRef M_Priv(Case & c, const rb::Client * s)
{
   static const uint32 w[] = {PR_COMMAND_KICK, PR_COMMAND_ADDBANS, PR_COMMAND_REMOVEBANS, PR_COMMAND_ADDREQUIRES, PR_COMMAND_REMOVEREQUIRES};
   MessageRef m = GetMessageFromPool(w[R(5)]); const int n = R(4);
   for (int i = 0; i < n; i++) { std::string k; const uint32_t sel = R(8); if (m()->what == PR_COMMAND_KICK) k = sel == 0 ? std::string("/*/*") : sel == 1 ? "/*/" + c.sub->sid : GlobalKey(c, s); else k = sel < 3 ? std::string("127.0.0.*") : sel < 5 ? std::string("*") : AggressivePattern(); (void)m()->AddString(PR_NAME_KEYS, k.c_str()); }
   if (Ch(1, 4)) (void)m()->AddMessage(PR_NAME_FILTERS, AnyFilter());
   if (Ch(1, 6)) (void)m()->AddInt32(PR_NAME_PRIVILEGE_BITS, -1);
   return m;
}
static MessageRef M_Batch(Case & c, const rb::Client * s, int depth);
static MessageRef M_Any(Case & c, const rb::Client * s, int depth = 0)
{
   switch (R(depth < 3 ? 18 : 16)) {
      case 0: case 1: return M_SetData(c, s, Ch(1, 3));
      case 2: return M_Subscribe(c, s, -1);
      case 3: case 4: return M_GetData(c, s);
      case 5: return M_RemoveData(c, s);
      case 6: return M_JettResults(c, s);
      case 7: return M_GetTrees(c, s);
      case 8: return M_JettTrees();
      case 9: return M_Insert(c, s);
      case 10: return M_Reorder(c, s);
      case 11: return M_RemoveParams(c, s);
      case 12: return M_SetParamsMisc(c, s);
      case 13: return M_Route(c, s);
      case 14: return M_Priv(c, s);
      case 15: return GetMessageFromPool(Ch(1, 2) ? PR_COMMAND_GETPARAMETERS : Ch(1, 2) ? PR_COMMAND_PING : PR_COMMAND_NOOP);
      default: return M_Batch(c, s, depth + 1);
   }
}
static MessageRef M_Batch(Case & c, const rb::Client * s, int depth)
{
   MessageRef m = GetMessageFromPool(PR_COMMAND_BATCH); const int n = 1 + R(4);
   for (int i = 0; i < n; i++) (void)m()->AddMessage(PR_NAME_KEYS, M_Any(c, s, depth));
   return m;
}
static MessageRef Nest(MessageRef inner, int levels, uint32 what, const char * fn) { for (int i = 0; i < levels; i++) { MessageRef o = GetMessageFromPool(what); (void)o()->AddMessage(fn, inner); inner = o; } return inner; }

// ---- (b) mutation of a recipe step, (c) the blind stream -------------------------------------------------------------
static const char * const kReserved[] = {PR_NAME_KEYS, PR_NAME_FILTERS, PR_NAME_REMOVED_DATAITEMS, PR_NAME_SUBSCRIBE_QUIETLY, PR_NAME_REMOVE_QUIETLY, PR_NAME_FLAGS, PR_NAME_REFLECT_TO_SELF, PR_NAME_ROUTE_GATEWAY_TO_NEIGHBORS,
   PR_NAME_ROUTE_NEIGHBORS_TO_GATEWAY, PR_NAME_DISABLE_SUBSCRIPTIONS, PR_NAME_MAX_UPDATE_MESSAGE_ITEMS, PR_NAME_KEEPALIVE_INTERVAL_SECONDS, PR_NAME_SESSION_ROOT, PR_NAME_REJECTED_MESSAGE, PR_NAME_PRIVILEGE_BITS,
   PR_NAME_SERVER_MEM_AVAILABLE, PR_NAME_SERVER_MEM_USED, PR_NAME_SERVER_MEM_MAX, PR_NAME_SERVER_VERSION, PR_NAME_SERVER_UPTIME, PR_NAME_SERVER_CURRENTTIMEUTC, PR_NAME_SERVER_CURRENTTIMELOCAL, PR_NAME_SERVER_RUNTIME,
   PR_NAME_SERVER_SESSION_ID, PR_NAME_MAX_NODES_PER_SESSION, PR_NAME_MAX_CHILDREN_PER_NODE, PR_NAME_SESSION, PR_NAME_TREE_REQUEST_ID, PR_NAME_REPLY_ENCODING, PR_NAME_MAXDEPTH, PR_NAME_REMOVE_FROM_INDEX,
   PR_NAME_NODEDATA, PR_NAME_NODECHILDREN, PR_NAME_NODEINDEX, "SUBSCRIBE:", "a", "b", "a/b", "L", "L/I0", "x", ""};
static const int kRightType[] = {0, 3, 0, 4, 4, 7, 4, 4, 4, 4, 2, 2, 0, 3, 2, 6, 6, 6, 0, 6, 6, 6, 6, 6, 2, 2, 0, 0, 2, 2, 3, 3, 3, 3, 4, 3, 3, 3, 3, 3, 3, 3};
static const uint32_t kNumReserved = sizeof(kReserved) / sizeof(kReserved[0]);
static void MutateMsg(Case & c, MessageRef & m)
{
   std::vector<String> names; for (MessageFieldNameIterator it(*m()); it.HasData(); it++) names.push_back(it.GetFieldName());
   const uint32_t how = R(9); vh::stat(vh::fmt("mutation_kind_%u", how));
   if (how == 8 || names.empty()) { static const int32 d[] = {-1, 1, 2, -2, 3}; m()->what = Ch(1, 3) ? m()->what + d[R(5)] : BEGIN_PR_COMMANDS + R(24); return; }
   const String tgt = names[R((uint32_t)names.size())];
   uint32 tc = 0; (void)m()->GetInfo(tgt, &tc);
   switch (how) {
      case 0: (void)m()->RemoveName(tgt); break;
      case 1: (void)m()->RemoveName(tgt); (void)m()->AddString(tgt, AggressivePattern().c_str()); break;
      case 2: (void)m()->RemoveName(tgt); (void)m()->AddInt32(tgt, (int32)g.next()); break;
      case 3: (void)m()->Rename(tgt, Ch(1, 2) ? String(kReserved[R(kNumReserved)]) : String(AggressivePattern().c_str())); break;
      case 4: (void)m()->AddMessage(tgt, AnyFilter()); break;
      case 5: if (tc == B_STRING_TYPE) { const int n = Ch(1, 4) ? 30 : 1 + R(3); for (int i = 0; i < n; i++) (void)m()->AddString(tgt, Ch(1, 2) ? GlobalKey(c).c_str() : AggressivePattern().c_str()); } else if (tc == B_MESSAGE_TYPE) { (void)m()->AddMessage(tgt, Payload(false)); (void)m()->AddMessage(tgt, GetMessageFromPool(0)); } else (void)m()->AddInt32(tgt, 1); break;   // wrong count
      case 6: (void)m()->RemoveName(tgt); AddRandomTyped(*m(), tgt(), R(12)); break;
      default: (void)m()->RemoveName(tgt); (void)m()->AddMessage(tgt, Nest(Payload(false), 1 + R(40), R(200), Ch(1, 2) ? "kid" : PR_NAME_KEYS)); break;
   }
}
static MessageRef BlindMsg(Case & c, int depth)
{
   uint32 what; const uint32_t ws = R(10);
   if (ws < 6) what = BEGIN_PR_COMMANDS - 2 + R((END_PR_COMMANDS - BEGIN_PR_COMMANDS) + 5);        // the whole command range +- neighbours
   else if (ws < 8) what = BEGIN_PR_COMMANDS + 1 + R(20);                                          // implemented commands
   else if (ws < 9) what = BEGIN_PR_RESULTS - 1 + R(12);
   else { static const uint32 o[] = {0, 1, 12345, 0xffffffffu, 0x7fffffffu, 1347235888u}; what = Ch(1, 2) ? o[R(6)] : (uint32)g.next(); }
   MessageRef m = GetMessageFromPool(what); const int nf = R(6);
   for (int i = 0; i < nf; i++) {
      std::string fn; int right = -1; const uint32_t nk = R(10);
      if (nk < 6) { const uint32_t ri = R(kNumReserved); fn = kReserved[ri]; right = kRightType[ri]; if (fn == "SUBSCRIBE:") fn += Ch(1, 2) ? GlobalKey(c) : AggressivePattern(); }
      else if (nk < 8) fn = GlobalKey(c); else fn = AggressivePattern();
      if (what == PR_COMMAND_SETDATA && fn.size() > 4000) fn.resize(4000);
      const int ty = (right >= 0 && Ch(1, 2)) ? right : (int)R(12);
      if (ty == 3 && depth < 3 && Ch(1, 4)) (void)m()->AddMessage(fn.c_str(), BlindMsg(c, depth + 1)); else AddRandomTyped(*m(), fn.c_str(), ty);
   }
   return m;
}
// privileged deployments: attackers come in through a listening port whose factory is a FilterSessionFactory (the production accept
// path: DoAccept -> FilterSessionFactory::CreateSession with the ban / require patterns -> StorageReflectSessionFactory), so that
// ADDBANS / REMOVEBANS / ADDREQUIRES / REMOVEREQUIRES of a privileged client reach the factory.  NULL if the factory refused.
static rb::Client * AddTcpClient(Case & c)
{
   if (c.factoryPort == 0) return NULL;
   std::set<uint32> before; for (ConstHashtableIterator<const String *, AbstractReflectSessionRef> it(c.b->server.GetSessions()); it.HasData(); it++) if (it.GetValue()()) before.insert(it.GetValue()()->GetSessionID());
   ConstSocketRef s = Connect(IPAddressAndPort(localhostIP, c.factoryPort), NULL, NULL, true);
   if (s() == NULL) rb::Abort("cannot connect to the bench's own listening port");
   (void)SetSocketBlockingEnabled(s, false); (void)SetSocketSendBufferSize(s, 2048); (void)SetSocketReceiveBufferSize(s, 2048);
   StorageReflectSessionRef ss;
   for (int i = 0; i < 20 && ss() == NULL; i++) {
      (void)c.b->Step();
      for (ConstHashtableIterator<const String *, AbstractReflectSessionRef> it(c.b->server.GetSessions()); it.HasData(); it++) if (it.GetValue()() && !before.count(it.GetValue()()->GetSessionID())) { StorageReflectSession * p = dynamic_cast<StorageReflectSession *>(it.GetValue()()); if (p) ss.SetRef(p); }
   }
   if (ss() == NULL) { vh::stat("tcp_connection_refused_by_filter_factory"); return NULL; }
   (void)SetSocketSendBufferSize(ss()->GetSessionWriteSelectSocket(), 2048);
   rb::Client * cl = new rb::Client; cl->slow = true; cl->sock = s; cl->io = new rb::BudgetDataIO(s); cl->ioRef.SetRef(cl->io); cl->gw.SetDataIO(cl->ioRef); cl->session = ss;
   cl->root = ss()->GetSessionRootPath()(); cl->sid = ss()->GetSessionIDString()(); cl->host = ss()->GetHostName()(); cl->id = ss()->GetSessionID();
   c.b->clients.push_back(cl); vh::stat("tcp_clients_accepted_through_filter_factory");
   return cl;
}
static rb::Client * NewAttacker(Case & c) { rb::Client * t = AddTcpClient(c); if (t) return t; rb::Options o; o.slow = true; o.handshake = false; return c.b->AddClient(o); }
static void ReplaceDead(Case & c)
{
   for (int i = 0; i < 3; i++) (void)c.b->Step();   // let the server notice closed connections
   for (size_t i = 0; i < c.att.size(); i++) if (!c.att[i]->alive || !c.b->SessionAttached(c.att[i]->id)) { c.att[i] = NewAttacker(c); vh::stat("attacker_connection_replaced"); }
   if (!c.sub->alive || !c.b->SessionAttached(c.sub->id)) { rb::Options o; o.slow = true; o.handshake = false; c.sub = c.b->AddClient(o); vh::stat("subscriber_connection_replaced"); }
}
typedef char kRightTypeSizeCheck[(sizeof(kRightType) / sizeof(kRightType[0]) == sizeof(kReserved) / sizeof(kReserved[0])) ? 1 : -1];

// ---- (a) recipes: each establishes the precondition of a handler branch, then fires the command ---------------------------
struct RecipeScope { Case & c; RecipeScope(Case & cc, const char * name) : c(cc) { c.recipe = name; c.step = 0; c.inRecipe = true; vh::stat(std::string("recipe_") + name); } ~RecipeScope() { c.inRecipe = false; if (!c.bad) c.recipesDone++; } };
static void SetReading(Case & c, rb::Client * s, bool reads) { if (s->readPaused == reads) { s->readPaused = !reads; vh::stat(reads ? "client_resumes_reading" : "client_stops_reading"); c.digest = vh::fnvs(reads ? "R" : "P", c.digest); } }

// results queued 0/1/2/many on the sender itself, then JETTISONRESULTS (the F9 family)
static void R_ResultsJettison(Case & c)
{
   RecipeScope rs(c, "results_jettison"); rb::Client * s = A(c); rb::Client * o = Other(c, s);
   if (Ch(1, 2)) Inject(c, o, M_SetData(c, o, true), "other-creates-nodes");
   if (Ch(3, 4)) SetReading(c, s, false);
   if (Ch(4, 5)) Inject(c, s, M_Subscribe(c, s, Ch(2, 3) ? (int)(1 + R(3)) : -1), "subscribe");
   const int n = R(6);
   for (int i = 0; i < n && !Done(c); i++) { const uint32_t w = R(6); if (w < 3) Inject(c, o, M_SetData(c, o, true), "other-updates"); else if (w < 4) Inject(c, o, M_RemoveData(c, o), "other-removes-nodes"); else Inject(c, s, M_GetData(c, s), "getdata-queues-result"); }
   const int nj = 1 + R(2);
   for (int i = 0; i < nj && !Done(c); i++) Inject(c, s, M_JettResults(c, s), "jettison-results");
   if (Ch(1, 2)) SetReading(c, s, true);
}
// DATATREES replies queued on the sender, then JETTISONDATATREES
static void R_TreesJettison(Case & c)
{
   RecipeScope rs(c, "trees_jettison"); rb::Client * s = A(c); rb::Client * o = Other(c, s);
   if (Ch(1, 2)) Inject(c, o, M_SetData(c, o, true), "other-creates-nodes");
   if (Ch(3, 4)) SetReading(c, s, false);
   const int n = R(6); for (int i = 0; i < n && !Done(c); i++) Inject(c, s, M_GetTrees(c, s), "getdatatrees-queues-reply");
   const int nj = 1 + R(2); for (int i = 0; i < nj && !Done(c); i++) Inject(c, s, M_JettTrees(), "jettison-datatrees");
   if (Ch(1, 2)) SetReading(c, s, true);
}
// a non-reading subscriber has updates queued; SETDATA with ENABLESUPERCEDE edits its queue
static void R_Supersede(Case & c)
{
   RecipeScope rs(c, "supersede"); rb::Client * o = A(c);
   if (Ch(1, 3)) { MessageRef sp = GetMessageFromPool(PR_COMMAND_SETPARAMETERS); (void)sp()->AddInt32(PR_NAME_MAX_UPDATE_MESSAGE_ITEMS, (int32)(1 + R(3))); (void)sp()->AddBool("SUBSCRIBE:/*/*/*", true); Inject(c, c.sub, sp, "subscriber-small-update-messages"); }
   SetReading(c, c.sub, Ch(1, 6));
   const int n = 2 + R(6); const uint32 bits = (1u << SETDATANODE_FLAG_ENABLESUPERCEDE) | (Ch(1, 5) ? R(32) : 0);
   for (int i = 0; i < n && !Done(c); i++) Inject(c, o, M_SetData(c, o, true, Ch(5, 6) ? (int)bits : 0), "setdata-supersede");
}
// the same subscription path again with another filter (ChangeQueryFilterCallback), overlapping subscriptions present
static void R_Refilter(Case & c)
{
   RecipeScope rs(c, "refilter"); rb::Client * s = A(c); rb::Client * o = Other(c, s);
   Inject(c, o, M_SetData(c, o, false), "other-creates-nodes");
   std::string p1 = Ch(1, 2) ? std::string("/*/*/*") : GlobalKey(c), p2 = GlobalKey(c);
   MessageRef a = GetMessageFromPool(PR_COMMAND_SETPARAMETERS); (void)a()->AddMessage(("SUBSCRIBE:" + p1).c_str(), GoodFilter(0)); if (Ch(1, 2)) (void)a()->AddBool(("SUBSCRIBE:" + p2).c_str(), true); Inject(c, s, a, "subscribe-with-filter");
   const int n = 1 + R(3);
   for (int i = 0; i < n && !Done(c); i++) {
      if (Ch(1, 2)) Inject(c, o, M_SetData(c, o, false), "other-updates");
      MessageRef b = GetMessageFromPool(PR_COMMAND_SETPARAMETERS); if (Ch(1, 4)) (void)b()->AddBool(("SUBSCRIBE:" + p1).c_str(), true); else (void)b()->AddMessage(("SUBSCRIBE:" + p1).c_str(), AnyFilter()); if (Ch(1, 3)) (void)b()->AddBool(PR_NAME_SUBSCRIBE_QUIETLY, true);
      Inject(c, s, b, "same-path-new-filter");
   }
}
static void R_Params(Case & c)
{
   RecipeScope rs(c, "params"); rb::Client * s = A(c);
   const int n = 1 + R(3); for (int i = 0; i < n && !Done(c); i++) Inject(c, s, Ch(1, 2) ? M_SetParamsMisc(c, s) : M_Subscribe(c, s, -1), "set-parameters");
   if (Ch(1, 3)) Inject(c, s, GetMessageFromPool(PR_COMMAND_GETPARAMETERS), "getparameters");
   const int nr = 1 + R(3); for (int i = 0; i < nr && !Done(c); i++) Inject(c, s, M_RemoveParams(c, s), "remove-parameters");
   if (Ch(1, 3)) Inject(c, Other(c, s), M_SetData(c, s, false), "other-updates-after-unsubscribe");
}
static void R_Index(Case & c)
{
   RecipeScope rs(c, "index"); rb::Client * s = A(c);
   { MessageRef m = GetMessageFromPool(PR_COMMAND_SETDATA); (void)m()->AddMessage("L", Payload(false)); Inject(c, s, m, "create-index-parent"); }
   const int n = 2 + R(5);
   for (int i = 0; i < n && !Done(c); i++) switch (R(8)) {
      case 0: case 1: case 2: Inject(c, s, M_Insert(c, s), "insert-ordered"); break;
      case 3: case 4: Inject(c, s, M_Reorder(c, s), "reorder"); break;
      case 5: { MessageRef m = GetMessageFromPool(PR_COMMAND_SETDATA); (void)m()->AddMessage(vh::fmt("L/n%u", R(4)).c_str(), Payload(false)); AddFlags(*m(), (1u << SETDATANODE_FLAG_ADDTOINDEX) | (Ch(1, 4) ? R(32) : 0)); Inject(c, s, m, "setdata-addtoindex"); } break;
      case 6: { MessageRef m = GetMessageFromPool(PR_COMMAND_REMOVEDATA); (void)m()->AddString(PR_NAME_KEYS, Ch(1, 2) ? vh::fmt("L/I%u", R(8)).c_str() : Ch(1, 2) ? "L/*" : "L"); Inject(c, s, m, "remove-indexed-child"); } break;
      default: { MessageRef m = GetMessageFromPool(PR_COMMAND_GETDATA); (void)m()->AddString(PR_NAME_KEYS, Ch(1, 2) ? "L" : "/*/*/L"); if (Ch(1, 2)) (void)m()->AddString(PR_NAME_KEYS, "L/*"); Inject(c, Ch(1, 2) ? s : Other(c, s), m, "getdata-index-node"); } break;
   }
}
static void R_RemoveData(Case & c)
{
   RecipeScope rs(c, "removedata"); rb::Client * s = A(c);
   Inject(c, s, M_SetData(c, s, false), "create-nodes");
   if (Ch(1, 3)) { // add-then-remove and remove-then-add of one node inside one handler call (forces the split of an update Message)
      MessageRef bt = GetMessageFromPool(PR_COMMAND_BATCH); const int n = 2 + R(6); std::string node = NodeName();
      for (int i = 0; i < n; i++) { MessageRef x; if (i % 2 == 0) { x = GetMessageFromPool(PR_COMMAND_SETDATA); (void)x()->AddMessage(node.c_str(), Payload(false)); } else { x = GetMessageFromPool(PR_COMMAND_REMOVEDATA); (void)x()->AddString(PR_NAME_KEYS, node.c_str()); } (void)bt()->AddMessage(PR_NAME_KEYS, x); }
      Inject(c, s, bt, "batch-set-remove-same-node");
   }
   const int n = 1 + R(3); for (int i = 0; i < n && !Done(c); i++) Inject(c, s, M_RemoveData(c, s), "removedata");
}
static void R_GetData(Case & c)
{
   RecipeScope rs(c, "getdata"); rb::Client * s = A(c);
   if (Ch(1, 2)) Inject(c, Other(c, s), M_SetData(c, s, Ch(1, 3)), "other-creates-nodes");
   const int n = 1 + R(3); for (int i = 0; i < n && !Done(c); i++) Inject(c, s, Ch(1, 4) ? M_GetTrees(c, s) : M_GetData(c, s), "get");
}
static void R_Route(Case & c)
{
   RecipeScope rs(c, "route"); rb::Client * s = A(c);
   if (Ch(1, 2)) { MessageRef sp = GetMessageFromPool(PR_COMMAND_SETPARAMETERS); const int nk = 1 + R(2); for (int i = 0; i < nk; i++) (void)sp()->AddString(PR_NAME_KEYS, Ch(1, 2) ? "/*/*" : GlobalKey(c, s).c_str()); if (Ch(1, 3)) (void)sp()->AddMessage(PR_NAME_FILTERS, AnyFilter()); if (Ch(1, 3)) (void)sp()->AddBool(PR_NAME_REFLECT_TO_SELF, true); Inject(c, s, sp, "set-default-route"); }
   const int n = 1 + R(4); for (int i = 0; i < n && !Done(c); i++) Inject(c, s, M_Route(c, s), "user-message");
}
static void R_Batch(Case & c)
{
   RecipeScope rs(c, "batch"); rb::Client * s = A(c);
   if (Ch(1, 2)) { Inject(c, s, M_Batch(c, s, 1), "batch-of-commands"); return; }
   static const int depths[] = {2, 5, 50, 99, 100, 101, 120, 150};
   const int d = depths[R(8)]; vh::statmax("max_batch_nesting", d);
   Inject(c, s, Nest(Ch(1, 2) ? GetMessageFromPool(PR_COMMAND_PING) : M_Any(c, s, 3), d, PR_COMMAND_BATCH, PR_NAME_KEYS), "nested-batch");
}
static void R_DeepPath(Case & c)
{
   RecipeScope rs(c, "deeppath"); rb::Client * s = A(c);
   static const int depths[] = {50, 97, 98, 99, 100, 101, 200, 2000}; int d = depths[R(8)]; if (Ch(1, 40)) d = 20000;
   std::string path; for (int i = 0; i < d; i++) { if (i) path += "/"; path += "p"; } vh::statmax("max_setdata_path_segments", d);
   { MessageRef m = GetMessageFromPool(PR_COMMAND_SETDATA); (void)m()->AddMessage(path.c_str(), Payload(false)); Inject(c, s, m, "setdata-deep-path"); }
   std::string star = "/*/*"; for (int i = 0; i < (d < 120 ? d : 120); i++) star += "/*";
   for (int i = 0; i < 3 && !Done(c); i++) switch (R(5)) {
      case 0: { MessageRef m = GetMessageFromPool(PR_COMMAND_GETDATATREES); (void)m()->AddString(PR_NAME_KEYS, "p"); Inject(c, Ch(1, 2) ? s : Other(c, s), m, "getdatatrees-deep"); } break;
      case 1: { MessageRef m = GetMessageFromPool(PR_COMMAND_SETPARAMETERS); (void)m()->AddBool(("SUBSCRIBE:" + star).c_str(), true); Inject(c, Other(c, s), m, "subscribe-deep"); } break;
      case 2: { MessageRef m = GetMessageFromPool(PR_COMMAND_GETDATA); (void)m()->AddString(PR_NAME_KEYS, star.c_str()); (void)m()->AddString(PR_NAME_KEYS, path.substr(0, 180).c_str()); Inject(c, Other(c, s), m, "getdata-deep"); } break;
      case 3: { MessageRef m = GetMessageFromPool(PR_COMMAND_REMOVEDATA); (void)m()->AddString(PR_NAME_KEYS, "p"); Inject(c, s, m, "remove-deep-top"); } break;
      default: { MessageRef m = GetMessageFromPool(PR_COMMAND_KICK); (void)m()->AddString(PR_NAME_KEYS, star.c_str()); Inject(c, s, m, "kick-deep"); } break;
   }
}
// long node names x stacked wildcards / groups / backslash-digit in keys, subscriptions and filters (the F31 shape)
static void R_LongNames(Case & c)
{
   RecipeScope rs(c, "longnames"); rb::Client * s = A(c); rb::Client * o = Other(c, s);
   static const int lens[] = {60, 100, 160, 300, 1000, 10000}; const int n = lens[R(6)]; vh::statmax("max_node_name_length", n);
   std::string name(n, 'a'); if (Ch(1, 4)) name[n - 1] = 'b';
   { MessageRef m = GetMessageFromPool(PR_COMMAND_SETDATA); MessageRef p = Payload(false); (void)p()->RemoveName("s"); (void)p()->AddString("s", name.c_str()); (void)m()->AddMessage(name.c_str(), p); Inject(c, o, m, "setdata-long-name"); }
   const int k = 2 + R(3);
   for (int i = 0; i < k && !Done(c); i++) {
      const std::string pat = StackedPattern();
      switch (R(5)) {
         case 0: { MessageRef m = GetMessageFromPool(PR_COMMAND_GETDATA); (void)m()->AddString(PR_NAME_KEYS, pat.c_str()); Inject(c, s, m, "getdata-stacked-key"); } break;
         case 1: { MessageRef m = GetMessageFromPool(PR_COMMAND_SETPARAMETERS); (void)m()->AddBool(("SUBSCRIBE:" + pat).c_str(), true); Inject(c, s, m, "subscribe-stacked"); Inject(c, o, M_SetData(c, o, false), "other-updates"); } break;
         case 2: { MessageRef m = GetMessageFromPool(PR_COMMAND_GETDATA); (void)m()->AddString(PR_NAME_KEYS, "*"); (void)m()->AddMessage(PR_NAME_FILTERS, Arch(StringQueryFilter("s", StringQueryFilter::OP_SIMPLE_WILDCARD_MATCH + (Ch(1, 3) ? 2 : 0), pat.c_str()))); Inject(c, s, m, "getdata-stacked-string-filter"); } break;
         case 3: { MessageRef m = GetMessageFromPool(PR_COMMAND_GETDATA); (void)m()->AddString(PR_NAME_KEYS, "*"); (void)m()->AddMessage(PR_NAME_FILTERS, Arch(NodeNameQueryFilter(StringQueryFilter::OP_SIMPLE_WILDCARD_MATCH, pat.c_str()))); Inject(c, s, m, "getdata-stacked-nodename-filter"); } break;
         default: { MessageRef m = GetMessageFromPool(PR_COMMAND_REMOVEDATA); (void)m()->AddString(PR_NAME_KEYS, pat.c_str()); Inject(c, o, m, "removedata-stacked-key"); } break;
      }
   }
}
static void R_Privileged(Case & c)
{
   RecipeScope rs(c, "privileged"); rb::Client * s = A(c);
   const int n = 1 + R(3); for (int i = 0; i < n && !Done(c); i++) Inject(c, s, M_Priv(c, s), "privileged-command");
   // the accept path evaluates the (hostile) ban / require patterns against the peer's address: knock at the door
   if (c.priv && !Done(c)) { vh::note(vh::fmt("msg %d privileged/%d: a new TCP connection is offered to the FilterSessionFactory", c.msgNo, c.step + 1)); vh::stat("probe_connections_after_ban_commands"); rb::Client * t = AddTcpClient(c); if (t) t->Cut(); PingAndSettle(c, "rss-growth"); }
}
static void R_Churn(Case & c)
{
   RecipeScope rs(c, "churn"); rb::Client * s = A(c);
   if (Ch(1, 2)) { SetReading(c, s, false); Inject(c, s, M_GetData(c, s), "getdata-then-leave"); }
   MessageRef big = M_SetData(c, s, true);
   if (Ch(1, 2)) s->CutAfter(R(600)); else { Inject(c, s, big, "last-message"); s->Cut(); }
   if (s->alive) Inject(c, s, big, "cut-mid-message");
   vh::stat("attacker_left_abruptly");
   ReplaceDead(c);
   Inject(c, A(c), M_GetData(c, A(c)), "after-departure");
}
static void R_Nested(Case & c)
{
   RecipeScope rs(c, "nested"); rb::Client * s = A(c);
   const int d = Ch(1, 2) ? 400 + R(101) : 2 + R(100); vh::statmax("max_message_nesting", d);
   switch (R(5)) {
      case 0: { MessageRef m = GetMessageFromPool(PR_COMMAND_SETDATA); (void)m()->AddMessage(NodeName().c_str(), Nest(Payload(false), d, 7, "m")); Inject(c, s, m, "setdata-nested-payload"); Inject(c, Other(c, s), M_GetData(c, s), "other-gets-it"); } break;
      case 1: { MessageRef m = GetMessageFromPool(PR_COMMAND_GETDATA); (void)m()->AddString(PR_NAME_KEYS, "/*/*/*"); (void)m()->AddMessage(PR_NAME_FILTERS, DeepFilter(d)); Inject(c, s, m, "getdata-nested-filter"); } break;
      case 2: { MessageRef m = GetMessageFromPool(PR_COMMAND_SETPARAMETERS); (void)m()->AddMessage("SUBSCRIBE:/*/*/*", DeepFilter(d)); Inject(c, s, m, "subscribe-nested-filter"); Inject(c, Other(c, s), M_SetData(c, s, false), "other-updates"); } break;
      case 3: Inject(c, s, Nest(Payload(false), d, PR_COMMAND_RESERVED21, "x"), "unimplemented-nested-bounce"); break;
      default: { MessageRef m = Nest(Payload(false), d, 1234, "x"); (void)m()->AddString(PR_NAME_KEYS, "/*/*"); Inject(c, s, m, "user-message-nested"); } break;
   }
}
static void R_SetDataTrees(Case & c)
{
   RecipeScope rs(c, "setdatatrees"); rb::Client * s = A(c);
   MessageRef m = GetMessageFromPool(PR_COMMAND_SETDATATREES); MessageRef tree = GetMessageFromPool(); (void)tree()->AddMessage(PR_NAME_NODEDATA, Payload(false));
   MessageRef kids = GetMessageFromPool(); MessageRef kid = GetMessageFromPool(); (void)kid()->AddMessage(PR_NAME_NODEDATA, Payload(false)); (void)kids()->AddMessage("k1", kid); (void)tree()->AddMessage(PR_NAME_NODECHILDREN, kids);
   if (Ch(1, 2)) { MessageRef ix = GetMessageFromPool(); (void)ix()->AddString(PR_NAME_KEYS, "k1"); (void)tree()->AddMessage(PR_NAME_NODEINDEX, ix); }
   (void)m()->AddMessage(NodeName().c_str(), tree); Inject(c, s, m, "setdatatrees");
}
static void R_Mix(Case & c)
{
   RecipeScope rs(c, "mix"); const int n = 1 + R(4);
   for (int i = 0; i < n && !Done(c); i++) { rb::Client * s = Ch(1, 6) ? c.sub : A(c); if (Ch(1, 10)) SetReading(c, s, s->readPaused); Inject(c, s, M_Any(c, s), "any-command"); }
}
typedef void (*RecipeFn)(Case &);
static const RecipeFn kRecipes[] = {R_ResultsJettison, R_ResultsJettison, R_ResultsJettison, R_TreesJettison, R_TreesJettison, R_Supersede, R_Supersede, R_Refilter, R_Params, R_Params, R_Index, R_Index, R_RemoveData, R_GetData, R_Route,
   R_Batch, R_DeepPath, R_LongNames, R_LongNames, R_Privileged, R_Churn, R_Nested, R_SetDataTrees, R_Mix, R_Mix};

// ---- one hostile case -----------------------------------------------------------------------------------------------------
static void SetupCase(Case & c, bool grantPrivileges)
{
   c.b = new rb::Bench;
   rb::Options fast; rb::Options slow; slow.slow = true;
   if (grantPrivileges) {
      c.priv = true; (void)c.b->server.GetCentralState().AddString("priv3", "*");   // every client of this server is an administrator
      ReflectSessionFactoryRef slave(new StorageReflectSessionFactory); ReflectSessionFactoryRef ff(new FilterSessionFactory(slave)); uint16 port = 0;
      if (c.b->server.PutAcceptFactory(0, ff, invalidIP, &port).IsError() || port == 0) rb::Abort("PutAcceptFactory failed");
      c.factoryPort = port;
   }
   c.wit = c.b->AddClient(fast); c.sub = c.b->AddClient(slow);
   for (int i = 0; i < 2; i++) { rb::Client * t = grantPrivileges ? AddTcpClient(c) : NULL; c.att.push_back(t ? t : c.b->AddClient(slow)); }
   c.wit->got.clear();
}
static void TeardownCase(Case & c) { delete c.b; c.b = NULL; }
static void RunHostileCase(long k, uint64_t cs)
{
   g = vh::Rng(cs); Case c; c.k = k; c.nmsg = (int)vh::optl("nmsg", 50);
   SetupCase(c, R(6) == 0);
   if (c.priv) vh::stat("cases_with_privileged_clients");
   const uint32_t style = R(10);     // 0: blind only, 1: recipes without mutation, else: the mix
   c.mutate = (style != 1);
   // the subscribed slow client: sees everything, then (mostly) stops reading
   { c.recipe = "setup"; MessageRef sp = GetMessageFromPool(PR_COMMAND_SETPARAMETERS); (void)sp()->AddBool("SUBSCRIBE:/*/*/*", true); (void)sp()->AddBool("SUBSCRIBE:/*/*/*/*", true); if (Ch(1, 2)) (void)sp()->AddInt32(PR_NAME_MAX_UPDATE_MESSAGE_ITEMS, (int32)(1 + R(4))); Inject(c, c.sub, sp, "subscriber-subscribes"); c.sub->readPaused = !Ch(1, 3); }
   if (Ch(1, 2)) { MessageRef sp = GetMessageFromPool(PR_COMMAND_SETPARAMETERS); (void)sp()->AddBool("SUBSCRIBE:/*/*/*", true); c.wit->Send(sp); vh::stat("cases_with_subscribed_witness"); }
   while (!Done(c)) {
      if (style == 0 || (style != 1 && Ch(3, 10))) { c.recipe = "blind"; c.step = 0; rb::Client * s = Ch(1, 4) ? c.sub : A(c); if (Ch(1, 12)) SetReading(c, s, s->readPaused); vh::stat("blind_messages"); Inject(c, s, BlindMsg(c, 0), "blind"); }
      else kRecipes[R(sizeof(kRecipes) / sizeof(kRecipes[0]))](c);
   }
   // everybody reads again: whatever was queued must drain and the witness is still served
   if (!c.bad) { c.recipe = "drain"; c.sub->readPaused = false; for (size_t i = 0; i < c.att.size(); i++) c.att[i]->readPaused = false; vh::note(vh::fmt("msg %d drain: every client reads again", c.msgNo)); if (PingAndSettle(c, "rss-growth")) vh::stat("cases_drained"); }
   vh::statmax("max_slow_client_queue_depth", c.maxQ);
   if (c.maxQ >= 2) vh::stat("cases_with_queue_depth_ge_2");
   vh::note(vh::fmt("msg %d teardown", c.msgNo));
   TeardownCase(c);
   vh::distinct(c.digest, c.maxQ >= 2 && c.recipesDone >= 1);
   if (vh::want_sample() && !c.trace.empty()) vh::sample(vh::fmt("case %ld: %d Messages, %d recipes, max queue %ld; last: ", k, c.msgNo, c.recipesDone, c.maxQ) + c.trace.back().substr(0, 300));
}

// ---- regress: fixed witnesses -------------------------------------------------------------------------------------------
static void Expect(bool ok, const char * what) { if (!ok) rb::Abort(std::string("regress precondition not reached: ") + what); }
static MessageRef SD(const char * path, int32 v, uint32 pad) { MessageRef m = GetMessageFromPool(PR_COMMAND_SETDATA); MessageRef p = GetMessageFromPool(100); (void)p()->AddInt32("v", v); if (pad) { std::string z(pad, 'z'); (void)p()->AddData("pad", B_RAW_TYPE, z.data(), pad); } (void)m()->AddMessage(path, p); return m; }
static void RegressF9()
{
   // hostile2.cpp with JETTFILTER=1, made deterministic: the sender itself is not reading, has >= 2 result Messages queued in
   // its server-side gateway (2 KB socket buffers), and sends JETTISONRESULTS with a key matching queued paths AND a filter.
   Case c; c.mutate = false; c.recipe = "regress-F9"; SetupCase(c, false); rb::Client * s = c.att[0]; rb::Client * o = c.att[1];
   Inject(c, o, SD("a", 5, 1500), "create-a"); Inject(c, o, SD("b", 6, 1500), "create-b");
   s->readPaused = true;
   { MessageRef sp = GetMessageFromPool(PR_COMMAND_SETPARAMETERS); (void)sp()->AddBool("SUBSCRIBE:/*/*/*", true); (void)sp()->AddInt32(PR_NAME_MAX_UPDATE_MESSAGE_ITEMS, 1); Inject(c, s, sp, "subscribe"); }
   for (int i = 0; i < 6; i++) { Inject(c, o, SD("a", 5, 1500), "update-a"); Inject(c, o, SD("b", 6, 1500), "update-b"); }
   const uint32 before = QCount(s, PR_RESULT_DATAITEMS); Expect(before >= 4, "at least 4 PR_RESULT_DATAITEMS queued on the non-reading sender");
   vh::statmax("max_slow_client_queue_depth", before);
   { MessageRef j = GetMessageFromPool(PR_COMMAND_JETTISONRESULTS); (void)j()->AddString(PR_NAME_KEYS, "/*/*/a"); (void)j()->AddMessage(PR_NAME_FILTERS, Arch(Int32QueryFilter("v", Int32QueryFilter::OP_GREATER_THAN_OR_EQUAL_TO, 0))); Inject(c, s, j, "jettison-key-and-filter"); }
   const uint32 after = QCount(s, PR_RESULT_DATAITEMS);
   if (!c.bad) { Expect(after < before && after > 0, "the jettison removed the queued results for a and kept those for b"); vh::stat("regress_f9_results_jettisoned", before - after); }
   { MessageRef j = GetMessageFromPool(PR_COMMAND_JETTISONRESULTS); (void)j()->AddString(PR_NAME_KEYS, "b"); (void)j()->AddMessage(PR_NAME_FILTERS, Arch(Int32QueryFilter("v", Int32QueryFilter::OP_EQUAL_TO, 6))); Inject(c, s, j, "jettison-relative-key-and-filter"); }
   if (!c.bad) vh::stat("regress_f9_results_jettisoned", after - QCount(s, PR_RESULT_DATAITEMS));
   TeardownCase(c);
}
static void RegressF31()
{
   static const int lens[] = {100, 300};
   for (int t = 0; t < 2; t++) {
      Case c; c.mutate = false; c.recipe = "regress-F31"; SetupCase(c, false); rb::Client * s = c.att[0]; rb::Client * o = c.att[1];
      std::string name(lens[t], 'a'); Inject(c, o, SD(name.c_str(), 1, 0), "long-node-name");
      const double t0 = ThreadCpu();
      { MessageRef gd = GetMessageFromPool(PR_COMMAND_GETDATA); (void)gd()->AddString(PR_NAME_KEYS, "(*)(*)(*)\\2\\3\\4b"); Inject(c, s, gd, "getdata-backslash-digit-key"); }
      { MessageRef sp = GetMessageFromPool(PR_COMMAND_SETPARAMETERS); (void)sp()->AddBool("SUBSCRIBE:(*)(*)(*)\\2\\3\\4b", true); Inject(c, s, sp, "subscribe-backslash-digit"); }
      const double used = ThreadCpu() - t0; vh::statmax("max_regress_f31_cpu_ms", (long)(used * 1000));
      if (used > 3.0) Fail(c, "regress-f31-pattern-cost", vh::fmt("key (*)(*)(*)\\2\\3\\4b against a node name of %d characters kept the server busy for %.1f CPU-seconds (F31)", lens[t], used));
      if (!c.bad) vh::stat("regress_f31_answered");
      TeardownCase(c);
   }
}
static std::string NestedFrame(int depth, uint32 outerWhat, const char * fieldName);
static void RegressGuards()
{
   Case c; c.mutate = false; c.recipe = "regress-guards"; SetupCase(c, false); rb::Client * s = c.att[0]; rb::Client * o = c.att[1];
   // BATCH nested beyond MAX_BATCH_NEST_COUNT (100): handled / refused, never unbounded recursion (deepbatch.cpp)
   static const int bd[] = {99, 100, 101, 150, 500};
   for (int i = 0; i < 5; i++) Inject(c, s, Nest(GetMessageFromPool(PR_COMMAND_PING), bd[i], PR_COMMAND_BATCH, PR_NAME_KEYS), "nested-batch");
   // node paths deeper than MUSCLE_MAX_NODE_DEPTH (deeppath.cpp)
   static const int pd[] = {99, 100, 101, 200, 20000};
   for (int i = 0; i < 5; i++) {
      std::string path; for (int j = 0; j < pd[i]; j++) { if (j) path += "/"; path += "p"; }
      Inject(c, s, SD(path.c_str(), 1, 0), "deep-path"); { MessageRef m = GetMessageFromPool(PR_COMMAND_GETDATATREES); (void)m()->AddString(PR_NAME_KEYS, "p"); Inject(c, o, m, "getdatatrees"); }
      { MessageRef m = GetMessageFromPool(PR_COMMAND_REMOVEDATA); (void)m()->AddString(PR_NAME_KEYS, "p"); Inject(c, s, m, "remove"); }
   }
   // Messages and filters nested 500 deep (the bound every leg except deepnest keeps)
   Inject(c, s, Nest(GetMessageFromPool(1), 500, PR_COMMAND_RESERVED21, "x"), "nested-500-bounce");
   { MessageRef m = GetMessageFromPool(PR_COMMAND_GETDATA); (void)m()->AddString(PR_NAME_KEYS, "/*/*"); (void)m()->AddMessage(PR_NAME_FILTERS, DeepFilter(500)); Inject(c, s, m, "filter-500-deep"); }
   // the hand-made nested frame of the deepnest leg is what the Message class itself produces (self-check of the frame builder)
   { MessageRef ref = Nest(GetMessageFromPool(PR_COMMAND_PING), 20, PR_COMMAND_BATCH, PR_NAME_KEYS); if (rb::Frame(*ref()) != NestedFrame(20, PR_COMMAND_BATCH, PR_NAME_KEYS)) rb::Abort("NestedFrame() differs from Message::Flatten()"); vh::stat("regress_frame_builder_checked"); }
   if (!c.bad) vh::stat("regress_guards_survived");
   TeardownCase(c);
}

// reach self-check: in a privileged deployment the ban / require commands really arrive at the FilterSessionFactory
static void RegressFactory()
{
   Case c; c.mutate = false; c.recipe = "regress-factory"; SetupCase(c, true); rb::Client * s = c.att[0];
   Expect(s->session() && s->session()->GetPort() == c.factoryPort, "the attacker was accepted through the FilterSessionFactory's port");
   { MessageRef m = GetMessageFromPool(PR_COMMAND_ADDBANS); (void)m()->AddString(PR_NAME_KEYS, "*"); Inject(c, s, m, "ban-everybody"); }
   Expect(AddTcpClient(c) == NULL, "a new connection is refused while the ban pattern * is in force");
   { MessageRef m = GetMessageFromPool(PR_COMMAND_REMOVEBANS); (void)m()->AddString(PR_NAME_KEYS, "?"); Inject(c, s, m, "remove-matching-bans"); }
   Expect(AddTcpClient(c) != NULL, "connections are accepted again after REMOVEBANS");
   { MessageRef m = GetMessageFromPool(PR_COMMAND_ADDREQUIRES); (void)m()->AddString(PR_NAME_KEYS, "10.9.8.7"); Inject(c, s, m, "require-another-host"); }
   Expect(AddTcpClient(c) == NULL, "a new connection is refused while a require pattern does not match");
   { MessageRef m = GetMessageFromPool(PR_COMMAND_REMOVEREQUIRES); (void)m()->AddString(PR_NAME_KEYS, "*"); Inject(c, s, m, "remove-requires"); }
   Expect(AddTcpClient(c) != NULL, "connections are accepted again after REMOVEREQUIRES");
   if (!c.bad) vh::stat("regress_factory_reached");
   TeardownCase(c);
}

// ---- deepnest (F6, open) and regexbomb (F10, open): dedicated legs ------------------------------------------------------
static void Put32(std::string & s, uint32 v) { char b[4] = {(char)v, (char)(v >> 8), (char)(v >> 16), (char)(v >> 24)}; s.append(b, 4); }
// wire frame of `depth` Messages (what = outerWhat) each holding the next in field `fieldName`, innermost a PING; built iteratively
static std::string NestedFrame(int depth, uint32 outerWhat, const char * fieldName)
{
   const uint32 nameLen = (uint32)strlen(fieldName) + 1, prefix = 12 + 4 + nameLen + 4 + 4 + 4;
   std::string body; std::vector<uint32> size((size_t)depth + 1); size[0] = 12; for (int i = 1; i <= depth; i++) size[i] = prefix + size[i - 1];
   for (int i = depth; i >= 1; i--) { Put32(body, CURRENT_PROTOCOL_VERSION); Put32(body, outerWhat); Put32(body, 1); Put32(body, nameLen); body.append(fieldName, nameLen); Put32(body, B_MESSAGE_TYPE); Put32(body, 4 + size[i - 1]); Put32(body, size[i - 1]); }
   Put32(body, CURRENT_PROTOCOL_VERSION); Put32(body, PR_COMMAND_PING); Put32(body, 0);
   std::string out; Put32(out, (uint32)body.size()); Put32(out, MUSCLE_MESSAGE_ENCODING_DEFAULT); return out + body;
}
static void RunDeepNestCase(long k)
{
   Case c; c.k = k; c.mutate = false; c.recipe = "deepnest"; SetupCase(c, false); rb::Client * s = c.att[0];
   const int depth = vh::has_opt("depth") ? (int)vh::optl("depth") : (k % 2 == 0) ? 6000 : 30000;
   const std::string frame = (k % 2 == 0) ? NestedFrame(depth, PR_COMMAND_BATCH, PR_NAME_KEYS) : NestedFrame(depth, 4242, "x");
   vh::note(vh::fmt("msg 0 deepnest/1: a Message nested %d levels deep (%zu bytes) written to the attacker's socket", depth, frame.size())); vh::statmax("max_message_nesting", depth);
   size_t off = 0; int rounds = 0;
   while (off < frame.size() && rounds++ < 200000) { if (s->alive && s->io) { io_status_t r = s->io->Write(frame.data() + off, (uint32)(frame.size() - off)); if (r.GetByteCount() > 0) off += (size_t)r.GetByteCount(); } (void)c.b->Step(); if (!s->alive) break; }
   if (PingAndSettle(c, "rss-growth")) vh::stat("deepnest_survived");
   TeardownCase(c); vh::distinct((uint64_t)k + 1, true);
}
static void RunBombCase(long k)
{
   g_bombMode = true;
   Case c; c.k = k; c.mutate = false; c.recipe = "regexbomb"; SetupCase(c, false); rb::Client * s = c.att[0]; rb::Client * o = c.att[1];
   const char * nested = "((a{1,60}){1,60}){1,60}";
   switch (k % 5) {
      case 4: { MessageRef m = GetMessageFromPool(PR_COMMAND_GETDATA); (void)m()->AddString(PR_NAME_KEYS, std::string(5000, '*').c_str()); Inject(c, s, m, "getdata-key-of-5000-stars"); } break;
      case 0: { MessageRef m = GetMessageFromPool(PR_COMMAND_GETDATA); (void)m()->AddString(PR_NAME_KEYS, (std::string("`") + nested).c_str()); Inject(c, s, m, "getdata-backtick-nested-intervals"); } break;
      case 1: { MessageRef m = GetMessageFromPool(PR_COMMAND_SETPARAMETERS); (void)m()->AddBool("SUBSCRIBE:(*){30000}", true); Inject(c, s, m, "subscribe-simple-syntax-group-x-30000"); } break;   // (in the simple syntax ',' means '|', so only {n} is an interval)
      case 2: { Inject(c, o, SD(std::string(300, 'a').c_str(), 1, 0), "long-node-name"); MessageRef m = GetMessageFromPool(PR_COMMAND_GETDATA); (void)m()->AddString(PR_NAME_KEYS, "`(.*)(.*)(.*)\\1\\2\\3b"); Inject(c, s, m, "getdata-backtick-backreferences-vs-long-name"); } break;
      default: { { MessageRef sd = GetMessageFromPool(PR_COMMAND_SETDATA); MessageRef p = GetMessageFromPool(100); (void)p()->AddString("s", "aaa"); (void)sd()->AddMessage("n", p); Inject(c, o, sd, "node-with-string"); }
                 MessageRef m = GetMessageFromPool(PR_COMMAND_GETDATA); (void)m()->AddString(PR_NAME_KEYS, "n"); (void)m()->AddMessage(PR_NAME_FILTERS, Arch(StringQueryFilter("s", StringQueryFilter::OP_REGULAR_EXPRESSION_MATCH, nested))); Inject(c, s, m, "getdata-matchesregex-filter-nested-intervals"); } break;
   }
   if (!c.bad) vh::stat("regexbomb_survived");
   TeardownCase(c); vh::distinct((uint64_t)k + 1, true);
}

int main(int argc, char ** argv)
{
   CompleteSetupSystem css;
   SetConsoleLogLevel(MUSCLE_LOG_NONE);
   vh::init(argc, argv);
   vh::Ctx & c = vh::ctx(); const std::string mode = vh::opt("mode", "hostile");
   if (mode == "regress") {
      g = vh::Rng(12345);
      vh::begin_case(0); RegressF9();
      vh::begin_case(1); RegressF31();
      vh::begin_case(2); RegressGuards();
      vh::begin_case(3); RegressFactory();
      vh::distinct(1, true); vh::distinct(2, true);
   } else if (mode == "hostile") {
      for (long k = c.from; k < c.from + c.cases; k++) { vh::begin_case(k); RunHostileCase(k, vh::case_seed(c.seed, STREAM_HOSTILE, (uint64_t)k)); }
   } else if (mode == "deepnest") {
      for (long k = c.from; k < c.from + c.cases; k++) { vh::begin_case(k); RunDeepNestCase(k); }
   } else if (mode == "regexbomb") {
      for (long k = c.from; k < c.from + c.cases; k++) { vh::begin_case(k); RunBombCase(k); }
   } else { fprintf(stderr, "h_hostile: unknown mode %s\n", mode.c_str()); return 3; }
   return vh::finish();
}
