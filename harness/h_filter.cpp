// h_filter -- C14: query filters evaluate as documented, survive archiving, tolerate bad archives.
// Reference = harness/reffilter.h (abstract filter tree + abstract Message + evaluator written from the documentation).
// modes (--opt mode=):
//   semantics (default)  one case = one abstract filter tree (all kinds, depth <= 5) + 6..15 test Messages chosen adversarially around the
//                        tree's fields; per (tree, Message) pair:  real.Matches == reference   (key decision|<kind>)
//                        restored-from-archive filter decides like the original              (key archive|...)
//                        filter parsed from the pretty-printed expression decides like the reference (key expression|...)
//                        archive of a random node of the tree restored by SetFromArchive() into a USED object of the same class (built from a different
//                        filter of that kind, already evaluated) decides like the original  (key archive|restored-into-used-object-decides-differently|<kind>)
//                        flattened bytes of the Message unchanged by all evaluations          (key evaluation-modified-message)
//   hostile              one case = one hostile input: a field-wise mutated archive, an extreme archive (10^4 children, nesting to 2000),
//                        a token soup or deep parentheses for the expression parser; outcome = NULL ref or a filter that evaluates 20
//                        Messages, re-archives and checksums itself (sanitizer / abort / CPU budget decided by the driver)
//   regress              fixed witnesses F22 F23 F27, every example of the Beginners Guide's expression section, the statements of QueryFilter.h
#include "reffilter.h"
#include "system/SetupSystem.h"
#include "util/String.h"
#include "vh.h"
#include <functional>
#include <cerrno>
#include <csignal>
#include <sys/wait.h>
#include <unistd.h>
#include <fcntl.h>
using namespace muscle;
using namespace reffilter;

static std::string Flat(const Message & m) { const uint32 fs = m.FlattenedSize(); std::string b(fs, '\0'); if (fs) m.FlattenToBytes((uint8 *)&b[0], fs); return b; }

// SaveToArchive -> flatten -> unflatten -> CreateQueryFilter.  *why is set when a step fails.
static QueryFilterRef RoundTrip(const QueryFilter & f, std::string * why)
{
   Message a; status_t r = f.SaveToArchive(a);
   if (r.IsError()) { if (why) *why = std::string("SaveToArchive-failed: ") + r(); return QueryFilterRef(); }
   const std::string b = Flat(a);
   Message a2; r = a2.UnflattenFromBytes((const uint8 *)b.data(), (uint32)b.size());
   if (r.IsError()) { if (why) *why = std::string("archive-does-not-unflatten: ") + r(); return QueryFilterRef(); }
   QueryFilterRef g = GetGlobalQueryFilterFactory()()->CreateQueryFilter(a2);
   if (g() == NULL && why) *why = "restore-failed";
   return g;
}

// Runs (fn) in a forked child with stderr silenced; returns "" if the child exited normally, else how it died.  Used where an input is known
// (by a finding of this harness) to be able to kill the process, so that the finding keeps ONE stable key and the worker goes on.
static void ChildDied(int) { _exit(99); }   // quick death in the child (no report, no symbolization) where the sanitizer lets a user handler in
static std::string DiesInChild(const std::function<void()> & fn)
{
   fflush(NULL);
   const pid_t pid = fork();
   if (pid < 0) { fprintf(stderr, "HARNESS-ABORT: fork failed\n"); abort(); }
   if (pid == 0) { signal(SIGSEGV, ChildDied); signal(SIGBUS, ChildDied); signal(SIGFPE, ChildDied); signal(SIGILL, ChildDied); const int dn = open("/dev/null", O_WRONLY); if (dn >= 0) { dup2(dn, 2); dup2(dn, 1); } fn(); _exit(0); }
   int st = 0; for (;;) { const pid_t w = waitpid(pid, &st, WNOHANG); if (w == pid) break; if (w < 0 && errno != EINTR) { fprintf(stderr, "HARNESS-ABORT: waitpid failed\n"); abort(); } usleep(2000); }   // (a timed sleep: the driver's all-threads-blocked detector must not take the wait for a deadlock while the child symbolizes its report)
   if (WIFEXITED(st) && WEXITSTATUS(st) == 0) return "";
   return WIFSIGNALED(st) ? vh::fmt("child killed by signal %d", WTERMSIG(st)) : vh::fmt("child exited with status %d", WEXITSTATUS(st));
}
// finding of this harness, repaired in /repo since (Message::FindFlat reinterpreted non-reference items as a RefCountableRef; reached through RawDataQueryFilter::SetFromArchive's
// FindFlat("def")): does the archive, at any depth, carry a field "def" of another type than B_RAW_TYPE?
static bool HasDefFieldOfWrongType(const Message & a, int depth = 0)
{
   uint32 tc = 0; if (a.GetInfo("def", &tc).IsOK() && tc != B_RAW_TYPE) return true;
   if (depth > 8) return false;
   for (MessageFieldNameIterator it(a, B_MESSAGE_TYPE); it.HasData(); it++) { ConstMessageRef sub; for (uint32 i = 0; i < 6 && a.FindMessage(it.GetFieldName(), i, sub).IsOK(); i++) if (sub() && HasDefFieldOfWrongType(*sub(), depth + 1)) return true; }
   return false;
}

static const int NUM_TEST_NODES = 5;
static ANode aNodes[NUM_TEST_NODES]; static DataNodeRef rNodes[NUM_TEST_NODES];
static void MakeNodes()
{
   static const char * const names[NUM_TEST_NODES] = {"", "node1", "Zed", "abc", "node1"}; static const uint32 kids[NUM_TEST_NODES] = {0, 0, 1, 2, 3};
   for (int i = 0; i < NUM_TEST_NODES; i++) { aNodes[i].name = names[i]; aNodes[i].numChildren = kids[i]; rNodes[i] = BuildNode(aNodes[i]); }
}

static std::string KindKey(const AFilter & n) { return n.kind == FK_NUMERIC ? std::string("numeric-") + VTName(n.vt) : std::string(FKName(n.kind)); }

// ---- locating the smallest sub-tree that shows a disagreement (only run after a failure; gives stable, kind-specific keys)
static const ANode * curANode = NULL; static const DataNode * curRNode = NULL;
static bool RealDecides(const QueryFilter & f, const AMsg & am) { MessageRef rm = BuildMessage(am); ConstMessageRef cm = rm; return f.Matches(cm, curRNode); }
static bool MismatchSem(const AFilter & n, const AMsg & am) { EvalCtx c; c.node = curANode; const Tri w = Eval(n, am, c); if (w == T_UNSPEC) return false; QueryFilterRef r = BuildFilter(n); return RealDecides(*r(), am) != (w == T_TRUE); }
static bool MismatchArch(const AFilter & n, const AMsg & am) { QueryFilterRef r = BuildFilter(n); QueryFilterRef g = RoundTrip(*r(), NULL); if (g() == NULL) return true; return RealDecides(*r(), am) != RealDecides(*g(), am); }
static bool MismatchExpr(const AFilter & n, const AMsg & am)
{
   EvalCtx c; c.node = curANode; const Tri w = Eval(n, am, c); if (w == T_UNSPEC) return false;
   for (uint64_t s = 1; s <= 4; s++) { vh::Rng g(s); std::string e; if (!ToExpression(n, e, g)) return false; ConstQueryFilterRef f = CreateQueryFilterFromExpression(e.c_str()); if (f() == NULL || RealDecides(*f(), am) != (w == T_TRUE)) return true; }
   return false;
}
static const AFilter & Blame(const AFilter & n, const AMsg & am, bool (*mm)(const AFilter &, const AMsg &), const AMsg ** where)
{
   *where = &am;
   if (IsMulti(n.kind)) { for (size_t i = 0; i < n.kids.size(); i++) if (mm(n.kids[i], am)) return Blame(n.kids[i], am, mm, where); }
   else if (n.kind == FK_MESSAGE && n.hasChild && !n.kids.empty()) {
      const AVal * it = FindItem(am, n.field, n.index, B_MESSAGE_TYPE); const AMsg * sub = (it && it->m) ? it->m.get() : n.defMsg.get();
      if (sub && mm(n.kids[0], *sub)) return Blame(n.kids[0], *sub, mm, where);
   }
   return n;
}


// ---- third restore route: SetFromArchive() into an EXISTING, already used object of the same class
static void CollectNodes(const AFilter & f, std::vector<const AFilter *> & out) { out.push_back(&f); for (size_t i = 0; i < f.kids.size(); i++) CollectNodes(f.kids[i], out); }
// a DIFFERENT filter of the same kind (same C++ class) as (f): other operand / operator / index / default / mask / children
static AFilter VariantOfSameKind(vh::Rng & g, const AFilter & f, const GenOptions & o0, std::string & how)
{
   GenOptions o = o0; o.maxDepth = 2; o.exprFriendly = false;
   AFilter v = f;
   switch (f.kind) {
      case FK_WHAT: v.lo = f.lo + 1 + g.R(3); v.hi = g.R(2) ? v.lo : MUSCLE_NO_LIMIT; how = "other range"; break;
      case FK_EXISTS: v.field = PickName(g, false).name; v.index = f.index ? 0 : 1; v.typeCode = f.typeCode == B_ANY_TYPE ? (uint32)B_INT32_TYPE : (uint32)B_ANY_TYPE; how = "other field, index and type"; break;
      case FK_NUMERIC:
         switch (g.R(5)) {
            case 0: v.index = f.index ? 0 : 1 + g.R(2); how = "other index"; break;
            case 1: v.hasDef = !f.hasDef; if (v.hasDef) v.def = GenNumVal(g, f.vt, false); how = "default presence toggled"; break;
            case 2: if (f.vt <= VT_INT64) { if (f.maskOp) v.maskOp = 0; else { v.maskOp = (uint8)(1 + g.R(6)); v.mask = GenNumVal(g, f.vt, false); } how = "mask toggled"; break; } /* fall through */
            case 3: v.op = (uint8)((f.op + 1 + g.R(5)) % 6); v.value = GenNumVal(g, f.vt, false); how = "other operator and value"; break;
            default: v.field = PickName(g, false).name; v.def = GenNumVal(g, f.vt, false); v.hasDef = true; v.index = g.R(3); how = "other field, default and index"; break;
         }
         break;
      case FK_STRING: case FK_NODENAME:
         if (g.R(3)) { how = "same operator, other operand"; if (f.op >= 24 && f.op <= 27) { for (int t = 0; t < 20; t++) { GenPattern(g, v, GenOptions()); if (v.value.s != f.value.s && !v.value.s.empty()) break; } if (v.value.s.empty() || v.value.s == f.value.s) { v.patKind = PAT_GLOB; v.wild.reset(); v.pat.clear(); PTok t; t.kind = PT_ANYN; v.pat.push_back(t); v.value.s = PatToString(v, v.op == 25 || v.op == 27); } } else v.value.s = f.value.s + "x"; }
         else { how = "other operator"; v.op = (uint8)((f.op + 1 + g.R(27)) % 28); v.patKind = PAT_NONE; v.pat.clear(); v.wild.reset(); if (v.op >= 24) GenPattern(g, v, GenOptions()); else if (v.value.s.empty()) v.value.s = "a"; }
         if (f.kind == FK_STRING && g.R(3) == 0) { v.hasDef = !f.hasDef; v.def.s = "Ab"; how += ", default presence toggled"; }
         break;
      case FK_RAW:
         switch (g.R(3)) { case 0: v.hasDef = !f.hasDef; if (v.hasDef) v.def.s = g.R(3) ? GenBytes(g, false) : std::string(); how = "default presence toggled"; break; case 1: v.value.s = GenBytes(g, false) + "z"; v.nullValue = false; v.op = (uint8)g.R(12); how = "other operand and operator"; break; default: v.nullValue = !f.nullValue; if (!v.nullValue && v.value.s.empty()) v.value.s = "q"; v.typeCode = f.typeCode == B_ANY_TYPE ? (uint32)B_RAW_TYPE : (uint32)B_ANY_TYPE; v.index = f.index ? 0 : 2; how = "operand presence, type code and index"; break; }
         break;
      case FK_MESSAGE:
         v.kids.clear(); v.hasChild = g.R(3) != 0 || !f.hasChild; if (v.hasChild) v.kids.push_back(GenFilter(g, o, 1));
         if (f.defMsg) { if (g.R(2)) v.defMsg.reset(); else v.defMsg = GenRandomMessage(g, 2, o); } else if (g.R(2)) v.defMsg = GenRandomMessage(g, 2, o);
         v.index = f.index ? 0 : 1; how = "other child filter / default Message / index"; break;
      case FK_CHILDCOUNT: v.op = (uint8)((f.op + 1 + g.R(5)) % 6); v.value.i = f.value.i + 1; how = "other operator and value"; break;
      default: {   // combinators: a children list of another length, another threshold
         v.kids.clear(); uint32 nk = g.R(5); if (nk == f.kids.size()) nk++; for (uint32 i = 0; i < nk; i++) v.kids.push_back(GenFilter(g, o, 1));
         if (f.kind == FK_MINMATCH || f.kind == FK_MAXMATCH) v.threshold = f.threshold == 0 ? MUSCLE_NO_LIMIT : f.threshold == MUSCLE_NO_LIMIT ? 1 : 0;
         how = vh::fmt("%u children instead of %zu", nk, f.kids.size()); } break;
   }
   return v;
}
// returns "" or what went wrong (detail); *keyPart gets the key family
static std::string RestoreIntoUsedObject(vh::Rng & g, const AFilter & sub, const std::vector<AMsgRef> & msgs, const GenOptions & o, std::string & keyPart)
{
   QueryFilterRef orig = BuildFilter(sub);
   Message a; if (orig()->SaveToArchive(a).IsError()) return "";   // (reported by the factory route already)
   const std::string b = Flat(a); Message a2; if (a2.UnflattenFromBytes((const uint8 *)b.data(), (uint32)b.size()).IsError()) return "";
   std::string how; const AFilter other = VariantOfSameKind(g, sub, o, how);
   QueryFilterRef used = BuildFilter(other);
   if (used()->TypeCode() != orig()->TypeCode()) { fprintf(stderr, "HARNESS-ABORT: variant of another class\n"); abort(); }
   // use the object first: a few Messages steered around ITS fields (a string/wildcard filter compiles and caches its matcher here), with a node for the node filters
   ShapeStats ss; long usedEvals = 0;
   for (int j = 0; j < 4; j++) {
      AMsgRef um = GenMessageFor(g, other, o, ss);
      if (j == 0 && (other.kind == FK_STRING)) { AField & fld = um->Set(other.field, VT_STRING, B_STRING_TYPE); for (uint32 i = 0; i <= (other.index > 6 ? 0 : other.index); i++) fld.items.push_back(SV(other.op >= 24 ? SamplePattern(g, other) : other.value.s)); }
      MessageRef rm = BuildMessage(*um); ConstMessageRef cm = rm; (void)used()->Matches(cm, rNodes[(j + 1) % NUM_TEST_NODES]()); usedEvals++;
   }
   vh::stat(std::string("restores_into_used_object_") + FKName(sub.kind));
   const status_t r = used()->SetFromArchive(a2);
   if (r.IsError()) { keyPart = "archive|restore-into-used-object-failed|" + KindKey(sub); return std::string("SetFromArchive() on a used object returned ") + r() + " | archive of " + DescribeFilter(sub) + " | object was " + DescribeFilter(other); }
   for (size_t j = 0; j < msgs.size(); j++) {
      MessageRef rm = BuildMessage(*msgs[j]); ConstMessageRef c1 = rm, c2 = rm;
      const bool want = orig()->Matches(c1, curRNode), got = used()->Matches(c2, curRNode); vh::stat("used_object_decisions");
      if (want != got) { keyPart = "archive|restored-into-used-object-decides-differently|" + KindKey(sub); return vh::fmt("original=%d reused object=%d on %s | archive of %s restored by SetFromArchive() into an object that was %s (%s) and had evaluated %ld Messages", (int)want, (int)got, DescribeMsg(*msgs[j]).c_str(), DescribeFilter(sub).c_str(), DescribeFilter(other).c_str(), how.c_str(), usedEvals); }
   }
   if (!used()->IsEqualTo(*orig())) vh::stat(std::string("used_object_not_isequalto_original_") + FKName(sub.kind));
   return "";
}

static GenOptions gopt;
static void CountTreeStats(const AFilter & f);
static EvalCtx ectx;   // accumulates the per-kind decision tallies of the reference over the whole run

static void RunSemCase(long k)
{
   const uint64_t seed = vh::ctx().seed;
   vh::Rng g(vh::case_seed(seed, 1401, (uint64_t)k)), ge(vh::case_seed(seed, 1402, (uint64_t)k));
   GenOptions o = gopt; o.exprFriendly = (k % 3 == 2);   // every third tree is drawn from the shapes the expression grammar can write
   const AFilter tree = GenFilter(g, o);
   const std::string desc = DescribeFilter(tree);
   vh::note(desc);
   vh::stat(std::string("root_") + FKName(tree.kind)); vh::statmax("max_tree_depth", FilterDepth(tree)); vh::statmax("max_tree_nodes", FilterNodes(tree));
   CountTreeStats(tree);
   QueryFilterRef real = BuildFilter(tree);
   bool bad = false;

   std::string why; QueryFilterRef rest = RoundTrip(*real(), &why);
   if (rest() == NULL) { vh::viol("archive|" + why.substr(0, why.find(':')) + "|" + KindKey(tree), why + " | tree " + desc); bad = true; }
   else { vh::stat("archive_round_trips"); vh::stat(rest()->IsEqualTo(*real()) ? "restored_isequalto_original" : "restored_not_isequalto_original"); if (rest()->TypeCode() != real()->TypeCode()) { vh::viol("archive|restored-type-code-differs|" + KindKey(tree), desc); bad = true; } }

   ConstQueryFilterRef ef; std::string expr;
   if (ToExpression(tree, expr, ge)) {
      vh::stat("expr_printed");
      ef = CreateQueryFilterFromExpression(expr.c_str());
      if (ef() == NULL) { if (!bad) vh::viol("expression|rejected|" + KindKey(tree), "[" + expr + "] -> " + ef.GetStatus()() + " | tree " + desc); bad = true; }
   } else vh::stat("expr_tree_not_expressible_in_documented_grammar");

   const uint32 nr = g.R(16), ni = nr % NUM_TEST_NODES; const bool withNode = nr < 15;
   curANode = withNode ? &aNodes[ni] : NULL; curRNode = withNode ? rNodes[ni]() : NULL;
   vh::stat(curANode ? "pairs_with_datanode" : "pairs_without_datanode", 0);

   ShapeStats ss; bool sawTrue = false, sawFalse = false; std::vector<AMsgRef> allMsgs;
   const uint32 nmsg = 6 + g.R(10);
   for (uint32 j = 0; j < nmsg && !bad; j++) {
      AMsgRef am = GenMessageFor(g, tree, gopt, ss); allMsgs.push_back(am);
      MessageRef rm = BuildMessage(*am);
      const std::string flat0 = Flat(*rm());
      ectx.node = curANode; ectx.why.clear();
      const Tri want = Eval(tree, *am, ectx);
      ConstMessageRef cm = rm; const bool got = real()->Matches(cm, curRNode);
      vh::stat("pairs"); vh::stat(curANode ? "pairs_with_datanode" : "pairs_without_datanode");
      if (want == T_UNSPEC) { vh::stat("pairs_unspecified"); for (std::set<std::string>::const_iterator it = ectx.why.begin(); it != ectx.why.end(); ++it) vh::stat("unspecified_" + *it); }
      else {
         vh::stat(want == T_TRUE ? "pairs_true" : "pairs_false"); if (want == T_TRUE) sawTrue = true; else sawFalse = true;
         if (got != (want == T_TRUE)) {
            const AMsg * wm; const AFilter & b = Blame(tree, *am, MismatchSem, &wm);
            vh::viol("decision|" + KindKey(b), vh::fmt("real=%d reference=%d | smallest disagreeing sub-filter %s on %s | node %s | whole tree %s | whole Message %s", (int)got, (int)(want == T_TRUE), DescribeFilter(b).c_str(), DescribeMsg(*wm).c_str(),
                     curANode ? vh::fmt("'%s' with %u children", curANode->name.c_str(), curANode->numChildren).c_str() : "none", desc.c_str(), DescribeMsg(*am).c_str()));
            bad = true; break;
         }
      }
      if (rest()) {
         ConstMessageRef cm2 = rm; const bool got2 = rest()->Matches(cm2, curRNode); vh::stat("archive_decisions");
         if (got2 != got) {
            const AMsg * wm; const AFilter & b = Blame(tree, *am, MismatchArch, &wm);
            vh::viol("archive|decides-differently|" + KindKey(b), vh::fmt("original=%d restored=%d | smallest sub-filter that changes through SaveToArchive/flatten/unflatten/CreateQueryFilter: %s on %s | whole tree %s", (int)got, (int)got2, DescribeFilter(b).c_str(), DescribeMsg(*wm).c_str(), desc.c_str()));
            bad = true; break;
         }
      }
      if (ef() && want != T_UNSPEC) {
         ConstMessageRef cm3 = rm; const bool got3 = ef()->Matches(cm3, curRNode); vh::stat("expr_decisions");
         if (got3 != (want == T_TRUE)) {
            const AMsg * wm; const AFilter & b = Blame(tree, *am, MismatchExpr, &wm);
            std::string be; { vh::Rng g1(1); (void)ToExpression(b, be, g1); }
            vh::viol("expression|decides-differently|" + KindKey(b), vh::fmt("parsed=%d reference=%d | expression [%s] | smallest disagreeing sub-expression e.g. [%s] = %s on %s | Message %s", (int)got3, (int)(want == T_TRUE), expr.c_str(), be.c_str(), DescribeFilter(b).c_str(), DescribeMsg(*wm).c_str(), DescribeMsg(*am).c_str()));
            bad = true; break;
         }
      }
      if (Flat(*rm()) != flat0) { vh::viol("evaluation-modified-message", "tree " + desc + " | Message " + DescribeMsg(*am)); bad = true; break; }
   }
   if (!bad) {   // third restore route, on the root (1 in 3) or on a random node of the tree; its own PRNG stream
      vh::Rng gu(vh::case_seed(seed, 1404, (uint64_t)k)); std::vector<const AFilter *> nodes; CollectNodes(tree, nodes);
      const AFilter & sub = *nodes[gu.R(3) == 0 ? 0 : gu.R((uint32)nodes.size())];
      std::string key; const std::string d = RestoreIntoUsedObject(gu, sub, allMsgs, o, key);
      if (!d.empty()) { vh::viol(key, d); bad = true; }
   }
   vh::stat("shape_field_missing", ss.missing); vh::stat("shape_wrong_type", ss.wrongType); vh::stat("shape_fewer_items_than_index", ss.tooShort); vh::stat("shape_item_equals_operand", ss.equal);
   vh::stat("shape_item_next_to_operand", ss.near); vh::stat("shape_item_unrelated", ss.random); vh::stat("shape_zero_length_raw_item", ss.zeroLen);
   if (sawTrue && sawFalse) vh::stat("trees_deciding_both_ways");
   vh::distinct(vh::fnvs(desc), sawTrue && sawFalse);
   if (vh::want_sample() && FilterNodes(tree) >= 3) vh::sample(vh::fmt("case %ld: ", k) + desc.substr(0, 300) + (expr.empty() ? std::string() : " | expr [" + expr.substr(0, 200) + "]"));
}

static void CountTreeStats(const AFilter & f)   // what the generated trees contain (one walk per tree)
{
   vh::stat(std::string("kind_") + FKName(f.kind));
   switch (f.kind) {
      case FK_NUMERIC: vh::stat(std::string("numtype_") + VTName(f.vt)); vh::stat(vh::fmt("numop_%u", f.op > 5 ? 99 : f.op)); if (f.maskOp) vh::stat(vh::fmt("maskop_%u", f.maskOp > 6 ? 99 : f.maskOp)); if (f.index) vh::stat("leaf_with_index"); if (f.hasDef) vh::stat("leaf_with_assumed_default"); break;
      case FK_STRING: case FK_NODENAME: vh::stat(vh::fmt("strop_%02u", f.op > 27 ? 99 : f.op));
         if (f.patKind == PAT_WILD && f.wild) {
            const int wc = WildOperandClass(f);
            vh::stat(wc == 1 ? "wildcard_operands_with_escape_only" : wc == 2 ? "wildcard_operands_with_escape_and_wildcard" : wc == 3 ? "wildcard_operands_with_wildcard_only" : wc == 0 ? "wildcard_operands_plain_text" : "wildcard_operands_numeric_range");
            if (f.wild->negate) vh::stat("wildcard_operands_negated"); if (f.wild->alts.size() > 1) vh::stat("wildcard_operands_comma_list"); if (f.op == 26) vh::stat("wildcard_operands_ignorecase");
         } if (f.index) vh::stat("leaf_with_index"); if (f.hasDef) vh::stat("leaf_with_assumed_default"); break;
      case FK_RAW: vh::stat(vh::fmt("rawop_%02u", f.op > 11 ? 99 : f.op)); if (f.index) vh::stat("leaf_with_index"); if (f.hasDef) vh::stat("leaf_with_assumed_default"); break;
      case FK_MINMATCH: case FK_MAXMATCH: vh::stat(f.threshold == MUSCLE_NO_LIMIT ? "threshold_no_limit" : f.threshold == 0 ? "threshold_zero" : f.threshold + 1 == f.kids.size() ? "threshold_kids_minus_1" : f.threshold == f.kids.size() ? "threshold_eq_kids" : f.threshold > f.kids.size() ? "threshold_above_kids" : "threshold_between"); break;
      case FK_MESSAGE: if (f.defMsg) vh::stat("message_filter_with_default_message"); if (!f.hasChild) vh::stat("message_filter_without_child"); break;
      default: break;
   }
   if (IsMulti(f.kind)) vh::stat(vh::fmt("multi_with_%zu_children", f.kids.size() > 4 ? (size_t)5 : f.kids.size()));
   for (size_t i = 0; i < f.kids.size(); i++) CountTreeStats(f.kids[i]);
}

// ---------------------------------------------------------------------------------------------------------------- hostile part
// A filter that came out of a hostile input must be usable: 20 evaluations (with and without a DataNode), re-archiving, checksum, equality.
static void Exercise(const QueryFilter & f, vh::Rng & g, const AFilter * optTree)
{
   ShapeStats ss;
   for (int j = 0; j < 20; j++) {
      AMsgRef am = (optTree && (j & 1)) ? GenMessageFor(g, *optTree, gopt, ss) : GenRandomMessage(g, 0, gopt);
      MessageRef rm = BuildMessage(*am); ConstMessageRef cm = rm;
      const uint32 ni = g.R(NUM_TEST_NODES + 1);
      const bool r = f.Matches(cm, ni < (uint32)NUM_TEST_NODES ? rNodes[ni]() : NULL);
      vh::stat(r ? "hostile_evaluations_true" : "hostile_evaluations_false");
   }
   Message a3; (void)f.SaveToArchive(a3); (void)f.CalculateChecksum(); if (!f.IsEqualTo(f)) vh::stat("hostile_filter_not_equal_to_itself");
}

static void MutateArchive(Message & a, vh::Rng & g, int depth)
{
   static const char * const known[] = {"fn", "idx", "op", "mop", "val", "msk", "def", "type", "min", "max", "kid", "defmsg"};
   const uint32 nm = 1 + g.R(3);
   for (uint32 q = 0; q < nm; q++) {
      Queue<String> names; for (MessageFieldNameIterator it(a); it.HasData(); it++) (void)names.AddTail(it.GetFieldName());
      const String tgt = (names.HasItems() && g.R(3)) ? names[g.R(names.GetNumItems())] : String(known[g.R(12)]);
      const uint32 mk = g.R(16);
      vh::stat(vh::fmt("mutation_%02u", mk));
      switch (mk) {
         case 0: (void)a.RemoveName(tgt); break;                                                                       // missing
         case 1: (void)a.RemoveName(tgt); (void)a.AddInt32(tgt, (int32)g.next()); break;                              // wrong type / huge index / threshold
         case 2: { static const char * const sv[] = {"`((a{1,9}){1,9}", "*[a-", "<5-", "~", "\\", "", "a\tb"}; (void)a.RemoveName(tgt); (void)a.AddString(tgt, sv[g.R(7)]); } break;
         case 3: (void)a.RemoveName(tgt); (void)a.AddInt8(tgt, (int8)g.next()); break;                                // operator / mask operator out of range
         case 4: a.what = QUERY_FILTER_TYPE_WHATCODE + g.R(22); break;                                                 // cross-kind what code (incl. beyond the last)
         case 5: { MessageRef sub; if (a.FindMessage(tgt, sub).IsOK() && depth < 4) { MessageRef c = GetMessageFromPool(*sub()); if (c()) { MutateArchive(*c(), g, depth + 1); (void)a.ReplaceMessage(false, tgt, c); } } } break;
         case 6: (void)a.RemoveName(tgt); (void)a.AddMessage(tgt, GetMessageFromPool(QUERY_FILTER_TYPE_WHATCODE + g.R(22))); break;   // an empty archive of some kind where something else belongs
         case 7: (void)a.RemoveName(tgt); (void)a.AddInt64(tgt, (int64)g.next()); break;
         case 8: { uint8 b[3] = {1, 2, 3}; (void)a.RemoveName(tgt); (void)a.AddData(tgt, B_RAW_TYPE, b, 1 + g.R(3)); } break;   // raw bytes of the wrong size
         case 9: (void)a.RemoveName("idx"); (void)a.AddInt32("idx", g.R(2) ? (int32)0xFFFFFFFF : (int32)0x7FFFFFFF); break;     // huge index
         case 10: (void)a.AddInt32(tgt, (int32)g.R(5)); break;                                                          // extra item (type may clash: then nothing happens)
         case 11: { MessageRef sub; if (a.FindMessage("kid", sub).IsOK()) { const uint32 n = 1 + g.R(4); for (uint32 i = 0; i < n; i++) (void)a.AddMessage("kid", sub); } } break;   // extra children
         case 12: (void)a.AddString(vh::fmt("extra%u", g.R(3)).c_str(), "x"); break;                                     // unknown extra field
         case 13: (void)a.RemoveName(tgt); (void)a.AddFlat(tgt, GetByteBufferFromPool(0)); break;                       // zero-length item
         case 14: { (void)a.RemoveName("op"); (void)a.AddInt8("op", (int8)(g.R(2) ? 6 + g.R(120) : -1 - (int)g.R(127))); } break;
         default: { (void)a.RemoveName(tgt); const double d = 1.5; (void)a.AddDouble(tgt, d); (void)a.AddDouble(tgt, d); } break;
      }
   }
}

static MessageRef LeafArchive(vh::Rng & g) { GenOptions o = gopt; o.maxDepth = 1; const AFilter leaf = GenFilter(g, o); QueryFilterRef f = BuildFilter(leaf); MessageRef a = GetMessageFromPool(); if (a() == NULL || f()->SaveToArchive(*a()).IsError()) HarnessAbort("leaf archive"); return a; }

static void RunHostileCase(long k)
{
   vh::Rng g(vh::case_seed(vh::ctx().seed, 1403, (uint64_t)k));
   const uint32 r = g.R(1000);
   if (r < 560) {   // field-wise mutated archive of a generated tree
      GenOptions o = gopt; o.maxDepth = 4; const AFilter tree = GenFilter(g, o);
      QueryFilterRef f = BuildFilter(tree);
      Message a; if (f()->SaveToArchive(a).IsError()) { vh::stat("hostile_tree_not_archivable"); return; }
      MutateArchive(a, g, 0);
      vh::note("mutated archive of " + DescribeFilter(tree));
      // the rest of the case as a function: for an archive that can reach the FindFlat finding it is run in a forked child first (same memory image, so
      // the child's fate is the parent's); if the child dies the case is reported under ONE stable key and the worker goes on
      bool instantiated = false;
      std::function<void()> rest = [&]() {
         const bool viaBytes = g.R(3) == 0; QueryFilterRef hf;
         if (viaBytes) { const std::string b = Flat(a); Message a2; if (a2.UnflattenFromBytes((const uint8 *)b.data(), (uint32)b.size()).IsError()) { vh::stat("hostile_archive_not_unflattenable"); return; } hf = GetGlobalQueryFilterFactory()()->CreateQueryFilter(a2); }
         else hf = GetGlobalQueryFilterFactory()()->CreateQueryFilter(a);
         vh::stat("mutated_archives");
         if (hf()) { vh::stat("mutated_archives_instantiated"); instantiated = true; Exercise(*hf(), g, &tree); } else vh::stat("mutated_archives_rejected");
      };
      if (HasDefFieldOfWrongType(a)) {
         vh::stat("mutated_archives_with_def_field_of_wrong_type_run_in_child_first");
         const std::string died = DiesInChild(rest);
         if (!died.empty()) { String txt = a.ToString(); vh::viol("rawdata-archive-def-field-of-wrong-type-crashes", died + " in CreateQueryFilter(archive); archive of " + DescribeFilter(tree) + " mutated to: " + std::string(txt()).substr(0, 1500)); vh::distinct(vh::fnvs(Flat(a)), false); return; }
      }
      rest();
      vh::distinct(vh::fnvs(Flat(a)), instantiated);
      return;
   }
   if (r < 572) {   // extreme archives
      const uint32 which = g.R(4);
      MessageRef top;
      if (which == 0) {   // 10^4 children
         static const uint32 kinds[] = {QUERY_FILTER_TYPE_MINMATCH, QUERY_FILTER_TYPE_MAXMATCH, QUERY_FILTER_TYPE_XOR};
         top = GetMessageFromPool(kinds[g.R(3)]); const uint32 n = g.R(3) ? 10000 : 1000 + g.R(3000);
         MessageRef l1 = LeafArchive(g), l2 = LeafArchive(g);
         for (uint32 i = 0; i < n; i++) if (top()->AddMessage("kid", (i & 1) ? l1 : l2).IsError()) HarnessAbort("AddMessage(kid)");
         if (g.R(2)) (void)top()->AddInt32(g.R(2) ? "min" : "max", (int32)g.R(n + 2));
         vh::note(vh::fmt("archive with %u children", n)); vh::stat("extreme_many_children"); vh::statmax("max_hostile_children", n);
      } else {            // nesting 200 .. 2000 (deeper is the parser-recursion finding F6, kept out)
         static const uint32 depths[] = {200, 500, 1000, 2000}; const uint32 d = depths[g.R(4)];
         MessageRef cur = LeafArchive(g);
         for (uint32 i = 0; i < d; i++) {
            MessageRef up;
            if (which == 1 || (which == 3 && (i & 1))) { static const uint32 kinds[] = {QUERY_FILTER_TYPE_MINMATCH, QUERY_FILTER_TYPE_MAXMATCH, QUERY_FILTER_TYPE_XOR}; up = GetMessageFromPool(kinds[g.R(3)]); }
            else { up = GetMessageFromPool(QUERY_FILTER_TYPE_MESSAGE); (void)up()->AddString("fn", "m"); if (i % 7 != 3) { MessageRef dm = GetMessageFromPool(5); (void)dm()->AddInt32("age", 21); (void)up()->AddMessage("defmsg", dm); } }
            if (up() == NULL || up()->AddMessage("kid", cur).IsError()) HarnessAbort("nesting");
            cur = up;
         }
         top = cur; vh::note(vh::fmt("archive nested %u deep (variant %u)", d, which)); vh::stat("extreme_deep_nesting"); vh::statmax("max_hostile_nesting", d);
      }
      QueryFilterRef hf = GetGlobalQueryFilterFactory()()->CreateQueryFilter(*top());
      if (hf()) { vh::stat("extreme_archives_instantiated"); Exercise(*hf(), g, NULL); } else vh::stat("extreme_archives_rejected");
      vh::distinct(vh::fnv(&k, sizeof(k)), hf() != NULL);
      return;
   }
   std::string e;
   if (r < 960) {   // token soup
      static const char * const tk[] = {"(", ")", "&&", "||", "^", "!", "exists", "what", "age", "eyecolor:1", "weight|3", "island", "==", "<", ">=", "!=", "<=", "=", "startswith", "contains", "isendof", "matches", "matchesregex",
                                         "(int32)", "(string)", "(float)", "(bool)", "(point)", "(rect)", "(int8)", "\"aA\"", "\"", "12", "-3", "1.5f", "2.5", "1,2", "1,2,3,4", "true", "|", ":", "and", "or", "xor", "not", "is", "equals", "`((a{1,3}){1,3})", " ", "age:-1", "age:99999999999", "|5", "a|", "\"\""};
      const uint32 ntk = sizeof(tk) / sizeof(tk[0]);
      const uint32 nt = g.R(3) == 0 ? g.R(200) : g.R(14);
      for (uint32 q = 0; q < nt; q++) { e += tk[g.R(ntk)]; if (g.R(4)) e += " "; }
      vh::stat("token_soups");
   } else {         // deep parentheses / negation chains / long conjunctions
      static const uint32 depths[] = {50, 500, 1000, 2000}; const uint32 d = depths[g.R(4)];
      switch (g.R(5)) {
         case 0: e = std::string(d, '(') + "age == 1" + std::string(d, ')'); break;                                      // redundant parentheses: rejected, after recursing d deep
         case 1: { e = std::string(d, '(') + "age == 1"; for (uint32 i = 0; i < d; i++) e += ") && (sober == true)"; } break;   // valid, nested d deep
         case 2: e = std::string(d, '!') + "(age == 1)"; break;
         case 3: e = std::string(d, '('); break;                                                                         // unbalanced
         default: { for (uint32 i = 0; i < d * 5; i++) { if (i) e += " || "; e += "(age == 1)"; } } break;               // 10^4 operands at one level
      }
      vh::stat("deep_expressions"); vh::statmax("max_expression_nesting", d);
   }
   vh::note("expression [" + e.substr(0, 300) + "]");
   ConstQueryFilterRef sf = CreateQueryFilterFromExpression(e.c_str());
   if (sf()) { vh::stat("hostile_expressions_parsed"); Exercise(*sf(), g, NULL); } else vh::stat("hostile_expressions_rejected");
   vh::distinct(vh::fnvs(e), sf() != NULL);
}

// ---------------------------------------------------------------------------------------------------------------- fixed witnesses and documentation examples
static long regressChecks = 0;
static void RFail(const std::string & tag, const std::string & detail) { vh::viol(tag, detail); }   // (the driver prefixes the leg name)
static AFilter MkGlob(const std::string & field, uint8 op, const char * glob)   // letters, '?' and '*'
{
   AFilter f = MkStr(field, op, ""); f.patKind = PAT_GLOB;
   for (const char * p = glob; *p; p++) { PTok t; if (*p == '?') t.kind = PT_ANY1; else if (*p == '*') t.kind = PT_ANYN; else { t.kind = PT_LIT; t.c = *p; } f.pat.push_back(t); }
   f.value.s = PatToString(f, op == 25 || op == 27); return f;
}
static AMsgRef GuideMsg(vh::Rng & g)
{
   AMsgRef m(new AMsg); static const uint32 w[] = {1234, 1234, 1233, 0}; m->what = w[g.R(4)];
   static const int64_t ages[][3] = {{5, 30, -99}, {21, -99, -99}, {20, -99, -99}, {22, 21, 35}, {18, 17, 40}, {30, 5, -99}, {53, 52, 21}};
   const uint32 a = g.R(10);
   if (a < 7) { AField & f = m->Set("age", VT_INT32, B_INT32_TYPE); for (int i = 0; i < 3 && ages[a][i] != -99; i++) f.items.push_back(IV(ages[a][i])); }
   else if (a < 9) switch (g.R(9)) {
      case 0: m->Set("age", VT_INT8, B_INT8_TYPE).items.push_back(IV(20 + g.R(3))); break; case 1: m->Set("age", VT_INT16, B_INT16_TYPE).items.push_back(IV(20 + g.R(3))); break;
      case 2: m->Set("age", VT_INT64, B_INT64_TYPE).items.push_back(IV(20 + g.R(3))); break; case 3: m->Set("age", VT_FLOAT, B_FLOAT_TYPE).items.push_back(FV(20.5f + (float)g.R(2))); break;
      case 4: m->Set("age", VT_FLOAT, B_FLOAT_TYPE).items.push_back(FV(21.0f)); break; case 5: m->Set("age", VT_DOUBLE, B_DOUBLE_TYPE).items.push_back(DV(g.R(2) ? 21.3 : 21.0)); break;
      case 6: m->Set("age", VT_DOUBLE, B_DOUBLE_TYPE).items.push_back(DV(21.5)); break; case 7: m->Set("age", VT_STRING, B_STRING_TYPE).items.push_back(SV(g.R(2) ? "twenty-one" : "twenty")); break;
      default: m->Set("age", VT_STRING, B_STRING_TYPE).items.push_back(SV("u")); break; }
   if (g.R(3)) m->Set("sober", VT_BOOL, B_BOOL_TYPE).items.push_back(IV(g.R(2)));
   if (g.R(4)) { static const float ws[] = {100.0f, 150.0f, 154.5f, 155.0f, 160.0f, 149.5f}; m->Set("weight", VT_FLOAT, B_FLOAT_TYPE).items.push_back(FV(ws[g.R(6)])); }
   if (g.R(5)) { static const char * const ec[] = {"green", "green", "green", "blue", "greenish", "dark green", "Green", "gren", "gr"}; m->Set("eyecolor", VT_STRING, B_STRING_TYPE).items.push_back(SV(ec[g.R(9)])); }
   if (g.R(2)) { static const char * const ns[] = {"99x", "100", "990", "9"}; m->Set("numstr", VT_STRING, B_STRING_TYPE).items.push_back(SV(ns[g.R(4)])); }
   return m;
}
// the expression must parse (or must be rejected) and decide like (tree) -- and like the real filter built from (tree) -- on 300 Messages
static void Row(const std::string & tag, const char * expr, bool expectParse, const AFilter & tree)
{
   ConstQueryFilterRef ef = CreateQueryFilterFromExpression(expr); regressChecks++;
   if (!expectParse) { if (ef()) RFail(tag, std::string("documented as an error but accepted: [") + expr + "]"); return; }
   if (ef() == NULL) { RFail(tag, std::string("[") + expr + "] rejected: " + ef.GetStatus()()); return; }
   QueryFilterRef real = BuildFilter(tree);
   vh::Rng g(777); long t = 0, f = 0;
   for (int i = 0; i < 300; i++) {
      AMsgRef am = GuideMsg(g); MessageRef rm = BuildMessage(*am);
      EvalCtx c; const Tri want = Eval(tree, *am, c); if (want == T_UNSPEC) continue;
      ConstMessageRef c1 = rm, c2 = rm; const bool g1 = ef()->Matches(c1, NULL), g2 = real()->Matches(c2, NULL); regressChecks++;
      if (g1 != (want == T_TRUE) || g2 != (want == T_TRUE)) { RFail(tag, vh::fmt("[%s] parsed=%d built=%d documented=%d (%s) on %s", expr, (int)g1, (int)g2, (int)(want == T_TRUE), DescribeFilter(tree).c_str(), DescribeMsg(*am).c_str())); return; }
      if (want == T_TRUE) t++; else f++;
   }
   if (t == 0 || f == 0) { vh::stat("regress_rows_deciding_one_way_only"); if (getenv("C14_SHOW_ONEWAY")) fprintf(stderr, "one-way: %s (t=%ld f=%ld)\n", expr, t, f); }
   vh::stat("regress_rows");
}
static void Expect(const std::string & tag, const std::string & what, bool got, bool want) { regressChecks++; if (got != want) RFail(tag, what + vh::fmt(": got %d, documented %d", (int)got, (int)want)); }
static bool ExprOn(const char * expr, const AMsg & am, bool & parsed) { ConstQueryFilterRef f = CreateQueryFilterFromExpression(expr); parsed = f() != NULL; if (!parsed) return false; MessageRef rm = BuildMessage(am); ConstMessageRef cm = rm; return f()->Matches(cm, NULL); }

static void Regress()
{
   const AFilter age21 = MkNum("age", VT_INT32, 4, IV(21)), soberT = MkNum("sober", VT_BOOL, 0, IV(1)), green = MkStr("eyecolor", 0, "green");
   vh::begin_case(0);
   {  // F22: RawDataQueryFilter("m", <=, "a", B_RAW_TYPE, 0, default = empty buffer) on a Message without "m": true, before and after archiving
      ConstByteBufferRef val = BytesRef("a"); ConstByteBufferRef empty = GetByteBufferFromPool(0);
      RawDataQueryFilter f("m", RawDataQueryFilter::OP_LESS_THAN_OR_EQUAL_TO, val, B_RAW_TYPE, 0, empty);
      MessageRef rm = GetMessageFromPool(1); (void)rm()->AddInt32("other", 3);
      ConstMessageRef c1 = rm; const bool before = f.Matches(c1, NULL);
      std::string why; QueryFilterRef g = RoundTrip(f, &why);
      if (g() == NULL) RFail("F22", "restore failed: " + why);
      else { ConstMessageRef c2 = rm; const bool after = g()->Matches(c2, NULL); Expect("F22", "empty assumed default <= 'a' on a Message without the field", before, true); Expect("F22", "same decision after SaveToArchive/flatten/unflatten/CreateQueryFilter", after, before); }
   }
   vh::begin_case(1);
   {  // F23: name:idx and name|default
      AMsg am; am.what = 1; AField & a = am.Set("age", VT_INT32, B_INT32_TYPE); a.items.push_back(IV(5)); a.items.push_back(IV(30));
      bool p;
      Expect("F23", "[age:1 >= 21] on age=[5,30]", ExprOn("age:1 >= 21", am, p) && p, true);
      Expect("F23", "[age:0 >= 21] on age=[5,30]", ExprOn("age:0 >= 21", am, p) || !p, false);
      Expect("F23", "[age >= 21] on age=[5,30]", ExprOn("age >= 21", am, p) || !p, false);
      Expect("F23", "[nosuch|30 >= 21] on a Message without 'nosuch'", ExprOn("nosuch|30 >= 21", am, p) && p, true);
      Expect("F23", "[nosuch|3 >= 21] on a Message without 'nosuch'", ExprOn("nosuch|3 >= 21", am, p) || !p, false);
      Expect("F23", "[age:2|30 >= 21] on age=[5,30]", ExprOn("age:2|30 >= 21", am, p) && p, true);
      Expect("F23", "[age:1|3 >= 21] on age=[5,30]", ExprOn("age:1|3 >= 21", am, p) && p, true);
   }
   vh::begin_case(2);
   {  // F27: field names containing keywords
      static const char * const names[] = {"eyecolor", "island", "band", "this", "whatever", "somewhat", "color", "notable", "isle", "android", "Island", "ORchid", "knot", "xorg"};
      for (size_t i = 0; i < sizeof(names) / sizeof(names[0]); i++) {
         AMsg am; am.Set(names[i], VT_INT32, B_INT32_TYPE).items.push_back(IV(7)); bool p;
         const std::string e1 = std::string(names[i]) + " == 7", e2 = std::string(names[i]) + " == 8", e3 = std::string("(") + names[i] + " >= 7) && (exists " + names[i] + ")", e4 = std::string("!(") + names[i] + " < 7) and (" + names[i] + " is 7)";
         Expect("F27", "[" + e1 + "]", ExprOn(e1.c_str(), am, p) && p, true); Expect("F27", "[" + e2 + "] parses and says no", ExprOn(e2.c_str(), am, p) || !p, false);
         Expect("F27", "[" + e3 + "]", ExprOn(e3.c_str(), am, p) && p, true); Expect("F27", "[" + e4 + "]", ExprOn(e4.c_str(), am, p) && p, true);
      }
      Row("F27", "eyecolor == \"green\"", true, green);
      Row("F27", "(what == 1234) && (age >= 21) && (eyecolor == \"green\")", true, MkMulti(FK_AND, MkWhat(1234, 1234), age21, green));
   }
   vh::begin_case(3);
   {  // Beginners Guide, "Building a QueryFilter from an expression-String": every example
      const std::string T = "guide-example";
      Row(T, "age >= 21", true, age21);
      Row(T, "(what == 1234) && (age >= 21) && (weight < 155.0f) && (eyecolor == \"green\")", true, MkMulti(FK_AND, MkWhat(1234, 1234), age21, MkNum("weight", VT_FLOAT, 1, FV(155.0f)), green));
      Row(T, "(age >= 53) && (weight <= 150.0f)", true, MkMulti(FK_AND, MkNum("age", VT_INT32, 4, IV(53)), MkNum("weight", VT_FLOAT, 3, FV(150.0f))));   // QueryFilter.h, CreateQueryFilterFromExpression
      Row(T, "sober == (bool)true", true, soberT);
      Row(T, "age >= (int8)21", true, MkNum("age", VT_INT8, 4, IV(21)));
      Row(T, "age >= (int16)21", true, MkNum("age", VT_INT16, 4, IV(21)));
      Row(T, "age >= (int32)21", true, age21);
      Row(T, "age >= (int64)21", true, MkNum("age", VT_INT64, 4, IV(21)));
      Row(T, "age >= (float)21", true, MkNum("age", VT_FLOAT, 4, FV(21.0f)));
      Row(T, "age >= (double)21", true, MkNum("age", VT_DOUBLE, 4, DV(21.0)));
      Row(T, "age >= (string)twenty-one", true, MkStr("age", 4, "twenty-one"));
      Row(T, "sober == false", true, MkNum("sober", VT_BOOL, 0, IV(0)));
      Row(T, "age >= 21f", true, MkNum("age", VT_FLOAT, 4, FV(21.0f)));
      Row(T, "age >= 21.3", true, MkNum("age", VT_DOUBLE, 4, DV(21.3)));
      Row(T, "age >= \"twenty-one\"", true, MkStr("age", 4, "twenty-one"));
      Row(T, "age >= twenty-one", true, MkStr("age", 4, "twenty-one"));
      Row(T, "sober == true", true, soberT);
      Row(T, "(sober == true) && (age >= 21) || (eyecolor == \"green\")", false, AFilter());
      Row(T, "((sober == true) && (age >= 21)) || (eyecolor == \"green\")", true, MkMulti(FK_OR, MkMulti(FK_AND, soberT, age21), green));
      Row(T, "(sober == true) && ((age >= 21) || (eyecolor == \"green\"))", true, MkMulti(FK_AND, soberT, MkMulti(FK_OR, age21, green)));
      Row(T, "exists age", true, MkExists("age"));
      Row(T, "exists (int32)age", true, MkExists("age", B_INT32_TYPE));
      Row(T, "!exists (int32)age", true, MkNot(MkExists("age", B_INT32_TYPE)));
      Row(T, "!(eyecolor contains \"green\")", true, MkNot(MkStr("eyecolor", 8, "green")));
      Row(T, "age:0 >= 21", true, age21);
      Row(T, "age:1 >= 21", true, MkNum("age", VT_INT32, 4, IV(21), 1));
      Row(T, "age:2 >= 21", true, MkNum("age", VT_INT32, 4, IV(21), 2));
      Row(T, "age|18 <= 21", true, MkNumDef("age", VT_INT32, 3, IV(21), 0, IV(18)));
      Row(T, "age:2|18 <= 21", true, MkNumDef("age", VT_INT32, 3, IV(21), 2, IV(18)));
      Row(T, "weight|100 >= 150.0f", true, MkNumDef("weight", VT_FLOAT, 4, FV(150.0f), 0, FV(100.0f)));
      Row(T, "numstr|100 startswith \"99\"", true, MkStrDef("numstr", 6, "99", 0, "100"));
   }
   vh::begin_case(4);
   {  // the guide's operator and synonym lists, one expression each
      const std::string T = "guide-operator";
      Row(T, "age < 21", true, MkNum("age", VT_INT32, 1, IV(21)));   Row(T, "age > 21", true, MkNum("age", VT_INT32, 2, IV(21)));   Row(T, "age == 21", true, MkNum("age", VT_INT32, 0, IV(21)));
      Row(T, "age <= 21", true, MkNum("age", VT_INT32, 3, IV(21)));  Row(T, "age != 21", true, MkNum("age", VT_INT32, 5, IV(21)));
      Row(T, "eyecolor startswith \"gre\"", true, MkStr("eyecolor", 6, "gre"));             Row(T, "eyecolor endswith \"ish\"", true, MkStr("eyecolor", 7, "ish"));
      Row(T, "eyecolor contains \"reen\"", true, MkStr("eyecolor", 8, "reen"));             Row(T, "eyecolor isstartof \"greenish\"", true, MkStr("eyecolor", 9, "greenish"));
      Row(T, "eyecolor isendof \"dark green\"", true, MkStr("eyecolor", 10, "dark green")); Row(T, "eyecolor issubstringof \"a greenish hue\"", true, MkStr("eyecolor", 11, "a greenish hue"));
      Row(T, "eyecolor matches \"gr*n\"", true, MkGlob("eyecolor", 24, "gr*n"));            Row(T, "eyecolor matchesregex \"^gr.*n$\"", true, MkGlob("eyecolor", 25, "gr*n"));
      Row(T, "eyecolor < \"green\"", true, MkStr("eyecolor", 1, "green"));                  Row(T, "eyecolor != \"green\"", true, MkStr("eyecolor", 5, "green"));
      Row(T, "(age >= 21) and (sober == true)", true, MkMulti(FK_AND, age21, soberT));      Row(T, "(age >= 21) or (sober is true)", true, MkMulti(FK_OR, age21, soberT));
      Row(T, "(age >= 21) xor (sober equals true)", true, MkMulti(FK_XOR, age21, soberT));  Row(T, "(age >= 21) ^ (sober = true)", true, MkMulti(FK_XOR, age21, soberT));
      Row(T, "not (age >= 21)", true, MkNot(age21));                                        Row(T, "age = 21", true, MkNum("age", VT_INT32, 0, IV(21)));
      Row(T, "eyecolor is \"green\"", true, green);                                         Row(T, "(age >= 21) || (sober == true) || (eyecolor == \"green\")", true, MkMulti(FK_OR, age21, soberT, green));
      Row(T, "what != 1234", true, MkNot(MkWhat(1234, 1234)));                              Row(T, "what >= 1234", true, MkWhat(1234, MUSCLE_NO_LIMIT));
   }
   vh::begin_case(5);
   {  // statements of the class documentation in QueryFilter.h and of the guide's C++ examples
      const std::string T = "header-statement";
      MessageRef any = GetMessageFromPool(3); (void)any()->AddInt32("joe", 4);
      struct E { static bool On(const QueryFilter & f, const MessageRef & m, const DataNode * n = NULL) { ConstMessageRef c = m; return f.Matches(c, n); } };
      Expect(T, "AndQueryFilter with no children always matches", E::On(AndQueryFilter(), any), true);
      Expect(T, "OrQueryFilter with no children always matches", E::On(OrQueryFilter(), any), true);
      Expect(T, "NandQueryFilter with no children never matches", E::On(NandQueryFilter(), any), false);
      Expect(T, "NorQueryFilter with no children never matches", E::On(NorQueryFilter(), any), false);
      Expect(T, "XorQueryFilter with no children never matches", E::On(XorQueryFilter(), any), false);
      ConstQueryFilterRef lt5(new Int32QueryFilter("joe", Int32QueryFilter::OP_LESS_THAN, 5)), w666(new WhatCodeQueryFilter(666)), w3(new WhatCodeQueryFilter(3));
      MessageRef joe5 = GetMessageFromPool(666); (void)joe5()->AddInt32("joe", 5); MessageRef nojoe = GetMessageFromPool(3);
      Expect(T, "guide: Int32QueryFilter(joe < 5) on joe=4", E::On(*lt5(), any), true); Expect(T, "guide: Int32QueryFilter(joe < 5) on joe=5", E::On(*lt5(), joe5), false); Expect(T, "guide: Int32QueryFilter(joe < 5) without joe", E::On(*lt5(), nojoe), false);
      Expect(T, "guide: WhatCodeQueryFilter(666) on what=666", E::On(*w666(), joe5), true); Expect(T, "guide: WhatCodeQueryFilter(666) on what=3", E::On(*w666(), any), false);
      Expect(T, "unary AndQueryFilter is a pass-through", E::On(AndQueryFilter(lt5), any) && !E::On(AndQueryFilter(lt5), joe5), true);
      Expect(T, "unary OrQueryFilter is a pass-through", E::On(OrQueryFilter(lt5), any) && !E::On(OrQueryFilter(lt5), joe5), true);
      Expect(T, "unary NandQueryFilter is NOT", !E::On(NandQueryFilter(lt5), any) && E::On(NandQueryFilter(lt5), joe5), true);
      Expect(T, "unary NorQueryFilter is NOT", !E::On(NorQueryFilter(lt5), any) && E::On(NorQueryFilter(lt5), joe5), true);
      // thresholds over three children with every truth combination: Min(NO_LIMIT)=AND, Min(0)=OR, Min(1)="more than one", Max(NO_LIMIT)=NAND, Max(0)=NOR, Max(1)="no more than one"
      for (int bits = 0; bits < 8; bits++) {
         MessageRef m = GetMessageFromPool(0); for (int b = 0; b < 3; b++) (void)m()->AddInt32(vh::fmt("f%d", b).c_str(), (bits >> b) & 1);
         const int cnt = (bits & 1) + ((bits >> 1) & 1) + ((bits >> 2) & 1);
         struct Th { uint32 n; bool isMax; bool want; const char * name; } th[] = {{MUSCLE_NO_LIMIT, false, cnt == 3, "Min(NO_LIMIT)=AND"}, {0, false, cnt > 0, "Min(0)=OR"}, {1, false, cnt > 1, "Min(1)"}, {2, false, cnt > 2, "Min(2)"}, {7, false, cnt == 3, "Min(7)=AND"},
                                                                    {MUSCLE_NO_LIMIT, true, cnt < 3, "Max(NO_LIMIT)=NAND"}, {0, true, cnt == 0, "Max(0)=NOR"}, {1, true, cnt <= 1, "Max(1)"}, {3, true, cnt < 3, "Max(3)=NAND"}, {2, true, cnt <= 2, "Max(2)"}};
         for (size_t i = 0; i < sizeof(th) / sizeof(th[0]); i++) {
            MultiQueryFilter * q = th[i].isMax ? (MultiQueryFilter *)new MaximumThresholdQueryFilter(th[i].n) : (MultiQueryFilter *)new MinimumThresholdQueryFilter(th[i].n); QueryFilterRef hold(q);
            for (int b = 0; b < 3; b++) (void)q->GetChildren().AddTail(ConstQueryFilterRef(new Int32QueryFilter(vh::fmt("f%d", b).c_str(), Int32QueryFilter::OP_EQUAL_TO, 1)));
            Expect(T, vh::fmt("%s with %d of 3 children matching", th[i].name, cnt), E::On(*q, m), th[i].want);
         }
         XorQueryFilter x; for (int b = 0; b < 3; b++) (void)x.GetChildren().AddTail(ConstQueryFilterRef(new Int32QueryFilter(vh::fmt("f%d", b).c_str(), Int32QueryFilter::OP_EQUAL_TO, 1)));
         Expect(T, vh::fmt("Xor with %d of 3 children matching", cnt), E::On(x, m), (cnt & 1) != 0);
      }
      MessageRef withSub = GetMessageFromPool(1); (void)withSub()->AddMessage("m", GetMessageFromPool(9));
      MessageQueryFilter anySub(ConstQueryFilterRef(), ConstMessageRef(), "m");
      Expect(T, "MessageQueryFilter without child filter: any sub-Message matches", E::On(anySub, withSub), true); Expect(T, "MessageQueryFilter without child filter: no sub-Message, no match", E::On(anySub, any), false);
      MessageQueryFilter sub9(ConstQueryFilterRef(new WhatCodeQueryFilter(9)), ConstMessageRef(), "m"), sub9d(ConstQueryFilterRef(new WhatCodeQueryFilter(9)), ConstMessageRef(GetMessageFromPool(9)), "m"), sub8d(ConstQueryFilterRef(new WhatCodeQueryFilter(8)), ConstMessageRef(GetMessageFromPool(9)), "m");
      Expect(T, "MessageQueryFilter passes the sub-Message to the child filter", E::On(sub9, withSub), true); Expect(T, "MessageQueryFilter: no sub-Message, no default", E::On(sub9, any), false);
      Expect(T, "MessageQueryFilter: default child Message used when no sub-Message exists", E::On(sub9d, any), true); Expect(T, "MessageQueryFilter: default child Message not matching the child filter", E::On(sub8d, any), false);
      Expect(T, "MessageQueryFilter: an existing sub-Message wins over the default", E::On(sub8d, withSub), false);
      Expect(T, "ChildCountQueryFilter() matches only nodes with no child-nodes (node without children)", E::On(ChildCountQueryFilter(), any, rNodes[1]()), true);
      Expect(T, "ChildCountQueryFilter() matches only nodes with no child-nodes (node with 2 children)", E::On(ChildCountQueryFilter(), any, rNodes[3]()), false);
      Expect(T, "ChildCountQueryFilter(>=, 2) on a node with 3 children", E::On(ChildCountQueryFilter(Int32QueryFilter::OP_GREATER_THAN_OR_EQUAL_TO, 2), any, rNodes[4]()), true);
      Expect(T, "NodeNameQueryFilter(==, \"Zed\") on node Zed", E::On(NodeNameQueryFilter(StringQueryFilter::OP_EQUAL_TO, "Zed"), any, rNodes[2]()), true);
      Expect(T, "NodeNameQueryFilter(startswith, \"no\") on node abc", E::On(NodeNameQueryFilter(StringQueryFilter::OP_STARTS_WITH, "no"), any, rNodes[3]()), false);
      Expect(T, "ValueExistsQueryFilter(joe)", E::On(ValueExistsQueryFilter("joe"), any) && !E::On(ValueExistsQueryFilter("joe"), nojoe) && !E::On(ValueExistsQueryFilter("joe", B_STRING_TYPE), any) && !E::On(ValueExistsQueryFilter("joe", B_ANY_TYPE, 1), any), true);
   }
   vh::begin_case(6);
   {  // finding of this harness (repaired in /repo since): Atoll("-9223372036854775808") negates INT64_MIN (signed overflow, UBSan) when the expression parser converts an (int64) value
      vh::note("Atoll int64-min witness: [island >= (int64)-9223372036854775808]");
      const std::string died = DiesInChild([]() { ConstQueryFilterRef f = CreateQueryFilterFromExpression("island >= (int64)-9223372036854775808"); (void)f; });
      if (!died.empty()) RFail("atoll-int64-min", "[island >= (int64)-9223372036854775808]: " + died + " (UBSan: Atoll() negates INT64_MIN, SetupSystem.cpp)");
      else {
      AMsg lo, lo1; lo.Set("island", VT_INT64, B_INT64_TYPE).items.push_back(IV(INT64_MIN)); lo1.Set("island", VT_INT64, B_INT64_TYPE).items.push_back(IV(INT64_MIN + 1)); bool p;
      Expect("atoll-int64-min", "[island == (int64)-9223372036854775808] on island=INT64_MIN", ExprOn("island == (int64)-9223372036854775808", lo, p) && p, true);
      Expect("atoll-int64-min", "[island > (int64)-9223372036854775808] on island=INT64_MIN+1", ExprOn("island > (int64)-9223372036854775808", lo1, p) && p, true);
      Expect("atoll-int64-min", "[island|-9223372036854775808 <= (int64)-9223372036854775807] without the field", ExprOn("island|-9223372036854775808 <= (int64)-9223372036854775807", AMsg(), p) && p, true);
      }
   }
   vh::begin_case(7);
   {  // finding of this harness (repaired in /repo since): Message::FindFlat() on a field of non-reference items (int64, double, String ...) reinterprets the item as a RefCountableRef;
      // an untrusted RawDataQueryFilter archive whose "def" field has such a type reaches it
      vh::note("FindFlat witness: raw-data filter archive with an int64 'def' field");
      std::string died = DiesInChild([]() { Message m; (void)m.AddInt64("f", 0x4141414141414141LL); ConstByteBufferRef b; if (m.FindFlat("f", b).IsOK()) _exit(7); });
      if (!died.empty()) RFail("findflat-on-non-reference-field", "Message::FindFlat(\"f\", ConstByteBufferRef) on an int64 field: " + died);
      static const uint32 kinds[] = {B_INT64_TYPE, B_DOUBLE_TYPE, B_INT32_TYPE, B_STRING_TYPE, B_POINT_TYPE};
      for (size_t i = 0; i < 5 && died.empty(); i++) {
         const uint32 tc = kinds[i];
         died = DiesInChild([tc]() {
            Message a; a.what = QUERY_FILTER_TYPE_RAWDATA; (void)a.AddString("fn", "x"); (void)a.AddInt8("op", 0);
            switch (tc) { case B_INT64_TYPE: (void)a.AddInt64("def", 0x4141414141414141LL); break; case B_DOUBLE_TYPE: (void)a.AddDouble("def", 1.5e300); break; case B_INT32_TYPE: (void)a.AddInt32("def", 0x41414141); break; case B_STRING_TYPE: (void)a.AddString("def", "AAAAAAAAAAAAAAAAAAAAAAAA"); break; default: (void)a.AddPoint("def", Point(1e30f, 1e30f)); break; }
            QueryFilterRef f = GetGlobalQueryFilterFactory()()->CreateQueryFilter(a);
            if (f()) { MessageRef m = GetMessageFromPool(1); ConstMessageRef cm = m; (void)f()->Matches(cm, NULL); } });
         if (!died.empty()) RFail("findflat-on-non-reference-field", vh::fmt("CreateQueryFilter(raw-data archive with a 'def' field of type %u): ", tc) + died);
         regressChecks++;
      }
   }
   vh::begin_case(8);
   {  // backslash escapes in simple wildcard patterns ("\\x makes x literal"), also for patterns that can only ever match one string (seeded change C14-2)
      const std::string T = "wildcard-escape";
      struct W { const char * pat; const char * subject; bool want; } w[] = {
         {"report\\*", "report*", true}, {"report\\*", "report\\*", false}, {"report\\*", "reportX", false}, {"report\\*", "report", false},
         {"what\\?", "what?", true}, {"what\\?", "what\\?", false}, {"what\\?", "whatx", false},
         {"\\[x\\]", "[x]", true}, {"\\[x\\]", "x", false}, {"\\[x\\]", "\\[x\\]", false},
         {"a\\,b", "a,b", true}, {"a\\,b", "a", false}, {"a\\,b", "a\\,b", false},
         {"\\~x", "~x", true}, {"\\~x", "x", false}, {"\\~x", "\\~x", false},
         {"a\\*b*", "a*bcd", true}, {"a\\*b*", "aXbcd", false}, {"a\\*b*", "a\\*b", false},
         {"plain", "plain", true}, {"plain", "Plain", false}, {"~A*", "Apple", false}, {"~A*", "apple", true}, {"<19-21>", "20", true}, {"<19-21>", "22", false}, {"a,b", "b", true}, {"a,b", "a,b", false} };
      for (size_t i = 0; i < sizeof(w) / sizeof(w[0]); i++) {
         AMsg am; am.Set("s", VT_STRING, B_STRING_TYPE).items.push_back(SV(w[i].subject)); MessageRef rm = BuildMessage(am);
         StringQueryFilter f("s", StringQueryFilter::OP_SIMPLE_WILDCARD_MATCH, w[i].pat); ConstMessageRef c1 = rm;
         Expect(T, vh::fmt("StringQueryFilter(OP_SIMPLE_WILDCARD_MATCH, [%s]) on [%s]", w[i].pat, w[i].subject), f.Matches(c1, NULL), w[i].want);
         Expect(T, vh::fmt("the reference matcher on [%s] / [%s]", w[i].pat, w[i].subject), refwild::Match(std::string(w[i].pat), std::string(w[i].subject)), w[i].want);
         bool p; const std::string e = std::string("s matches \"") + w[i].pat + "\"";
         Expect(T, "[" + e + vh::fmt("] on [%s]", w[i].subject), ExprOn(e.c_str(), am, p) && p, w[i].want);
         std::string why; QueryFilterRef g2 = RoundTrip(f, &why); if (g2() == NULL) RFail(T, "restore failed: " + why); else { ConstMessageRef c2 = rm; Expect(T, vh::fmt("restored filter, [%s] on [%s]", w[i].pat, w[i].subject), g2()->Matches(c2, NULL), w[i].want); }
      }
   }
   vh::begin_case(9);
   {  // seeded change C14-3: SetFromArchive() into a filter object that has already compiled and used its StringMatcher must forget the old pattern
      const std::string T = "setfromarchive-into-used-object";
      struct U { uint8 op; const char * oldPat; const char * newPat; const char * oldHit; const char * newHit; } u[] = {
         {StringQueryFilter::OP_SIMPLE_WILDCARD_MATCH, "a*", "b*", "abc", "bcd"}, {StringQueryFilter::OP_REGULAR_EXPRESSION_MATCH, "^a.*$", "^b.*$", "abc", "bcd"},
         {StringQueryFilter::OP_SIMPLE_WILDCARD_MATCH_IGNORECASE, "a*", "b*", "Abc", "Bcd"}, {StringQueryFilter::OP_REGULAR_EXPRESSION_MATCH_IGNORECASE, "^a.*$", "^b.*$", "ABC", "BCD"} };
      for (size_t i = 0; i < sizeof(u) / sizeof(u[0]); i++) {
         StringQueryFilter used("s", u[i].op, u[i].oldPat), fresh("s", u[i].op, u[i].newPat);
         MessageRef mo = GetMessageFromPool(1), mn = GetMessageFromPool(1); (void)mo()->AddString("s", u[i].oldHit); (void)mn()->AddString("s", u[i].newHit);
         ConstMessageRef c = mo; Expect(T, vh::fmt("op %u [%s] on [%s] before", u[i].op, u[i].oldPat, u[i].oldHit), used.Matches(c, NULL), true);
         Message a; if (fresh.SaveToArchive(a).IsError() || used.SetFromArchive(a).IsError()) { RFail(T, "SaveToArchive/SetFromArchive failed"); continue; }
         c = mn; Expect(T, vh::fmt("op %u: object that had matched with [%s], after SetFromArchive([%s]), on [%s]", u[i].op, u[i].oldPat, u[i].newPat, u[i].newHit), used.Matches(c, NULL), true);
         c = mo; Expect(T, vh::fmt("op %u: object that had matched with [%s], after SetFromArchive([%s]), on [%s]", u[i].op, u[i].oldPat, u[i].newPat, u[i].oldHit), used.Matches(c, NULL), false);
         NodeNameQueryFilter nu(u[i].op, i & 1 ? "^node.*$" : "node*"), nf(u[i].op, i & 1 ? "^Z.*$" : "Z*");
         c = mo; Expect(T, "NodeNameQueryFilter before", nu.Matches(c, rNodes[1]()), true);
         Message na; if (nf.SaveToArchive(na).IsError() || nu.SetFromArchive(na).IsError()) { RFail(T, "NodeName SaveToArchive/SetFromArchive failed"); continue; }
         Expect(T, "NodeNameQueryFilter reused object on node Zed", nu.Matches(c, rNodes[2]()), true); Expect(T, "NodeNameQueryFilter reused object on node node1", nu.Matches(c, rNodes[1]()), false);
      }
      // the other classes: a used object takes over everything from the archive
      Int32QueryFilter nUsed("a", Int32QueryFilter::OP_EQUAL_TO, 1, 2, 7); nUsed.SetMask(NQF_MASK_OP_AND, 3); Int32QueryFilter nFresh("b", Int32QueryFilter::OP_GREATER_THAN, 5);
      MessageRef mb = GetMessageFromPool(1); (void)mb()->AddInt32("b", 6); ConstMessageRef c = mb; (void)nUsed.Matches(c, NULL);
      Message a; if (nFresh.SaveToArchive(a).IsError() || nUsed.SetFromArchive(a).IsError()) RFail(T, "numeric SaveToArchive/SetFromArchive failed");
      else { c = mb; Expect(T, "Int32QueryFilter reused: index, default and mask of the old object are gone", nUsed.Matches(c, NULL) && !nUsed.IsAssumedDefault() && nUsed.GetMaskOp() == NQF_MASK_OP_NONE && nUsed.GetIndex() == 0, true); }
      AndQueryFilter mUsed(ConstQueryFilterRef(new WhatCodeQueryFilter(1)), ConstQueryFilterRef(new WhatCodeQueryFilter(2)), ConstQueryFilterRef(new WhatCodeQueryFilter(3))); c = mb; (void)mUsed.Matches(c, NULL);
      AndQueryFilter mFresh(ConstQueryFilterRef(new WhatCodeQueryFilter(1)));
      Message ma; if (mFresh.SaveToArchive(ma).IsError() || mUsed.SetFromArchive(ma).IsError()) RFail(T, "And SaveToArchive/SetFromArchive failed");
      else { c = mb; Expect(T, "AndQueryFilter reused: three old children replaced by the one archived child", mUsed.Matches(c, NULL) && mUsed.GetChildren().GetNumItems() == 1, true); }
      RawDataQueryFilter rUsed("r", RawDataQueryFilter::OP_EQUAL_TO, BytesRef("a"), B_RAW_TYPE, 0, BytesRef("a")), rFresh("r", RawDataQueryFilter::OP_EQUAL_TO, BytesRef("a")); c = mb; (void)rUsed.Matches(c, NULL);
      Message ra; if (rFresh.SaveToArchive(ra).IsError() || rUsed.SetFromArchive(ra).IsError()) RFail(T, "raw SaveToArchive/SetFromArchive failed");
      else { c = mb; Expect(T, "RawDataQueryFilter reused: the old assumed default is gone", rUsed.Matches(c, NULL), false); }
   }
   vh::stat("regress_checks", regressChecks);
   for (int i = 1; i <= 10; i++) vh::distinct((uint64_t)i);
}

int main(int argc, char ** argv)
{
   CompleteSetupSystem css;
   vh::init(argc, argv);
   vh::Ctx & c = vh::ctx();
   MakeNodes();
   if (vh::has_opt("unspec")) gopt.unspecOneIn = (uint32)vh::optl("unspec", 25);
   const std::string mode = vh::opt("mode", "semantics");
   if (mode == "regress") { Regress(); for (int i = 0; i < NUM_TEST_NODES; i++) rNodes[i].Reset(); return vh::finish(); }
   for (long k = c.from; k < c.from + c.cases; k++) {
      vh::begin_case(k);
      if (mode == "hostile") RunHostileCase(k); else RunSemCase(k);
   }
   if (mode != "hostile") for (int i = 0; i < NUM_FK; i++) { vh::stat(std::string("decisions_") + FKName(i) + "_true", ectx.leafTrue[i]); vh::stat(std::string("decisions_") + FKName(i) + "_false", ectx.leafFalse[i]); vh::stat(std::string("decisions_") + FKName(i) + "_unspecified", ectx.leafUnspec[i]); }
   for (int i = 0; i < NUM_TEST_NODES; i++) rNodes[i].Reset();
   return vh::finish();
}
