// VBUILD: needs-c-codecs
// h_gwpipe -- C03: a gateway delivers exactly the sent Message sequence for every byte segmentation.
// Sender gateway S and receiver gateway R joined by chopio::ChopDataIO (harness/chopio.h); a scheduler interleaves
// S.DoOutput(maxBytes) / R.DoInput(rx, maxBytes) / "queue the next Message" at random until quiescent.
// modes (--opt mode=):
//   pipe (default)  case k = (gateway config k % NCFG, Message sequence (k / NCFG) / 3, schedule (k / NCFG) % 3): the same
//                   sequence runs under three schedules/segmentations.  --opt short=1: short sequences (memcheck leg).
//   sweep           one FIXED sequence per gateway config (independent of --seed); case k = one single cut position: a read
//                   boundary (or a write boundary) exactly at one byte offset of one pipe, every offset 0..L, both kinds;
//                   after these T1 cases follow all PAIRS of read cuts of a tiny two-item sequence (pipes <= 400 bytes).
//                   stats max_sweep_single_total / max_sweep_total give T1 and T1+T2, sweepcut_<cfg> vs max_sweepneed_<cfg>
//                   show that every offset of every config was run.
//   regress         fixed witnesses: F25 (segmented WebSocket handshake with zero-byte reads), F26 (client->server frame
//                   unaltered), the RawData per-chunk recursion found by this harness (stack growth measured, then a
//                   100000-chunk burst; --opt mask=rawrecursion skips it on an older tree), and a replay self-check: 68 cases
//                   are re-run from their chunk log alone and must reproduce every transfer (else HARNESS-ABORT).
// other options: cfg=<config name> (only that config), zerochunks=1 (also 0-byte raw chunks, which Message::FindData() cannot
//                return: judged under <family>|zero-length-chunk-drops-rest-of-message; unspecified input by default)
// violation keys: <family>|lost, |extra, |duplicate, |lost-or-reordered, |altered, |resized, |gateway-error|<call>,
//                 |end-state|<what>, |stalled, |chunk-size, |counted-bytes, raw|unbounded-recursion-per-chunk, regress-F25, regress-F26
//                 (family = msg counted tmpl text textforeign raw slip ws wsforeign cgw)
#include "iogateway/MessageIOGateway.h"
#include "iogateway/TemplatingMessageIOGateway.h"
#include "iogateway/PlainTextMessageIOGateway.h"
#include "iogateway/RawDataMessageIOGateway.h"
#include "iogateway/SLIPFramedDataMessageIOGateway.h"
#include "iogateway/WebSocketMessageIOGateway.h"
#include "dataio/DataIO.h"
#include "system/SetupSystem.h"
#include "syslog/SysLog.h"
#include "lang/c/minimessage/MiniMessage.h"
#include "lang/c/micromessage/MicroMessage.h"
#include "lang/c/minimessage/MiniMessageGateway.h"
#include "lang/c/micromessage/MicroMessageGateway.h"
#include <vector>
#include <string>
#include <map>
#include <algorithm>
#include "vh.h"
#include "chopio.h"
#include "msggen.h"
using namespace muscle;
using chopio::Pipe; using chopio::ChopDataIO; using chopio::Chopper;

static void HarnessAbort(const std::string & why) { fprintf(stderr, "HARNESS-ABORT: %s\n", why.c_str()); fflush(stderr); abort(); }
#define OKB(expr) do { status_t r__ = (expr); if (r__.IsError()) HarnessAbort(std::string("build step failed: " #expr " [") + r__() + "]"); } while (0)

// ------------------------------------------------------------------------------------------------ gateway configurations
enum { F_MSG = 0, F_COUNTED, F_TMPL, F_TEXT, F_TEXTFOREIGN, F_RAW, F_SLIP, F_WS, F_WSFOREIGN, F_CGW, F_FANOUT, NUM_FAMILIES };
static const char * FamilyName(int f) { static const char * const n[] = {"msg", "counted", "tmpl", "text", "textforeign", "raw", "slip", "ws", "wsforeign", "cgw", "fanout"}; return n[f]; }
struct Cfg { const char * name; int family; int a; int b; };
static const Cfg CFGS[] = {
   {"msg_enc0", F_MSG, 0, 0}, {"msg_zlib1", F_MSG, 1, 0}, {"msg_zlib2", F_MSG, 2, 0}, {"msg_zlib3", F_MSG, 3, 0}, {"msg_zlib4", F_MSG, 4, 0}, {"msg_zlib5", F_MSG, 5, 0},
   {"msg_zlib6", F_MSG, 6, 0}, {"msg_zlib7", F_MSG, 7, 0}, {"msg_zlib8", F_MSG, 8, 0}, {"msg_zlib9", F_MSG, 9, 0}, {"msg_switch", F_MSG, -1, 0}, {"counted", F_COUNTED, 0, 0},
   {"tmpl_200", F_TMPL, 200, 0}, {"tmpl_200_z", F_TMPL, 200, 6}, {"tmpl_2k", F_TMPL, 2048, 0}, {"tmpl_2k_z", F_TMPL, 2048, 6}, {"tmpl_1m", F_TMPL, 1024 * 1024, 0}, {"tmpl_1m_z", F_TMPL, 1024 * 1024, 6},
   {"text", F_TEXT, 0, 0}, {"text_foreign", F_TEXTFOREIGN, 0, 0},
   {"raw_min0", F_RAW, 0, 0}, {"raw_min1", F_RAW, 1, 0}, {"raw_min7", F_RAW, 7, 0}, {"raw_min4096", F_RAW, 4096, 0},
   {"slip", F_SLIP, 0, 0},
   {"ws_hs_slave", F_WS, 1, 1}, {"ws_hs_builtin", F_WS, 1, 0}, {"ws_nohs_slave", F_WS, 0, 1}, {"ws_nohs_builtin", F_WS, 0, 0}, {"ws_foreign", F_WSFOREIGN, 0, 0},
   {"cgw_cpp2mini", F_CGW, 0, 0}, {"cgw_mini2cpp", F_CGW, 1, 0}, {"cgw_cpp2micro", F_CGW, 2, 0}, {"cgw_micro2cpp", F_CGW, 3, 0},
   {"fanout", F_FANOUT, 0, 0}, {"fanout2", F_FANOUT, 0, 0},                      // one MessageRef to 2-4 sender gateways (reuse tag); listed twice: twice the share of cases
   {"raw_counted", F_RAW, 0, 1},                                                 // CountedRawDataMessageIOGateway on both ends
   {"text_flush", F_TEXTFOREIGN, 1, 0}, {"text_telnet", F_TEXTFOREIGN, 2, 0},    // foreign text: unterminated last line + end of stream; TelnetPlainTextMessageIOGateway
};
static const int NCFG = (int)(sizeof(CFGS) / sizeof(CFGS[0]));

// ------------------------------------------------------------------------------------------------ small helpers
static std::string Flat(const Message & m) { std::string s(m.FlattenedSize(), '\0'); if (!s.empty()) m.FlattenToBytes((uint8 *)&s[0], (uint32)s.size()); return s; }
// the ITEMS of a text / raw-data Message in the order the built-in senders emit them: all text lines, then all data chunks
static void Items(const Message & m, std::vector<std::string> & out)
{
   const String * s; for (uint32 i = 0; m.FindString(PR_NAME_TEXT_LINE, i, &s).IsOK(); i++) out.push_back(std::string("T:") + std::string(s->Cstr(), s->Length()));
   const void * d; uint32 n; for (uint32 i = 0; m.FindData(PR_NAME_DATA_CHUNKS, B_ANY_TYPE, i, &d, &n).IsOK(); i++) out.push_back(std::string("B:") + std::string((const char *)d, n));
}
static uint32 PickMaxBytes(vh::Rng & r)
{
   static const uint32 s[] = {1, 2, 7, 8, 9, 2047, 2048, 2049};
   uint32 x = r.R(14); if (x < 8) return s[x]; if (x < 12) return MUSCLE_NO_LIMIT; return 1 + r.R(r.R(2) ? 16 : 5000);
}
static std::string RandBytes(vh::Rng & r, uint32 n) { std::string s(n, '\0'); for (uint32 i = 0; i < n; i++) s[i] = (char)r.R(256); return s; }
static std::string RandLetters(vh::Rng & r, uint32 n) { std::string s(n, '\0'); for (uint32 i = 0; i < n; i++) s[i] = (char)('a' + r.R(26)); return s; }
// a text line as the text gateways carry it: any byte except NUL, CR, LF
static std::string RandLine(vh::Rng & r, uint32 n) { std::string s(n, '\0'); for (uint32 i = 0; i < n; i++) { uint32 c = r.R(8) == 0 ? 1 + r.R(255) : 32 + r.R(95); if (c == '\r' || c == '\n') c = ' '; s[i] = (char)c; } return s; }

// ------------------------------------------------------------------------------------------------ Message generators
static MessageRef LocalMsg(vh::Rng & r)
{
   MessageRef m = GetMessageFromPool(1000 + r.R(50)); if (m() == NULL) HarnessAbort("GetMessageFromPool");
   int nf = 1 + r.R(4);
   for (int i = 0; i < nf; i++) {
      char fn[16]; snprintf(fn, sizeof(fn), "f%d", i);
      switch (r.R(6)) {
      case 0: OKB(m()->AddInt32(fn, (int32)r.next())); break;
      case 1: OKB(m()->AddString(fn, RandLetters(r, r.R(5) == 0 ? r.R(3000) : r.R(40)).c_str())); break;
      case 2: OKB(m()->AddDouble(fn, (double)r.R(1000) / 7)); OKB(m()->AddDouble(fn, 2.0)); break;
      case 3: { MessageRef sub = GetMessageFromPool(5); OKB(sub()->AddInt16("q", (int16)r.R(100))); OKB(sub()->AddString("z", r.R(2) ? "hello" : "")); OKB(m()->AddMessage(fn, sub)); } break;
      case 4: { std::string b = RandBytes(r, 1 + r.R(64)); OKB(m()->AddData(fn, B_RAW_TYPE, b.data(), (uint32)b.size())); } break;
      default: { uint32 c = 1 + r.R(5); for (uint32 k = 0; k < c; k++) OKB(m()->AddInt64(fn, (int64)r.next())); } break;
      }
   }
   return m;
}
// adds a string field "pad" so that FlattenedSize() == target; false when the Message is already too large
static bool PadToFlatSize(Message & m, uint32 target, vh::Rng & r, bool incompressible)
{
   if (m.HasName("pad")) return false;
   OKB(m.AddString("pad", ""));
   uint32 s0 = m.FlattenedSize(); if (s0 > target) { (void)m.RemoveName("pad"); return false; }
   std::string p(target - s0, 'p'); if (incompressible) for (size_t i = 0; i < p.size(); i++) p[i] = (char)(33 + r.R(90));
   OKB(m.ReplaceString(false, "pad", p.c_str()));
   if (m.FlattenedSize() != target) HarnessAbort(vh::fmt("PadToFlatSize: got %u want %u", m.FlattenedSize(), target));
   return true;
}
static MessageRef GenVia(vh::Rng & r, bool common, int sizeClass)
{
   msggen::GenOptions o = common ? msggen::GenOptions::CommonCodecRepertoire() : msggen::GenOptions::Flattenable();
   o.sizeClass = sizeClass; o.allowSharedFields = false;
   if (sizeClass == msggen::SIZE_SMALL) { o.maxDepth = 2; o.maxTopFields = 5; o.maxSubFields = 3; }
   return msggen::GenMessage(r, o);
}
// one Message for a binary gateway; frameOverhead = bytes the transport adds in front of the flattened Message (8), targets = interesting total frame sizes
static MessageRef GenBinMsg(vh::Rng & r, bool common, bool shortSeq, const std::vector<MessageRef> & earlier, const uint32 * targets, uint32 nTargets, uint32 frameOverhead, uint32 maxFlat)
{
   for (int tries = 0; tries < 50; tries++) {
      MessageRef m; uint32 roll = r.R(100);
      if (roll < 12) m = GetMessageFromPool(r.R(2) ? r.R(1000) : (uint32)r.next());
      else if (roll < 50) m = GenVia(r, common, msggen::SIZE_SMALL);
      else if (roll < 60) m = shortSeq ? LocalMsg(r) : GenVia(r, common, msggen::SIZE_NORMAL);
      else if (roll < 76 && nTargets) { m = LocalMsg(r); uint32 t = targets[r.R(nTargets)]; if ((t > 3000 && shortSeq) || !PadToFlatSize(*m(), t - frameOverhead, r, r.R(2) != 0)) m = LocalMsg(r); else vh::stat("msgs_padded_to_target_frame_size"); }
      else if (roll < 86 && !earlier.empty()) m = earlier[r.R((uint32)earlier.size())];
      else m = LocalMsg(r);
      if (m() && m()->FlattenedSize() <= maxFlat) return m;
   }
   return LocalMsg(r);
}

// templating: a SHAPE fixes field names, types and item counts (= one template); instances differ in values only
struct Shape { uint32 what; struct Fld { std::string name; int type; uint32 count; std::vector<Shape> sub; }; std::vector<Fld> f; };
static Shape MakeShape(vh::Rng & r, int id, int depth, bool fat)
{
   Shape s; s.what = 2000 + id; uint32 nf = fat ? 18 + r.R(25) : 1 + r.R(6);
   for (uint32 i = 0; i < nf; i++) {
      Shape::Fld f; f.name = fat ? vh::fmt("shape%d_field_number_%u", id, i) : vh::fmt("s%d_%u", id, i);
      f.type = (int)r.R(depth < 2 ? 12 : 11); f.count = 1 + (r.R(3) == 0 ? r.R(4) : 0);
      if (f.type == 11) f.sub.push_back(MakeShape(r, id * 10 + (int)i + 100, depth + 1, false));
      s.f.push_back(f);
   }
   return s;
}
static MessageRef Instantiate(const Shape & s, vh::Rng & r)
{
   MessageRef m = GetMessageFromPool(r.R(3) == 0 ? (uint32)r.next() : s.what); if (m() == NULL) HarnessAbort("GetMessageFromPool");
   for (size_t i = 0; i < s.f.size(); i++) {
      const Shape::Fld & f = s.f[i]; const char * fn = f.name.c_str();
      for (uint32 k = 0; k < f.count; k++) switch (f.type) {
         case 0: OKB(m()->AddInt32(fn, (int32)r.next())); break;
         case 1: OKB(m()->AddInt64(fn, (int64)r.next())); break;
         case 2: OKB(m()->AddString(fn, RandLetters(r, r.R(8) == 0 ? r.R(600) : r.R(30)).c_str())); break;
         case 3: OKB(m()->AddDouble(fn, (double)(int32)r.next() / 3)); break;
         case 4: OKB(m()->AddBool(fn, r.R(2) != 0)); break;
         case 5: { std::string b = RandBytes(r, 1 + r.R(40)); OKB(m()->AddData(fn, B_RAW_TYPE, b.data(), (uint32)b.size())); } break;
         case 6: OKB(m()->AddInt8(fn, (int8)r.next())); break;
         case 7: OKB(m()->AddInt16(fn, (int16)r.next())); break;
         case 8: OKB(m()->AddFloat(fn, (float)(int32)r.R(100000) / 8)); break;
         case 9: OKB(m()->AddPoint(fn, Point((float)r.R(100), (float)r.R(100)))); break;
         case 10: OKB(m()->AddRect(fn, Rect((float)r.R(100), (float)r.R(100), (float)r.R(100), (float)r.R(100)))); break;
         default: OKB(m()->AddMessage(fn, Instantiate(f.sub[0], r))); break;
      }
   }
   return m;
}

// ---- Messages with EQUAL TemplateHashCode64() but DIFFERENT layouts (the templating gateways key their template caches by that code alone).
// The code is a sum over the flattenable fields, in order, of position * (hash(name) + itemCount * typeCode), positions running on through sub-Messages.
// A collision GROUP is (recipe, salt); its members differ only in the colliding part, a common prefix of ordinary fields shifts all positions alike.
//   recipe 0: one field of user type t with n items, n*t equal:            6x1 / 3x2 / 2x3 / 1x6
//   recipe 1: the same, under the EMPTY field name
//   recipe 2: a type-code-0 field (contributes nothing but its name) with 1 / 2 / 4 items
//   recipe 3: a trailing field {"" : type 0} present / absent / with 3 items (hash("") is what it is: the harness checks the codes really are equal)
//   recipe 4: two adjacent user-typed fields whose type codes trade position weight: (100+p+1, 100) / (100, 100+p) at positions p, p+1
//   recipe 5: a field inside / behind a sub-Message (positions run on through sub-Messages): {sub:{a}, b} / {sub:{a, b}}
//   recipe 6: two sub-Message items sharing their fields differently: {s:[{a},{b}]} / {s:[{a,b},{}]}
static const int NUM_COLLIDE_RECIPES = 7;
static int ColliderMembers(int recipe) { static const int n[NUM_COLLIDE_RECIPES] = {4, 4, 3, 3, 2, 2, 2}; return n[recipe]; }
static void AddUserItems(Message & m, const char * fn, uint32 type, uint32 n, vh::Rng & r) { for (uint32 i = 0; i < n; i++) { std::string b = RandBytes(r, 1 + r.R(12)); OKB(m.AddData(fn, type, b.data(), (uint32)b.size())); } }
static MessageRef MakeCollider(int recipe, int member, uint32 salt, vh::Rng & r)
{
   MessageRef mr = GetMessageFromPool(3000 + salt % 7); if (mr() == NULL) HarnessAbort("GetMessageFromPool"); Message & m = *mr();
   const uint32 npre = salt % 3; for (uint32 i = 0; i < npre; i++) { if (i == 0) OKB(m.AddInt32(vh::fmt("id%u", salt).c_str(), (int32)r.next())); else OKB(m.AddString("label", RandLetters(r, r.R(20)).c_str())); }
   const uint32 p = npre + 1; const std::string x = vh::fmt("x%u", salt % 5);
   switch (recipe) {
   case 0: case 1: { static const uint32 T[4] = {6, 3, 2, 1}, N[4] = {1, 2, 3, 6}; AddUserItems(m, recipe ? "" : x.c_str(), T[member], N[member], r); } break;
   case 2: { static const uint32 N[3] = {1, 2, 4}; AddUserItems(m, x.c_str(), 0, N[member], r); } break;
   case 3: OKB(m.AddInt32("v", (int32)r.next())); if (member) AddUserItems(m, "", 0, member == 1 ? 1 : 3, r); break;
   case 4: AddUserItems(m, "first", member ? 100 : 100 + p + 1, 1, r); AddUserItems(m, "second", member ? 100 + p : 100, 1, r); break;
   case 5: { MessageRef sub = GetMessageFromPool(1); OKB(sub()->AddInt32("a", (int32)r.next())); if (member) OKB(sub()->AddInt32("b", (int32)r.next())); OKB(m.AddMessage("sub", sub)); if (!member) OKB(m.AddInt32("b", (int32)r.next())); } break;
   default: { MessageRef s1 = GetMessageFromPool(1), s2 = GetMessageFromPool(2); OKB(s1()->AddInt16("a", (int16)r.next())); OKB((member ? s1 : s2)()->AddString("b", RandLetters(r, r.R(9)).c_str())); OKB(m.AddMessage("s", s1)); OKB(m.AddMessage("s", s2)); } break;
   }
   return mr;
}
// names, type codes and item counts of the flattenable fields, in order, recursively: what a template describes
static std::string LayoutSig(const Message & m)
{
   std::string o = "{";
   for (MessageFieldNameIterator it = m.GetFieldNameIterator(); it.HasData(); it++) {
      const String & fn = it.GetFieldName(); uint32 t = 0, n = 0; if (m.GetInfo(fn, &t, &n).IsError() || t == B_POINTER_TYPE || t == B_TAG_TYPE) continue;
      o += vh::fmt("%u:", fn.Length()); o.append(fn(), fn.Length()); o += vh::fmt("/%u*%u", t, n);
      if (t == B_MESSAGE_TYPE) for (uint32 i = 0; i < n; i++) { ConstMessageRef sub; if (m.FindMessage(fn, i, sub).IsOK()) o += LayoutSig(*sub()); }
      o += ';';
   }
   return o + "}";
}
// counts the plan items whose hash code was already used in this sequence by a DIFFERENT layout
struct CollisionCounter {
   std::map<uint64, std::set<std::string> > seen;
   void Note(const Message & m) { if (m.GetNumNames() == 0) return; std::set<std::string> & s = seen[m.TemplateHashCode64()]; std::string sig = LayoutSig(m); if (!s.empty() && s.count(sig) == 0) vh::stat("template_hash_collisions_sent"); if (s.size() >= 1 && s.count(sig) == 0 && s.size() == 1) vh::stat("template_hash_collision_groups"); s.insert(sig); }
};
// a collision group for one sequence: picks a recipe, checks that the codes really collide (else counts the recipe as not colliding and yields nothing)
struct ColliderGroup {
   int recipe; uint32 salt; bool ok;
   ColliderGroup() : recipe(0), salt(0), ok(false) {}
   void Draw(vh::Rng & r)
   {
      recipe = (int)r.R(NUM_COLLIDE_RECIPES); salt = r.R(1000); vh::Rng probe(salt); ok = true;
      uint64 h0 = MakeCollider(recipe, 0, salt, probe)()->TemplateHashCode64();
      for (int k = 1; k < ColliderMembers(recipe); k++) if (MakeCollider(recipe, k, salt, probe)()->TemplateHashCode64() != h0) ok = false;
      vh::stat(vh::fmt(ok ? "collide_recipe%d_groups" : "collide_recipe%d_not_colliding", recipe));
   }
   MessageRef Next(vh::Rng & r) const { return MakeCollider(recipe, (int)r.R((uint32)ColliderMembers(recipe)), salt, r); }
};

// ------------------------------------------------------------------------------------------------ receiver, session base
struct Rx : public AbstractGatewayMessageReceiver {
   int mode;                                // 0: one entry per Message (flattened bytes); 1: one entry per item ("T:line" / "B:chunk")
   std::vector<std::string> got; long msgs, batchBegins, batchEnds;
   explicit Rx(int m = 0) : mode(m), msgs(0), batchBegins(0), batchEnds(0) {}
   virtual void MessageReceivedFromGateway(const MessageRef & m, void *) { msgs++; if (m() == NULL) { got.push_back("<NULL MessageRef>"); return; } if (mode == 0) got.push_back(Flat(*m())); else Items(*m(), got); }
   virtual void BeginMessageReceivedFromGatewayBatch() { batchBegins++; }
   virtual void EndMessageReceivedFromGatewayBatch() { batchEnds++; }
};

struct Session {
   const Cfg & cfg; Chopper chop; std::vector<Pipe *> pipes; vh::Rng sq; bool shortSeq; int fixed;   // fixed: 0 random plan, 1 the sweep's fixed plan, 2 its tiny two-item prefix
   bool failed; std::string failKey, failDetail; uint32 planned, queued; long delivered;
   Session(const Cfg & c, uint64_t seqSeed, uint64_t schedSeed, bool s, int fx) : cfg(c), chop(vh::mix64(schedSeed ^ 0xC0FFEEULL)), sq(seqSeed), shortSeq(s), fixed(fx), failed(false), planned(0), queued(0), delivered(0), resets(0) {}
   virtual ~Session() {}
   virtual bool QueueNext() = 0;                  // hand the next planned item to a sender; false = not possible right now
   virtual int NumActions() const = 0;
   virtual long Act(int a, uint32 maxBytes) = 0;  // one DoOutput / DoInput; bytes moved, or -1 after Fail()
   virtual void Finish() = 0;                     // the oracle
   virtual bool ChoppedWrites() const { return true; }   // false when a foreign writer appends to the pipe directly
   // Reset-then-reuse (AbstractMessageIOGateway::Reset(): "any partially completed sends and receives should be cleared, so that the gateway is ready to
   // send and receive fresh data streams"): what arrived so far must be a prefix of what was sent; then BOTH ends are Reset(), the bytes in flight are
   // discarded (Pipe::Restart()) and a second sequence is planned, which must be delivered exactly.
   virtual bool SupportsReset() const { return false; }
   virtual bool ResetAllowedNow() const { return true; }
   virtual void ResetAndReplan() {}
   int resets;
   void RestartPipe(size_t idx) { pipes[idx]->Restart(); chop.NoteRestart((uint8_t)idx, pipes[idx]->Written()); }
   virtual std::string Describe() const { return ""; }
   void Fail(const std::string & rule, const std::string & detail) { if (failed) return; failed = true; failKey = std::string(FamilyName(cfg.family)) + "|" + rule; failDetail = detail; }
   long Io(const io_status_t & st, const char * call) { if (st.IsError()) { Fail(std::string("gateway-error|") + call, vh::fmt("%s returned error [%s]", call, st.GetStatus()())); return -1; } return st.GetByteCount(); }
   void EndState(bool hasBytes, const char * who) { if (hasBytes) Fail("end-state|HasBytesToOutput", vh::fmt("%s still reports bytes to output although the transport accepted everything it offered", who)); }
   void EndPipes() { for (size_t i = 0; i < pipes.size(); i++) if (!pipes[i]->Empty()) Fail("end-state|unread-bytes", vh::fmt("%zu bytes of pipe %zu (of %zu written) were never read although the transport offered them", pipes[i]->Unread(), i, pipes[i]->Written())); }
   void EndStatus(AbstractMessageIOGateway & g, const char * who) { if (g.GetUnrecoverableErrorStatus().IsError()) Fail("gateway-error|unrecoverable", vh::fmt("%s ends with unrecoverable error status [%s]", who, g.GetUnrecoverableErrorStatus()())); }
};

static std::string Show(const std::string & s, bool binary) { if (binary || s.size() > 60) return vh::fmt("%zu bytes %s", s.size(), vh::hex(s.data(), s.size(), 48).c_str()); return "'" + s + "'"; }
static void CompareSeq(Session & s, const char * what, const std::vector<std::string> & exp, const std::vector<std::string> & got, bool binary)
{
   s.delivered += (long)got.size();
   if (exp == got) return;
   size_t i = 0; while (i < exp.size() && i < got.size() && exp[i] == got[i]) i++;
   std::string rule;
   if (i == got.size()) rule = "lost"; else if (i == exp.size()) rule = "extra";
   else {
      bool later = false; for (size_t j = i + 1; j < exp.size(); j++) if (exp[j] == got[i]) later = true;
      bool earlier = i > 0 && got[i] == exp[i - 1] && got[i] != exp[i];
      rule = earlier ? "duplicate" : later ? "lost-or-reordered" : got[i].size() == exp[i].size() ? "altered" : "resized";
   }
   std::string d = vh::fmt("%s sequence differs at index %zu: %zu sent, %zu received", what, i, exp.size(), got.size());
   if (i < exp.size()) d += " | sent[i] = " + Show(exp[i], binary); if (i < got.size()) d += " | received[i] = " + Show(got[i], binary);
   if (i < exp.size() && i < got.size()) { size_t o = 0; while (o < exp[i].size() && o < got[i].size() && exp[i][o] == got[i][o]) o++; d += vh::fmt(" | first differing byte offset %zu", o); }
   s.Fail(rule, d);
}

// before a Reset(): what has arrived must be a prefix of what was sent
static void ComparePrefix(Session & s, const char * what, const std::vector<std::string> & exp, const std::vector<std::string> & got, bool binary)
{
   if (got.size() > exp.size()) { CompareSeq(s, what, exp, got, binary); return; }
   std::vector<std::string> e(exp.begin(), exp.begin() + got.size()); CompareSeq(s, what, e, got, binary);
}

// ------------------------------------------------------------------------------------------------ MessageIOGateway / Counted / Templating
struct BinSession : public Session {
   Pipe pipe; ChopDataIO sio, rio; AbstractMessageIOGatewayRef S, R; Rx rx;
   std::vector<MessageRef> plan; std::vector<int> encPlan; std::vector<std::string> exp; MessageIOGateway * sMsg; CountedMessageIOGateway * sCounted;
   BinSession(const Cfg & c, uint64_t seqSeed, uint64_t schedSeed, bool s, int fx) : Session(c, seqSeed, schedSeed, s, fx), pipe(chopio::FR_MUSCLE8), sio(NULL, &pipe, &chop), rio(&pipe, NULL, &chop), rx(0), sMsg(NULL), sCounted(NULL)
   {
      pipes.push_back(&pipe);
      const int D = MUSCLE_MESSAGE_ENCODING_DEFAULT;
      if (cfg.family == F_MSG) { int e = cfg.a >= 0 ? cfg.a : (int)sq.R(10); S.SetRef(sMsg = new MessageIOGateway(D + e)); R.SetRef(new MessageIOGateway()); }
      else if (cfg.family == F_COUNTED) { int e = fixed ? 0 : sq.R(3) == 0 ? 6 : sq.R(2) ? 0 : (int)sq.R(10); S.SetRef(sCounted = new CountedMessageIOGateway(D + e)); sMsg = sCounted; R.SetRef(new CountedMessageIOGateway()); }
      else { S.SetRef(sMsg = sCounted = new TemplatingMessageIOGateway((uint32)cfg.a, D + cfg.b)); R.SetRef(new TemplatingMessageIOGateway((uint32)cfg.a)); }
      S()->SetDataIO(DummyDataIORef(sio)); R()->SetDataIO(DummyDataIORef(rio));
      Replan();
   }
   void Replan()
   {
      plan.clear(); encPlan.clear(); exp.clear(); rx.got.clear(); queued = 0;
      if (cfg.family == F_TMPL) PlanTemplating(); else PlanPlain();
      planned = (uint32)plan.size(); encPlan.resize(plan.size(), -1);
      if (cfg.family == F_MSG && cfg.a < 0) for (size_t i = 0; i < plan.size(); i++) if (fixed ? (i % 2 == 1) : sq.R(3) == 0) encPlan[i] = fixed ? (int)((i * 3) % 10) : (int)sq.R(10);
      for (size_t i = 0; i < plan.size(); i++) exp.push_back(Flat(*plan[i]()));
      if (cfg.family == F_TMPL && !fixed) { CollisionCounter cc; for (size_t i = 0; i < plan.size(); i++) cc.Note(*plan[i]()); }
   }
   ~BinSession() { S()->SetDataIO(DataIORef()); R()->SetDataIO(DataIORef()); }
   virtual bool SupportsReset() const { return true; }
   virtual void ResetAndReplan()
   {
      ComparePrefix(*this, "Message (before Reset)", exp, rx.got, true); if (failed) return;
      S()->Reset(); R()->Reset(); RestartPipe(0); resets++; CheckCounted("after Reset()");
      if (S()->HasBytesToOutput()) { Fail("reset|HasBytesToOutput", "the sender reports bytes to output right after Reset()"); return; }
      Replan();
   }
   void FixedPlan()
   {  // what-only, small, exactly 2048 and 2049 frame bytes (scratch buffer fits / does not fit), small
      plan.push_back(GetMessageFromPool(7)); plan.push_back(LocalMsg(sq));
      if (fixed == 1) { for (uint32 t = 2040; t <= 2041; t++) { MessageRef a = GetMessageFromPool(t); OKB(a()->AddInt32("n", (int32)t)); if (!PadToFlatSize(*a(), t, sq, true)) HarnessAbort("fixed plan"); plan.push_back(a); } plan.push_back(GenVia(sq, false, msggen::SIZE_SMALL)); }
   }
   void PlanPlain()
   {
      if (fixed) { FixedPlan(); return; }
      static const uint32 T[] = {2046, 2047, 2048, 2049, 2050, 4096};
      uint32 nm = shortSeq ? 1 + sq.R(4) : 1 + sq.R(10);
      for (uint32 i = 0; i < nm; i++) plan.push_back(GenBinMsg(sq, false, shortSeq, plan, T, 6, 8, 400000));
   }
   void PlanTemplating()
   {
      if (fixed) { Shape a = MakeShape(sq, 1, 0, false), b = MakeShape(sq, 2, 0, true); plan.push_back(GetMessageFromPool(7)); plan.push_back(Instantiate(a, sq)); if (fixed == 1) { plan.push_back(Instantiate(b, sq)); plan.push_back(Instantiate(a, sq)); plan.push_back(Instantiate(b, sq)); plan.push_back(Instantiate(a, sq)); vh::Rng cr(11); plan.push_back(MakeCollider(0, 0, 4, cr)); plan.push_back(MakeCollider(0, 1, 4, cr)); plan.push_back(MakeCollider(0, 0, 4, cr)); plan.push_back(MakeCollider(5, 0, 4, cr)); plan.push_back(MakeCollider(5, 1, 4, cr)); } return; }
      static const uint32 PS[] = {1, 2, 3, 6, 12};
      uint32 P = PS[sq.R(5)]; std::vector<Shape> shapes; for (uint32 i = 0; i < P; i++) shapes.push_back(MakeShape(sq, (int)i, 0, sq.R(3) == 0));
      uint32 nm = shortSeq ? 2 + sq.R(5) : 3 + sq.R(22); uint32 pattern = sq.R(4);   // 0 cycle (LRU thrash), 1 random, 2 hot+cold, 3 runs
      ColliderGroup cg[2]; const uint32 ncg = sq.R(5) < 2 ? 1 + sq.R(2) : 0; for (uint32 i = 0; i < ncg; i++) cg[i].Draw(sq);   // 40% of the sequences: 1-2 groups of hash-colliding layouts, interleaved with the ordinary traffic (and its evictions)
      for (uint32 i = 0; i < nm; i++) {
         uint32 roll = sq.R(100);
         if (ncg && sq.R(10) < 3) { const ColliderGroup & g = cg[sq.R(ncg)]; if (g.ok) { plan.push_back(g.Next(sq)); if (sq.R(3) == 0) plan.push_back(g.Next(sq)); continue; } }
         if (roll < 8) plan.push_back(GetMessageFromPool(sq.R(100)));                                         // what-only: the 4-byte special form
         else if (roll < 18) { MessageRef m = GenVia(sq, false, msggen::SIZE_SMALL); plan.push_back(m); if (sq.R(2)) plan.push_back(m); }   // any flattenable Message, sent twice: second time through its template
         else { uint32 si = pattern == 0 ? i % P : pattern == 1 ? sq.R(P) : pattern == 2 ? (sq.R(3) ? 0 : sq.R(P)) : (i / 3) % P; plan.push_back(Instantiate(shapes[si], sq)); }
      }
   }
   void CheckCounted(const char * when)
   {
      if (sCounted == NULL || failed) return;
      uint32 sum = 0; const Queue<MessageRef> & q = S()->GetOutgoingMessageQueue(); for (uint32 i = 0; i < q.GetNumItems(); i++) sum += q[i]()->FlattenedSize();
      if (sCounted->GetNumOutgoingDataBytes() != sum) Fail("counted-bytes", vh::fmt("%s: GetNumOutgoingDataBytes()=%u, the %u queued Messages flatten to %u bytes", when, sCounted->GetNumOutgoingDataBytes(), q.GetNumItems(), sum));
   }
   virtual bool QueueNext()
   {
      if (queued >= planned) return false;
      if (encPlan[queued] >= 0) { sMsg->SetOutgoingEncoding(MUSCLE_MESSAGE_ENCODING_DEFAULT + encPlan[queued]); vh::stat("encoding_switches"); }
      status_t r = S()->AddOutgoingMessage(plan[queued]); if (r.IsError()) { Fail("gateway-error|AddOutgoingMessage", r()); return false; }
      queued++; CheckCounted("after AddOutgoingMessage"); return true;
   }
   virtual int NumActions() const { return 2; }
   virtual long Act(int a, uint32 mb)
   {
      if (a == 0) { long n = Io(S()->DoOutput(mb), "DoOutput"); CheckCounted("after DoOutput"); return failed ? -1 : n; }
      return Io(R()->DoInput(rx, mb), "DoInput");
   }
   virtual void Finish()
   {
      CompareSeq(*this, "Message", exp, rx.got, true);
      EndState(S()->HasBytesToOutput(), "sender"); EndPipes(); EndStatus(*S(), "sender"); EndStatus(*R(), "receiver"); CheckCounted("at the end");
      if (cfg.family == F_TMPL && !failed) {
         long created = 0, payloadOnly = 0; for (size_t i = 0; i < pipe.frames.size(); i++) { const chopio::FrameMark & f = pipe.frames[i]; if (f.start + 8 <= pipe.buf.size()) { if (pipe.buf[f.start + 3] & 0x80) created++; if (pipe.buf[f.start + 7] & 0x80) payloadOnly++; } }
         std::set<uint64> hashes; for (size_t i = 0; i < plan.size(); i++) if (plan[i]()->GetNumNames()) hashes.insert(plan[i]()->TemplateHashCode64());
         vh::stat("tmpl_frames_creating_template", created); vh::stat("tmpl_frames_payload_only", payloadOnly);
         if (created > (long)hashes.size()) { vh::stat("tmpl_cases_with_eviction_and_recreation"); vh::stat("tmpl_templates_recreated_after_eviction", created - (long)hashes.size()); }
      }
   }
   virtual std::string Describe() const { std::string d = vh::fmt("%zu Messages, flattened sizes:", plan.size()); for (size_t i = 0; i < exp.size() && i < 30; i++) d += vh::fmt(" %zu", exp[i].size()); return d; }
};

// ------------------------------------------------------------------------------------------------ PlainText (muscle sender, or a foreign sender writing raw text)
struct TextSession : public Session {
   Pipe pipe; ChopDataIO sio, rio; PlainTextMessageIOGateway S; PlainTextMessageIOGatewayRef R; Rx rx;
   std::vector<MessageRef> plan; std::vector<std::string> rawPlan, exp; bool foreign, telnet, willClose, eof; size_t phaseStart; std::string eol;
   TextSession(const Cfg & c, uint64_t seqSeed, uint64_t schedSeed, bool s, int fx) : Session(c, seqSeed, schedSeed, s, fx), pipe(chopio::FR_LINES), sio(NULL, &pipe, &chop), rio(&pipe, NULL, &chop), rx(1), foreign(c.family == F_TEXTFOREIGN), telnet(c.family == F_TEXTFOREIGN && c.a == 2), willClose(false), eof(false), phaseStart(0), eol("\r\n")
   {
      pipes.push_back(&pipe); if (telnet) R.SetRef(new TelnetPlainTextMessageIOGateway); else R.SetRef(new PlainTextMessageIOGateway);
      S.SetDataIO(DummyDataIORef(sio)); R()->SetDataIO(DummyDataIORef(rio));
      if (!foreign && !fixed) { static const char * const E[4] = {"\r\n", "\r\n", "\n", "\r"}; eol = E[sq.R(4)]; S.SetOutgoingEndOfLineString(eol.c_str()); if (eol != "\r\n") vh::stat("text_cases_with_other_eol_string"); }
      Replan();
   }
   // telnet: IAC + 2 bytes, IAC SB ... IAC SE sub-negotiations, stray high-bit bytes: all stripped by the receiver, wherever a read boundary falls
   void AddTelnetNoise(std::string & raw)
   {
      switch (sq.R(4)) {
      case 0: raw += (char)255; raw += (char)(251 + sq.R(4)); raw += (char)sq.R(50); vh::stat("telnet_commands"); break;                                   // IAC WILL/WONT/DO/DONT option
      case 1: raw += (char)255; raw += (char)250; raw += (char)sq.R(40); { uint32 n = sq.R(12); for (uint32 k = 0; k < n; k++) raw += (char)(sq.R(6) == 0 ? (sq.R(2) ? '\r' : '\n') : 32 + sq.R(90)); } raw += (char)255; raw += (char)240; vh::stat("telnet_subnegotiations"); break;
      case 2: raw += (char)(128 + sq.R(112)); vh::stat("telnet_high_bit_bytes"); break;                                                                  // 128..239: no telnet meaning, stripped
      default: raw += (char)255; raw += (char)(241 + sq.R(9)); raw += (char)(sq.R(3) == 0 ? '\n' : 'x'); vh::stat("telnet_commands"); break;              // a 3-byte command whose last byte may look like a terminator
      }
   }
   void Replan()
   {
      plan.clear(); rawPlan.clear(); exp.clear(); rx.got.clear(); queued = 0; eof = false; phaseStart = pipe.Written();
      willClose = foreign && (cfg.a == 1 || (cfg.a == 2 && sq.R(2)));   // (the sweep's fixed plan draws from a fixed seed, so it is the same every time)
      uint32 nm = fixed == 2 ? 2 : fixed ? 5 : shortSeq ? 1 + sq.R(4) : 1 + sq.R(12);
      for (uint32 i = 0; i < nm; i++) {
         uint32 nl = fixed ? 2 : sq.R(10) == 0 ? 0 : 1 + sq.R(4); MessageRef m = GetMessageFromPool(PR_COMMAND_TEXT_STRINGS); std::string raw;
         for (uint32 j = 0; j < nl; j++) {
            uint32 len = fixed ? ((i == 3 && j == 0) ? 2100 : (j == 1 && i % 2) ? 0 : 5 + i) : sq.R(5) == 0 ? 0 : sq.R(6) == 0 ? sq.R(5000) : sq.R(30);
            std::string l = telnet ? RandLetters(sq, len) : RandLine(sq, len);
            if (foreign) {
               static const char * const T[3] = {"\r\n", "\n", "\r"};
               if (telnet) { std::string t; size_t from = 0; uint32 ins = sq.R(4); for (uint32 k = 0; k < ins; k++) { size_t at = from + sq.R((uint32)(l.size() - from) + 1); t.append(l, from, at - from); AddTelnetNoise(t); from = at; } t.append(l, from, std::string::npos); l = t; }
               raw += l; if (!(willClose && i + 1 == nm && j + 1 == nl && sq.R(4))) raw += T[fixed ? (i + j) % 3 : sq.R(3)]; else vh::stat("text_unterminated_last_lines");
               if (telnet && sq.R(3) == 0) AddTelnetNoise(raw);
            }
            else { OKB(m()->AddString(PR_NAME_TEXT_LINE, l.c_str())); exp.push_back("T:" + l); }
         }
         if (foreign) rawPlan.push_back(raw); else plan.push_back(m);
      }
      planned = nm;
   }
   ~TextSession() { S.SetDataIO(DataIORef()); R()->SetDataIO(DataIORef()); }
   virtual bool ChoppedWrites() const { return !foreign; }
   virtual bool SupportsReset() const { return true; }
   virtual void ResetAndReplan()
   {
      if (foreign) Reference();
      ComparePrefix(*this, "text line (before Reset)", exp, rx.got, false); if (failed) return;
      if (!foreign) S.Reset(); R()->Reset(); RestartPipe(0); resets++;
      if (!foreign && S.HasBytesToOutput()) { Fail("reset|HasBytesToOutput", "the sender reports bytes to output right after Reset()"); return; }
      if (R()->HasBufferedIncomingText()) { Fail("reset|buffered-text-survives", "the receiver still holds buffered incoming text right after Reset()"); return; }
      Replan();
   }
   virtual bool QueueNext()
   {
      if (queued >= planned) return false;
      if (foreign) { pipe.Append(rawPlan[queued]); if (willClose && queued + 1 == planned) pipe.closed = true; } else { status_t r = S.AddOutgoingMessage(plan[queued]); if (r.IsError()) { Fail("gateway-error|AddOutgoingMessage", r()); return false; } }
      queued++; return true;
   }
   virtual int NumActions() const { return foreign ? 1 : 2; }
   virtual long Act(int a, uint32 mb)
   {
      if (a == 0 && !foreign) return Io(S.DoOutput(mb), "DoOutput");
      if (eof) return 0;
      const bool atEnd = pipe.closed && pipe.Empty(); io_status_t st = R()->DoInput(rx, mb);
      if (atEnd && st.IsError()) { eof = true; vh::stat("text_end_of_stream_seen"); return 0; }   // the stream has ended: the gateway reports the error and must first flush an unterminated last line
      return Io(st, "DoInput");
   }
   // reference for a foreign stream, judged on the bytes actually written since the last Reset(): (telnet: strip command bytes first, with the state
   // machine the class describes, over the UNSEGMENTED stream;) CR, LF and CRLF each end a line; an unterminated tail is delivered when the stream ends
   void Reference()
   {
      exp.clear(); std::string cur, f; const std::vector<uint8_t> & b = pipe.buf;
      if (telnet) { uint32 left = 0; bool sub = false; for (size_t i = phaseStart; i < b.size(); i++) { uint8_t c = b[i]; bool keep = (c & 0x80) == 0; if (c == 255) left = 3; else if (c == 250) sub = true; else if (c == 240) { sub = false; left = 0; } if (left > 0) { left--; keep = false; } if (sub) keep = false; if (keep) f.push_back((char)c); } }
      else f.assign(b.begin() + (long)phaseStart, b.end());
      for (size_t i = 0; i < f.size(); i++) { if (f[i] == '\r') { exp.push_back("T:" + cur); cur.clear(); if (i + 1 < f.size() && f[i + 1] == '\n') i++; } else if (f[i] == '\n') { exp.push_back("T:" + cur); cur.clear(); } else cur.push_back(f[i]); }
      if (eof && !cur.empty()) exp.push_back("T:" + cur);
   }
   virtual void Finish()
   {
      if (foreign) { if (pipe.closed && !eof && !failed) Fail("end-state|end-of-stream-not-reported", "the stream was closed and drained, but no DoInput() call reported it"); Reference(); }
      CompareSeq(*this, "text line", exp, rx.got, false);
      if (!foreign) { EndState(S.HasBytesToOutput(), "sender"); EndStatus(S, "sender"); } EndPipes(); EndStatus(*R(), "receiver");
   }
   virtual std::string Describe() const { std::string d = vh::fmt("eol=%s telnet=%d closes=%d; %zu lines, lengths:", eol == "\r\n" ? "CRLF" : eol == "\n" ? "LF" : "CR", (int)telnet, (int)willClose, exp.size()); for (size_t i = 0; i < exp.size() && i < 40; i++) d += vh::fmt(" %zu", exp[i].size() - 2); if (foreign) { d += " | stream: "; for (size_t i = phaseStart; i < pipe.buf.size() && i < phaseStart + 300; i++) d += pipe.buf[i] == '\r' ? std::string("\\r") : pipe.buf[i] == '\n' ? std::string("\\n") : (pipe.buf[i] >= 32 && pipe.buf[i] < 127) ? std::string(1, (char)pipe.buf[i]) : vh::fmt("<%02x>", pipe.buf[i]); } return d; }
};

// ------------------------------------------------------------------------------------------------ RawData (min-chunk) and SLIP
static bool gZeroChunks = false;   // --opt zerochunks=1: also 0-byte chunks (added with AddFlat(empty ByteBuffer)); judged under the key <family>|zero-length-chunk-drops-rest-of-message
struct RawSession : public Session {
   Pipe pipe; ChopDataIO sio, rio; AbstractMessageIOGatewayRef S, R; Rx rx; bool slip; uint32 minChunk, maxChunk;
   std::vector<MessageRef> plan; std::vector<std::string> chunks; int capW; CountedRawDataMessageIOGateway * sCR;
   RawSession(const Cfg & c, uint64_t seqSeed, uint64_t schedSeed, bool s, int fx) : Session(c, seqSeed, schedSeed, s, fx), pipe(c.family == F_SLIP ? chopio::FR_SLIP : (c.a > 1 ? chopio::FR_FIXED : chopio::FR_NONE), (uint32_t)c.a), sio(NULL, &pipe, &chop), rio(&pipe, NULL, &chop), rx(1), slip(c.family == F_SLIP), minChunk((uint32)c.a), maxChunk(MUSCLE_NO_LIMIT), capW(-1), sCR(NULL)
   {
      pipes.push_back(&pipe);
      if (slip) { S.SetRef(new SLIPFramedDataMessageIOGateway); R.SetRef(new SLIPFramedDataMessageIOGateway); }
      else {
         static const uint32 MX[] = {MUSCLE_NO_LIMIT, MUSCLE_NO_LIMIT, 1, 16, 5000}; if (minChunk == 0 && !fixed) maxChunk = MX[sq.R(5)]; uint32 sMin = sq.R(2) ? 0 : 7;
         if (cfg.b) { if (!fixed) { static const uint32 MN[] = {0, 0, 1, 7}; minChunk = MN[sq.R(4)]; if (minChunk) maxChunk = MUSCLE_NO_LIMIT; } S.SetRef(sCR = new CountedRawDataMessageIOGateway(sMin)); R.SetRef(new CountedRawDataMessageIOGateway(minChunk, maxChunk)); }
         else { S.SetRef(new RawDataMessageIOGateway(sMin)); R.SetRef(new RawDataMessageIOGateway(minChunk, maxChunk)); }
      }
      S()->SetDataIO(DummyDataIORef(sio)); R()->SetDataIO(DummyDataIORef(rio));
      Replan();
   }
   void Replan()
   {
      plan.clear(); chunks.clear(); rx.got.clear(); queued = 0;
      uint32 nm = fixed == 2 ? 2 : fixed ? 4 : shortSeq ? 1 + sq.R(4) : 1 + sq.R(10);
      for (uint32 i = 0; i < nm; i++) {
         MessageRef m = GetMessageFromPool(PR_COMMAND_RAW_DATA); uint32 nc = fixed ? 1 + i % 2 : sq.R(12) == 0 ? 0 : 1 + sq.R(3);
         for (uint32 j = 0; j < nc; j++) {
            uint32 n = fixed ? (minChunk == 4096 && fixed == 1 && i == 1 && j == 0 ? 4150 : 3 + 7 * i + j) : sq.R(15) == 0 ? 0 : sq.R(shortSeq ? 12 : 5) == 0 ? 1 + sq.R(9000) : 1 + sq.R(40);
            if (n == 0 && !gZeroChunks) { n = 1; vh::stat("unspecified_zero_length_chunk_not_generated"); }   // AddData() rejects 0 bytes and FindData() cannot return a 0-byte raw item: see --opt zerochunks=1
            std::string ch = RandBytes(sq, n);
            if (slip) for (uint32 k = 0; k < n; k++) if (sq.R(5) < 2) { static const uint8 SP[4] = {0300, 0333, 0334, 0335}; ch[k] = (char)SP[sq.R(4)]; }
            if (n == 0) OKB(m()->AddFlat(PR_NAME_DATA_CHUNKS, GetByteBufferFromPool(0))); else OKB(m()->AddData(PR_NAME_DATA_CHUNKS, B_RAW_TYPE, ch.data(), n));
            chunks.push_back(ch);
         }
         plan.push_back(m);
      }
      planned = nm;
   }
   ~RawSession() { S()->SetDataIO(DataIORef()); R()->SetDataIO(DataIORef()); }
   // CountedRawDataMessageIOGateway: "the number of bytes of data currently present in our outgoing-data-queue" = raw bytes of the Messages still queued
   void CheckCounted(const char * when)
   {
      if (sCR == NULL || failed) return;
      uint32 sum = 0; const Queue<MessageRef> & q = S()->GetOutgoingMessageQueue();
      for (uint32 i = 0; i < q.GetNumItems(); i++) { const void * d; uint32 n; for (uint32 j = 0; q[i]()->FindData(PR_NAME_DATA_CHUNKS, B_ANY_TYPE, j, &d, &n).IsOK(); j++) sum += n; }
      vh::stat("countedraw_checks"); if (q.GetNumItems() >= 2) vh::stat("countedraw_checks_with_2plus_queued");
      if (sCR->GetNumOutgoingDataBytes() != sum) Fail("counted-bytes", vh::fmt("%s: CountedRawDataMessageIOGateway::GetNumOutgoingDataBytes()=%u, the %u queued Messages hold %u raw bytes", when, sCR->GetNumOutgoingDataBytes(), q.GetNumItems(), sum));
   }
   virtual bool QueueNext() { if (queued >= planned) return false; status_t r = S()->AddOutgoingMessage(plan[queued]); if (r.IsError()) { Fail("gateway-error|AddOutgoingMessage", r()); return false; } queued++; CheckCounted("after AddOutgoingMessage"); return !failed; }
   virtual int NumActions() const { return 2; }
   virtual long Act(int a, uint32 mb)
   {
      // RawDataMessageIOGateway::DoOutputImplementation() calls itself once per chunk and once per partial write; that depth is driven by the local sender's
      // own Message and transport, not by the peer: Messages here hold <= 3 chunks, and a case whose transport dribbles writes byte by byte gets <= 3000 bytes per call
      if (capW < 0) capW = chop.dribble[0] > 0 ? 1 : 0;
      if (a == 0) { if (mb > 3000 && capW) { mb = 3000; vh::stat("unspecified_sender_chunks_capped"); } long n = Io(S()->DoOutput(mb), "DoOutput"); CheckCounted("after DoOutput"); return failed ? -1 : n; }
      return Io(R()->DoInput(rx, mb), "DoInput");
   }
   virtual bool SupportsReset() const { return true; }
   virtual void ResetAndReplan()
   {
      Judge(true); if (failed) return;
      S()->Reset(); R()->Reset(); RestartPipe(0); resets++; CheckCounted("after Reset()");
      if (S()->HasBytesToOutput()) { Fail("reset|HasBytesToOutput", "the sender reports bytes to output right after Reset()"); return; }
      Replan();
   }
   void Judge(bool prefixOnly)
   {
      if (gZeroChunks && !prefixOnly) {   // what arrives if every Message is cut off at its first 0-byte chunk (Message::FindData() fails on such an item and the senders' loops stop there)
         std::vector<std::string> t; std::string tcat, gcat; size_t ci = 0;
         for (size_t i = 0; i < plan.size(); i++) { uint32 n = plan[i]()->GetNumValuesInName(PR_NAME_DATA_CHUNKS); bool cut = false; for (uint32 j = 0; j < n; j++, ci++) { if (chunks[ci].empty()) cut = true; if (!cut) { t.push_back("B:" + chunks[ci]); tcat += chunks[ci]; } } }
         for (size_t i = 0; i < rx.got.size(); i++) gcat.append(rx.got[i], 2, std::string::npos);
         std::string all; for (size_t i = 0; i < chunks.size(); i++) all += chunks[i];
         if (tcat != all && (slip ? rx.got == t : (minChunk == 0 && gcat == tcat))) { Fail("zero-length-chunk-drops-rest-of-message", vh::fmt("a Message holds a 0-byte chunk followed by further chunks: the sender stops at the 0-byte item, %zu of %zu bytes arrive", tcat.size(), all.size())); return; }
      }
      if (slip) { std::vector<std::string> exp; for (size_t i = 0; i < chunks.size(); i++) if (!chunks[i].empty()) exp.push_back("B:" + chunks[i]); if (prefixOnly) ComparePrefix(*this, "SLIP chunk (before Reset)", exp, rx.got, true); else CompareSeq(*this, "SLIP chunk", exp, rx.got, true); }
      else {
         std::string sent, got; for (size_t i = 0; i < chunks.size(); i++) sent += chunks[i];
         for (size_t i = 0; i < rx.got.size(); i++) {
            size_t n = rx.got[i].size() - 2; got.append(rx.got[i], 2, std::string::npos);
            if (n == 0 || (minChunk && n < minChunk) || n > maxChunk) Fail("chunk-size", vh::fmt("received chunk %zu has %zu bytes; gateway constructed with minChunkSize=%u maxChunkSize=%u", i, n, minChunk, maxChunk));
         }
         size_t want = minChunk ? (sent.size() / minChunk) * minChunk : sent.size();   // a tail shorter than the minimum stays buffered
         if (prefixOnly) want = got.size() < sent.size() ? got.size() : sent.size();   // before a Reset(): any prefix
         std::vector<std::string> e(1, sent.substr(0, want)), g(1, got); delivered += (long)rx.got.size() - 1; CompareSeq(*this, prefixOnly ? "raw byte stream (before Reset)" : "raw byte stream", e, g, true);
      }
   }
   virtual void Finish() { Judge(false); EndState(S()->HasBytesToOutput(), "sender"); EndPipes(); EndStatus(*S(), "sender"); EndStatus(*R(), "receiver"); CheckCounted("at the end"); }
   virtual std::string Describe() const { std::string d = vh::fmt("%sminChunk=%u maxChunk=%u, %zu chunks, sizes:", sCR ? "counted, " : "", minChunk, maxChunk, chunks.size()); for (size_t i = 0; i < chunks.size() && i < 40; i++) d += vh::fmt(" %zu", chunks[i].size()); return d; }
};

// ------------------------------------------------------------------------------------------------ WebSocket client <-> server
static const uint32 WS_LENS[] = {124, 125, 126, 127, 65534, 65535, 65536, 65537};
static uint32 WsLen(vh::Rng & r, bool shortSeq, int fixed, uint32 i)
{
   if (fixed) { static const uint32 F[] = {5, 126, 125, 1, 127, 40}; return F[i % 6]; }
   if (r.R(4) == 0) return WS_LENS[r.R(shortSeq ? 4 : (r.R(3) == 0 ? 8 : 4))];
   return 1 + r.R(300);
}
struct WsSession : public Session {
   Pipe c2s, s2c; ChopDataIO cio, sio; WebSocketMessageIOGatewayRef C, S; Rx rc, rs; bool handshake, slave;
   std::vector<MessageRef> plan; std::vector<int> dir; std::vector<std::string> expAtServer, expAtClient;
   WsSession(const Cfg & c, uint64_t seqSeed, uint64_t schedSeed, bool s, int fx) : Session(c, seqSeed, schedSeed, s, fx), c2s(chopio::FR_WEBSOCKET, 0, c.a != 0), s2c(chopio::FR_WEBSOCKET, 0, c.a != 0), cio(&s2c, &c2s, &chop, 1, 0), sio(&c2s, &s2c, &chop, 0, 1), rc(c.b ? 0 : 1), rs(c.b ? 0 : 1), handshake(c.a != 0), slave(c.b != 0)
   {
      pipes.push_back(&c2s); pipes.push_back(&s2c); static const bool yes = true, no = false;
      if (handshake) { C.SetRef(new WebSocketMessageIOGateway("/chat", "example.com", "muscle", (fixed || sq.R(2)) ? "" : "http://origin.example")); S.SetRef(new WebSocketMessageIOGateway()); }
      else { C.SetRef(new WebSocketMessageIOGateway(&yes)); S.SetRef(new WebSocketMessageIOGateway(&no)); }
      if (slave) { int ec = (fixed || sq.R(3)) ? 0 : 6, es = (fixed || sq.R(3)) ? 0 : 1 + (int)sq.R(9); C()->SetSlaveGateway(AbstractMessageIOGatewayRef(new MessageIOGateway(MUSCLE_MESSAGE_ENCODING_DEFAULT + ec))); S()->SetSlaveGateway(AbstractMessageIOGatewayRef(new MessageIOGateway(MUSCLE_MESSAGE_ENCODING_DEFAULT + es))); }
      C()->SetDataIO(DummyDataIORef(cio)); S()->SetDataIO(DummyDataIORef(sio));
      Replan();
   }
   void Replan()
   {
      plan.clear(); dir.clear(); expAtServer.clear(); expAtClient.clear(); rs.got.clear(); rc.got.clear(); queued = 0;
      uint32 nm = fixed == 2 ? 2 : fixed ? 6 : shortSeq ? 1 + sq.R(3) : 1 + sq.R(7);
      for (uint32 i = 0; i < nm; i++) {
         int d = fixed ? (int)(i % 2) : (int)sq.R(2); MessageRef m; std::vector<std::string> & exp = d == 0 ? expAtServer : expAtClient;
         if (slave) {
            if (fixed) { static const uint32 P[] = {125, 126, 127, 60, 128, 300}; m = GetMessageFromPool(i); if (!PadToFlatSize(*m(), P[i % 6] - 8, sq, true)) HarnessAbort("ws fixed plan"); }
            else { uint32 T[8]; for (int k = 0; k < 8; k++) T[k] = WS_LENS[k]; m = GenBinMsg(sq, false, shortSeq, plan, T, shortSeq ? 4 : 8, 8, 200000); }
            exp.push_back(Flat(*m()));
         } else {
            uint32 kind = fixed ? i % 3 : sq.R(8); bool text = fixed ? kind != 1 : kind < 4, bin = fixed ? kind != 0 : (kind >= 3 && kind < 7);     // 3: both; 7: a Message with no item at all
            m = GetMessageFromPool(text ? PR_COMMAND_TEXT_STRINGS : PR_COMMAND_RAW_DATA);
            if (text) { uint32 n = fixed ? 1 : 1 + (sq.R(3) == 0 ? sq.R(3) : 0); for (uint32 j = 0; j < n; j++) OKB(m()->AddString(PR_NAME_TEXT_LINE, RandLetters(sq, WsLen(sq, shortSeq, fixed, i)).c_str())); }
            if (bin) { uint32 n = fixed ? 1 : 1 + (sq.R(3) == 0 ? sq.R(3) : 0); for (uint32 j = 0; j < n; j++) { std::string b = RandBytes(sq, WsLen(sq, shortSeq, fixed, i + 1)); OKB(m()->AddData(PR_NAME_DATA_CHUNKS, B_RAW_TYPE, b.data(), (uint32)b.size())); } }
            Items(*m(), exp);   // captured now: the sender consumes the queued Message item by item
         }
         plan.push_back(m); dir.push_back(d);
      }
      planned = nm;
   }
   ~WsSession() { C()->SetDataIO(DataIORef()); S()->SetDataIO(DataIORef()); }
   virtual bool SupportsReset() const { return true; }
   virtual bool ResetAllowedNow() const { return !C()->IsHandshakeInProgress() && !S()->IsHandshakeInProgress(); }   // Reset() "leaves the handshake phase as it is": only once both ends have completed it
   virtual void ResetAndReplan()
   {
      ComparePrefix(*this, slave ? "client->server Message (before Reset)" : "client->server item (before Reset)", expAtServer, rs.got, true);
      ComparePrefix(*this, slave ? "server->client Message (before Reset)" : "server->client item (before Reset)", expAtClient, rc.got, true); if (failed) return;
      C()->Reset(); S()->Reset(); RestartPipe(0); RestartPipe(1); resets++;
      if (C()->HasBytesToOutput() || S()->HasBytesToOutput()) { Fail("reset|HasBytesToOutput", "a gateway reports bytes to output right after Reset()"); return; }
      Replan();
   }
   virtual bool QueueNext()
   {
      if (queued >= planned) return false;
      status_t r = (dir[queued] == 0 ? C() : S())->AddOutgoingMessage(plan[queued]); if (r.IsError()) { Fail("gateway-error|AddOutgoingMessage", r()); return false; }
      queued++; return true;
   }
   virtual int NumActions() const { return 4; }
   virtual long Act(int a, uint32 mb)
   {
      switch (a) { case 0: return Io(C()->DoOutput(mb), "client DoOutput"); case 1: return Io(S()->DoInput(rs, mb), "server DoInput"); case 2: return Io(S()->DoOutput(mb), "server DoOutput"); default: return Io(C()->DoInput(rc, mb), "client DoInput"); }
   }
   virtual void Finish()
   {
      if (handshake && (C()->IsHandshakeInProgress() || S()->IsHandshakeInProgress())) Fail("end-state|handshake-incomplete", vh::fmt("at quiescence: client handshake in progress=%d, server=%d; c2s %zu/%zu bytes read, s2c %zu/%zu", (int)C()->IsHandshakeInProgress(), (int)S()->IsHandshakeInProgress(), c2s.rpos, c2s.Written(), s2c.rpos, s2c.Written()));
      CompareSeq(*this, slave ? "client->server Message" : "client->server item", expAtServer, rs.got, true);
      CompareSeq(*this, slave ? "server->client Message" : "server->client item", expAtClient, rc.got, true);
      EndState(C()->HasBytesToOutput(), "client"); EndState(S()->HasBytesToOutput(), "server"); EndPipes(); EndStatus(*C(), "client"); EndStatus(*S(), "server");
   }
   virtual std::string Describe() const { std::string d = vh::fmt("handshake=%d slave=%d; to server:", (int)handshake, (int)slave); for (size_t i = 0; i < expAtServer.size() && i < 20; i++) d += vh::fmt(" %zu", expAtServer[i].size()); d += "; to client:"; for (size_t i = 0; i < expAtClient.size() && i < 20; i++) d += vh::fmt(" %zu", expAtClient[i].size()); return d; }
};

// a foreign RFC 6455 peer: hand-made frames incl. fragmentation (FIN=0 + continuation frames, a fresh masking key per fragment)
static void WsFrame(std::string & out, bool fin, int opcode, const std::string & payload, bool masked, vh::Rng & r)
{
   out += (char)((fin ? 0x80 : 0) | opcode); size_t n = payload.size(); uint8 mb = masked ? 0x80 : 0;
   if (n <= 125) out += (char)(mb | n); else if (n <= 65535) { out += (char)(mb | 126); out += (char)(n >> 8); out += (char)(n & 255); } else { out += (char)(mb | 127); for (int i = 7; i >= 0; i--) out += (char)(((uint64_t)n >> (8 * i)) & 255); }
   if (masked) { uint8 key[4]; for (int i = 0; i < 4; i++) { key[i] = (uint8)r.R(256); out += (char)key[i]; } for (size_t i = 0; i < n; i++) out += (char)(payload[i] ^ key[i % 4]); } else out += payload;
}
struct WsForeignSession : public Session {
   Pipe in, back; ChopDataIO gio; WebSocketMessageIOGatewayRef G; Rx rx; bool gatewayIsServer; std::vector<std::string> rawPlan, exp; long fragments;
   WsForeignSession(const Cfg & c, uint64_t seqSeed, uint64_t schedSeed, bool s, int fx) : Session(c, seqSeed, schedSeed, s, fx), in(chopio::FR_WEBSOCKET), back(chopio::FR_WEBSOCKET), gio(&in, &back, &chop, 0, 1), rx(1), fragments(0)
   {
      pipes.push_back(&in); pipes.push_back(&back); static const bool yes = true, no = false;
      gatewayIsServer = fixed ? true : sq.R(4) != 0; G.SetRef(new WebSocketMessageIOGateway(gatewayIsServer ? &no : &yes)); G()->SetDataIO(DummyDataIORef(gio));
      Replan();
   }
   virtual bool SupportsReset() const { return true; }
   virtual void ResetAndReplan() { ComparePrefix(*this, "foreign item (before Reset)", exp, rx.got, true); if (failed) return; G()->Reset(); RestartPipe(0); RestartPipe(1); resets++; Replan(); }
   void Replan()
   {
      rawPlan.clear(); exp.clear(); rx.got.clear(); queued = 0;
      uint32 nm = fixed == 2 ? 2 : fixed ? 5 : shortSeq ? 1 + sq.R(4) : 1 + sq.R(8);
      for (uint32 i = 0; i < nm; i++) {
         bool text = fixed ? i % 2 == 0 : sq.R(2) != 0; uint32 len = WsLen(sq, shortSeq, fixed, i); std::string item = text ? RandLetters(sq, len) : RandBytes(sq, len);
         uint32 nf = fixed ? 1 + i % 3 : sq.R(3) == 0 ? 1 : 1 + sq.R(4); std::vector<size_t> cuts; for (uint32 k = 1; k < nf; k++) cuts.push_back((fixed ? (len * k) / nf : sq.R(len + 1))); std::sort(cuts.begin(), cuts.end());
         if (!cuts.empty() && cuts[0] == 0) cuts[0] = 1 <= len ? 1 : 0;   // an EMPTY FIRST fragment is not generated (outside what a muscle sender ever emits; the receiver loses the opcode)
         std::string raw; size_t from = 0;
         for (uint32 k = 0; k < nf; k++) { size_t to = k + 1 < nf ? std::max(cuts[k], from) : len; WsFrame(raw, k + 1 == nf, k == 0 ? (text ? 1 : 2) : 0, item.substr(from, to - from), gatewayIsServer, sq); from = to; fragments++; }
         rawPlan.push_back(raw); exp.push_back((text ? "T:" : "B:") + item);
      }
      planned = nm;
   }
   ~WsForeignSession() { G()->SetDataIO(DataIORef()); }
   virtual bool ChoppedWrites() const { return false; }
   virtual bool QueueNext() { if (queued >= planned) return false; in.Append(rawPlan[queued]); queued++; return true; }
   virtual int NumActions() const { return 2; }
   virtual long Act(int a, uint32 mb) { if (a == 0) return Io(G()->DoInput(rx, mb), "DoInput"); return Io(G()->DoOutput(mb), "DoOutput"); }
   virtual void Finish()
   {
      CompareSeq(*this, gatewayIsServer ? "foreign client->server item" : "foreign server->client item", exp, rx.got, true);
      EndState(G()->HasBytesToOutput(), "gateway"); if (!in.Empty()) EndPipes(); EndStatus(*G(), "gateway");
      if (back.Written()) Fail("extra", vh::fmt("the gateway wrote %zu bytes although nothing was queued and no ping was received", back.Written()));
      vh::stat("wsforeign_fragments", fragments);
   }
   virtual std::string Describe() const { std::string d = vh::fmt("gateway is %s; items:", gatewayIsServer ? "server (masked input)" : "client"); for (size_t i = 0; i < exp.size(); i++) d += vh::fmt(" %c%zu", exp[i][0], exp[i].size() - 2); return d; }
};

// ------------------------------------------------------------------------------------------------ C gateways <-> C++ MessageIOGateway
static bool MiniRoundTrips(const std::string & flat)
{
   MMessage * mm = MMAllocMessage(0); if (mm == NULL) HarnessAbort("MMAllocMessage");
   bool ok = MMUnflattenMessage(mm, flat.data(), (uint32)flat.size()) == CB_NO_ERROR;
   if (ok) { uint32 fs = MMGetFlattenedSize(mm); std::string s(fs, '\0'); MMFlattenMessage(mm, &s[0]); ok = (s == flat); }
   MMFreeMessage(mm); return ok;
}
struct MicroSpec { uint32 what; struct Fld { int type; std::string name; std::vector<int64> iv; std::vector<std::string> sv; }; std::vector<Fld> f; };
struct CgwSession : public Session {
   Pipe pipe; ChopDataIO sio, rio; MessageIOGateway cpp; Rx rx; int dirn;   // 0 C++ -> mini, 1 mini -> C++, 2 C++ -> micro, 3 micro -> C++
   MMessageGateway * mg; UMessageGateway ug; std::vector<uint8> ubin, ubout; uint32 microBlockedAt;
   std::vector<MessageRef> plan; std::vector<MicroSpec> microPlan; std::vector<std::string> exp, got;
   CgwSession(const Cfg & c, uint64_t seqSeed, uint64_t schedSeed, bool s, int fx) : Session(c, seqSeed, schedSeed, s, fx), pipe(chopio::FR_MUSCLE8), sio(NULL, &pipe, &chop), rio(&pipe, NULL, &chop), rx(0), dirn(c.a), mg(NULL), microBlockedAt(0xFFFFFFFFu)
   {
      pipes.push_back(&pipe);
      static const uint32 OB[] = {6000, 20000, 200000}; ubin.resize(200000); ubout.resize(fixed ? 200000 : OB[sq.R(3)]);
      mg = MGAllocMessageGateway(); if (mg == NULL) HarnessAbort("MGAllocMessageGateway"); UGGatewayInitialize(&ug, &ubin[0], (uint32)ubin.size(), &ubout[0], (uint32)ubout.size());
      cpp.SetDataIO(DummyDataIORef((dirn == 0 || dirn == 2) ? sio : rio));
      uint32 nm = fixed == 2 ? 2 : fixed ? 5 : shortSeq ? 1 + sq.R(4) : 1 + sq.R(8);
      if (dirn == 3) {
         for (uint32 i = 0; i < nm; i++) {
            MicroSpec ms; ms.what = fixed ? i : (uint32)sq.next(); uint32 nf = fixed ? 1 + i % 3 : sq.R(6);
            for (uint32 j = 0; j < nf; j++) {
               MicroSpec::Fld f; f.type = fixed ? ((i == 3 && j == 0) ? 6 : (int)((i + j) % 8)) : (int)sq.R(8); f.name = vh::fmt("f%u", j); uint32 cnt = 1 + (fixed ? j % 2 : (sq.R(3) == 0 ? sq.R(4) : 0));
               for (uint32 k = 0; k < cnt; k++) { f.iv.push_back((int64)sq.next()); f.sv.push_back(f.type == 6 ? RandLetters(sq, (fixed && i == 3) ? 2040 : sq.R(6) == 0 ? sq.R(3000) : sq.R(30)) : RandBytes(sq, 1 + sq.R(40))); }
               ms.f.push_back(f);
            }
            microPlan.push_back(ms);
         }
      } else {
         static const uint32 T[] = {2046, 2047, 2048, 2049, 2050};
         for (uint32 i = 0; i < nm; i++) {
            MessageRef m;
            for (int tries = 0; tries < 40 && m() == NULL; tries++) {
               if (fixed) { if (i == 0) m = GetMessageFromPool(7); else if (i == 2 || i == 3) { m = GetMessageFromPool(i); OKB(m()->AddInt32("n", (int32)i)); if (!PadToFlatSize(*m(), 2038 + i, sq, true)) HarnessAbort("fixed plan"); } else m = LocalMsg(sq); }
               else m = GenBinMsg(sq, true, shortSeq, plan, T, 5, 8, 150000);
               if ((dirn == 0 || dirn == 1) && !MiniRoundTrips(Flat(*m()))) { vh::stat("unspecified_cgw_message_not_mini_roundtrippable"); m.Reset(); }
            }
            if (m() == NULL) m = GetMessageFromPool(1);
            plan.push_back(m); exp.push_back(Flat(*m()));
         }
      }
      planned = nm;
   }
   ~CgwSession() { cpp.SetDataIO(DataIORef()); MGFreeMessageGateway(mg); }
   bool BuildMicro(const MicroSpec & ms)
   {
      UMessage um = UGGetOutgoingMessage(&ug, ms.what); if (!UMIsMessageValid(&um)) return false;
      bool ok = true;
      for (size_t i = 0; i < ms.f.size() && ok; i++) {
         const MicroSpec::Fld & f = ms.f[i]; const char * fn = f.name.c_str(); uint32 n = (uint32)f.iv.size(); c_status_t r = CB_NO_ERROR;
         switch (f.type) {
         case 0: { std::vector<int32> v(n); for (uint32 k = 0; k < n; k++) v[k] = (int32)f.iv[k]; r = UMAddInt32s(&um, fn, &v[0], n); } break;
         case 1: { std::vector<int64> v(f.iv); r = UMAddInt64s(&um, fn, &v[0], n); } break;
         case 2: { std::vector<UBool> v(n); for (uint32 k = 0; k < n; k++) v[k] = (UBool)(f.iv[k] & 1); r = UMAddBools(&um, fn, &v[0], n); } break;
         case 3: { std::vector<double> v(n); for (uint32 k = 0; k < n; k++) v[k] = (double)(int32)f.iv[k] / 3; r = UMAddDoubles(&um, fn, &v[0], n); } break;
         case 4: { std::vector<int8> v(n); for (uint32 k = 0; k < n; k++) v[k] = (int8)f.iv[k]; r = UMAddInt8s(&um, fn, &v[0], n); } break;
         case 5: { std::vector<int16> v(n); for (uint32 k = 0; k < n; k++) v[k] = (int16)f.iv[k]; r = UMAddInt16s(&um, fn, &v[0], n); } break;
         case 6: { std::vector<const char *> v(n); for (uint32 k = 0; k < n; k++) v[k] = f.sv[k].c_str(); r = UMAddStrings(&um, fn, &v[0], n); } break;
         default: for (uint32 k = 0; k < n && r == CB_NO_ERROR; k++) r = UMAddData(&um, fn, B_RAW_TYPE, f.sv[k].data(), (uint32)f.sv[k].size()); break;
         }
         if (r != CB_NO_ERROR) ok = false;
      }
      if (!ok) { UGOutgoingMessageCancelled(&ug, &um); if (!UGHasBytesToOutput(&ug)) HarnessAbort("micro Message does not fit an empty output buffer"); vh::stat("cgw_micro_output_buffer_full"); return false; }
      exp.push_back(std::string((const char *)UMGetFlattenedBuffer(&um), UMGetFlattenedSize(&um))); UGOutgoingMessagePrepared(&ug, &um); return true;
   }
   virtual bool QueueNext()
   {
      if (queued >= planned) return false;
      if (dirn == 0 || dirn == 2) { status_t r = cpp.AddOutgoingMessage(plan[queued]); if (r.IsError()) { Fail("gateway-error|AddOutgoingMessage", r()); return false; } }
      else if (dirn == 1) {
         MMessage * mm = MMAllocMessage(0); if (mm == NULL || MMUnflattenMessage(mm, exp[queued].data(), (uint32)exp[queued].size()) != CB_NO_ERROR) HarnessAbort("mini parse of a validated Message");
         if (MGAddOutgoingMessage(mg, mm) != CB_NO_ERROR) { MMFreeMessage(mm); Fail("gateway-error|MGAddOutgoingMessage", "returned CB_ERROR"); return false; } MMFreeMessage(mm);
      }
      else {   // micro: retry a Message that did not fit only after the output buffer has drained completely (the C code prints a line per failed add)
         if (microBlockedAt != 0xFFFFFFFFu && ug._numValidOutputBytes > 0) return false;
         if (!BuildMicro(microPlan[queued])) { microBlockedAt = ug._numValidOutputBytes; return false; }
         microBlockedAt = 0xFFFFFFFFu;
      }
      queued++; return true;
   }
   virtual int NumActions() const { return 2; }
   long CIo(int32 n, const char * call) { if (n < 0) { Fail(std::string("gateway-error|") + call, "returned -1"); return -1; } return n; }
   virtual long Act(int a, uint32 mb)
   {
      if (a == 0) switch (dirn) { case 0: case 2: return Io(cpp.DoOutput(mb), "DoOutput"); case 1: return CIo(MGDoOutput(mg, mb, chopio::CSend, &sio), "MGDoOutput"); default: return CIo(UGDoOutput(&ug, mb, chopio::CSend, &sio), "UGDoOutput"); }
      switch (dirn) {
      case 0: { MMessage * rm = NULL; long n = CIo(MGDoInput(mg, mb, chopio::CRecv, &rio, &rm), "MGDoInput"); if (rm) { uint32 fs = MMGetFlattenedSize(rm); std::string s(fs, '\0'); MMFlattenMessage(rm, &s[0]); got.push_back(s); MMFreeMessage(rm); } return n; }
      case 2: { UMessage um; UMInitializeToInvalid(&um); long n = CIo(UGDoInput(&ug, mb, chopio::CRecv, &rio, &um), "UGDoInput"); if (n >= 0 && UMIsMessageValid(&um)) got.push_back(std::string((const char *)UMGetFlattenedBuffer(&um), UMGetFlattenedSize(&um))); return n; }
      default: return Io(cpp.DoInput(rx, mb), "DoInput");
      }
   }
   virtual void Finish()
   {
      static const char * const W[4] = {"C++ -> MiniMessageGateway Message", "MiniMessageGateway -> C++ Message", "C++ -> MicroMessageGateway Message", "MicroMessageGateway -> C++ Message"};
      CompareSeq(*this, W[dirn], exp, (dirn == 1 || dirn == 3) ? rx.got : got, true);
      EndState(dirn == 1 ? MGHasBytesToOutput(mg) != 0 : dirn == 3 ? UGHasBytesToOutput(&ug) != 0 : cpp.HasBytesToOutput(), "sender"); EndPipes(); EndStatus(cpp, "C++ gateway");
   }
   virtual std::string Describe() const { std::string d = vh::fmt("direction %d, flattened sizes:", dirn); for (size_t i = 0; i < exp.size() && i < 30; i++) d += vh::fmt(" %zu", exp[i].size()); return d; }
};

// ------------------------------------------------------------------------------------------------ one Message to several sender gateways (reuse tag)
// OptimizeMessageForTransmissionToMultipleGateways(): the SAME MessageRef is queued on 2-4 sender gateways (encodings equal / different; plain, counted,
// templating, and a subclass whose outgoing Messages are deflated independently), each with its own receiver, pipe and schedule.  Every receiver must get
// exactly what its sender was given, and the Message itself must flatten to the same bytes afterwards.
class IndependentGateway : public MessageIOGateway { public: explicit IndependentGateway(int32 enc) : MessageIOGateway(enc) {} protected: virtual bool AreOutgoingMessagesIndependent() const { return true; } };
struct FanoutSession : public Session {
   struct Lane { Pipe pipe; ChopDataIO sio, rio; AbstractMessageIOGatewayRef S, R; Rx rx; std::vector<std::string> exp; int kind, enc; bool riskZ, riskT; CountedMessageIOGateway * sCounted; uint32 lru; std::vector<MessageRef> sent; size_t phaseStart;   // sent: what the sender was given since the last Reset()
                 Lane(Chopper * c, uint8_t id) : pipe(chopio::FR_MUSCLE8), sio(NULL, &pipe, c, id, id), rio(&pipe, NULL, c, id, id), rx(0), kind(0), enc(0), riskZ(false), riskT(false), sCounted(NULL), lru(2048), phaseStart(0) {} };
   std::vector<Lane *> lanes; std::vector<MessageRef> plan; std::vector<uint32> laneMask; std::vector<std::string> flatBefore; std::vector<Shape> shapes;
   static const char * KindName(int k) { static const char * const n[] = {"plain", "counted", "templating", "independent"}; return n[k]; }
   FanoutSession(const Cfg & c, uint64_t seqSeed, uint64_t schedSeed, bool s, int fx) : Session(c, seqSeed, schedSeed, s, fx)
   {
      const int D = MUSCLE_MESSAGE_ENCODING_DEFAULT; uint32 K = fixed ? 4 : 2 + sq.R(3); uint32 pat = sq.R(4); int e0 = sq.R(3) == 0 ? 0 : 1 + (int)sq.R(9);
      for (uint32 i = 0; i < K; i++) {
         Lane * l = new Lane(&chop, (uint8_t)i); lanes.push_back(l); pipes.push_back(&l->pipe);
         if (fixed) { static const int FK[4] = {0, 1, 0, 2}, FE[4] = {0, 0, 6, 0}; l->kind = FK[i]; l->enc = FE[i]; }
         else { uint32 r = sq.R(100); l->kind = r < 35 ? 0 : r < 48 ? 1 : r < 80 ? 2 : 3; l->enc = pat == 0 ? e0 : pat == 1 ? (int)((e0 + 3 * i) % 10) : pat == 2 ? (sq.R(2) ? 0 : e0) : (int)sq.R(10); if (l->kind == 3 && l->enc == 0) l->enc = 6; }
         l->lru = sq.R(2) ? 2048 : 1024 * 1024; l->S.SetRef(NewSender(*l)); if (l->kind == 1 || l->kind == 2) l->sCounted = static_cast<CountedMessageIOGateway *>(l->S());
         switch (l->kind) { case 1: l->R.SetRef(new CountedMessageIOGateway()); break; case 2: l->R.SetRef(new TemplatingMessageIOGateway(l->lru)); break; default: l->R.SetRef(new MessageIOGateway()); break; }
         l->S()->SetDataIO(DummyDataIORef(l->sio)); l->R()->SetDataIO(DummyDataIORef(l->rio));
      }
      for (int i = 0; i < 3; i++) shapes.push_back(MakeShape(sq, 40 + i, 0, false));
      Replan();
   }
   static AbstractMessageIOGateway * NewSender(const Lane & l)
   {
      const int D = MUSCLE_MESSAGE_ENCODING_DEFAULT;
      switch (l.kind) { case 0: return new MessageIOGateway(D + l.enc); case 1: return new CountedMessageIOGateway(D + l.enc); case 2: return new TemplatingMessageIOGateway(l.lru, D + l.enc); default: return new IndependentGateway(D + l.enc); }
   }
   // the reuse-tag signature: did the tag change what this lane put on the wire?  The lane's Messages since the last Reset() go, as copies carrying a tag of their OWN, through a
   // private sender of the same kind; if that yields the bytes the lane really wrote, sharing played no part and the difference is judged under the ordinary keys
   static bool TagChangedBytes(const Lane & l)
   {
      Chopper c(1); c.mode = chopio::CM_EVERYTHING; Pipe p; ChopDataIO io(NULL, &p, &c); AbstractMessageIOGatewayRef g(NewSender(l)); g()->SetDataIO(DummyDataIORef(io));
      for (size_t i = 0; i < l.sent.size(); i++) { MessageRef cl = GetMessageFromPool(*l.sent[i]()); if (cl() == NULL) HarnessAbort("GetMessageFromPool(copy)"); const bool tagged = cl()->HasName("_mrutag", B_TAG_TYPE); (void)cl()->RemoveName("_mrutag"); if (tagged) OKB(OptimizeMessageForTransmissionToMultipleGateways(cl)); (void)g()->AddOutgoingMessage(cl); }   // a tag of its own: the same format decisions (a tag field makes a what-only Message non-trivial for templating), nothing to share with
      while (g()->DoOutput().GetByteCount() > 0) {}
      g()->SetDataIO(DataIORef());
      size_t have = l.pipe.Written() - l.phaseStart, n = have < p.Written() ? have : p.Written(); vh::stat("fanout_untagged_replays");
      return n > 0 && memcmp(&p.buf[0], &l.pipe.buf[l.phaseStart], n) != 0;
   }
   ~FanoutSession() { for (size_t i = 0; i < lanes.size(); i++) { lanes[i]->S()->SetDataIO(DataIORef()); lanes[i]->R()->SetDataIO(DataIORef()); delete lanes[i]; } }
   void Replan()
   {
      plan.clear(); laneMask.clear(); flatBefore.clear(); queued = 0; const uint32 K = (uint32)lanes.size(), all = (1u << K) - 1;
      bool anyTemplating = false; for (uint32 i = 0; i < K; i++) { lanes[i]->exp.clear(); lanes[i]->rx.got.clear(); lanes[i]->riskZ = lanes[i]->riskT = false; lanes[i]->sent.clear(); lanes[i]->phaseStart = lanes[i]->pipe.Written(); if (lanes[i]->kind == 2) anyTemplating = true; }
      ColliderGroup cg; const bool useCg = !fixed && sq.R(3) == 0; if (useCg) cg.Draw(sq); CollisionCounter cc;
      static const uint32 T[] = {2046, 2047, 2048, 2049, 2050};
      uint32 nm = fixed == 2 ? 2 : fixed ? 5 : shortSeq ? 2 + sq.R(4) : 3 + sq.R(10);
      for (uint32 i = 0; i < nm; i++) {
         MessageRef m; uint32 mask; bool tag;
         if (fixed) { m = i == 0 ? GetMessageFromPool(7) : LocalMsg(sq); if (i == 3) { m = GetMessageFromPool(3); OKB(m()->AddInt32("n", 3)); if (!PadToFlatSize(*m(), 2040, sq, true)) HarnessAbort("fixed plan"); } mask = i == 2 ? 5u : i == 4 ? 10u : all; tag = i != 2; }
         else {
            m = (useCg && cg.ok && sq.R(10) < 4) ? cg.Next(sq) : sq.R(10) < 3 ? Instantiate(shapes[sq.R(3)], sq) : GenBinMsg(sq, false, shortSeq, plan, T, 5, 8, 200000);
            if (sq.R(4) == 0) mask = 1u << sq.R(K); else { mask = 0; for (uint32 k = 0; k < K; k++) if (sq.R(10) < 7) mask |= 1u << k; while ((mask & (mask - 1)) == 0) mask |= 1u << sq.R(K); }
            tag = (mask & (mask - 1)) ? sq.R(4) != 0 : sq.R(5) == 0;
         }
         if (tag) { OKB(OptimizeMessageForTransmissionToMultipleGateways(m)); if (!IsMessageOptimizedForTransmissionToMultipleGateways(m)) Fail("reuse-tag|not-reported", "IsMessageOptimizedForTransmissionToMultipleGateways() is false right after OptimizeMessageForTransmissionToMultipleGateways() returned OK"); }
         plan.push_back(m); laneMask.push_back(mask); flatBefore.push_back(Flat(*m())); if (anyTemplating && !fixed) cc.Note(*m());
         if (mask & (mask - 1)) { if (tag) vh::stat("fanout_tagged_items_to_2plus_lanes"); else vh::stat("fanout_untagged_items_to_2plus_lanes"); }
         if (IsMessageOptimizedForTransmissionToMultipleGateways(m)) for (uint32 a = 0; a < K; a++) for (uint32 b = a + 1; b < K; b++) if ((mask >> a & 1) && (mask >> b & 1) && lanes[a]->enc == lanes[b]->enc) {
            Lane & x = *lanes[a]; Lane & y = *lanes[b];   // two senders that look up the same slot of the tag: which pairs may really share is the library's business
            if (x.kind == 2 || y.kind == 2) { x.riskT = y.riskT = true; vh::stat(x.kind == y.kind ? "fanout_pairs_templating_templating" : "fanout_pairs_templating_other"); }
            else if (x.enc == 0) vh::stat("fanout_pairs_default_default");
            else if (x.kind == 3 && y.kind == 3) vh::stat("fanout_pairs_independent_same_zlib");
            else { x.riskZ = y.riskZ = true; vh::stat((x.kind == 3 || y.kind == 3) ? "fanout_pairs_independent_dependent_same_zlib" : "fanout_pairs_dependent_same_zlib"); }
         }
      }
      planned = nm;
   }
   void LaneFail(Lane & l, size_t li, const std::string & rule, const std::string & detail)
   {
      std::string d = vh::fmt("lane %zu (%s, encoding %d): ", li, KindName(l.kind), l.enc) + detail;
      const bool byTag = (l.riskT || l.riskZ) && TagChangedBytes(l);
      if (!byTag) Fail(rule, d);
      else if (l.riskT) Fail("reuse-tag|templating-format", d + " | this lane and another lane with the same encoding, at least one of them templating, were given the same tagged Message");
      else if (l.riskZ) Fail("reuse-tag|zlib-dependent-stream", d + " | this lane and another lane with the same zlib encoding were given the same tagged Message");
      else Fail(rule, d);
   }
   void CheckCounted(Lane & l, size_t li, const char * when)
   {
      if (l.sCounted == NULL || failed) return;
      uint32 sum = 0; const Queue<MessageRef> & q = l.S()->GetOutgoingMessageQueue(); for (uint32 i = 0; i < q.GetNumItems(); i++) sum += q[i]()->FlattenedSize();
      if (l.sCounted->GetNumOutgoingDataBytes() != sum) Fail("counted-bytes", vh::fmt("lane %zu %s: GetNumOutgoingDataBytes()=%u, the %u queued Messages flatten to %u bytes", li, when, l.sCounted->GetNumOutgoingDataBytes(), q.GetNumItems(), sum));
   }
   virtual bool QueueNext()
   {
      if (queued >= planned) return false;
      for (size_t i = 0; i < lanes.size(); i++) if (laneMask[queued] >> i & 1) {
         lanes[i]->exp.push_back(flatBefore[queued]); lanes[i]->sent.push_back(plan[queued]); status_t r = lanes[i]->S()->AddOutgoingMessage(plan[queued]); if (r.IsError()) { Fail("gateway-error|AddOutgoingMessage", r()); return false; }
         CheckCounted(*lanes[i], i, "after AddOutgoingMessage");
      }
      queued++; return !failed;
   }
   virtual int NumActions() const { return 2 * (int)lanes.size(); }
   virtual long Act(int a, uint32 mb)
   {
      size_t li = (size_t)a / 2; Lane & l = *lanes[li]; const bool out = (a % 2) == 0;
      io_status_t st = out ? l.S()->DoOutput(mb) : l.R()->DoInput(l.rx, mb);
      if (st.IsError()) { LaneFail(l, li, std::string("gateway-error|") + (out ? "DoOutput" : "DoInput"), vh::fmt("%s returned error [%s]", out ? "DoOutput" : "DoInput", st.GetStatus()())); return -1; }
      if (out) CheckCounted(l, li, "after DoOutput");
      return failed ? -1 : st.GetByteCount();
   }
   void JudgeLanes(bool prefixOnly)
   {
      for (size_t i = 0; i < lanes.size() && !failed; i++) {
         Lane & l = *lanes[i]; const std::vector<std::string> & g = l.rx.got; std::vector<std::string> e = l.exp; if (prefixOnly && g.size() < e.size()) e.resize(g.size());
         if (e != g && (l.riskT || l.riskZ) && TagChangedBytes(l)) { size_t k = 0; while (k < e.size() && k < g.size() && e[k] == g[k]) k++; LaneFail(l, i, "altered", vh::fmt("%zu Messages given to the sender, %zu received, first difference at index %zu", l.exp.size(), g.size(), k) + ((k < e.size() && k < g.size()) ? (" expected[" + vh::hex(e[k].data(), e[k].size(), 160) + "] got[" + vh::hex(g[k].data(), g[k].size(), 160) + "]") : std::string())); return; }
         size_t before = failed ? 1 : 0; CompareSeq(*this, prefixOnly ? "Message (before Reset)" : "Message", e, g, true);
         if (failed && !before) failDetail = vh::fmt("lane %zu (%s, encoding %d): ", i, KindName(l.kind), l.enc) + failDetail;
      }
      for (size_t i = 0; i < plan.size() && !failed; i++) if (Flat(*plan[i]()) != flatBefore[i]) Fail("message-modified-by-sending", vh::fmt("plan item %zu flattens to different bytes after it was sent (%zu bytes before)", i, flatBefore[i].size()));
   }
   virtual bool SupportsReset() const { return true; }
   virtual void ResetAndReplan()
   {
      JudgeLanes(true); if (failed) return;
      for (size_t i = 0; i < lanes.size(); i++) { lanes[i]->S()->Reset(); lanes[i]->R()->Reset(); RestartPipe(i); CheckCounted(*lanes[i], i, "after Reset()"); if (lanes[i]->S()->HasBytesToOutput()) Fail("reset|HasBytesToOutput", "a sender reports bytes to output right after Reset()"); }
      resets++; if (!failed) Replan();
   }
   virtual void Finish()
   {
      JudgeLanes(false);
      for (size_t i = 0; i < lanes.size(); i++) { EndState(lanes[i]->S()->HasBytesToOutput(), "a sender"); EndStatus(*lanes[i]->S(), "a sender"); EndStatus(*lanes[i]->R(), "a receiver"); CheckCounted(*lanes[i], i, "at the end"); }
      EndPipes(); vh::stat("fanout_lanes", (long)lanes.size());
   }
   virtual std::string Describe() const
   {
      std::string d = "lanes:"; for (size_t i = 0; i < lanes.size(); i++) d += vh::fmt(" %zu=%s/enc%d", i, KindName(lanes[i]->kind), lanes[i]->enc);
      d += "; items (flat size:lane mask[T=tagged]):"; for (size_t i = 0; i < plan.size() && i < 24; i++) d += vh::fmt(" %zu:%x%s", flatBefore[i].size(), laneMask[i], IsMessageOptimizedForTransmissionToMultipleGateways(plan[i]) ? "T" : ""); return d;
   }
};

static Session * Make(const Cfg & c, uint64_t seqSeed, uint64_t schedSeed, bool shortSeq, int fixed)
{
   switch (c.family) {
   case F_FANOUT: return new FanoutSession(c, seqSeed, schedSeed, shortSeq, fixed);
   case F_MSG: case F_COUNTED: case F_TMPL: return new BinSession(c, seqSeed, schedSeed, shortSeq, fixed);
   case F_TEXT: case F_TEXTFOREIGN: return new TextSession(c, seqSeed, schedSeed, shortSeq, fixed);
   case F_RAW: case F_SLIP: return new RawSession(c, seqSeed, schedSeed, shortSeq, fixed);
   case F_WS: return new WsSession(c, seqSeed, schedSeed, shortSeq, fixed);
   case F_WSFOREIGN: return new WsForeignSession(c, seqSeed, schedSeed, shortSeq, fixed);
   default: return new CgwSession(c, seqSeed, schedSeed, shortSeq, fixed);
   }
}

// ------------------------------------------------------------------------------------------------ reporting
static void Report(Session & s, const std::string & how)
{
   if (!s.failed) return;
   vh::viol(s.failKey, vh::fmt("config=%s %s | ", s.cfg.name, how.c_str()) + s.failDetail + " | " + s.Describe() + " | segmentation (<pipe><r|w><bytes>[x<repeat>]): " + s.chop.LogString());
}
static bool StartClass(const std::string & k) { return k.find("hdr0") != std::string::npos || k.find("_start") != std::string::npos || k.find("stream_end") != std::string::npos || k.find("unframed") != std::string::npos || k.find("unknown") != std::string::npos; }

// ------------------------------------------------------------------------------------------------ mode=pipe: random schedule
static int gOnlyCfg = -1;
static void RunPipeCase(long k, bool shortSeq, const std::vector<chopio::Xfer> * replay, std::vector<chopio::Xfer> * keepLog, bool * failedOut)
{
   vh::Ctx & c = vh::ctx(); const int ci = gOnlyCfg >= 0 ? gOnlyCfg : (int)(k % NCFG); const long rest = k / NCFG; const long seqIdx = rest / 3;
   const uint64_t seqSeed = vh::case_seed(c.seed, 301, (uint64_t)ci * 1000003ULL + (uint64_t)seqIdx), schedSeed = vh::case_seed(c.seed, 302, (uint64_t)k);
   vh::note(vh::fmt("pipe case: config %s sequence %ld schedule %ld", CFGS[ci].name, seqIdx, rest % 3));
   Session * s = Make(CFGS[ci], seqSeed, schedSeed, shortSeq, 0);
   s->chop.DrawTemperament(); if (replay) s->chop.SetScript(*replay);
   vh::Rng sr(vh::mix64(schedSeed ^ 0x5C4EDULL));
   const int na = s->NumActions(); long steps = 0, idle = 0, forced = 0; const long budget = 400000; bool budgetHit = false;
   // Reset-then-reuse: in a quarter of the cases both ends are Reset() once, either in mid-stream (partial frames on both ends, Messages still queued) or
   // at quiescence of the first sequence; a second sequence follows and must be delivered exactly
   const bool wantReset = (sr.R(4) == 0) && s->SupportsReset(); const bool resetMid = sr.R(2) == 0; const long resetAt = 1 + (long)sr.R(sr.R(2) ? 40 : 600); bool didReset = false;
   while (!s->failed) {
      bool prog = false;
      if (wantReset && !didReset && resetMid && steps >= resetAt && s->ResetAllowedNow()) { s->ResetAndReplan(); didReset = true; idle = 0; vh::stat("resets_midstream"); vh::stat(std::string("resets_") + FamilyName(s->cfg.family)); continue; }
      if (s->queued < s->planned && (sr.R(5) == 0 || idle >= 4)) prog = s->QueueNext();
      if (!prog && !s->failed) { long n = s->Act((int)sr.R((uint32)na), PickMaxBytes(sr)); if (n > 0) prog = true; }
      steps++; if (prog) idle = 0; else idle++;
      if (idle >= 4 * na + 4 && !s->failed) {   // quiescence probe: every action once, unlimited, the transport must move >= 1 byte when it can
         s->chop.force = true; bool any = false; forced++;
         if (s->queued < s->planned && s->QueueNext()) any = true;
         for (int a = 0; a < na && !s->failed; a++) { long n = s->Act(a, MUSCLE_NO_LIMIT); if (n > 0) any = true; }
         s->chop.force = false;
         if (!any) {
            if (s->queued < s->planned && !s->failed) s->Fail("stalled", vh::fmt("item %u of %u cannot be queued and no gateway call moves a byte", s->queued, s->planned));
            if (wantReset && !didReset && !s->failed && s->ResetAllowedNow()) { s->Finish(); if (!s->failed) s->ResetAndReplan(); didReset = true; idle = 0; vh::stat("resets_at_quiescence"); vh::stat(std::string("resets_") + FamilyName(s->cfg.family)); continue; }
            break;
         }
         idle = 0;
      }
      if (steps == budget) { s->chop.mode = chopio::CM_EVERYTHING; budgetHit = true; }
   }
   if (!s->failed) s->Finish();
   Report(*s, vh::fmt("mode=pipe sequence=%ld schedule=%ld%s", seqIdx, rest % 3, replay ? " (replayed from its chunk log)" : ""));
   if (failedOut) *failedOut = s->failed;
   if (keepLog) *keepLog = s->chop.log;
   if (!replay) {
      vh::stat(std::string("runs_") + s->cfg.name); vh::stat("items_delivered", s->delivered); vh::stat("scheduler_steps", steps); vh::stat("quiescence_probes", forced); vh::statmax("max_steps_in_a_case", steps);
      if (budgetHit) vh::stat("cases_step_budget_hit"); if (s->chop.dropped) vh::stat("cases_chunk_log_truncated");
      std::map<std::string, long> h; std::vector<const Pipe *> pp(s->pipes.begin(), s->pipes.end()); s->chop.Histogram(pp, h);
      bool inside = false; for (std::map<std::string, long>::const_iterator it = h.begin(); it != h.end(); ++it) { vh::stat(it->first, it->second); if (it->first.compare(0, 3, "rb_") == 0 && !StartClass(it->first)) inside = true; }
      vh::stat("reads", s->chop.nRead); vh::stat("writes", s->chop.nWrite); vh::stat("short_reads", s->chop.shortReads);
      long bytes = 0; for (size_t i = 0; i < s->pipes.size(); i++) bytes += (long)s->pipes[i]->Written(); vh::stat("stream_bytes", bytes); vh::statmax("max_stream_bytes_in_a_case", bytes);
      if (s->cfg.family <= F_TMPL || s->cfg.family == F_CGW) for (size_t i = 0; i < s->pipes[0]->frames.size(); i++) { size_t l = s->pipes[0]->frames[i].len; if (l >= 2046 && l <= 2050) vh::stat("frames_of_2046_to_2050_bytes"); if (l > 2048) vh::stat("frames_beyond_scratch_buffer"); }
      uint64_t dg = vh::mix64(s->chop.Signature() ^ vh::mix64(seqSeed) ^ (uint64_t)ci);
      vh::distinct(dg, s->delivered > 0 && inside);
      if (vh::want_sample() && k % 7 == 0) vh::sample(vh::fmt("case %ld %s: ", k, s->cfg.name) + s->Describe().substr(0, 160) + " | " + s->chop.LogString(200));
   }
   delete s;
}

// ------------------------------------------------------------------------------------------------ mode=sweep: exhaustive cut positions of a fixed sequence
struct Block { int cfg; int pipe; int kind; long count; long L; };   // kind 0 read cut, 1 write cut, 2 pair of read cuts (tiny sequence)
static std::vector<Block> gBlocks; static long gT1 = 0, gT2 = 0;
static const uint64_t FIXED_SEED = 0xC03F1DULL;
static bool Drain(Session & s)
{
   for (;;) {
      bool any = false;
      while (s.queued < s.planned && !s.failed && s.QueueNext()) any = true;
      for (int a = 0; a < s.NumActions() && !s.failed; a++) { long n = s.Act(a, MUSCLE_NO_LIMIT); if (n > 0) any = true; }
      if (s.failed || !any) return !s.failed;
   }
}
static void Calibrate()
{
   std::vector<Block> pairs;
   for (int ci = 0; ci < NCFG; ci++) for (int fx = 1; fx <= 2; fx++) {
      Session * s = Make(CFGS[ci], FIXED_SEED ^ (uint64_t)ci, 0, true, fx); s->chop.mode = chopio::CM_EVERYTHING;
      if (Drain(*s)) s->Finish();
      if (s->failed) {   // not even the uncut run delivers: reported once per worker, this config is left out of the sweep, the others are still swept
         Report(*s, "mode=sweep calibration: the fixed sequence WITHOUT any cut"); vh::stat(std::string("sweep_uncut_failures_") + CFGS[ci].name); delete s; continue;
      }
      for (size_t p = 0; p < s->pipes.size(); p++) {
         long L = (long)s->pipes[p]->Written(); if (L == 0) continue;
         if (fx == 1) { Block b; b.cfg = ci; b.pipe = (int)p; b.L = L; b.count = L + 1; b.kind = 0; gBlocks.push_back(b); if (s->ChoppedWrites()) { b.kind = 1; gBlocks.push_back(b); } }
         else if (L <= 400) { Block b; b.cfg = ci; b.pipe = (int)p; b.L = L; b.kind = 2; b.count = (L + 1) * L / 2; pairs.push_back(b); }
      }
      delete s;
   }
   for (size_t i = 0; i < gBlocks.size(); i++) gT1 += gBlocks[i].count;
   for (size_t i = 0; i < pairs.size(); i++) { gT2 += pairs[i].count; gBlocks.push_back(pairs[i]); }
   std::map<std::string, long> need, pneed; for (size_t i = 0; i < gBlocks.size(); i++) (gBlocks[i].kind == 2 ? pneed : need)[CFGS[gBlocks[i].cfg].name] += gBlocks[i].count;
   for (std::map<std::string, long>::const_iterator it = need.begin(); it != need.end(); ++it) vh::statmax("max_sweepneed_" + it->first, it->second);
   for (std::map<std::string, long>::const_iterator it = pneed.begin(); it != pneed.end(); ++it) vh::statmax("max_sweeppairneed_" + it->first, it->second);
   vh::statmax("max_sweep_single_total", gT1); vh::statmax("max_sweep_total", gT1 + gT2);
}
static void RunSweepCase(long k)
{
   long base = 0; const Block * b = NULL; for (size_t i = 0; i < gBlocks.size(); i++) { if (k < base + gBlocks[i].count) { b = &gBlocks[i]; break; } base += gBlocks[i].count; }
   if (b == NULL) { vh::stat("sweep_index_beyond_total"); return; }
   long j = k - base, x1 = j, x2 = -1;
   if (b->kind == 2) { x1 = 0; long row = b->L; while (j >= row) { j -= row; x1++; row--; } x2 = x1 + 1 + j; }
   vh::note(vh::fmt("sweep case: config %s pipe %d kind %d cut %ld %ld", CFGS[b->cfg].name, b->pipe, b->kind, x1, x2));
   Session * s = Make(CFGS[b->cfg], FIXED_SEED ^ (uint64_t)b->cfg, 0, true, b->kind == 2 ? 2 : 1); s->chop.mode = chopio::CM_EVERYTHING;
   Pipe * p = s->pipes[(size_t)b->pipe];
   if (b->kind == 1) { p->writeLimit = (size_t)x1; if (Drain(*s)) { p->writeLimit = chopio::NO_OFFSET_LIMIT; Drain(*s); } }
   else { p->readLimit = (size_t)x1; bool ok = Drain(*s); if (ok && x2 >= 0) { p->readLimit = (size_t)x2; ok = Drain(*s); } if (ok) { p->readLimit = chopio::NO_OFFSET_LIMIT; Drain(*s); } }
   if (!s->failed) { s->Finish(); if ((long)p->Written() != b->L && !s->failed) HarnessAbort(vh::fmt("sweep: stream length of %s pipe %d is %zu, calibration saw %ld", CFGS[b->cfg].name, b->pipe, p->Written(), b->L)); }
   Report(*s, b->kind == 2 ? vh::fmt("mode=sweep two read boundaries at offsets %ld and %ld of pipe %d (%ld bytes)", x1, x2, b->pipe, b->L) : vh::fmt("mode=sweep single %s boundary at offset %ld of pipe %d (%ld bytes)", b->kind ? "write" : "read", x1, b->pipe, b->L));
   vh::stat(std::string(b->kind == 2 ? "sweeppair_" : "sweepcut_") + CFGS[b->cfg].name); vh::stat(b->kind == 0 ? "sweep_read_cut_cases" : b->kind == 1 ? "sweep_write_cut_cases" : "sweep_pair_cases"); vh::stat("items_delivered", s->delivered);
   std::vector<std::string> cls; p->Classify((size_t)x1, cls); for (size_t i = 0; i < cls.size(); i++) vh::stat("cut_" + cls[i]);
   vh::stat("zero_byte_reads", s->chop.zeroReads);
   vh::distinct(vh::mix64(((uint64_t)b->cfg << 48) ^ ((uint64_t)b->pipe << 44) ^ ((uint64_t)b->kind << 40) ^ ((uint64_t)x1 << 20) ^ (uint64_t)(x2 + 1)), x1 > 0 && x1 < b->L && s->delivered > 0);
   delete s;
}

// ------------------------------------------------------------------------------------------------ mode=regress: fixed witnesses
static void RegressWebSocket(bool handshake, const char * key)
{
   Chopper chop(1); chop.mode = chopio::CM_EVERYTHING; Pipe c2s(chopio::FR_WEBSOCKET, 0, handshake), s2c(chopio::FR_WEBSOCKET, 0, handshake); ChopDataIO cio(&s2c, &c2s, &chop, 1, 0), sio(&c2s, &s2c, &chop, 0, 1);
   static const bool yes = true, no = false; WebSocketMessageIOGatewayRef C, S; Rx rc(1), rs(1);
   if (handshake) { C.SetRef(new WebSocketMessageIOGateway("/chat", "example.com", "muscle", "")); S.SetRef(new WebSocketMessageIOGateway()); } else { C.SetRef(new WebSocketMessageIOGateway(&yes)); S.SetRef(new WebSocketMessageIOGateway(&no)); }
   C()->SetDataIO(DummyDataIORef(cio)); S()->SetDataIO(DummyDataIORef(sio));
   std::string why;
   if (handshake) {
      // the client's GET reaches the server in two segments, with a read that finds no data (0 bytes) in between; likewise the server's 101 reply
      (void)C()->DoOutput(); size_t L = c2s.Written(); if (L < 100) why = vh::fmt("client wrote only %zu bytes of HTTP request", L);
      c2s.readLimit = L / 2; (void)S()->DoInput(rs); (void)S()->DoInput(rs); (void)S()->DoInput(rs, 1); c2s.readLimit = chopio::NO_OFFSET_LIMIT; (void)S()->DoInput(rs);
      if (why.empty() && S()->IsHandshakeInProgress()) why = vh::fmt("server: GET delivered as %zu + %zu bytes with zero-byte reads in between: handshake still in progress (error status [%s])", L / 2, L - L / 2, S()->GetUnrecoverableErrorStatus()());
      (void)S()->DoOutput(); size_t L2 = s2c.Written(); if (why.empty() && L2 < 60) why = vh::fmt("server wrote only %zu bytes of HTTP reply", L2);
      s2c.readLimit = L2 / 2; (void)C()->DoInput(rc); (void)C()->DoInput(rc); (void)C()->DoInput(rc, 1); s2c.readLimit = chopio::NO_OFFSET_LIMIT; (void)C()->DoInput(rc);
      if (why.empty() && C()->IsHandshakeInProgress()) why = vh::fmt("client: 101 reply delivered as %zu + %zu bytes with zero-byte reads in between: handshake still in progress (error status [%s])", L2 / 2, L2 - L2 / 2, C()->GetUnrecoverableErrorStatus()());
      vh::stat("regress_zero_byte_reads", chop.zeroReads);
      if (!why.empty()) { vh::viol(key, why); C()->SetDataIO(DataIORef()); S()->SetDataIO(DataIORef()); return; }
   }
   // client -> server and server -> client text and binary frames arrive unaltered (lengths in all three length forms)
   std::vector<std::string> toS, toC; vh::Rng r(77);
   static const uint32 LENS[] = {19, 125, 126, 300, 70000};
   for (int i = 0; i < 5; i++) for (int d = 0; d < 2; d++) {
      MessageRef t = GetMessageFromPool(PR_COMMAND_TEXT_STRINGS); OKB(t()->AddString(PR_NAME_TEXT_LINE, i == 0 ? "The quick brown fox" : RandLetters(r, LENS[i]).c_str())); Items(*t(), d ? toC : toS); if ((d ? S() : C())->AddOutgoingMessage(t).IsError() && why.empty()) why = "AddOutgoingMessage() refused a text Message";
      MessageRef b = GetMessageFromPool(PR_COMMAND_RAW_DATA); std::string bytes = RandBytes(r, LENS[i]); if (i == 1) for (size_t x = 0; x < bytes.size(); x++) bytes[x] = (char)x; OKB(b()->AddData(PR_NAME_DATA_CHUNKS, B_RAW_TYPE, bytes.data(), (uint32)bytes.size())); Items(*b(), d ? toC : toS); if ((d ? S() : C())->AddOutgoingMessage(b).IsError() && why.empty()) why = "AddOutgoingMessage() refused a raw-data Message";
   }
   for (int round = 0; round < 200; round++) { long n = 0; n += C()->DoOutput().GetByteCount(); n += S()->DoInput(rs).GetByteCount(); n += S()->DoOutput().GetByteCount(); n += C()->DoInput(rc).GetByteCount(); if (n <= 0) break; }
   if (why.empty() && rs.got != toS) { size_t i = 0; while (i < rs.got.size() && i < toS.size() && rs.got[i] == toS[i]) i++; why = vh::fmt("client->server: %zu items sent, %zu received, first difference at item %zu", toS.size(), rs.got.size(), i); if (i < toS.size() && i < rs.got.size()) why += " sent " + Show(toS[i], true) + " received " + Show(rs.got[i], true); }
   if (why.empty() && rc.got != toC) { size_t i = 0; while (i < rc.got.size() && i < toC.size() && rc.got[i] == toC[i]) i++; why = vh::fmt("server->client: %zu items sent, %zu received, first difference at item %zu", toC.size(), rc.got.size(), i); }
   if (!why.empty()) vh::viol(key, why);
   C()->SetDataIO(DataIORef()); S()->SetDataIO(DataIORef());
}
// witness of a defect found by this harness (repaired in /repo: "fix: RawDataMessageIOGateway recursed once per received chunk in minimum-chunk-size mode"):
// DoInputImplementation() called itself once per delivered min-size chunk, so the stack grew with the number of chunks available in one DoInput() call
// (352 bytes each at -O2: 24 KB of pending input with minChunkSize=1 overflowed an 8 MB stack).  First measured without crashing (depth of the receiver
// callback at chunk 400 against chunk 1), then a 100000-byte burst must arrive in one call.
struct DepthRx : public AbstractGatewayMessageReceiver { std::vector<long> depth; char * base; long n; std::string bytes; virtual void MessageReceivedFromGateway(const MessageRef & m, void *) { char here; n++; if (depth.size() < 1000) depth.push_back((long)(base - &here)); const void * d; uint32 nb; if (m() && m()->FindData(PR_NAME_DATA_CHUNKS, B_RAW_TYPE, &d, &nb).IsOK()) bytes.append((const char *)d, nb); } };
static void RegressRawRecursion()
{
   for (int pass = 0; pass < 2; pass++) {
      Chopper chop(1); chop.mode = chopio::CM_EVERYTHING; Pipe p; ChopDataIO rio(&p, NULL, &chop); const long N = pass ? 100000 : 400; vh::Rng r(5);
      std::string sent = RandBytes(r, (uint32)N); p.Append(sent); RawDataMessageIOGateway R(1); R.SetDataIO(DummyDataIORef(rio)); DepthRx rx; rx.n = 0; char b; rx.base = &b;
      io_status_t st = R.DoInput(rx); R.SetDataIO(DataIORef());
      if (rx.n != N || rx.bytes != sent || st.GetByteCount() != N) { vh::viol("raw|lost", vh::fmt("RawDataMessageIOGateway(1): %ld bytes readable, one DoInput() returned %d and delivered %ld chunks / %zu bytes", N, st.GetByteCount(), rx.n, rx.bytes.size())); return; }
      long grow = rx.depth.back() - rx.depth.front(); if (pass == 0) vh::statmax("max_raw_stack_growth_over_400_chunks", grow); else vh::stat("regress_raw_burst_chunks", rx.n);
      if (grow > 16 * (long)rx.depth.size()) { vh::viol("raw|unbounded-recursion-per-chunk", vh::fmt("RawDataMessageIOGateway(minChunkSize=1), %ld bytes readable, one DoInput(): the receiver callback of chunk %zu runs %ld stack bytes deeper than that of chunk 1 (%.0f bytes per chunk): DoInputImplementation() recurses once per chunk, an 8 MB stack overflows after about %.0f chunks", N, rx.depth.size(), grow, (double)grow / (rx.depth.size() - 1), 8.0 * 1024 * 1024 / ((double)grow / (rx.depth.size() - 1)))); return; }
   }
}
// ---- witnesses of the reuse-tag defects found by this harness (repaired in /repo: "fix: a Message tagged by OptimizeMessageForTransmissionToMultipleGateways() was
// sent with another gateway's state-dependent bytes"): W1 two zlib senders with different deflate histories, W2 templating + plain, W3 two templating senders of
// which only one already knows the template.  No chopping: the defect was in what the second sender put on the wire.
struct MiniLane {
   Pipe p; ChopDataIO sio, rio; AbstractMessageIOGatewayRef S, R; Rx rx; std::vector<std::string> exp; std::string err;
   MiniLane(Chopper * c, AbstractMessageIOGateway * s, AbstractMessageIOGateway * r) : p(chopio::FR_MUSCLE8), sio(NULL, &p, c), rio(&p, NULL, c), S(s), R(r), rx(0) { S()->SetDataIO(DummyDataIORef(sio)); R()->SetDataIO(DummyDataIORef(rio)); }
   ~MiniLane() { S()->SetDataIO(DataIORef()); R()->SetDataIO(DataIORef()); }
   void Send(const MessageRef & m) { exp.push_back(Flat(*m())); if (S()->AddOutgoingMessage(m).IsError()) err = "AddOutgoingMessage failed"; }
   void Pump() { for (int i = 0; i < 100; i++) { io_status_t a = S()->DoOutput(), b = R()->DoInput(rx); if (a.IsError() || b.IsError()) { if (err.empty()) err = vh::fmt("DoOutput [%s] DoInput [%s]", a.GetStatus()(), b.GetStatus()()); return; } if (a.GetByteCount() <= 0 && b.GetByteCount() <= 0) return; } }
   std::string Verdict(const char * name) const { if (err.empty() && exp == rx.got) return ""; return vh::fmt("%s: %zu Messages given to the sender, %zu received%s%s", name, exp.size(), rx.got.size(), err.empty() ? ", content differs" : ", error: ", err.c_str()); }
};
static MessageRef TextMsg(uint32 what, const char * txt) { MessageRef m = GetMessageFromPool(what); std::string t; for (int i = 0; i < 6; i++) { t += txt; t += ' '; } OKB(m()->AddString("text", t.c_str())); OKB(m()->AddInt32("n", (int32)what)); return m; }
static void RegressReuseTag()
{
   const int Z6 = MUSCLE_MESSAGE_ENCODING_ZLIB_6; Chopper chop(1); chop.mode = chopio::CM_EVERYTHING;
   {  // W1
      MiniLane a(&chop, new MessageIOGateway(Z6), new MessageIOGateway), b(&chop, new MessageIOGateway(Z6), new MessageIOGateway);
      a.Send(TextMsg(1, "history of lane a: alpha alpha alpha")); b.Send(TextMsg(2, "lane b saw something else: beta beta")); a.Pump(); b.Pump();
      MessageRef m = TextMsg(3, "the shared message alpha beta alpha beta"); OKB(OptimizeMessageForTransmissionToMultipleGateways(m)); OKB(OptimizeMessageForTransmissionToMultipleGateways(m)); std::string before = Flat(*m());
      a.Send(m); b.Send(m); a.Pump(); b.Pump(); a.Send(TextMsg(4, "after")); b.Send(TextMsg(5, "after")); a.Pump(); b.Pump();
      std::string v = a.Verdict("first zlib-6 sender") + b.Verdict("second zlib-6 sender"); if (!v.empty()) vh::viol("fanout|reuse-tag|zlib-dependent-stream", "two MessageIOGateway(ZLIB_6) senders with different histories, then one tagged MessageRef to both, then one more Message each: " + v);
      else if (Flat(*m()) != before) vh::viol("fanout|message-modified-by-sending", "the tagged Message flattens differently after it was sent");
   }
   {  // W2, both orders
      for (int order = 0; order < 2; order++) {
         MiniLane t(&chop, new TemplatingMessageIOGateway, new TemplatingMessageIOGateway), p(&chop, new MessageIOGateway, new MessageIOGateway);
         MessageRef m = TextMsg(3, "the shared message"); OKB(OptimizeMessageForTransmissionToMultipleGateways(m)); t.Send(m); p.Send(m); if (order) { p.Pump(); t.Pump(); } else { t.Pump(); p.Pump(); }
         std::string v = t.Verdict("templating sender") + p.Verdict("plain sender"); if (!v.empty()) { vh::viol("fanout|reuse-tag|templating-format", vh::fmt("one tagged MessageRef to a TemplatingMessageIOGateway and a MessageIOGateway (default encoding), %s flattening first: ", order ? "plain" : "templating") + v); break; }
      }
   }
   {  // W3
      MiniLane a(&chop, new TemplatingMessageIOGateway, new TemplatingMessageIOGateway), b(&chop, new TemplatingMessageIOGateway, new TemplatingMessageIOGateway);
      a.Send(TextMsg(1, "teach lane a the template")); a.Pump();
      MessageRef m = TextMsg(3, "the shared message"); OKB(OptimizeMessageForTransmissionToMultipleGateways(m)); a.Send(m); b.Send(m); a.Pump(); b.Pump(); a.Send(TextMsg(4, "after")); b.Send(TextMsg(5, "after")); a.Pump(); b.Pump();
      std::string v = a.Verdict("templating sender that knows the template") + b.Verdict("templating sender that does not"); if (!v.empty()) vh::viol("fanout|reuse-tag|templating-format", "two TemplatingMessageIOGateway senders, one tagged MessageRef to both: " + v);
   }
   {  // what must keep working: default+default+one zlib lane, and two senders whose Messages are deflated independently
      MiniLane a(&chop, new MessageIOGateway, new MessageIOGateway), b(&chop, new CountedMessageIOGateway, new MessageIOGateway), z(&chop, new MessageIOGateway(Z6), new MessageIOGateway), i1(&chop, new IndependentGateway(Z6), new MessageIOGateway), i2(&chop, new IndependentGateway(Z6), new MessageIOGateway);
      i1.Send(TextMsg(8, "private history of i1")); i1.Pump();
      for (uint32 k = 0; k < 3; k++) { MessageRef m = TextMsg(10 + k, "shared by five senders"); OKB(OptimizeMessageForTransmissionToMultipleGateways(m)); a.Send(m); b.Send(m); z.Send(m); i1.Send(m); i2.Send(m); if (k % 2) { i2.Pump(); z.Pump(); b.Pump(); a.Pump(); i1.Pump(); } else { a.Pump(); b.Pump(); z.Pump(); i1.Pump(); i2.Pump(); } }
      std::string v = a.Verdict("default") + b.Verdict("counted default") + z.Verdict("zlib-6") + i1.Verdict("independent zlib-6 #1") + i2.Verdict("independent zlib-6 #2"); if (!v.empty()) vh::viol("fanout|altered", "tagged Messages to default + counted + zlib-6 + two independent-deflate zlib-6 senders: " + v);
      else vh::stat("regress_reuse_tag_lanes_ok", 5);
   }
}
// ---- further fixed cases of the routes added with the coverage audit
static void RegressTextAndCounted()
{
   Chopper chop(1); chop.mode = chopio::CM_EVERYTHING;
   {  // an unterminated last line is delivered when the stream ends (PlainTextMessageIOGateway::FlushInput)
      Pipe p(chopio::FR_LINES); ChopDataIO rio(&p, NULL, &chop); PlainTextMessageIOGateway R; R.SetDataIO(DummyDataIORef(rio)); Rx rx(1);
      p.Append(std::string("abc\r\ndef")); p.closed = true; io_status_t s1 = R.DoInput(rx), s2 = R.DoInput(rx); R.SetDataIO(DataIORef());
      std::vector<std::string> want; want.push_back("T:abc"); want.push_back("T:def");
      if (rx.got != want || !s2.IsError()) vh::viol("regress-text-flush-at-end-of-stream", vh::fmt("stream 'abc\\r\\ndef' then end of stream: %zu lines delivered (want abc, def); DoInput returned %d then [%s]", rx.got.size(), s1.GetByteCount(), s2.GetStatus()()));
   }
   {  // a telnet command split across reads at every position is stripped all the same
      const std::string stream = std::string("he") + (char)255 + (char)251 + (char)1 + "ll" + (char)255 + (char)250 + (char)24 + "junk\r\n" + (char)255 + (char)240 + "o\r\nnext\n";
      for (size_t cut = 0; cut <= stream.size(); cut++) {
         Pipe p(chopio::FR_LINES); ChopDataIO rio(&p, NULL, &chop); TelnetPlainTextMessageIOGateway R; R.SetDataIO(DummyDataIORef(rio)); Rx rx(1);
         p.Append(stream); p.readLimit = cut; (void)R.DoInput(rx); (void)R.DoInput(rx); p.readLimit = chopio::NO_OFFSET_LIMIT; (void)R.DoInput(rx); (void)R.DoInput(rx); R.SetDataIO(DataIORef());
         std::vector<std::string> want; want.push_back("T:hello"); want.push_back("T:next");
         if (rx.got != want) { std::string g; for (size_t i = 0; i < rx.got.size(); i++) g += "[" + rx.got[i].substr(2) + "]"; vh::viol("regress-telnet-command-split", vh::fmt("'he' IAC WILL 1 'll' IAC SB 24 'junk CR LF' IAC SE 'o' CRLF 'next' LF delivered in two segments cut at offset %zu: received %s, want [hello][next]", cut, g.c_str())); break; }
      }
      vh::stat("regress_telnet_cut_positions", (long)stream.size() + 1);
   }
   {  // CountedRawDataMessageIOGateway: bytes of the Messages still in the outgoing queue
      Pipe p; ChopDataIO sio(NULL, &p, &chop); CountedRawDataMessageIOGateway S; S.SetDataIO(DummyDataIORef(sio)); uint32 seen[5]; static const uint32 N[3] = {10, 20, 30};
      for (int i = 0; i < 3; i++) { MessageRef m = GetMessageFromPool(PR_COMMAND_RAW_DATA); std::string b((size_t)N[i], (char)('a' + i)); OKB(m()->AddData(PR_NAME_DATA_CHUNKS, B_RAW_TYPE, b.data(), N[i])); OKB(S.AddOutgoingMessage(m)); seen[i] = S.GetNumOutgoingDataBytes(); }
      (void)S.DoOutput(5); seen[3] = S.GetNumOutgoingDataBytes(); S.Reset(); seen[4] = S.GetNumOutgoingDataBytes(); S.SetDataIO(DataIORef());
      if (seen[0] != 10 || seen[1] != 30 || seen[2] != 60 || seen[3] != 50 || seen[4] != 0) vh::viol("regress-countedraw", vh::fmt("GetNumOutgoingDataBytes() after adding 10, 20, 30 bytes: %u %u %u (want 10 30 60); after the first Message was taken from the queue: %u (want 50); after Reset(): %u (want 0)", seen[0], seen[1], seen[2], seen[3], seen[4]));
   }
   {  // Reset() in mid-stream on both ends of a zlib pair and of a templating pair, then a fresh stream
      for (int t = 0; t < 2; t++) {
         MiniLane l(&chop, t ? (AbstractMessageIOGateway *)new TemplatingMessageIOGateway(2048, MUSCLE_MESSAGE_ENCODING_ZLIB_6) : (AbstractMessageIOGateway *)new MessageIOGateway(MUSCLE_MESSAGE_ENCODING_ZLIB_6), t ? (AbstractMessageIOGateway *)new TemplatingMessageIOGateway(2048) : (AbstractMessageIOGateway *)new MessageIOGateway);
         l.Send(TextMsg(1, "first stream, complete")); l.Pump(); l.Send(TextMsg(1, "first stream, cut in the middle of its frame")); (void)l.S()->DoOutput(20); (void)l.R()->DoInput(l.rx, 11);
         std::string v = l.rx.got.size() == 1 && l.rx.got[0] == l.exp[0] ? "" : "first stream: the complete Message did not arrive; ";
         l.S()->Reset(); l.R()->Reset(); l.p.Restart(); l.exp.clear(); l.rx.got.clear();
         l.Send(TextMsg(1, "first stream, complete")); l.Send(TextMsg(2, "second stream")); l.Pump(); v += l.Verdict(t ? "templating zlib-6 pair after Reset()" : "zlib-6 pair after Reset()");
         if (!v.empty()) vh::viol("regress-reset-midstream", v);
      }
   }
}
// ---- witness of F60 (found by this harness's fan-out route in the thorough tier, repaired in /repo: "fix: TemplatingMessageIOGateway sent a Message using the
// template of a differently laid-out Message with the same hash code"): two layouts with one TemplateHashCode64().  Runs LAST: on an unrepaired tree the second
// pair makes the SENDER abort in DataFlattener's incomplete-write assertion, so the first (which only alters the Message) reports and returns.
static void RegressTemplateCollision()
{
   Chopper chop(1); chop.mode = chopio::CM_EVERYTHING; vh::Rng r(60); static int target = 0;
   {
      MessageRef a = GetMessageFromPool(1); OKB(a()->AddPointer("p", &target)); MessageRef b = GetMessageFromPool(2); AddUserItems(*b(), "", 0, 1, r);   // nothing flattenable at all / one field that contributes nothing
      if (a()->TemplateHashCode64() != b()->TemplateHashCode64()) vh::stat("regress_collision_pair_not_colliding");
      else {
         MiniLane l(&chop, new TemplatingMessageIOGateway, new TemplatingMessageIOGateway); l.Send(a); l.Send(b); l.Send(a); l.Send(b); l.Pump(); std::string v = l.Verdict("templating pair");
         if (!v.empty()) { vh::viol("tmpl|template-hash-collision", "a Message without flattenable fields and the Message {\"\": one item of type code 0} share TemplateHashCode64(); sent alternately: " + v); return; }
         vh::stat("regress_template_collision_pairs");
      }
   }
   {
      uint8 d[8]; memset(d, 0x77, sizeof(d)); MessageRef a = GetMessageFromPool(1); OKB(a()->AddData("x", 2, d, 8)); MessageRef b = GetMessageFromPool(1); OKB(b()->AddData("x", 1, d, 3)); OKB(b()->AddData("x", 1, d, 5));
      if (a()->TemplateHashCode64() != b()->TemplateHashCode64()) vh::stat("regress_collision_pair_not_colliding");
      else {
         MiniLane l(&chop, new TemplatingMessageIOGateway, new TemplatingMessageIOGateway); l.Send(a); l.Send(b); l.Send(a); l.Send(b); l.Pump(); std::string v = l.Verdict("templating pair");
         if (!v.empty()) { vh::viol("tmpl|template-hash-collision", "{x: user type 2 x 1 item} and {x: user type 1 x 2 items} share TemplateHashCode64(); sent alternately: " + v); return; }
         vh::stat("regress_template_collision_pairs");
      }
   }
   for (int rec = 0; rec < NUM_COLLIDE_RECIPES; rec++) {   // every recipe of the generator, every member, twice round, through a small and a large cache
      for (int big = 0; big < 2; big++) {
         MiniLane l(&chop, new TemplatingMessageIOGateway(big ? 1024 * 1024 : 200), new TemplatingMessageIOGateway(big ? 1024 * 1024 : 200));
         for (int round = 0; round < 2; round++) for (int k = 0; k < ColliderMembers(rec); k++) l.Send(MakeCollider(rec, k, 7, r));
         l.Pump(); std::string v = l.Verdict("templating pair"); if (!v.empty()) { vh::viol("tmpl|template-hash-collision", vh::fmt("collision recipe %d, LRU %s: ", rec, big ? "1 MiB" : "200 B") + v); return; }
      }
      vh::stat("regress_template_collision_recipes");
   }
}
static void Regress()
{
   vh::begin_case(2000); RegressReuseTag(); vh::begin_case(2001); RegressTextAndCounted();
   vh::begin_case(1000); if (vh::opt("mask").find("rawrecursion") != std::string::npos) vh::stat("masked_rawrecursion"); else RegressRawRecursion();
   vh::begin_case(0); RegressWebSocket(true, "regress-F25"); vh::distinct(1);
   vh::begin_case(1); RegressWebSocket(false, "regress-F26"); vh::distinct(2);
   // the chunk log makes a segmentation replayable: re-running a case from its log alone reproduces the same transfers
   for (long k = 0; k < 2 * NCFG; k++) {
      vh::begin_case(2 + k); std::vector<chopio::Xfer> log1, log2; bool f1 = false, f2 = false;
      RunPipeCase(k, true, NULL, &log1, &f1); RunPipeCase(k, true, &log1, &log2, &f2);
      bool same = log1.size() == log2.size() && f1 == f2; for (size_t i = 0; same && i < log1.size(); i++) if (log1[i].pipe != log2[i].pipe || log1[i].isRead != log2[i].isRead || log1[i].got != log2[i].got || log1[i].asked != log2[i].asked) same = false;
      if (!same) HarnessAbort(vh::fmt("replay of case %ld from its chunk log diverged (%zu vs %zu transfers)", k, log1.size(), log2.size()));
      vh::stat("regress_replayed_cases");
   }
   vh::begin_case(3000); RegressTemplateCollision();
}

int main(int argc, char ** argv)
{
   CompleteSetupSystem css; SetConsoleLogLevel(MUSCLE_LOG_NONE);
   vh::init(argc, argv); vh::Ctx & c = vh::ctx();
   gZeroChunks = vh::optl("zerochunks", 0) != 0;
   std::string mode = vh::opt("mode", "pipe"); const bool shortSeq = vh::optl("short", 0) != 0;
   if (vh::has_opt("cfg")) { for (int i = 0; i < NCFG; i++) if (vh::opt("cfg") == CFGS[i].name) gOnlyCfg = i; if (gOnlyCfg < 0) { fprintf(stderr, "unknown cfg\n"); return 3; } }
   if (mode == "regress") { Regress(); return vh::finish(); }
   if (mode == "sweep") { Calibrate(); for (long k = c.from; k < c.from + c.cases && k < gT1 + gT2; k++) { vh::begin_case(k); RunSweepCase(k); } return vh::finish(); }
   for (long k = c.from; k < c.from + c.cases; k++) { vh::begin_case(k); RunPipeCase(k, shortSeq, NULL, NULL, NULL); }
   return vh::finish();
}
