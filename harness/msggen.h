// msggen.h -- reusable, header-only generator of muscle Messages (used by C01 h_msgroundtrip; meant for C02/C03/C08 too).
//
// A Message is built ONLY through the public Message API from a caller-supplied per-case PRNG:
//    MessageRef m = msggen::GenMessage(rng, opts [, &trace]);
// Every field is steered through an operation sequence (add / prepend / multi-add / replace-at / replace-or-add /
// remove-at / remove-last / find+copy / EnsureFieldIsPrivate / CopyName / ShareName / MoveName / Rename / MoveNameTo*)
// that ends in a chosen *representation state* (DESIGN.md C01): empty-after-removal (the field vanishes), one inline
// item, an array object holding exactly one item (>=2 adds, then removes), arrays of 2 / 3 / 17 / 300 items, or
// another count.  The inline/array state is tracked by a small model of the documented semantics (the public API
// does not expose it): a field becomes an array at its second item and stays one until its last item is removed.
// Values come from boundary pools mixed with random ones.  Every build step's status and the resulting item count
// are asserted: a failure is a HARNESS-ABORT (exit by abort()), never a violation.
//
// Also here (all through the public API only):
//    DescribeMessage(m)                       one-line human-readable description (for samples / crash notes)
//    SameStructure(a, b, skipNonFlat, why..)  bit-exact recursive structural comparator
//    ContainsNaN(m), CountNonFlattenable(m)   recursive scans
//    Blob                                     a user Flattenable (arbitrary type code + bytes) for AddFlat(obj)
#ifndef VERIF_MSGGEN_H
#define VERIF_MSGGEN_H
#include "message/Message.h"
#include "util/ByteBuffer.h"
#include "util/String.h"
#include "support/Point.h"
#include "support/Rect.h"
#include "support/Flattenable.h"
#include <string>
#include <vector>
#include <set>
#include <algorithm>
#include <cstring>
#include "vh.h"

namespace msggen {
using namespace muscle;

// ---- type classes, representation states, operation kinds ---------------------------------------------------------
enum { TC_BOOL = 0, TC_INT8, TC_INT16, TC_INT32, TC_INT64, TC_FLOAT, TC_DOUBLE, TC_STRING, TC_POINT, TC_RECT, TC_RAW, TC_USER, TC_MESSAGE, TC_POINTER, TC_TAG, NUM_TC };
static inline const char * TypeClassName(int c) { static const char * const n[] = {"bool", "int8", "int16", "int32", "int64", "float", "double", "string", "point", "rect", "raw", "user", "message", "pointer", "tag"}; return (c >= 0 && c < NUM_TC) ? n[c] : "?"; }
enum { TM_BOOL = 1 << TC_BOOL, TM_INTS = (1 << TC_INT8) | (1 << TC_INT16) | (1 << TC_INT32) | (1 << TC_INT64), TM_FLOATS = (1 << TC_FLOAT) | (1 << TC_DOUBLE), TM_STRING = 1 << TC_STRING,
       TM_GEOM = (1 << TC_POINT) | (1 << TC_RECT), TM_RAW = 1 << TC_RAW, TM_USER = 1 << TC_USER, TM_MESSAGE = 1 << TC_MESSAGE, TM_POINTER = 1 << TC_POINTER, TM_TAG = 1 << TC_TAG,
       TM_NONFLATTENABLE = TM_POINTER | TM_TAG, TM_ALL = (1 << NUM_TC) - 1, TM_FLATTENABLE = TM_ALL & ~TM_NONFLATTENABLE };

enum { RS_REMOVED = 0, RS_INLINE1, RS_ARRAY1, RS_ARRAY2, RS_ARRAY3, RS_ARRAY17, RS_ARRAY300, RS_OTHER, NUM_RS };
static inline const char * RepStateName(int s) { static const char * const n[] = {"removed", "inline1", "array1", "array2", "array3", "array17", "array300", "other"}; return (s >= 0 && s < NUM_RS) ? n[s] : "?"; }

enum { OP_ADD = 0, OP_PREPEND, OP_ADDMULTI, OP_REPLACE, OP_REPLACE_OKADD, OP_REMOVE_AT, OP_REMOVE_LAST, OP_FINDCOPY, OP_ENSUREPRIVATE, OP_COPYNAME, OP_SHARENAME, OP_MOVENAME, OP_RENAME, OP_REORDER, OP_ALIAS, OP_SORT, OP_SORT_ONE_ITEM_RANGE, OP_NORMALIZE, OP_FINDCOPY_MESSAGE_BY_VALUE, OP_FINDCOPY_CSTR, OP_FINDCOPY_FINDFLAT_OBJECT, OP_MUTATE_REMOVENAME, OP_MUTATE_WHAT, OP_MUTATE_NEWFIELD, OP_MUTATE_ITEMOP, NUM_OP };
static inline const char * OpName(int o) { static const char * const n[] = {"add", "prepend", "addmulti", "replace", "replace_okadd", "remove_at", "remove_last", "findcopy", "ensureprivate", "copyname", "sharename", "movename", "rename", "reorder", "alias", "sort", "sort_one_item_range", "normalize", "findcopy_message_by_value", "findcopy_cstr", "findcopy_findflat_object", "mutate_removename", "mutate_what", "mutate_newfield", "mutate_itemop"}; return (o >= 0 && o < NUM_OP) ? n[o] : "?"; }

enum { SB_ANY = 0 /* any bytes 1..255 */, SB_UTF8 /* valid UTF-8, 1-3 byte sequences */, SB_ASCII /* printable ASCII */ };
enum { SIZE_SMALL = 0 /* <= ~200 items, counts <= 8, items <= 40 bytes */, SIZE_NORMAL /* <= ~2500 items, arrays of 17/300, a few KB-sized items */, SIZE_LARGE /* <= ~20000 items */ };

struct GenOptions {
   int maxDepth;               // deepest nesting level of sub-Messages (0 = no Message fields); the design asks for 4
   uint32_t maxTopFields;      // top-level Message: 0..maxTopFields field scripts (fields ending "removed" do not survive)
   uint32_t maxSubFields;      // per sub-Message
   uint32_t typeMask;          // TM_* bits of the type classes that may be generated
   bool allowNaN;              // NaN bit patterns (quiet, signalling, payloads) in float/double/point/rect items
   bool allowZeroLengthItems;  // 0-byte raw items (AddFlat(GetByteBufferFromPool(0))) and 0-byte user-type items (AddFlat(Blob))
   bool allowEmptyFieldName;   // the field name ""
   bool allowEmptyStrings;     // the string value ""
   bool allowOddUserTypeCodes; // user type codes 0, 0xFFFFFFFF and random ones; otherwise only 'usr1'/'usr2'
   int nameBytes;              // SB_* : bytes used in field names
   int stringBytes;            // SB_* : bytes used in string values
   int sizeClass;              // SIZE_*
   bool allowSharedFields;     // leave some array fields shared with a scratch Message (kept alive in GenTrace) / aliased inside the Message
   bool reorderFields;         // MoveNameToFront/Back/Position/Before/Behind passes
   bool extraRoutes;           // further build routes: SortDataInField, GetPointerToNormalizedFieldData, FindMessage by value, FindString(const char *&).
                               // Off by default: switching it on changes the PRNG draw sequence, i.e. which Messages a given seed produces
   GenOptions() : maxDepth(4), maxTopFields(10), maxSubFields(4), typeMask(TM_ALL), allowNaN(true), allowZeroLengthItems(true), allowEmptyFieldName(true), allowEmptyStrings(true),
                  allowOddUserTypeCodes(true), nameBytes(SB_ANY), stringBytes(SB_ANY), sizeClass(SIZE_NORMAL), allowSharedFields(true), reorderFields(true), extraRoutes(false) {}
   // everything constructible (C01)
   static GenOptions Full() { GenOptions o; o.extraRoutes = true; return o; }
   // what survives a trip through every codec (C++ Message, C MiniMessage/MicroMessage, Python message.py): no pointer/tag fields,
   // no NaN (a float32 signalling NaN is quieted when Python widens it), UTF-8 strings and names, no 0-byte items, tame user type codes
   static GenOptions CommonCodecRepertoire() { GenOptions o; o.typeMask = TM_FLATTENABLE; o.allowNaN = false; o.allowZeroLengthItems = false; o.allowOddUserTypeCodes = false; o.nameBytes = SB_UTF8; o.stringBytes = SB_UTF8; o.allowSharedFields = false; return o; }
   // only what is serialised (gateways, parser corpus): no pointer/tag fields
   static GenOptions Flattenable() { GenOptions o; o.typeMask = TM_FLATTENABLE; return o; }
   static GenOptions Small() { GenOptions o; o.sizeClass = SIZE_SMALL; o.maxDepth = 2; o.maxTopFields = 5; o.maxSubFields = 3; return o; }
};

// what the generator did (optional out-parameter of GenMessage)
struct GenTrace {
   bool wantScript;                       // set before the call: record the operation script (bounded) into 'script'
   std::string script;
   uint32_t cells[NUM_TC][NUM_RS];        // field scripts that ended in (type class, representation state), all nesting levels
   uint32_t ops[NUM_OP];
   uint32_t fieldScripts, items, aliases, sharedLeft, zeroLengthItems, nanItems, maxDepthReached, subMessages;
   std::vector<MessageRef> keepAlive;     // scratch Messages that still share an array with the result (live until the trace dies)
   std::string routeFailKey, routeFailDetail;   // first failed expectation of a build route (sort order, normalized data, ...): a library misbehaviour, for the caller to report
   GenTrace() : wantScript(false) { Clear(); }
   void Clear() { script.clear(); memset(cells, 0, sizeof(cells)); memset(ops, 0, sizeof(ops)); fieldScripts = items = aliases = sharedLeft = zeroLengthItems = nanItems = maxDepthReached = subMessages = 0; keepAlive.clear(); routeFailKey.clear(); routeFailDetail.clear(); }
};

// ---- a user Flattenable with an arbitrary type code: exercises the AddFlat(const T &) idiom of the documentation --------------
class Blob : public Flattenable {
public:
   Blob() : _tc(B_RAW_TYPE) {}
   Blob(uint32 tc, const std::string & b) : _tc(tc), _b(b) {}
   virtual bool IsFixedSize() const { return false; }
   virtual uint32 TypeCode() const { return _tc; }
   virtual uint32 FlattenedSize() const { return (uint32)_b.size(); }
   virtual void Flatten(DataFlattener flat) const { if (_b.size()) flat.WriteBytes((const uint8 *)_b.data(), (uint32)_b.size()); }
   virtual status_t Unflatten(DataUnflattener & unflat) { uint32 n = unflat.GetNumBytesAvailable(); _b.resize(n); return n ? unflat.ReadBytes((uint8 *)&_b[0], n) : B_NO_ERROR; }
   const std::string & Bytes() const { return _b; }
private:
   uint32 _tc; std::string _b;
};

// ---- small helpers ----------------------------------------------------------------------------------------------
static inline void BuildFail(const std::string & what, const status_t & r)
{
   fprintf(stderr, "HARNESS-ABORT: msggen build step failed: %s [%s]\n", what.c_str(), r());
   fflush(stderr); abort();
}
static inline bool IsNaN32(uint32_t b) { return (b & 0x7f800000u) == 0x7f800000u && (b & 0x007fffffu) != 0; }
static inline bool IsNaN64(uint64_t b) { return (b & 0x7ff0000000000000ULL) == 0x7ff0000000000000ULL && (b & 0x000fffffffffffffULL) != 0; }
static inline uint32 FixedSizeOf(int cls) { switch (cls) { case TC_BOOL: return sizeof(bool); case TC_INT8: return 1; case TC_INT16: return 2; case TC_INT32: return 4; case TC_INT64: return 8; case TC_FLOAT: return 4; case TC_DOUBLE: return 8; case TC_POINT: return sizeof(Point); case TC_RECT: return sizeof(Rect); } return 0; }
static inline bool IsBuiltinTypeCode(uint32 t)
{
   switch (t) { case B_ANY_TYPE: case B_BOOL_TYPE: case B_DOUBLE_TYPE: case B_FLOAT_TYPE: case B_INT64_TYPE: case B_INT32_TYPE: case B_INT16_TYPE: case B_INT8_TYPE: case B_MESSAGE_TYPE: case B_POINTER_TYPE:
                case B_POINT_TYPE: case B_RECT_TYPE: case B_STRING_TYPE: case B_RAW_TYPE: case B_TAG_TYPE: return true; }
   return false;
}
static inline int ClassOfTypeCode(uint32 t)
{
   switch (t) { case B_BOOL_TYPE: return TC_BOOL; case B_INT8_TYPE: return TC_INT8; case B_INT16_TYPE: return TC_INT16; case B_INT32_TYPE: return TC_INT32; case B_INT64_TYPE: return TC_INT64; case B_FLOAT_TYPE: return TC_FLOAT;
                case B_DOUBLE_TYPE: return TC_DOUBLE; case B_STRING_TYPE: return TC_STRING; case B_POINT_TYPE: return TC_POINT; case B_RECT_TYPE: return TC_RECT; case B_RAW_TYPE: return TC_RAW; case B_MESSAGE_TYPE: return TC_MESSAGE;
                case B_POINTER_TYPE: return TC_POINTER; case B_TAG_TYPE: return TC_TAG; }
   return TC_USER;
}
static inline std::string Esc(const std::string & s, size_t maxChars)
{
   std::string o; for (size_t i = 0; i < s.size() && i < maxChars; i++) { unsigned char ch = (unsigned char)s[i]; if (ch >= 0x20 && ch < 0x7f && ch != '\\') o += (char)ch; else o += vh::fmt("\\x%02x", ch); }
   if (s.size() > maxChars) o += ".."; return o;
}

// bytes of item (i) of a non-Message, non-tag field: FindData(), and for 0-byte buffers (FindData answers B_TYPE_MISMATCH because the
// buffer's data pointer is NULL) the ByteBuffer itself through FindFlat()
static inline bool ItemBytes(const Message & m, const String & fn, uint32 t, uint32 i, const void * & p, uint32 & len, status_t * optStatus = NULL)
{
   p = NULL; len = 0;
   const status_t r = m.FindData(fn, t, i, &p, &len);
   if (optStatus) *optStatus = r;
   if (r.IsOK()) return true;
   FlatCountableRef x; if (m.FindFlat(fn, i, x).IsError()) return false;
   const ByteBuffer * bb = dynamic_cast<const ByteBuffer *>(x()); if (bb == NULL) return false;
   p = bb->GetBuffer(); len = bb->GetNumBytes(); return true;
}

// one item value
struct Value {
   int cls; uint32 tc;
   union { uint64_t align[2]; uint8_t b[16]; } u;   // fixed-size classes: the in-memory item (bool = 1 byte 0/1, point = 2 floats, rect = 4 floats)
   std::string bytes;                               // string (without NUL) / raw / user payload
   MessageRef msg; RefCountableRef tag; const void * ptr;
   Value() : cls(TC_INT32), tc(B_INT32_TYPE), ptr(NULL) { u.align[0] = u.align[1] = 0; }
};

struct Ctx {
   vh::Rng & g; const GenOptions & o; GenTrace * t; long budget; uint32_t nameCounter; size_t logCap; bool nanOK;   // nanOK: NaNs only in about a third of the Messages, so that operator== can be checked on the others
   Ctx(vh::Rng & rng, const GenOptions & opt, GenTrace * tr) : g(rng), o(opt), t(tr), budget(opt.sizeClass == SIZE_SMALL ? 200 : opt.sizeClass == SIZE_NORMAL ? 2500 : 20000), nameCounter(0), logCap(3000), nanOK(opt.allowNaN) {}
   uint32_t R(uint32_t n) { return g.R(n); }
   void Op(int op) { if (t) t->ops[op]++; }
   void Log(const std::string & s) { if (t && t->wantScript && t->script.size() < logCap) { t->script += s; t->script += ' '; } }
};

// a build route did not do what its documentation says (not a harness precondition): remembered in the trace for the caller's verdict
static inline void RouteFail(Ctx & c, const std::string & key, const std::string & detail)
{
   if (c.t) { if (c.t->routeFailKey.empty()) { c.t->routeFailKey = "route|" + key; c.t->routeFailDetail = detail; } }
   else vh::viol("route|" + key, detail);
}

static int gPtrTargets[8];
static_assert(sizeof(Point) == 8 && sizeof(Rect) == 16 && sizeof(bool) == 1, "msggen assumes Point = 2 floats, Rect = 4 floats, bool = 1 byte in memory");

// ---- value pools ----------------------------------------------------------------------------------------------------
static inline uint32_t RandF32(Ctx & c)
{
   static const uint32_t pool[] = {0x00000000u, 0x80000000u, 0x7f800000u, 0xff800000u, 0x7fc00000u, 0x7f800001u, 0xffc12345u, 0x7fffffffu, 0xff800001u, 0x00000001u, 0x807fffffu, 0x00800000u, 0x7f7fffffu, 0x3f800000u, 0xbf800000u, 0x4b800000u};
   uint32_t b; const uint32_t k = c.R(3);
   if (k == 0) b = pool[c.R(sizeof(pool) / sizeof(pool[0]))]; else if (k == 1) b = (uint32_t)c.g.next(); else { float f = ((float)(int)c.R(4001) - 2000.0f) / 8.0f; memcpy(&b, &f, 4); }
   if (IsNaN32(b)) { if (!c.nanOK) b = 0x3fc00000u; else if (c.t) c.t->nanItems++; }
   return b;
}
static inline uint64_t RandF64(Ctx & c)
{
   static const uint64_t pool[] = {0x0000000000000000ULL, 0x8000000000000000ULL, 0x7ff0000000000000ULL, 0xfff0000000000000ULL, 0x7ff8000000000000ULL, 0x7ff0000000000001ULL, 0xfff8dead0000beefULL, 0x7fffffffffffffffULL, 0xfff0000000000001ULL,
                                   0x0000000000000001ULL, 0x800fffffffffffffULL, 0x0010000000000000ULL, 0x7fefffffffffffffULL, 0x3ff0000000000000ULL, 0xbff0000000000000ULL, 0x4340000000000000ULL};
   uint64_t b; const uint32_t k = c.R(3);
   if (k == 0) b = pool[c.R(sizeof(pool) / sizeof(pool[0]))]; else if (k == 1) b = c.g.next(); else { double d = ((double)(int)c.R(4001) - 2000.0) / 8.0; memcpy(&b, &d, 8); }
   if (IsNaN64(b)) { if (!c.nanOK) b = 0x3ff8000000000000ULL; else if (c.t) c.t->nanItems++; }
   return b;
}
static inline int64_t RandInt(Ctx & c, int bits)
{
   const int64_t mx = (bits == 64) ? INT64_MAX : ((((int64_t)1) << (bits - 1)) - 1), mn = -mx - 1;
   switch (c.R(12)) { case 0: return 0; case 1: return -1; case 2: return mx; case 3: return mn; case 4: return 1; case 5: return mx - 1; case 6: return mn + 1; case 7: case 8: return (int64_t)c.R(200) - 100; }
   const uint64_t r = c.g.next(); return (bits == 64) ? (int64_t)r : (int64_t)(r % ((uint64_t)1 << bits)) + mn;
}
static inline void FillBytes(Ctx & c, std::string & s, uint32_t n, int mode)
{
   s.clear(); s.reserve(n);
   if (mode == SB_ASCII) { for (uint32_t i = 0; i < n; i++) s.push_back((char)(32 + c.R(95))); }
   else if (mode == SB_UTF8) {
      while (s.size() < n) {
         const uint32_t left = n - (uint32_t)s.size(), k = c.R(4);
         if (k == 3 && left >= 3) { uint32_t cp = 0x800 + c.R(0xD000 - 0x800); s.push_back((char)(0xE0 | (cp >> 12))); s.push_back((char)(0x80 | ((cp >> 6) & 0x3f))); s.push_back((char)(0x80 | (cp & 0x3f))); }
         else if (k == 2 && left >= 2) { uint32_t cp = 0x80 + c.R(0x800 - 0x80); s.push_back((char)(0xC0 | (cp >> 6))); s.push_back((char)(0x80 | (cp & 0x3f))); }
         else s.push_back((char)(32 + c.R(95)));
      }
   }
   else { for (uint32_t i = 0; i < n; i++) s.push_back((char)(1 + c.R(255))); }
}
static inline void RandString(Ctx & c, std::string & s, bool shortOnly)
{
   static const uint32_t pool[] = {0, 1, 2, 6, 7, 8, 14, 15, 16, 17, 31, 32, 33};   // around the String small-buffer sizes
   uint32_t n;
   if (c.R(4) == 0) n = pool[c.R(sizeof(pool) / sizeof(pool[0]))];
   else if (!shortOnly && c.o.sizeClass != SIZE_SMALL && c.R(12) == 0) n = 200 + c.R(201);     // incl. 255/256
   else if (!shortOnly && c.o.sizeClass != SIZE_SMALL && c.R(80) == 0) n = 1000 + c.R(4001);
   else n = c.R(13);
   if (n == 0 && !c.o.allowEmptyStrings) n = 1;
   FillBytes(c, s, n, c.o.stringBytes);
}
static inline void RandBlob(Ctx & c, std::string & s, bool shortOnly)
{
   static const uint32_t pool[] = {1, 2, 3, 4, 5, 7, 8, 9, 15, 16, 17, 255, 256, 257};
   uint32_t n;
   if (c.o.allowZeroLengthItems && c.R(7) == 0) n = 0;
   else if (c.R(4) == 0) n = pool[c.R(shortOnly || c.o.sizeClass == SIZE_SMALL ? 11 : (uint32_t)(sizeof(pool) / sizeof(pool[0])))];
   else if (!shortOnly && c.o.sizeClass != SIZE_SMALL && c.R(15) == 0) n = 41 + c.R(560);
   else if (!shortOnly && c.o.sizeClass != SIZE_SMALL && c.R(80) == 0) n = 1000 + c.R(5001);
   else n = 1 + c.R(40);
   s.resize(n); for (uint32_t i = 0; i < n; i++) s[i] = (char)c.g.next();
}
static inline uint32 RandUserTypeCode(Ctx & c)
{
   uint32 t;
   if (!c.o.allowOddUserTypeCodes) return c.R(2) ? 0x75737231u /* 'usr1' */ : 0x75737232u;
   switch (c.R(8)) { case 0: t = 0; break; case 1: t = 0xFFFFFFFFu; break; case 2: case 3: t = 0x75737231u; break; case 4: t = B_BITCHORD_TYPE; break; default: t = (uint32)c.g.next(); break; }
   while (IsBuiltinTypeCode(t)) t++;
   return t;
}
static inline uint32 TypeCodeOfClass(Ctx & c, int cls)
{
   switch (cls) { case TC_BOOL: return B_BOOL_TYPE; case TC_INT8: return B_INT8_TYPE; case TC_INT16: return B_INT16_TYPE; case TC_INT32: return B_INT32_TYPE; case TC_INT64: return B_INT64_TYPE; case TC_FLOAT: return B_FLOAT_TYPE;
                  case TC_DOUBLE: return B_DOUBLE_TYPE; case TC_STRING: return B_STRING_TYPE; case TC_POINT: return B_POINT_TYPE; case TC_RECT: return B_RECT_TYPE; case TC_RAW: return B_RAW_TYPE; case TC_MESSAGE: return B_MESSAGE_TYPE;
                  case TC_POINTER: return B_POINTER_TYPE; case TC_TAG: return B_TAG_TYPE; }
   return RandUserTypeCode(c);
}

static MessageRef GenAux(Ctx & c, int depth, bool tiny);

static inline void MakeValue(Ctx & c, Value & v, int cls, uint32 tc, int depth, bool manyItems)
{
   v.cls = cls; v.tc = tc; v.u.align[0] = v.u.align[1] = 0; v.bytes.clear(); v.msg.Reset(); v.tag.Reset(); v.ptr = NULL;
   c.budget--; if (c.t) c.t->items++;
   switch (cls) {
   case TC_BOOL: v.u.b[0] = (uint8_t)c.R(2); break;
   case TC_INT8: { int8_t x = (int8_t)RandInt(c, 8); memcpy(v.u.b, &x, 1); } break;
   case TC_INT16: { int16_t x = (int16_t)RandInt(c, 16); memcpy(v.u.b, &x, 2); } break;
   case TC_INT32: { int32_t x = (int32_t)RandInt(c, 32); memcpy(v.u.b, &x, 4); } break;
   case TC_INT64: { int64_t x = RandInt(c, 64); memcpy(v.u.b, &x, 8); } break;
   case TC_FLOAT: { uint32_t b = RandF32(c); memcpy(v.u.b, &b, 4); } break;
   case TC_DOUBLE: { uint64_t b = RandF64(c); memcpy(v.u.b, &b, 8); } break;
   case TC_POINT: for (int i = 0; i < 2; i++) { uint32_t b = RandF32(c); memcpy(v.u.b + 4 * i, &b, 4); } break;
   case TC_RECT: for (int i = 0; i < 4; i++) { uint32_t b = RandF32(c); memcpy(v.u.b + 4 * i, &b, 4); } break;
   case TC_STRING: RandString(c, v.bytes, manyItems); c.budget -= (long)(v.bytes.size() / 64); break;
   case TC_RAW: case TC_USER: RandBlob(c, v.bytes, manyItems); c.budget -= (long)(v.bytes.size() / 64); if (v.bytes.empty() && c.t) c.t->zeroLengthItems++; break;
   case TC_MESSAGE: v.msg = GenAux(c, depth + 1, manyItems || c.budget < 50); break;
   case TC_POINTER: v.ptr = &gPtrTargets[c.R(8)]; break;
   case TC_TAG: if (c.R(2)) v.tag = GetMessageFromPool(c.R(5)).GetRefCountableRef(); else { static const uint8 tagBytes[4] = {'t', 'a', 'g', 0}; v.tag = GetByteBufferFromPool(c.R(4), tagBytes).GetRefCountableRef(); }   // (initialised: Print() shows the bytes of a ByteBuffer tag) if (v.tag() == NULL) BuildFail("tag object", B_OUT_OF_MEMORY); break;
   }
}

// ---- application of one value through the public API (typed or generic entry points, chosen at random) ---------------------
enum { M_ADD = 0, M_PREPEND, M_REPLACE };
static inline status_t Apply(Ctx & c, Message & m, const String & fn, const Value & v, int mode, uint32 idx, bool okAdd)
{
   const bool generic = c.R(2) == 0;
   const uint32 fx = FixedSizeOf(v.cls);
#define MSGGEN_NUM(CLS, T, SUF) case CLS: { T x; memcpy(&x, v.u.b, sizeof(T)); return mode == M_ADD ? m.Add##SUF(fn, x) : mode == M_PREPEND ? m.Prepend##SUF(fn, x) : m.Replace##SUF(okAdd, fn, idx, x); }
   if (fx > 0 && generic) return mode == M_ADD ? m.AddData(fn, v.tc, v.u.b, fx) : mode == M_PREPEND ? m.PrependData(fn, v.tc, v.u.b, fx) : m.ReplaceData(okAdd, fn, v.tc, idx, v.u.b, fx);
   switch (v.cls) {
   case TC_BOOL: { bool x = v.u.b[0] != 0; return mode == M_ADD ? m.AddBool(fn, x) : mode == M_PREPEND ? m.PrependBool(fn, x) : m.ReplaceBool(okAdd, fn, idx, x); }
   MSGGEN_NUM(TC_INT8, int8, Int8)
   MSGGEN_NUM(TC_INT16, int16, Int16)
   MSGGEN_NUM(TC_INT32, int32, Int32)
   MSGGEN_NUM(TC_INT64, int64, Int64)
   MSGGEN_NUM(TC_FLOAT, float, Float)
   MSGGEN_NUM(TC_DOUBLE, double, Double)
   case TC_POINT: { float f[2]; memcpy(f, v.u.b, 8); const Point p(f[0], f[1]); return mode == M_ADD ? m.AddPoint(fn, p) : mode == M_PREPEND ? m.PrependPoint(fn, p) : m.ReplacePoint(okAdd, fn, idx, p); }
   case TC_RECT: { float f[4]; memcpy(f, v.u.b, 16); const Rect r(f[0], f[1], f[2], f[3]); return mode == M_ADD ? m.AddRect(fn, r) : mode == M_PREPEND ? m.PrependRect(fn, r) : m.ReplaceRect(okAdd, fn, idx, r); }
   case TC_STRING:
      if (generic) { const char * s = v.bytes.c_str(); const uint32 n = (uint32)v.bytes.size() + 1; return mode == M_ADD ? m.AddData(fn, B_STRING_TYPE, s, n) : mode == M_PREPEND ? m.PrependData(fn, B_STRING_TYPE, s, n) : m.ReplaceData(okAdd, fn, B_STRING_TYPE, idx, s, n); }
      else { const String s(v.bytes.c_str()); return mode == M_ADD ? m.AddString(fn, s) : mode == M_PREPEND ? m.PrependString(fn, s) : m.ReplaceString(okAdd, fn, idx, s); }
   case TC_RAW: case TC_USER: {
      uint32 style = c.R(3);   // 0 = Add/Prepend/ReplaceData, 1 = *Flat(ByteBufferRef) (gives B_RAW_TYPE only), 2 = *Flat(const T & flattenable object)
      if (style == 0 && v.bytes.empty()) style = 1;        // 0 bytes cannot be added with AddData ("that's silly")
      if (style == 1 && v.cls == TC_USER) style = 2;       // a ByteBuffer's type code is B_RAW_TYPE
      const uint8 * p = (const uint8 *)v.bytes.data(); const uint32 n = (uint32)v.bytes.size();
      if (style == 0) return mode == M_ADD ? m.AddData(fn, v.tc, p, n) : mode == M_PREPEND ? m.PrependData(fn, v.tc, p, n) : m.ReplaceData(okAdd, fn, v.tc, idx, p, n);
      if (style == 1) { ByteBufferRef bb = GetByteBufferFromPool(n, n ? p : NULL); if (bb() == NULL) return B_OUT_OF_MEMORY; const FlatCountableRef fc(bb); return mode == M_ADD ? m.AddFlat(fn, fc) : mode == M_PREPEND ? m.PrependFlat(fn, fc) : m.ReplaceFlat(okAdd, fn, idx, fc); }
      const Blob blob(v.tc, v.bytes); return mode == M_ADD ? m.AddFlat(fn, blob) : mode == M_PREPEND ? m.PrependFlat(fn, blob) : m.ReplaceFlat(okAdd, fn, idx, blob);
   }
   case TC_MESSAGE: {
      const uint32 style = c.R(4);   // 0,1 = by reference, 2 = by value (copy), 3 = through *Flat(FlatCountableRef)
      if (style == 2) return mode == M_ADD ? m.AddMessage(fn, *v.msg()) : mode == M_PREPEND ? m.PrependMessage(fn, *v.msg()) : m.ReplaceMessage(okAdd, fn, idx, *v.msg());
      if (style == 3) { const FlatCountableRef fc(v.msg); return mode == M_ADD ? m.AddFlat(fn, fc) : mode == M_PREPEND ? m.PrependFlat(fn, fc) : m.ReplaceFlat(okAdd, fn, idx, fc); }
      return mode == M_ADD ? m.AddMessage(fn, v.msg) : mode == M_PREPEND ? m.PrependMessage(fn, v.msg) : m.ReplaceMessage(okAdd, fn, idx, v.msg);
   }
   case TC_POINTER: return mode == M_ADD ? m.AddPointer(fn, v.ptr) : mode == M_PREPEND ? m.PrependPointer(fn, v.ptr) : m.ReplacePointer(okAdd, fn, idx, v.ptr);
   case TC_TAG: return mode == M_ADD ? m.AddTag(fn, v.tag) : mode == M_PREPEND ? m.PrependTag(fn, v.tag) : m.ReplaceTag(okAdd, fn, idx, v.tag);
   }
#undef MSGGEN_NUM
   return B_BAD_ARGUMENT;
}

static inline bool SameStructure(const Message & a, const Message & b, bool skipNonFlattenableInA, std::string & why, std::string & whyKey, int depth);
// find item (i) of the field and return a copy of it as a Value (typed or generic Find*)
static inline void FindCopy(Ctx & c, const Message & m, const String & fn, int cls, uint32 tc, uint32 i, Value & v)
{
   v.cls = cls; v.tc = tc; v.u.align[0] = v.u.align[1] = 0; v.bytes.clear(); v.msg.Reset(); v.tag.Reset(); v.ptr = NULL;
   status_t r; const uint32 fx = FixedSizeOf(cls);
   if ((cls == TC_POINT || cls == TC_RECT) && c.o.extraRoutes && c.R(3) == 0) {   // FindFlat(name, index, T &) with the field's own flattenable type
      if (cls == TC_POINT) { Point p; r = m.FindFlat(fn, i, p); float f[2] = {p.x(), p.y()}; memcpy(v.u.b, f, 8); } else { Rect q; r = m.FindFlat(fn, i, q); float f[4] = {q.left(), q.top(), q.right(), q.bottom()}; memcpy(v.u.b, f, 16); }
      c.Op(OP_FINDCOPY_FINDFLAT_OBJECT);
   }
   else if ((cls == TC_RAW || cls == TC_USER) && c.o.extraRoutes && c.R(3) == 0) {   // the AddFlat(object) / FindFlat(object) idiom of the documentation, and the read-only reference form
      Blob b(tc, std::string("previous content")); r = m.FindFlat(fn, i, b); if (r.IsOK()) v.bytes = b.Bytes(); c.Op(OP_FINDCOPY_FINDFLAT_OBJECT);
      if (r.IsError()) { const void * p0 = NULL; uint32 l0 = 1; if (ItemBytes(m, fn, tc, i, p0, l0) && l0 == 0) r = B_NO_ERROR; }   // a 0-byte buffer has a NULL data pointer, which FindFlat(T &) (like FindData) answers with B_TYPE_MISMATCH
      ConstFlatCountableRef cf; if (r.IsOK()) { const ByteBuffer * bb = m.FindFlat(fn, i, cf).IsOK() ? dynamic_cast<const ByteBuffer *>(cf()) : NULL; if (bb == NULL || bb->GetNumBytes() != v.bytes.size() || (v.bytes.size() && memcmp(bb->GetBuffer(), v.bytes.data(), v.bytes.size()) != 0)) RouteFail(c, "findflat-object", "FindFlat(name, index, T &) and FindFlat(name, index, ConstFlatCountableRef &) give different bytes"); }
   }
   else if (cls == TC_TAG && c.o.extraRoutes && c.R(2)) { ConstRefCountableRef ct; r = m.FindTag(fn, i, ct); if (r.IsOK()) { status_t r2 = m.FindTag(fn, i, v.tag); if (r2.IsError() || v.tag() != ct()) RouteFail(c, "findtag-const", "FindTag(ConstRefCountableRef &) and FindTag(RefCountableRef &) disagree"); } }
   else if (cls == TC_POINT && c.R(2)) { Point p; r = m.FindPoint(fn, i, p); float f[2] = {p.x(), p.y()}; memcpy(v.u.b, f, 8); }
   else if (cls == TC_RECT && c.R(2)) { Rect q; r = m.FindRect(fn, i, q); float f[4] = {q.left(), q.top(), q.right(), q.bottom()}; memcpy(v.u.b, f, 16); }
   else if (cls == TC_INT32 && c.R(2)) { int32 x = 0; r = m.FindInt32(fn, i, x); memcpy(v.u.b, &x, 4); }
   else if (cls == TC_DOUBLE && c.R(2)) { double x = 0; r = m.FindDouble(fn, i, x); memcpy(v.u.b, &x, 8); }
   else if (cls == TC_BOOL && c.R(2)) { bool x = false; r = m.FindBool(fn, i, x); v.u.b[0] = x ? 1 : 0; }
   else if (fx > 0) { const void * p = NULL; uint32 n = 0; r = m.FindData(fn, tc, i, &p, &n); if (r.IsOK()) { if (n != fx || p == NULL) BuildFail("FindData size of a fixed-size item", B_LOGIC_ERROR); memcpy(v.u.b, p, fx); } }
   else if (cls == TC_STRING && c.o.extraRoutes && c.R(2)) { const char * s = NULL; r = m.FindString(fn, i, s); if (r.IsOK()) { if (s == NULL) BuildFail("FindString(const char *&) gave NULL", B_LOGIC_ERROR); v.bytes.assign(s); c.Op(OP_FINDCOPY_CSTR); } }
   else if (cls == TC_STRING) { String s; r = m.FindString(fn, i, s); if (r.IsOK()) v.bytes.assign(s(), s.Length()); }
   else if (cls == TC_RAW || cls == TC_USER) { FlatCountableRef fc; r = m.FindFlat(fn, i, fc); if (r.IsOK()) { const ByteBuffer * bb = dynamic_cast<const ByteBuffer *>(fc()); if (bb == NULL) BuildFail("FindFlat on a raw field did not give a ByteBuffer", B_LOGIC_ERROR); if (bb->GetNumBytes()) v.bytes.assign((const char *)bb->GetBuffer(), bb->GetNumBytes()); } }
   else if (cls == TC_MESSAGE && c.o.extraRoutes && c.R(2)) {   // copy out by value, re-insert the copy
      Message byValue(12345); (void)byValue.AddInt32("previous content", 1); r = m.FindMessage(fn, i, byValue);
      if (r.IsOK()) {
         ConstMessageRef orig; std::string why, key; if (m.FindMessage(fn, i, orig).IsError() || orig() == NULL) BuildFail("FindMessage(ConstMessageRef)", B_LOGIC_ERROR);
         if (!SameStructure(*orig(), byValue, false, why, key, 0)) RouteFail(c, "findmessage-by-value|" + key, "FindMessage(name, index, Message &) gave a different Message: " + why);
         v.msg = GetMessageFromPool(byValue); if (v.msg() == NULL) BuildFail("GetMessageFromPool(const Message &)", B_OUT_OF_MEMORY); c.Op(OP_FINDCOPY_MESSAGE_BY_VALUE);
      }
   }
   else if (cls == TC_MESSAGE) { r = m.FindMessage(fn, i, v.msg); }
   else if (cls == TC_POINTER) { void * p = NULL; r = m.FindPointer(fn, i, p); v.ptr = p; }
   else if (cls == TC_TAG) { r = m.FindTag(fn, i, v.tag); }
   if (r.IsError()) BuildFail(std::string("find+copy of a ") + TypeClassName(cls) + " item", r);
}

// the generator's model of one field
struct Field { std::string name; int cls; uint32 tc; uint32 n; bool arr; };

static inline void CheckField(const Message & m, const Field & f, const char * after)
{
   uint32 t = 0, n = 0; const status_t r = m.GetInfo(f.name.c_str(), &t, &n);
   if (f.n == 0) { if (r.IsOK()) BuildFail(std::string("field still present after its last item was removed, after ") + after, B_LOGIC_ERROR); }
   else if (r.IsError() || t != f.tc || n != f.n) BuildFail(vh::fmt("field '%s' has type %08x count %u after %s, the script expects type %08x count %u", Esc(f.name, 20).c_str(), t, n, after, f.tc, f.n), r);
   // the other accessors of the same facts must agree
   const uint32 ft = m.GetFieldTypeForName(f.name.c_str(), 0x6e6f6e65 /* 'none' */), nv = m.GetNumValuesInName(f.name.c_str(), f.tc), nvAny = m.GetNumValuesInName(f.name.c_str());
   if (ft != (f.n ? f.tc : 0x6e6f6e65u) || nv != f.n || nvAny != f.n || m.HasName(f.name.c_str(), f.tc) != (f.n > 0) || m.HasName(f.name.c_str()) != (f.n > 0))
      BuildFail(vh::fmt("GetFieldTypeForName %08x / GetNumValuesInName %u,%u / HasName disagree with GetInfo (type %08x count %u) after %s", ft, nv, nvAny, f.tc, f.n, after), B_LOGIC_ERROR);
}

static inline std::string FreshName(Ctx & c, std::set<std::string> & used)
{
   for (;;) {
      std::string s; const uint32 id = c.nameCounter++; const uint32 k = c.R(16);
      if (k == 0 && c.o.allowEmptyFieldName) s = "";
      else if (k == 1) s = vh::fmt("a_rather_long_field_name_well_beyond_the_string_small_buffer_%u", id);
      else if (k == 2 && c.o.nameBytes != SB_ASCII) { if (c.o.nameBytes == SB_ANY) s = vh::fmt("\xc3\xa9\xff\x01\x80%u", id); else s = vh::fmt("\xc3\xa9\xe2\x82\xac%u", id); }
      else if (k == 3) s = std::string(1, (char)('A' + id % 26));
      else if (k == 4 || k == 5) { static const uint32_t L[] = {6, 7, 8, 14, 15, 16, 17}; s = vh::fmt("n%u", id); const uint32_t want = L[c.R(7)]; while (s.size() < want) s.push_back('_'); }
      else if (k == 6) s = vh::fmt("with space,/=*%u", id);
      else if (k == 7 && c.o.sizeClass != SIZE_SMALL && c.R(4) == 0) { s = vh::fmt("L%u", id); s.resize(260 + c.R(60), 'x'); }
      else s = vh::fmt("f%u", id);
      if (used.insert(s).second) return s;
   }
}

static inline void AfterGrowth(Field & f) { if (f.n >= 2) f.arr = true; }

static inline void OpAdd(Ctx & c, Message & m, Field & f, int depth, bool many, int how /* M_ADD, M_PREPEND, or M_REPLACE meaning replace-or-add beyond the end */)
{
   Value v; MakeValue(c, v, f.cls, f.tc, depth, many);
   const status_t r = (how == M_REPLACE) ? Apply(c, m, f.name.c_str(), v, M_REPLACE, f.n + c.R(3), true) : Apply(c, m, f.name.c_str(), v, how, 0, false);
   if (r.IsError()) BuildFail(std::string(how == M_ADD ? "add " : how == M_PREPEND ? "prepend " : "replace-or-add ") + TypeClassName(f.cls), r);
   f.n++; AfterGrowth(f); c.Op(how == M_ADD ? OP_ADD : how == M_PREPEND ? OP_PREPEND : OP_REPLACE_OKADD); c.Log(how == M_ADD ? "add" : how == M_PREPEND ? "pre" : "roa");
   CheckField(m, f, "add");
}
static inline void OpAddMulti(Ctx & c, Message & m, Field & f, uint32 k)   // fixed-size classes only: AddData/PrependData with k elements at once
{
   const uint32 fx = FixedSizeOf(f.cls); std::vector<uint64_t> buf((k * fx + 7) / 8 + 1); uint8_t * p = (uint8_t *)&buf[0];
   for (uint32 i = 0; i < k; i++) { Value v; MakeValue(c, v, f.cls, f.tc, 0, true); memcpy(p + i * fx, v.u.b, fx); }
   const bool pre = c.R(3) == 0;    // note: PrependData with k elements prepends one by one, i.e. reverses them; the values are random anyway
   const status_t r = pre ? m.PrependData(f.name.c_str(), f.tc, p, k * fx) : m.AddData(f.name.c_str(), f.tc, p, k * fx);
   if (r.IsError()) BuildFail(std::string("multi-element AddData ") + TypeClassName(f.cls), r);
   f.n += k; AfterGrowth(f); c.Op(OP_ADDMULTI); c.Log(vh::fmt("am%u", k)); CheckField(m, f, "multi-element add");
}
static inline void OpFindCopy(Ctx & c, Message & m, Field & f)
{
   const uint32 idx = c.R(f.n);
   Value v; FindCopy(c, m, f.name.c_str(), f.cls, f.tc, idx, v); c.budget--; if (c.t) c.t->items++;
   if (f.cls != TC_MESSAGE && f.cls != TC_TAG) {   // whatever Find* accessor was used, it must have given the item that FindData / FindFlat(ref) show
      const void * p = NULL; uint32 len = 0; const uint32 fx = FixedSizeOf(f.cls);
      if (!ItemBytes(m, f.name.c_str(), f.tc, idx, p, len)) BuildFail("reading back a found item", B_LOGIC_ERROR);
      bool same;
      if (f.cls == TC_POINTER) same = (len == sizeof(void *) && memcmp(p, &v.ptr, sizeof(void *)) == 0);
      else if (f.cls == TC_BOOL) same = (len == 1 && ((*(const uint8 *)p) != 0) == (v.u.b[0] != 0));
      else if (fx > 0) same = (len == fx && memcmp(p, v.u.b, fx) == 0);
      else if (f.cls == TC_STRING) same = (len == v.bytes.size() + 1 && memcmp(p, v.bytes.c_str(), len) == 0);
      else same = (len == v.bytes.size() && (len == 0 || memcmp(p, v.bytes.data(), len) == 0));
      if (!same) RouteFail(c, std::string("findcopy|value-differs|") + TypeClassName(f.cls), vh::fmt("a Find* accessor gave another value than FindData for item %u of %u: ", idx, f.n) + vh::hex(p, len, 24) + " vs " + (fx > 0 ? vh::hex(v.u.b, fx) : vh::hex(v.bytes.data(), v.bytes.size(), 24)));
   }
   const status_t r = Apply(c, m, f.name.c_str(), v, c.R(2) ? M_ADD : M_PREPEND, 0, false);
   if (r.IsError()) BuildFail(std::string("re-adding a found ") + TypeClassName(f.cls), r);
   f.n++; AfterGrowth(f); c.Op(OP_FINDCOPY); c.Log("fc"); CheckField(m, f, "find+copy");
}
static inline void OpRemove(Ctx & c, Message & m, Field & f)
{
   status_t r;
   if (c.R(3) == 0) { r = m.RemoveLastData(f.name.c_str()); c.Op(OP_REMOVE_LAST); c.Log("rl"); }
   else { const uint32 i = c.R(f.n); r = m.RemoveData(f.name.c_str(), i); c.Op(OP_REMOVE_AT); c.Log(vh::fmt("rm%u", i)); }
   if (r.IsError()) BuildFail(std::string("remove ") + TypeClassName(f.cls), r);
   f.n--; if (f.n == 0) f.arr = false;
   CheckField(m, f, "remove");
}
// ---- further build routes (GenOptions::extraRoutes) -------------------------------------------------------------------------------
static inline bool SnapshotItems(const Message & m, const String & fn, uint32 t, uint32 n, std::vector<std::string> & out)
{
   out.clear();
   for (uint32 i = 0; i < n; i++) { const void * p = NULL; uint32 len = 0; if (!ItemBytes(m, fn, t, i, p, len)) return false; out.push_back(std::string((const char *)p, len)); }
   return true;
}
// the default comparator of each value-ordered item type, on the in-memory item bytes (strings: with their NUL)
struct ItemLess {
   int cls; explicit ItemLess(int c) : cls(c) {}
   bool operator()(const std::string & a, const std::string & b) const {
      switch (cls) {
      case TC_BOOL: return (a[0] != 0) < (b[0] != 0);
      case TC_INT8: return (int8_t)a[0] < (int8_t)b[0];
      case TC_INT16: { int16_t x, y; memcpy(&x, a.data(), 2); memcpy(&y, b.data(), 2); return x < y; }
      case TC_INT32: { int32_t x, y; memcpy(&x, a.data(), 4); memcpy(&y, b.data(), 4); return x < y; }
      case TC_INT64: { int64_t x, y; memcpy(&x, a.data(), 8); memcpy(&y, b.data(), 8); return x < y; }
      case TC_DOUBLE: { double x, y; memcpy(&x, a.data(), 8); memcpy(&y, b.data(), 8); return x < y; }
      case TC_FLOAT: case TC_POINT: case TC_RECT: { const int k = (int)(a.size() / 4); for (int i = 0; i < k; i++) { float x, y; memcpy(&x, a.data() + 4 * i, 4); memcpy(&y, b.data() + 4 * i, 4); if (x < y) return true; if (x > y) return false; } return false; }
      case TC_STRING: return strcmp(a.c_str(), b.c_str()) < 0;
      }
      return false;
   }
};
static inline bool ItemsHaveNaN(int cls, const std::vector<std::string> & v)
{
   for (size_t i = 0; i < v.size(); i++) {
      if (cls == TC_DOUBLE) { uint64_t b; memcpy(&b, v[i].data(), 8); if (IsNaN64(b)) return true; }
      else if (cls == TC_FLOAT || cls == TC_POINT || cls == TC_RECT) for (size_t k = 0; k + 4 <= v[i].size(); k += 4) { uint32_t b; memcpy(&b, v[i].data() + k, 4); if (IsNaN32(b)) return true; }
   }
   return false;
}
// SortDataInField(): "Sorts the data-items within a specified field using the default comparator for the field's type", [from, to), stable
// (Queue::Sort).  Expected order = std::stable_sort of the items read before.  Fields whose default comparator looks at addresses (raw,
// user, Message, pointer, tag) or holds a NaN get a one-item range, which must change nothing.
static inline void OpSort(Ctx & c, Message & m, Field & f)
{
   const String fn(f.name.c_str());
   const bool byValue = (f.cls <= TC_RECT);   // bool, ints, float, double, string, point, rect
   std::vector<std::string> before, after;
   const bool readable = (f.cls != TC_MESSAGE && f.cls != TC_TAG);
   if (readable && !SnapshotItems(m, fn, f.tc, f.n, before)) BuildFail("reading the items before a sort", B_LOGIC_ERROR);
   uint32 from = 0, to = MUSCLE_NO_LIMIT; bool whole = false;
   if (!byValue || ItemsHaveNaN(f.cls, before)) { from = c.R(f.n); to = from + 1; c.Op(OP_SORT_ONE_ITEM_RANGE); }
   else { if (c.R(2)) whole = true; else { from = c.R(f.n); to = from + c.R(f.n - from + 2); } c.Op(OP_SORT); }
   c.Log(whole ? "so" : vh::fmt("so%u-%u", from, to));
   if (whole) m.SortDataInField(fn); else m.SortDataInField(fn, from, to);
   CheckField(m, f, "SortDataInField");
   if (!readable) return;
   if (!SnapshotItems(m, fn, f.tc, f.n, after)) BuildFail("reading the items after a sort", B_LOGIC_ERROR);
   const uint32 end = (to > f.n) ? f.n : to;
   if (byValue && end > from) std::stable_sort(before.begin() + from, before.begin() + end, ItemLess(f.cls));
   for (uint32 i = 0; i < f.n; i++) if (before[i] != after[i]) {
      RouteFail(c, std::string("sort|") + TypeClassName(f.cls), vh::fmt("SortDataInField(%u, %u) on %u %s items: item %u is ", from, to, f.n, TypeClassName(f.cls), i) + vh::hex(after[i].data(), after[i].size(), 24) + ", a stable sort of the previous items puts " + vh::hex(before[i].data(), before[i].size(), 24) + " there");
      break;
   }
}
// GetPointerToNormalizedFieldData(): "Ensures that the data items held in (field) are stored as a contiguous array in memory, and then
// returns a pointer to the beginning of the array"; retItemCount = number of items.  Items themselves must be unchanged.
static inline void OpNormalize(Ctx & c, Message & m, Field & f)
{
   const String fn(f.name.c_str()); c.Op(OP_NORMALIZE); c.Log("nz");
   std::vector<std::string> before, after; const bool readable = (f.cls != TC_MESSAGE && f.cls != TC_TAG);
   if (readable && !SnapshotItems(m, fn, f.tc, f.n, before)) BuildFail("reading the items before GetPointerToNormalizedFieldData", B_LOGIC_ERROR);
   uint32 cnt = 0xdeadbeef; const uint8 * base = (const uint8 *)m.GetPointerToNormalizedFieldData(fn, &cnt, c.R(2) ? f.tc : (uint32)B_ANY_TYPE);
   CheckField(m, f, "GetPointerToNormalizedFieldData");
   if (base == NULL || cnt != f.n) { RouteFail(c, "normalize|pointer-or-count", vh::fmt("GetPointerToNormalizedFieldData on a %s field of %u items: pointer %s, count %u", TypeClassName(f.cls), f.n, base ? "non-NULL" : "NULL", cnt)); return; }
   if (m.GetPointerToNormalizedFieldData(fn, NULL, f.tc == B_INT32_TYPE ? (uint32)B_INT64_TYPE : (uint32)B_INT32_TYPE) != NULL) { RouteFail(c, "normalize|wrong-type-accepted", "GetPointerToNormalizedFieldData with another type code gave a pointer"); return; }
   if (!readable) return;
   if (!SnapshotItems(m, fn, f.tc, f.n, after)) BuildFail("reading the items after GetPointerToNormalizedFieldData", B_LOGIC_ERROR);
   const uint32 fx = FixedSizeOf(f.cls);
   for (uint32 i = 0; i < f.n; i++) {
      if (before[i] != after[i]) { RouteFail(c, std::string("normalize|items-changed|") + TypeClassName(f.cls), vh::fmt("item %u of %u changed by GetPointerToNormalizedFieldData", i, f.n)); return; }
      if (fx > 0) {
         // fixed-size items: the array is the items back to back, and FindData / FindDataPointer now point into it
         const void * p = NULL; void * q = NULL; uint32 l1 = 0, l2 = 0;
         if (m.FindData(fn, f.tc, i, &p, &l1).IsError() || m.FindDataPointer(fn, f.tc, i, &q, &l2).IsError() || p != q || l1 != fx || l2 != fx) { RouteFail(c, "normalize|finddatapointer", "FindData and FindDataPointer disagree"); return; }
         if (memcmp(base + (size_t)i * fx, before[i].data(), fx) != 0 || p != (const void *)(base + (size_t)i * fx)) { RouteFail(c, std::string("normalize|not-contiguous|") + TypeClassName(f.cls), vh::fmt("item %u of %u is not at offset %u of the returned array", i, f.n, i * fx)); return; }
      }
   }
}

// operations that leave count and representation state as they are
static inline void OpNeutral(Ctx & c, Message & m, Field & f, int depth, std::set<std::string> & used)
{
   if (f.n == 0) return;
   const String fn(f.name.c_str()); status_t r; const char * what = "?";
   switch (c.R(c.o.extraRoutes ? 12 : 9)) {
   case 9: case 10: OpSort(c, m, f); return;
   case 11: OpNormalize(c, m, f); return;
   case 0: case 1: { Value v; MakeValue(c, v, f.cls, f.tc, depth, f.n > 8); const uint32 i = c.R(f.n); r = Apply(c, m, fn, v, M_REPLACE, i, c.R(4) == 0); what = "replace-at"; c.Op(OP_REPLACE); c.Log(vh::fmt("rp%u", i)); } break;
   case 2: r = m.EnsureFieldIsPrivate(fn); what = "EnsureFieldIsPrivate"; c.Op(OP_ENSUREPRIVATE); c.Log("ep"); break;
   case 3: {   // copy out (and sometimes back in, which moves the field to the end of the order and replaces the original by its copy)
      MessageRef s = GetMessageFromPool(7); what = "CopyName"; c.Op(OP_COPYNAME); c.Log("cn");
      if (c.R(2)) r = m.CopyName(fn, *s());
      else { r = m.CopyName(fn, *s(), "tmp"); if (r.IsOK()) r = m.RemoveName(fn); if (r.IsOK()) r = s()->CopyName("tmp", m, fn); }
   } break;
   case 4: {   // share out and back in; the array (if any) stays shared with the scratch Message until that dies
      MessageRef s = GetMessageFromPool(8); what = "ShareName"; c.Op(OP_SHARENAME); c.Log("sn");
      r = m.ShareName(fn, *s(), "tmp"); if (r.IsOK()) r = m.RemoveName(fn); if (r.IsOK()) r = s()->ShareName("tmp", m, fn);
      if (r.IsOK()) { const uint32 k = c.R(3); if (k == 0) r = m.EnsureFieldIsPrivate(fn); else if (k == 1 && c.o.allowSharedFields && c.t && f.arr) { c.t->keepAlive.push_back(s); c.t->sharedLeft++; } }
   } break;
   case 5: {   // move out and back in, possibly under a new name
      MessageRef s = GetMessageFromPool(9); what = "MoveName"; c.Op(OP_MOVENAME); c.Log("mn");
      std::string nn = c.R(2) ? f.name : FreshName(c, used);
      r = m.MoveName(fn, *s(), "tmp"); if (r.IsOK()) r = s()->MoveName("tmp", m, nn.c_str());
      if (r.IsOK()) { if (nn != f.name) { uint32 t; if (m.GetInfo(fn, &t).IsOK()) BuildFail("MoveName left the source field behind", B_LOGIC_ERROR); } f.name = nn; }
   } break;
   case 6: { std::string nn = FreshName(c, used); r = m.Rename(fn, nn.c_str()); what = "Rename"; c.Op(OP_RENAME); c.Log("rn"); if (r.IsOK()) f.name = nn; } break;
   default:
      if (!c.o.reorderFields) return;
      what = "MoveNameTo*"; c.Op(OP_REORDER); c.Log("ro");
      switch (c.R(3)) { case 0: r = m.MoveNameToFront(fn); break; case 1: r = m.MoveNameToBack(fn); break; default: r = m.MoveNameToPosition(fn, c.R(m.GetNumNames())); break; }
      break;
   }
   if (r.IsError()) BuildFail(std::string(what) + " on a " + TypeClassName(f.cls) + " field", r);
   CheckField(m, f, what);
}

static inline int StateOf(const Field & f)
{
   if (f.n == 0) return RS_REMOVED;
   if (f.n == 1) return f.arr ? RS_ARRAY1 : RS_INLINE1;
   switch (f.n) { case 2: return RS_ARRAY2; case 3: return RS_ARRAY3; case 17: return RS_ARRAY17; case 300: return RS_ARRAY300; }
   return RS_OTHER;
}

static inline void GenField(Ctx & c, Message & m, int depth, bool tiny, std::set<std::string> & used, int forcedCls = -1, int forcedState = -1, const std::string * forcedName = NULL)
{
   // type class
   uint32_t mask = c.o.typeMask & TM_ALL; if (depth >= c.o.maxDepth || tiny) mask &= ~(uint32_t)TM_MESSAGE;
   if (mask == 0) return;
   Field f; f.n = 0; f.arr = false;
   if (forcedCls >= 0) f.cls = forcedCls;
   else if ((mask & TM_MESSAGE) && c.R(5) == 0) f.cls = TC_MESSAGE;
   else { do { f.cls = (int)c.R(NUM_TC); } while (!(mask & (1u << f.cls))); }
   f.tc = TypeCodeOfClass(c, f.cls); if (forcedName) { f.name = *forcedName; used.insert(f.name); } else f.name = FreshName(c, used);
   if (c.t) c.t->fieldScripts++;

   // target representation state
   static const uint32_t wNormal[NUM_RS] = {4, 8, 6, 6, 4, 3, 1, 2}, wDeep[NUM_RS] = {4, 8, 6, 6, 4, 1, 0, 1}, wTiny[NUM_RS] = {2, 8, 4, 4, 2, 0, 0, 0};
   const uint32_t * w = (tiny || c.o.sizeClass == SIZE_SMALL) ? wTiny : (depth >= 2 ? wDeep : wNormal);
   if (c.o.sizeClass == SIZE_LARGE && depth < 2 && !tiny) { static const uint32_t wLarge[NUM_RS] = {3, 6, 5, 5, 4, 4, 3, 4}; w = wLarge; }
   uint32_t tot = 0; for (int i = 0; i < NUM_RS; i++) tot += w[i];
   int target = 0; { uint32_t x = c.R(tot); while (x >= w[target]) { x -= w[target]; target++; } }
   if (forcedState >= 0) target = forcedState;
   else if (target == RS_ARRAY300 && (c.budget < 400 || (f.cls == TC_MESSAGE && c.budget < 1200))) target = RS_ARRAY3;
   if (forcedState < 0 && (target == RS_ARRAY17 || target == RS_OTHER) && c.budget < 80) target = RS_ARRAY2;
   uint32_t fin = 0, peak = 0; bool recreate = false;
   const uint32_t over = (c.R(3) == 0) ? 1 + c.R(3) : 0;
   switch (target) {
   case RS_REMOVED: fin = 0; peak = 1 + over; break;
   case RS_INLINE1: fin = 1; peak = 1; if (c.R(3) == 0) { recreate = true; peak = 1 + over; } break;   // recreate: build, remove everything, add one item again
   case RS_ARRAY1: fin = 1; peak = 2 + over; break;
   case RS_ARRAY2: fin = 2; peak = 2 + over; break;
   case RS_ARRAY3: fin = 3; peak = 3 + over; break;
   case RS_ARRAY17: fin = 17; peak = 17 + over; break;
   case RS_ARRAY300: fin = 300; peak = 300 + over; break;
   default: fin = c.R(2) ? 4 + c.R(5) : (c.o.sizeClass == SIZE_SMALL ? 4 + c.R(5) : 9 + c.R(60)); if (fin == 17) fin = 18; peak = fin + over; break;
   }
   const bool many = peak > 8;
   c.Log(vh::fmt("[%s->%s:", TypeClassName(f.cls), RepStateName(target)));

   for (int round = 0; round < (recreate ? 2 : 1); round++) {
      const uint32_t goal = (round == 0) ? peak : 1;
      while (f.n < goal) {
         const uint32_t r = c.R(20), room = goal - f.n;
         if (r < 9) OpAdd(c, m, f, depth, many, M_ADD);
         else if (r < 13) OpAdd(c, m, f, depth, many, M_PREPEND);
         else if (r < 15) { if (FixedSizeOf(f.cls) > 0 && room >= 2) OpAddMulti(c, m, f, 2 + c.R(room > 64 ? 63 : room - 1)); else OpAdd(c, m, f, depth, many, M_ADD); }
         else if (r < 17) { if (f.n > 0) OpFindCopy(c, m, f); else OpAdd(c, m, f, depth, many, M_PREPEND); }
         else if (r < 18) OpAdd(c, m, f, depth, many, M_REPLACE);
         else { if (f.n > 0) OpNeutral(c, m, f, depth, used); else OpAdd(c, m, f, depth, many, M_ADD); }
      }
      const uint32_t low = (round == 0 && recreate) ? 0 : fin;
      while (f.n > low) { if (c.R(8) == 0) OpNeutral(c, m, f, depth, used); OpRemove(c, m, f); }
   }
   for (uint32_t k = c.R(3); k > 0 && f.n > 0; k--) OpNeutral(c, m, f, depth, used);

   const int st = StateOf(f);
   if (c.t) c.t->cells[f.cls][st]++;
   // sometimes a second field that is a copy of / shares the array with this one (no further operations on either)
   if (f.n > 0 && c.o.allowSharedFields && c.R(12) == 0) {
      const std::string nn = FreshName(c, used); const status_t r = c.R(2) ? m.ShareName(f.name.c_str(), m, nn.c_str()) : m.CopyName(f.name.c_str(), m, nn.c_str());
      if (r.IsError()) BuildFail("ShareName/CopyName into the same Message", r);
      c.Op(OP_ALIAS); c.Log("al"); if (c.t) { c.t->aliases++; c.t->cells[f.cls][st]++; }
   }
   c.Log("]");
}

static MessageRef GenAux(Ctx & c, int depth, bool tiny)
{
   uint32 what;
   switch (c.R(6)) { case 0: what = 0; break; case 1: what = 0xFFFFFFFFu; break; case 2: what = CURRENT_PROTOCOL_VERSION; break; case 3: what = 1 + c.R(5); break; default: what = (uint32)c.g.next(); break; }
   MessageRef mr = GetMessageFromPool(what); if (mr() == NULL) BuildFail("GetMessageFromPool", B_OUT_OF_MEMORY);
   if (c.t) { if ((uint32_t)depth > c.t->maxDepthReached) c.t->maxDepthReached = (uint32_t)depth; if (depth > 0) c.t->subMessages++; }
   Message & m = *mr();
   const uint32_t nf = tiny ? c.R(3) : c.R((depth == 0 ? c.o.maxTopFields : c.o.maxSubFields) + 1);
   std::set<std::string> used; if (depth > 0) c.Log("{");
   for (uint32_t i = 0; i < nf; i++) GenField(c, m, depth, tiny || c.budget <= 0, used);
   // field order randomisation
   if (c.o.reorderFields && m.GetNumNames() >= 2 && c.R(2)) {
      for (uint32_t k = 1 + c.R(3); k > 0; k--) {
         std::vector<String> names; for (MessageFieldNameIterator it = m.GetFieldNameIterator(); it.HasData(); it++) names.push_back(it.GetFieldName());
         const String & a = names[c.R((uint32_t)names.size())]; const String & b = names[c.R((uint32_t)names.size())]; status_t r;
         switch (c.R(5)) { case 0: r = m.MoveNameToFront(a); break; case 1: r = m.MoveNameToBack(a); break; case 2: r = m.MoveNameToPosition(a, c.R((uint32_t)names.size())); break;
                           case 3: r = (a == b) ? status_t() : m.MoveNameToBefore(a, b); break; default: r = (a == b) ? status_t() : m.MoveNameToBehind(a, b); break; }
         if (r.IsError()) BuildFail("MoveNameTo*", r);
         c.Op(OP_REORDER);
      }
   }
   if (depth > 0) c.Log("}");
   return mr;
}

// ---- the public entry point ---------------------------------------------------------------------------------------------
static inline MessageRef GenMessage(vh::Rng & rng, const GenOptions & opts, GenTrace * trace = NULL)
{
   Ctx c(rng, opts, trace); c.nanOK = opts.allowNaN && rng.R(3) == 0;
   return GenAux(c, 0, false);
}

// adds one field of a given type class, steered to a given representation state (RS_*), to an existing Message (exhaustive products)
static inline void AddFieldInState(vh::Rng & rng, const GenOptions & opts, Message & m, const std::string & name, int cls, int state, GenTrace * trace = NULL)
{
   Ctx c(rng, opts, trace); c.nameCounter = 1000; c.nanOK = opts.allowNaN && rng.R(2) == 0;
   std::set<std::string> used; for (MessageFieldNameIterator it = m.GetFieldNameIterator(); it.HasData(); it++) used.insert(std::string(it.GetFieldName()()));
   GenField(c, m, 0, false, used, cls, state, &name);
}

// ---- mutation of an existing Message (a copy, a lightweight copy, a parsed Message ...) through the public API ---------------------
enum { MUT_PRIVATE_FIRST = 1,   // EnsureFieldIsPrivate() before every item-level operation: the documented idiom for a field that may be shared
       MUT_SHARED_ITEMS = 2 };  // only add / prepend / remove / replace / sort on fields of >= 2 items (certainly array objects), without
                                // EnsureFieldIsPrivate: documented to show through every Message that shares the field (lightweight copies)
static inline bool FieldOf(const Message & m, const std::string & name, Field & f)
{
   uint32 t = 0, n = 0; if (m.GetInfo(name.c_str(), &t, &n).IsError()) return false;
   f.name = name; f.tc = t; f.cls = ClassOfTypeCode(t); f.n = n; f.arr = (n >= 2); return true;
}
static inline void MutateMessage(vh::Rng & rng, const GenOptions & opts, Message & m, int flags, GenTrace * trace = NULL)
{
   Ctx c(rng, opts, trace); c.nameCounter = 5000; c.nanOK = opts.allowNaN && rng.R(4) == 0; c.budget = 400;
   const int depth = opts.maxDepth > 0 ? opts.maxDepth - 1 : 0;   // new Message items are leaves
   std::set<std::string> used;
   for (MessageFieldNameIterator it = m.GetFieldNameIterator(); it.HasData(); it++) used.insert(std::string(it.GetFieldName()()));
   if (trace) c.logCap = trace->script.size() + 2000;   // the mutation part is always recorded in full
   c.Log("mutate:");
   for (uint32_t k = 1 + c.R(5); k > 0; k--) {
      std::vector<std::string> names; for (MessageFieldNameIterator it = m.GetFieldNameIterator(); it.HasData(); it++) names.push_back(std::string(it.GetFieldName()()));
      uint32_t r = c.R(10); if (flags & MUT_SHARED_ITEMS) r = c.R(6);
      Field f; const bool have = !names.empty() && FieldOf(m, names[c.R((uint32_t)names.size())], f);
      if (r < 6) {
         if (!have) continue;
         if ((flags & MUT_SHARED_ITEMS) && f.n < 2) continue;
         if ((flags & MUT_PRIVATE_FIRST) && m.EnsureFieldIsPrivate(f.name.c_str()).IsError()) BuildFail("EnsureFieldIsPrivate before a mutation", B_LOGIC_ERROR);
         c.Op(OP_MUTATE_ITEMOP);
         if (f.n == 0) { OpAdd(c, m, f, depth, false, c.R(2) ? M_ADD : M_PREPEND); continue; }   // (left empty by its array's other owner, see SameField) it can only grow
         switch (c.R(6)) {
         case 0: OpAdd(c, m, f, depth, f.n > 8, M_ADD); break;
         case 1: OpAdd(c, m, f, depth, f.n > 8, M_PREPEND); break;
         case 2: if (!(flags & MUT_SHARED_ITEMS) || f.n >= 3) OpRemove(c, m, f); break;
         case 3: { Value v; MakeValue(c, v, f.cls, f.tc, depth, f.n > 8); const uint32 i = c.R(f.n); const status_t st = Apply(c, m, f.name.c_str(), v, M_REPLACE, i, false); if (st.IsError()) BuildFail("replace-at in a mutation", st); c.Op(OP_REPLACE); c.Log(vh::fmt("rp%u", i)); CheckField(m, f, "replace-at"); } break;
         case 4: if (flags & MUT_SHARED_ITEMS) OpSort(c, m, f); else OpFindCopy(c, m, f); break;
         default: if (flags & MUT_SHARED_ITEMS) OpSort(c, m, f); else OpNeutral(c, m, f, depth, used); break;
         }
      }
      else if (r == 6) { GenField(c, m, depth, false, used); c.Op(OP_MUTATE_NEWFIELD); }
      else if (r == 7) { if (!have) continue; if (m.RemoveName(f.name.c_str()).IsError()) BuildFail("RemoveName in a mutation", B_LOGIC_ERROR); c.Op(OP_MUTATE_REMOVENAME); c.Log("rmname"); }
      else if (r == 8) { m.what = (uint32)c.g.next(); c.Op(OP_MUTATE_WHAT); c.Log("what"); }
      else { if (!have) continue; if ((flags & MUT_PRIVATE_FIRST) && m.EnsureFieldIsPrivate(f.name.c_str()).IsError()) BuildFail("EnsureFieldIsPrivate before a mutation", B_LOGIC_ERROR); OpNeutral(c, m, f, depth, used); }
   }
}

// ---- scans --------------------------------------------------------------------------------------------------------------
static inline bool ContainsNaN(const Message & m)
{
   for (MessageFieldNameIterator it = m.GetFieldNameIterator(); it.HasData(); it++) {
      const String & fn = it.GetFieldName(); uint32 t = 0, n = 0; if (m.GetInfo(fn, &t, &n).IsError()) continue;
      for (uint32 i = 0; i < n; i++) {
         if (t == B_MESSAGE_TYPE) { ConstMessageRef s; if (m.FindMessage(fn, i, s).IsOK() && s() && ContainsNaN(*s())) return true; continue; }
         if (t != B_FLOAT_TYPE && t != B_DOUBLE_TYPE && t != B_POINT_TYPE && t != B_RECT_TYPE) break;
         const void * p = NULL; uint32 len = 0; if (m.FindData(fn, t, i, &p, &len).IsError() || p == NULL) continue;
         if (t == B_DOUBLE_TYPE) { uint64_t b; memcpy(&b, p, 8); if (IsNaN64(b)) return true; }
         else for (uint32 k = 0; k + 4 <= len; k += 4) { uint32_t b; memcpy(&b, (const uint8 *)p + k, 4); if (IsNaN32(b)) return true; }
      }
   }
   return false;
}
static inline uint32_t CountNonFlattenable(const Message & m)   // pointer and tag fields, all nesting levels
{
   uint32_t c = 0;
   for (MessageFieldNameIterator it = m.GetFieldNameIterator(); it.HasData(); it++) {
      const String & fn = it.GetFieldName(); uint32 t = 0, n = 0; if (m.GetInfo(fn, &t, &n).IsError()) continue;
      if (t == B_POINTER_TYPE || t == B_TAG_TYPE) c++;
      else if (t == B_MESSAGE_TYPE) for (uint32 i = 0; i < n; i++) { ConstMessageRef s; if (m.FindMessage(fn, i, s).IsOK() && s()) c += CountNonFlattenable(*s()); }
   }
   return c;
}

// ---- one-line description -------------------------------------------------------------------------------------------------
static inline const char * TypeCodeName(uint32 t) { const int c = ClassOfTypeCode(t); return c == TC_USER ? "user" : TypeClassName(c); }
static inline void DescribeAux(const Message & m, std::string & o, size_t maxLen, int depth)
{
   o += vh::fmt("what=0x%x{", m.what);
   bool first = true;
   for (MessageFieldNameIterator it = m.GetFieldNameIterator(); it.HasData(); it++) {
      if (o.size() > maxLen) { o += "..."; break; }
      const String & fn = it.GetFieldName(); uint32 t = 0, n = 0; (void)m.GetInfo(fn, &t, &n);
      if (!first) o += "; "; first = false;
      o += "'" + Esc(std::string(fn(), fn.Length()), 12) + "':"; o += TypeCodeName(t); if (ClassOfTypeCode(t) == TC_USER) o += vh::fmt("(%08x)", t); o += vh::fmt("[%u]=", n);
      for (uint32 i = 0; i < n && i < 3; i++) {
         if (i) o += ",";
         if (t == B_MESSAGE_TYPE) { ConstMessageRef s; if (m.FindMessage(fn, i, s).IsOK() && s()) { if (depth < 3) DescribeAux(*s(), o, maxLen, depth + 1); else o += "{..}"; } else o += "?"; }
         else if (t == B_POINTER_TYPE) o += "ptr"; else if (t == B_TAG_TYPE) o += "tag";
         else if (t == B_STRING_TYPE) { const String * s = NULL; if (m.FindString(fn, i, &s).IsOK() && s) o += vh::fmt("%u\"", s->Length()) + Esc(std::string(s->Cstr(), s->Length()), 8) + "\""; else o += "?"; }
         else {
            const void * p = NULL; uint32 len = 0; const status_t r = m.FindData(fn, t, i, &p, &len);
            if (r.IsError() || p == NULL) { o += "<0 bytes>"; continue; }
            switch (t) { case B_BOOL_TYPE: o += (*(const uint8 *)p) ? "T" : "F"; break; case B_INT8_TYPE: o += vh::fmt("%d", (int)*(const int8 *)p); break;
                         case B_INT16_TYPE: { int16 x; memcpy(&x, p, 2); o += vh::fmt("%d", (int)x); } break; case B_INT32_TYPE: { int32 x; memcpy(&x, p, 4); o += vh::fmt("%d", x); } break;
                         case B_INT64_TYPE: { int64 x; memcpy(&x, p, 8); o += vh::fmt("%lld", (long long)x); } break;
                         case B_FLOAT_TYPE: case B_DOUBLE_TYPE: case B_POINT_TYPE: case B_RECT_TYPE: o += "x" + vh::hex(p, len, 16); break;
                         default: o += vh::fmt("%u:", len) + vh::hex(p, len, 4); break; }
         }
      }
      if (n > 3) o += ",..";
   }
   o += "}";
}
static inline std::string DescribeMessage(const Message & m, size_t maxLen = 440) { std::string o; DescribeAux(m, o, maxLen, 0); if (o.size() > maxLen + 40) { o.resize(maxLen + 40); o += "..."; } return o; }

// ---- bit-exact structural comparator --------------------------------------------------------------------------------------
// Walks both Messages with the field-name iterator, GetInfo, FindData/FindMessage/FindFlat and memcmp: same what, same field names
// in the same order, same type codes, same counts, identical item bytes, recursively.  With skipNonFlattenableInA, pointer and tag
// fields of (a) are skipped and (b) must not contain any (b is what came back from the wire).  On a difference: (why) = readable
// witness, (whyKey) = stable classifier.
static inline bool IsNonFlat(uint32 t) { return t == B_POINTER_TYPE || t == B_TAG_TYPE; }
static inline long & ZeroItemFieldsCompared() { static long n = 0; return n; }   // observation counter for the callers' statistics
// one field of (a) against one field of (b) (the names may differ): type code, item count, item bytes, recursively
static inline bool SameField(const Message & a, const String & fa, const Message & b, const String & fb, bool skipNonFlattenableInA, std::string & why, std::string & whyKey, int depth = 0)
{
   uint32 ta = 0, tb = 0, na = 0, nb = 0;
   const bool ha = a.GetInfo(fa, &ta, &na).IsOK(), hb = b.GetInfo(fb, &tb, &nb).IsOK();
   if (ha != hb) { why = "field '" + Esc(ha ? fa() : fb(), 20) + "' exists in one Message only"; whyKey = "field-presence"; return false; }
   if (!ha) return true;
      if (ta != tb) { why = "type code of '" + Esc(fa(), 20) + vh::fmt("': %08x vs %08x", ta, tb); whyKey = "type-code"; return false; }
      if (na != nb) { why = std::string(TypeCodeName(ta)) + " field '" + Esc(fa(), 20) + vh::fmt("': %u items vs %u", na, nb); whyKey = std::string("item-count|") + TypeCodeName(ta); return false; }
      if (na == 0) { ZeroItemFieldsCompared()++; return true; }   // a field without items: the class comment promises "one or more data items" and RemoveData() drops a field
                                                                 // with its last item, but a field that SHARES its array (ShareName, lightweight copy) is left behind empty when the
                                                                 // items are removed through the other owner.  Such a Message is constructible, so it must make the trip like any other.
      for (uint32 i = 0; i < na; i++) {
         if (ta == B_MESSAGE_TYPE) {
            ConstMessageRef sa, sb;
            if (a.FindMessage(fa, i, sa).IsError() || b.FindMessage(fb, i, sb).IsError() || sa() == NULL || sb() == NULL) { why = "FindMessage fails on '" + Esc(fa(), 20) + vh::fmt("' item %u", i); whyKey = "findmessage"; return false; }
            if (!SameStructure(*sa(), *sb(), skipNonFlattenableInA, why, whyKey, depth + 1)) { why = "in '" + Esc(fa(), 12) + vh::fmt("'[%u]: ", i) + why; return false; }
         }
         else if (ta == B_TAG_TYPE) {
            // only presence is compared: tags never reach the wire, and a copied Message may hold a clone of the tag object
            // (MessageField::EnsurePrivate() clones an inline tag that is a Message or FlatCountable; tag arrays keep sharing it)
            RefCountableRef xa, xb; if (a.FindTag(fa, i, xa).IsError() || b.FindTag(fb, i, xb).IsError() || xa() == NULL || xb() == NULL) { why = "FindTag fails on an existing tag item"; whyKey = "findtag"; return false; }
         }
         else {
            const void * pa = NULL, * pb = NULL; uint32 la = 0, lb = 0; status_t ra, rb;
            if (!ItemBytes(a, fa, ta, i, pa, la, &ra) || !ItemBytes(b, fb, tb, i, pb, lb, &rb)) { why = std::string("FindData/FindFlat status on ") + TypeCodeName(ta) + " field '" + Esc(fa(), 20) + vh::fmt("' item %u: %s / %s", i, ra(), rb()); whyKey = std::string("finddata-status|") + TypeCodeName(ta); return false; }
            if (la != lb || (la > 0 && memcmp(pa, pb, la) != 0)) {
               why = std::string(TypeCodeName(ta)) + " field '" + Esc(fa(), 20) + vh::fmt("' item %u of %u: %u bytes ", i, na, la) + vh::hex(pa, la, 24) + vh::fmt(" vs %u bytes ", lb) + vh::hex(pb, lb, 24);
               whyKey = std::string("item-bytes|") + TypeCodeName(ta); return false;
            }
         }
      }
   return true;
}
static inline bool SameStructure(const Message & a, const Message & b, bool skipNonFlattenableInA, std::string & why, std::string & whyKey, int depth)
{
   if (a.what != b.what) { why = vh::fmt("what code %08x vs %08x (depth %d)", a.what, b.what, depth); whyKey = "what"; return false; }
   MessageFieldNameIterator ia = a.GetFieldNameIterator(), ib = b.GetFieldNameIterator();
   for (;;) {
      while (skipNonFlattenableInA && ia.HasData()) { uint32 t = 0; (void)a.GetInfo(ia.GetFieldName(), &t); if (IsNonFlat(t)) ia++; else break; }
      if (!ia.HasData() || !ib.HasData()) break;
      const String & fa = ia.GetFieldName(); const String & fb = ib.GetFieldName();
      uint32 ta = 0, tb = 0, na = 0, nb = 0;
      if (a.GetInfo(fa, &ta, &na).IsError() || b.GetInfo(fb, &tb, &nb).IsError()) { why = "GetInfo fails on an iterated field name"; whyKey = "getinfo"; return false; }
      if (skipNonFlattenableInA && IsNonFlat(tb)) { why = "non-flattenable field '" + Esc(fb(), 20) + "' present after the trip"; whyKey = "nonflattenable-present"; return false; }
      if (fa.Length() != fb.Length() || memcmp(fa(), fb(), fa.Length()) != 0) { why = vh::fmt("field order/name at depth %d: '", depth) + Esc(fa(), 30) + "' vs '" + Esc(fb(), 30) + "'"; whyKey = "field-order-or-name"; return false; }
      if (!SameField(a, fa, b, fb, skipNonFlattenableInA, why, whyKey, depth)) return false;
      ia++; ib++;
   }
   while (skipNonFlattenableInA && ia.HasData()) { uint32 t = 0; (void)a.GetInfo(ia.GetFieldName(), &t); if (IsNonFlat(t)) ia++; else break; }
   if (ia.HasData()) { why = vh::fmt("depth %d: field '", depth) + Esc(ia.GetFieldName()(), 30) + "' and what follows it are missing from the second Message"; whyKey = "field-missing"; return false; }
   if (ib.HasData()) { why = vh::fmt("depth %d: extra field '", depth) + Esc(ib.GetFieldName()(), 30) + "' in the second Message"; whyKey = "field-extra"; return false; }
   return true;
}

static inline bool SameStructure(const Message & a, const Message & b, bool skipNonFlattenableInA, std::string & why, std::string & whyKey) { return SameStructure(a, b, skipNonFlattenableInA, why, whyKey, 0); }

}  // namespace msggen
#endif
