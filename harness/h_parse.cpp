// VBUILD: needs-c-codecs
// h_parse -- C02: parsing untrusted bytes is memory-safe, terminates and costs O(input).
// One case = ONE input handed to ONE parser entry point (sanitizers decide memory safety / UB / aborts, the driver
// decides CPU-budget overruns; this file adds the allocation bound, the linear-CPU bound, "OK => walkable",
// "failed => destructible and reusable", "gateway after Reset() delivers a valid stream intact").
// --opt mode=  regress | msg | tmsg | mini | micro | parsers (k%4 over the four Message parsers, for memcheck)
//              | gw | tgw | text | raw | slip | ws | tunnel | minitunnel | cgw | zcodec (ZLibCodec / ZLibUtilityFunctions direct entry points) | deepnest
// Case addressing inside a mode: cases [0,S) are the exhaustive sweeps over the first --opt sweepT / sweepW bases
// (every prefix; every length/count/type/size word x every boundary value), S depends only on (seed, mode);
// cases >= S: base = 1000 + (k-S)/50, family by (k-S)%50: 0 valid, 1-10 truncation, 11-30 single word,
// 31-38 structure-aware, 39-49 random byte/bit.  Every base / case seeds its own PRNG.
#include "message/Message.h"
#include "iogateway/MessageIOGateway.h"
#include "iogateway/TemplatingMessageIOGateway.h"
#include "iogateway/PlainTextMessageIOGateway.h"
#include "iogateway/RawDataMessageIOGateway.h"
#include "iogateway/SLIPFramedDataMessageIOGateway.h"
#include "iogateway/WebSocketMessageIOGateway.h"
#include "iogateway/PacketTunnelIOGateway.h"
#include "iogateway/MiniPacketTunnelIOGateway.h"
#include "zlib/ZLibCodec.h"
#include "zlib/ZLibUtilityFunctions.h"
#include <zlib.h>
#include "dataio/DataIO.h"
#include "dataio/PacketDataIO.h"
#include "system/SetupSystem.h"
#include "syslog/SysLog.h"
#include "util/ByteBuffer.h"
#include "util/OutputPrinter.h"
#include "lang/c/minimessage/MiniMessage.h"
#include "lang/c/micromessage/MicroMessage.h"
#include "lang/c/minimessage/MiniMessageGateway.h"
#include "lang/c/micromessage/MicroMessageGateway.h"
#include <vector>
#include <string>
#include <map>
#include <deque>
#include <algorithm>
#include <memory>
#include <time.h>
#include "vh.h"
#include "allocmon.h"
#include "msggen.h"
using namespace muscle;

typedef std::string Bytes;
static vh::Rng g(1);
static uint32_t R(uint32_t n) { return g.R(n); }
static FILE * devnull = NULL;
static bool caseBad = false;
static std::string curEntry = "?", curDesc;
static const uint32_t LIMIT_L = 1024 * 1024;

static void Fail(const std::string & key, const std::string & detail) { if (caseBad) return; caseBad = true; vh::viol(key, curEntry + " | " + curDesc + " | " + detail); }
static uint32_t rd32(const Bytes & b, size_t off) { uint32_t v = 0; if (off + 4 <= b.size()) memcpy(&v, b.data() + off, 4); return v; }
static void wr32(Bytes & b, size_t off, uint32_t v) { if (off + 4 <= b.size()) memcpy(&b[off], &v, 4); }
static void put32(Bytes & b, uint32_t v) { b.append((const char *)&v, 4); }
static double ThreadCpu() { struct timespec ts; clock_gettime(CLOCK_THREAD_CPUTIME_ID, &ts); return ts.tv_sec + ts.tv_nsec * 1e-9; }
// exact-size heap copy: a one-byte over-read is an ASan report
struct Exact { uint8_t * p; uint32_t n; explicit Exact(const Bytes & b) : p(new uint8_t[b.size()]), n((uint32_t)b.size()) { if (n) memcpy(p, b.data(), n); } ~Exact() { delete [] p; } private: Exact(const Exact &); Exact & operator=(const Exact &); };

// ---------------------------------------------------------------------------------------------- scripted transports
struct Pipe { std::deque<uint8_t> q; };
static uint32_t Chop(uint32_t n) { if (n == 0) return 0; switch (R(7)) { case 0: return 0; case 1: return 1; case 2: return n; case 3: return 1 + R(n < 8 ? n : 8); case 4: return n > 1 ? n - 1 : 1; default: return 1 + R(n); } }
class ChopIO : public DataIO {
public:
   Pipe * rd; Bytes * wr; bool chop, noZero, partialWrites; long failWriteAfter;   // failWriteAfter >= 0: the Write side accepts that many more bytes (in partial writes), then reports an error
   ChopIO(Pipe * r, Bytes * w, bool c = true) : rd(r), wr(w), chop(c), noZero(false), partialWrites(false), failWriteAfter(-1) {}
   virtual io_status_t Read(void * b, uint32 size) { if (!rd) return io_status_t(0); uint32_t avail = (uint32_t)rd->q.size(); uint32_t m = avail < size ? avail : size; uint32_t n = chop ? Chop(m) : m; if (noZero && n == 0 && m > 0) n = 1; for (uint32_t i = 0; i < n; i++) { ((uint8_t *)b)[i] = rd->q.front(); rd->q.pop_front(); } return io_status_t((int32)n); }
   virtual io_status_t Write(const void * b, uint32 size) { uint32_t n = size; if (partialWrites && size > 1) { n = Chop(size); if (n == 0) n = 1; } if (failWriteAfter >= 0) { if (failWriteAfter == 0) return io_status_t(B_IO_ERROR); if ((long)n > failWriteAfter) n = (uint32_t)failWriteAfter; failWriteAfter -= n; } if (wr) wr->append((const char *)b, n); return io_status_t((int32)n); }
   virtual void FlushOutput() {} virtual void Shutdown() {}
   virtual const ConstSocketRef & GetReadSelectSocket() const { return GetNullSocket(); } virtual const ConstSocketRef & GetWriteSelectSocket() const { return GetNullSocket(); }
};
class PktIO : public PacketDataIO {
public:
   std::deque<Bytes> * q; uint32 mtu; IPAddressAndPort me, last;
   PktIO(std::deque<Bytes> * qq, uint32 m) : q(qq), mtu(m), me(IPAddress((uint64)0, (uint64)0x7f000001), 1000) {}
   virtual uint32 GetMaximumPacketSize() const { return mtu; }
   virtual const IPAddressAndPort & GetSourceOfLastReadPacket() const { return last; }
   virtual const IPAddressAndPort & GetPacketSendDestination() const { return me; }
   virtual void SetPacketSendDestination(const IPAddressAndPort &) {}
   virtual io_status_t Read(void * b, uint32 size) { if (q->empty()) return io_status_t(0); const Bytes & p = q->front(); uint32 n = (uint32)std::min((size_t)size, p.size()); if (n) memcpy(b, p.data(), n); q->pop_front(); last = me; return io_status_t((int32)n); }
   virtual io_status_t Write(const void * b, uint32 size) { q->push_back(Bytes((const char *)b, size)); return io_status_t((int32)size); }
   virtual io_status_t ReadFrom(void * b, uint32 size, IPAddressAndPort & from) { io_status_t r = Read(b, size); from = last; return r; }
   virtual io_status_t WriteTo(const void * b, uint32 size, const IPAddressAndPort &) { return Write(b, size); }
   virtual void FlushOutput() {} virtual void Shutdown() {}
   virtual const ConstSocketRef & GetReadSelectSocket() const { return GetNullSocket(); } virtual const ConstSocketRef & GetWriteSelectSocket() const { return GetNullSocket(); }
};

// ---------------------------------------------------------------------- where the length/count/type/size words are
// Flattened Message (layout comment in Message::Flatten): proto, what, nfields, { namelen, name, type, paylen, payload }*
// payload: fixed-size types = raw items; B_MESSAGE_TYPE = { subsize, sub-Message }*; everything else = count, { itemlen, bytes }*
enum { WK_U32 = 0, WK_TYPE, WK_WSFRAME, WK_BYTE };
struct Word { uint32_t off; const char * role; int kind; uint32_t end; /* end of the enclosing buffer (for the "remaining bytes" values) */ };
struct FieldExt { uint32_t start, end, payOff, payLen; };
static bool IsFixedType(uint32_t tc) { switch (tc) { case B_BOOL_TYPE: case B_DOUBLE_TYPE: case B_FLOAT_TYPE: case B_INT64_TYPE: case B_INT32_TYPE: case B_INT16_TYPE: case B_INT8_TYPE: case B_POINT_TYPE: case B_RECT_TYPE: case B_POINTER_TYPE: case B_TAG_TYPE: return true; } return false; }
static void AddW(std::vector<Word> & w, uint32_t off, const char * role, uint32_t end, int kind = WK_U32) { Word x; x.off = off; x.role = role; x.kind = kind; x.end = end; w.push_back(x); }
static bool WalkMsg(const Bytes & b, uint32_t base, uint32_t len, std::vector<Word> & w, std::vector<FieldExt> * fields, int depth)
{
   if (len < 12 || (size_t)base + len > b.size()) return false;
   const uint32_t end = base + len;
   AddW(w, base, "proto", end); AddW(w, base + 4, "what", end); AddW(w, base + 8, "nfields", end);
   const uint32_t n = rd32(b, base + 8); uint32_t off = base + 12;
   for (uint32_t i = 0; i < n; i++) {
      FieldExt fe; fe.start = off;
      if (off + 4 > end) return false; const uint32_t nl = rd32(b, off); AddW(w, off, "namelen", end); off += 4; if (nl > end - off) return false; off += nl;
      if (off + 8 > end) return false; const uint32_t tc = rd32(b, off); AddW(w, off, "type", end, WK_TYPE); off += 4;
      const uint32_t pl = rd32(b, off); AddW(w, off, "paylen", end); off += 4; if (pl > end - off) return false;
      const uint32_t pe = off + pl; fe.payOff = off; fe.payLen = pl;
      if (tc == B_MESSAGE_TYPE) { uint32_t p = off, j = 0; while (p + 4 <= pe) { const uint32_t sz = rd32(b, p); if (j < 3) AddW(w, p, "subsize", pe); p += 4; if (sz > pe - p) break; if (depth < 6 && j < 3) (void)WalkMsg(b, p, sz, w, NULL, depth + 1); p += sz; j++; } }
      else if (!IsFixedType(tc) && pl >= 4) { AddW(w, off, "count", pe); const uint32_t cnt = rd32(b, off); uint32_t p = off + 4; for (uint32_t j = 0; j < cnt; j++) { if (p + 4 > pe) break; const uint32_t il = rd32(b, p); if (j < 3 || j + 1 == cnt) AddW(w, p, "itemlen", pe); p += 4; if (il > pe - p) break; p += il; } }
      off = pe; fe.end = off; if (fields) fields->push_back(fe);
   }
   return true;
}
// gateway stream: { bodysize, encoding, body }*   (templ: bit 31 of bodysize = create-template, bit 31 of encoding = payload-only)
static const uint32_t ZMAGIC_DEP = 2053925218u, ZMAGIC_IND = 2053925219u;
static void WalkStream(const Bytes & b, uint32_t base, uint32_t len, std::vector<Word> & w, bool templ, std::vector<FieldExt> * frames)
{
   uint32_t off = base; const uint32_t end = base + len;
   while (off + 8 <= end) {
      const uint32_t sw = rd32(b, off), ew = rd32(b, off + 4); const uint32_t bs = templ ? (sw & 0x7fffffffu) : sw, enc = templ ? (ew & 0x7fffffffu) : ew;
      AddW(w, off, "hdr-size", end); AddW(w, off + 4, "hdr-enc", end);
      if (bs > end - (off + 8)) break;
      const uint32_t bo = off + 8;
      if (enc != MUSCLE_MESSAGE_ENCODING_DEFAULT) { if (bs >= 8) { AddW(w, bo, "zlib-magic", bo + bs); AddW(w, bo + 4, "zlib-rawsize", bo + bs); } }
      else if (templ && (ew & 0x80000000u)) { for (uint32_t p = bo; p + 4 <= bo + bs && p < bo + 64; p += 4) AddW(w, p, p < bo + 8 ? "tpl-id" : "tpl-payload", bo + bs); }
      else (void)WalkMsg(b, bo, bs, w, NULL, 0);
      FieldExt fe; fe.start = off; fe.end = bo + bs; fe.payOff = bo; fe.payLen = bs; if (frames) frames->push_back(fe);
      off = bo + bs;
   }
}
// WebSocket frames: b0 (FIN|RSV|opcode) b1 (MASK|len7) [len16 | len64] [mask4] payload
static bool WsFrameAt(const Bytes & b, uint32_t off, uint32_t & hdr, uint64_t & plen, bool & masked)
{
   if (off + 2 > b.size()) return false; const uint8_t b1 = (uint8_t)b[off + 1]; masked = (b1 & 0x80) != 0; const uint32_t l7 = b1 & 0x7f; hdr = 2;
   if (l7 == 126) { if (off + 4 > b.size()) return false; plen = ((uint8_t)b[off + 2] << 8) | (uint8_t)b[off + 3]; hdr = 4; }
   else if (l7 == 127) { if (off + 10 > b.size()) return false; plen = 0; for (int i = 0; i < 8; i++) plen = (plen << 8) | (uint8_t)b[off + 2 + i]; hdr = 10; }
   else plen = l7;
   if (masked) hdr += 4;
   return (uint64_t)off + hdr + plen <= b.size();
}
static void WalkWs(const Bytes & b, uint32_t from, std::vector<Word> & w, std::vector<FieldExt> * frames, bool slave)
{
   uint32_t off = from;
   for (;;) { uint32_t hdr; uint64_t pl; bool mk; if (!WsFrameAt(b, off, hdr, pl, mk)) break; AddW(w, off, "ws-frame", (uint32_t)b.size(), WK_WSFRAME);
      if (slave && !mk && pl >= 8) WalkStream(b, off + hdr, (uint32_t)pl, w, false, NULL);
      FieldExt fe; fe.start = off; fe.end = off + hdr + (uint32_t)pl; fe.payOff = off + hdr; fe.payLen = (uint32_t)pl; if (frames) frames->push_back(fe); off = fe.end; }
}
// tunnel packets
static void WalkTunnelPkt(const Bytes & b, std::vector<Word> & w)
{
   static const char * const roles[6] = {"tun-magic", "tun-sexid", "tun-msgid", "tun-offset", "tun-chunk", "tun-total"};
   uint32_t off = 0; const uint32_t end = (uint32_t)b.size();
   while (off + 24 <= end) { for (int i = 0; i < 6; i++) AddW(w, off + 4 * i, roles[i], end); const uint32_t cs = rd32(b, off + 16); const uint32_t tot = rd32(b, off + 20); if (rd32(b, off + 12) == 0 && cs == tot && cs <= end - (off + 24) && cs >= 20) WalkStream(b, off + 24, cs, w, false, NULL); if (cs > end - (off + 24)) break; off += 24 + cs; }
}
static void WalkMiniTunnelPkt(const Bytes & b, std::vector<Word> & w)
{
   const uint32_t end = (uint32_t)b.size(); if (end < 12) return;
   AddW(w, 0, "mtun-magic", end); AddW(w, 4, "mtun-sexid", end); AddW(w, 8, "mtun-clevel-id", end);
   if ((rd32(b, 8) >> 24) != 0) { if (end >= 20) { AddW(w, 12, "zlib-magic", end); AddW(w, 16, "zlib-rawsize", end); } return; }
   uint32_t off = 12; while (off + 4 <= end) { AddW(w, off, "mtun-chunksize", end); const uint32_t cs = rd32(b, off); off += 4; if (cs > end - off) break; if (cs >= 12) (void)WalkMsg(b, off, cs, w, NULL, 0); off += cs; }
}

// ------------------------------------------------------------------------------------- boundary values for a word
static const uint32_t TYPECODES[] = {B_BOOL_TYPE, B_DOUBLE_TYPE, B_FLOAT_TYPE, B_INT64_TYPE, B_INT32_TYPE, B_INT16_TYPE, B_INT8_TYPE, B_MESSAGE_TYPE, B_POINTER_TYPE, B_POINT_TYPE, B_RECT_TYPE, B_STRING_TYPE, B_RAW_TYPE, B_TAG_TYPE, B_ANY_TYPE, 0x75737231u, 0u, 0xffffffffu};
enum { NLENV = 27, NTYPEV = (int)(sizeof(TYPECODES) / sizeof(TYPECODES[0])), NWSV = 40 };
static uint32_t Slots(const Word & w) { return w.kind == WK_BYTE ? 10 : w.kind == WK_WSFRAME ? NWSV : w.kind == WK_TYPE ? NLENV + NTYPEV : NLENV; }
static uint32_t LenValue(uint32_t slot, uint32_t v, uint32_t after)
{
   switch (slot) { case 0: return 0; case 1: return 1; case 2: return 2; case 3: return 3; case 4: return 4; case 5: return v - 1; case 6: return v + 1; case 7: return v + 4; case 8: return after; case 9: return after + 1; case 10: return after - 1;
                   case 11: return 0x7fffffffu; case 12: return 0x80000000u; case 13: return v | 0x80000000u; case 14: return 0x40000000u; case 15: return 0x10000u; case 16: return v * 2; case 17: return 0x20000000u; case 18: return 0x7ffffff8u; }
   return 0xfffffff8u + (slot - 19);   // 19..26 -> 2^32-8 .. 2^32-1
}
static void Put64BE(Bytes & o, uint64_t v) { for (int i = 7; i >= 0; i--) o.push_back((char)(v >> (8 * i))); }
// rewrites the WebSocket frame that starts at off (header forms, opcodes, flag bits); the payload bytes stay
static std::string ApplyWsSlot(Bytes & b, uint32_t off, uint32_t slot)
{
   uint32_t hdr; uint64_t pl; bool mk; if (!WsFrameAt(b, off, hdr, pl, mk)) return "ws-noframe";
   const uint8_t b0 = (uint8_t)b[off]; const Bytes mask = mk ? b.substr(off + hdr - 4, 4) : Bytes();
   if (slot < 16) { b[off] = (char)((b0 & 0xf0) | slot); return vh::fmt("ws-opcode=%u", slot); }
   if (slot == 16) { b[off] = (char)(b0 & 0x7f); return "ws-fin-clear"; }
   if (slot == 17) { b[off] = (char)(b0 | 0x40); return "ws-rsv"; }
   if (slot == 18) { b[off + 1] = (char)((uint8_t)b[off + 1] ^ 0x80); return "ws-maskbit-flip"; }
   Bytes h; h.push_back((char)b0); std::string d;
   if (slot < 26) { static const uint32_t v16[] = {0, 1, 125, 126, 0xffff, 0x8000, 0, 0}; uint32_t v = slot == 24 ? (uint32_t)pl + 1 : slot == 25 ? (uint32_t)(pl ? pl - 1 : 0) : v16[slot - 19]; h.push_back((char)((mk ? 0x80 : 0) | 126)); h.push_back((char)(v >> 8)); h.push_back((char)v); d = vh::fmt("ws-len16=%u(was %llu)", v & 0xffff, (unsigned long long)pl); }
   else if (slot < 39) { static const uint64_t v64[] = {0, 1, 0x10000, 10ULL * 1024 * 1024, 10ULL * 1024 * 1024 + 1, 0x7fffffffULL, 0x80000000ULL, 0xfffffff8ULL, 0xffffffffULL, 0x100000000ULL, 0x7fffffffffffffffULL, 0x8000000000000000ULL, 0xffffffffffffffffULL};
      uint64_t v = v64[slot - 26]; if (slot == 35) v = 0x100000000ULL + pl; h.push_back((char)((mk ? 0x80 : 0) | 127)); Put64BE(h, v); d = vh::fmt("ws-len64=%llx(was %llu)", (unsigned long long)v, (unsigned long long)pl); }
   else { h.push_back((char)((mk ? 0x80 : 0) | (pl < 125 ? pl + 1 : 125))); d = "ws-len7+1"; }
   h += mask; b.replace(off, hdr, h); return d;
}
static std::string ApplyWord(Bytes & b, const Word & w, uint32_t slot)
{
   if (w.kind == WK_WSFRAME) return ApplyWsSlot(b, w.off, slot);
   if (w.kind == WK_BYTE) { if (w.off >= b.size()) return "byte-beyond"; const uint8_t o = (uint8_t)b[w.off]; const uint8_t nb = slot < 8 ? (uint8_t)(o ^ (1u << slot)) : slot == 8 ? 0 : 0xff; b[w.off] = (char)nb; return vh::fmt("%s@%u=%02x(was %02x)", w.role, w.off, nb, o); }
   const uint32_t v = rd32(b, w.off), after = w.end > w.off + 4 ? w.end - (w.off + 4) : 0;
   const uint32_t nv = (w.kind == WK_TYPE && slot >= NLENV) ? TYPECODES[slot - NLENV] : LenValue(slot, v, after);
   wr32(b, w.off, nv); return vh::fmt("%s@%u=%08x(was %08x)", w.role, w.off, nv, v);
}

// ------------------------------------------------------------------------------------------------- valid material
enum { E_MSG = 0, E_TMSG, E_MINI, E_MICRO, E_GW, E_TGW, E_TEXT, E_RAW, E_SLIP, E_WS, E_TUNNEL, E_MINITUNNEL, E_CGW, E_ZCODEC, NE };
static const char * const ENAME[NE] = {"msg", "tmsg", "mini", "micro", "gw", "tgw", "text", "raw", "slip", "ws", "tunnel", "minitunnel", "cgw", "zcodec"};
enum { DG_MSG = 0, DG_TEXT, DG_RAW, DG_SLIP, DG_WS };
static int DigestKind(int e) { return e == E_TEXT ? DG_TEXT : e == E_RAW ? DG_RAW : e == E_SLIP ? DG_SLIP : e == E_WS ? DG_WS : DG_MSG; }
static Bytes FlatBytes(const Message & m) { const uint32 n = m.FlattenedSize(); Bytes b(n, '\0'); if (n) m.FlattenToBytes((uint8 *)&b[0], n); return b; }
static void AppendDigest(int kind, const Message & m, Bytes & d)
{
   const String * s; const void * p; uint32 n;
   switch (kind) {
   case DG_TEXT: for (uint32 i = 0; m.FindString(PR_NAME_TEXT_LINE, i, &s).IsOK(); i++) { d.append(s->Cstr(), s->Length()); d += '\n'; } break;
   case DG_RAW: for (uint32 i = 0; m.FindData(PR_NAME_DATA_CHUNKS, B_ANY_TYPE, i, &p, &n).IsOK(); i++) d.append((const char *)p, n); break;
   case DG_SLIP: for (uint32 i = 0; m.FindData(PR_NAME_DATA_CHUNKS, B_ANY_TYPE, i, &p, &n).IsOK(); i++) { put32(d, n); d.append((const char *)p, n); } break;
   case DG_WS:
      if (m.what == PR_COMMAND_TEXT_STRINGS && m.HasName(PR_NAME_TEXT_LINE)) { for (uint32 i = 0; m.FindString(PR_NAME_TEXT_LINE, i, &s).IsOK(); i++) { d += 'T'; d.append(s->Cstr(), s->Length()); d += '\n'; } break; }
      if (m.what == PR_COMMAND_RAW_DATA && m.HasName(PR_NAME_DATA_CHUNKS)) { for (uint32 i = 0; m.FindData(PR_NAME_DATA_CHUNKS, B_ANY_TYPE, i, &p, &n).IsOK(); i++) { d += 'B'; put32(d, n); d.append((const char *)p, n); } break; }
      // fall through: a Message delivered by the slave gateway
   default: { Bytes f; if (m.HasName(PR_NAME_PACKET_REMOTE_LOCATION)) { Message c(m); (void)c.RemoveName(PR_NAME_PACKET_REMOTE_LOCATION); f = FlatBytes(c); } else f = FlatBytes(m); d += 'M'; put32(d, (uint32_t)f.size()); d += f; } break;   // (a slave gateway in packet mode tags the source address)
   }
}
struct Base {
   int entry, variant; uint32_t mtu;
   std::vector<Bytes> units; std::vector<std::vector<Word> > words; std::vector<std::vector<FieldExt> > ext;
   std::vector<MessageRef> msgs; MessageRef tmpl, tmpl2; uint32_t tmplSize;
   Bytes expect;                       // digest the receiver must produce for the unmodified units
   std::vector<Bytes> raws;            // zcodec: what each unit inflates to
   std::vector<Bytes> post; Bytes postExpect;   // a valid stream / packet list from a FRESH sender, fed after Reset()
   Base() : entry(0), variant(0), mtu(0), tmplSize(0) {}
};
static MessageRef GenMsg(vh::Rng & r, int sizeKind /* 0 tiny, 1 small, 2 normal */)
{
   msggen::GenOptions o = msggen::GenOptions::Flattenable(); o.allowSharedFields = false;
   if (sizeKind <= 1) { o.sizeClass = msggen::SIZE_SMALL; o.maxDepth = sizeKind == 0 ? 1 : 2; o.maxTopFields = sizeKind == 0 ? 4 : 6; o.maxSubFields = sizeKind == 0 ? 2 : 3; }
   else { o.maxDepth = 3; o.maxTopFields = 8; }
   return msggen::GenMessage(r, o);
}
static MessageRef TextMsg(vh::Rng & r) { MessageRef m = GetMessageFromPool(PR_COMMAND_TEXT_STRINGS); const uint32_t n = 1 + r.R(3); for (uint32_t i = 0; i < n; i++) { Bytes s; const uint32_t l = 1 + r.R(r.R(8) == 0 ? 300 : 30); for (uint32_t k = 0; k < l; k++) s.push_back((char)(32 + r.R(95))); (void)m()->AddString(PR_NAME_TEXT_LINE, s.c_str()); } return m; }
static MessageRef RawMsg(vh::Rng & r, bool slipBytes) { MessageRef m = GetMessageFromPool(PR_COMMAND_RAW_DATA); const uint32_t n = 1 + r.R(3); for (uint32_t i = 0; i < n; i++) { Bytes s; const uint32_t l = 1 + r.R(r.R(8) == 0 ? 400 : 60); for (uint32_t k = 0; k < l; k++) s.push_back(slipBytes && r.R(4) == 0 ? (char)(r.R(2) ? 0300 : 0333 + r.R(3)) : (char)r.next()); (void)m()->AddData(PR_NAME_DATA_CHUNKS, B_RAW_TYPE, s.data(), (uint32)s.size()); } return m; }
static MessageRef CloneMsg(const MessageRef & m) { MessageRef c = GetMessageFromPool(*m()); if (c() == NULL) { fprintf(stderr, "HARNESS-ABORT: clone failed\n"); abort(); } return c; }
static Bytes SendStream(AbstractMessageIOGateway & gw, const std::vector<MessageRef> & msgs)
{
   Bytes out; ChopIO io(NULL, &out, false); gw.SetDataIO(DummyDataIORef(io));
   for (size_t i = 0; i < msgs.size(); i++) if (gw.AddOutgoingMessage(CloneMsg(msgs[i])).IsError()) { fprintf(stderr, "HARNESS-ABORT: AddOutgoingMessage failed\n"); abort(); }
   for (int i = 0; i < 100000 && gw.HasBytesToOutput(); i++) (void)gw.DoOutput();
   gw.SetDataIO(DataIORef()); return out;
}
static std::vector<Bytes> SendPackets(AbstractMessageIOGateway & gw, const std::vector<MessageRef> & msgs, uint32_t mtu)
{
   std::deque<Bytes> q; PktIO io(&q, mtu); gw.SetDataIO(DummyDataIORef(io));
   for (size_t i = 0; i < msgs.size(); i++) (void)gw.AddOutgoingMessage(CloneMsg(msgs[i]));
   for (int i = 0; i < 100000 && gw.HasBytesToOutput(); i++) (void)gw.DoOutput();
   gw.SetDataIO(DataIORef()); return std::vector<Bytes>(q.begin(), q.end());
}
static const char * const WS_GET = "GET /chat HTTP/1.1\r\nHost: server.example.com\r\nUpgrade: websocket\r\nConnection: Upgrade\r\nSec-WebSocket-Key: dGhlIHNhbXBsZSBub25jZQ==\r\nSec-WebSocket-Protocol: chat, superchat\r\nSec-WebSocket-Version: 13\r\n\r\n";
static const bool kTrue = true, kFalse = false;
// variant bits.  gw: 0-2 = default / zlib6 / zlib9.  tgw: bit0 zlib.  text: bit0 telnet, bit1 flush partial lines.  raw: 0 default, 1 minChunk 16, 2 maxChunk 7, 3 counted.
// ws: bit0 receiver is client, bit1 slave gateway, bit2 handshake.  tunnel: bit0 slave, bit1 misc data, >>2 %3 mtu class.  minitunnel: bit0 slave, bit1 misc, bit2 zlib, >>3 %3 mtu.  cgw: bit0 micro.
static AbstractMessageIOGatewayRef MakeSender(int e, int v, uint32_t mtu)
{
   AbstractMessageIOGatewayRef g;
   switch (e) {
   case E_GW: case E_CGW: g.SetRef(new MessageIOGateway(e == E_CGW || v % 3 == 0 ? MUSCLE_MESSAGE_ENCODING_DEFAULT : v % 3 == 1 ? MUSCLE_MESSAGE_ENCODING_ZLIB_6 : MUSCLE_MESSAGE_ENCODING_ZLIB_9)); break;
   case E_TGW: g.SetRef(new TemplatingMessageIOGateway((v & 2) ? 2000 : 1024 * 1024, (v & 1) ? MUSCLE_MESSAGE_ENCODING_ZLIB_6 : MUSCLE_MESSAGE_ENCODING_DEFAULT)); break;
   case E_TEXT: g.SetRef(new PlainTextMessageIOGateway); break;
   case E_RAW: g.SetRef(new RawDataMessageIOGateway); break;
   case E_SLIP: g.SetRef(new SLIPFramedDataMessageIOGateway); break;
   case E_WS: { WebSocketMessageIOGateway * w = new WebSocketMessageIOGateway((v & 1) ? &kFalse : &kTrue); if (v & 2) w->SetSlaveGateway(AbstractMessageIOGatewayRef(new MessageIOGateway)); g.SetRef(w); } break;
   case E_TUNNEL: g.SetRef(new PacketTunnelIOGateway((v & 1) ? AbstractMessageIOGatewayRef(new MessageIOGateway) : AbstractMessageIOGatewayRef(), mtu)); break;
   case E_MINITUNNEL: { MiniPacketTunnelIOGateway * m = new MiniPacketTunnelIOGateway((v & 1) ? AbstractMessageIOGatewayRef(new MessageIOGateway) : AbstractMessageIOGatewayRef(), mtu); if (v & 4) m->SetZLibCompressionLevel(6); g.SetRef(m); } break;
   }
   return g;
}
static std::vector<MessageRef> GenMsgList(int e, int v, vh::Rng & r, int sizeKind, uint32_t n)
{
   std::vector<MessageRef> l;
   for (uint32_t i = 0; i < n; i++) {
      if (e == E_TEXT) l.push_back(TextMsg(r)); else if (e == E_RAW || e == E_SLIP) l.push_back(RawMsg(r, e == E_SLIP));
      else if (e == E_WS && !(v & 2)) l.push_back(r.R(2) ? TextMsg(r) : RawMsg(r, false));
      else l.push_back(GenMsg(r, sizeKind));
   }
   if (e == E_TGW && n >= 2) { for (uint32_t i = 2; i < n; i++) if (r.R(3)) l[i] = l[r.R(2)]; }   // repeated layouts -> payload-only frames
   return l;
}
static Bytes ExpectOf(int e, const std::vector<MessageRef> & l) { Bytes d; for (size_t i = 0; i < l.size(); i++) AppendDigest(DigestKind(e), *l[i](), d); return d; }

// zcodec: buffers as ZLibCodec::Deflate() makes them = magic ('zlib' dependent / 'zlic' independent), declared raw size, deflate data.
// variant % 6: 0 one independent buffer, 1 a dependent stream of 2-4 buffers from one codec (must be inflated in order), 2 a FINISHED zlib stream
// (compress2) behind the header, 3 stored blocks (level 0), 4 DeflateByteBuffer() of a flattened Message, 5 a large low-entropy buffer (many output chunks)
static Bytes ZRaw(vh::Rng & r, int kind, int sk)
{
   Bytes b;
   switch (kind) {
   case 0: { MessageRef m = GenMsg(r, sk); b = FlatBytes(*m()); } break;
   case 1: { const uint32_t n = 1 + r.R(r.R(4) == 0 ? 5000 : 300); static const char * const words[] = {"muscle ", "message ", "gateway ", "zlib ", "0123456789 ", "\n"}; while (b.size() < n) b += words[r.R(6)]; b.resize(n); } break;
   case 2: { const uint32_t n = 1 + r.R(400); for (uint32_t i = 0; i < n; i++) b.push_back((char)r.next()); } break;
   default: { const uint32_t n = 300000 + r.R(400000); b.assign(n, '\0'); for (uint32_t i = 0; i < n; i += 1 + r.R(5000)) b[i] = (char)r.next(); } break;
   }
   return b;
}
static Bytes ZHeader(bool independent, uint32_t rawLen) { Bytes h; put32(h, independent ? ZMAGIC_IND : ZMAGIC_DEP); put32(h, rawLen); return h; }
static Bytes BBBytes(const ByteBufferRef & bb) { if (bb() == NULL) { fprintf(stderr, "HARNESS-ABORT: Deflate failed on valid data\n"); abort(); } return Bytes((const char *)bb()->GetBuffer(), bb()->GetNumBytes()); }
static void BuildZBase(Base & B, vh::Rng & r, int v, int sk, bool sweepBase)
{
   const int zv = v % 6; const int lvl = 1 + (int)r.R(9);
   if (zv == 1) { ZLibCodec c(lvl); const uint32_t n = 2 + r.R(3); for (uint32_t i = 0; i < n; i++) { const Bytes raw = ZRaw(r, (int)r.R(3), sweepBase ? 0 : 1); B.raws.push_back(raw); B.units.push_back(BBBytes(c.Deflate((const uint8 *)raw.data(), (uint32)raw.size(), i == 0 && r.R(2)))); } }
   else {
      const Bytes raw = ZRaw(r, zv == 4 ? 0 : zv == 5 ? 3 : (int)r.R(3), sk); B.raws.push_back(raw);
      if (zv == 2 || zv == 3) { uLongf cl = compressBound((uLong)raw.size()); Bytes comp(cl, '\0'); if (compress2((Bytef *)&comp[0], &cl, (const Bytef *)raw.data(), (uLong)raw.size(), zv == 3 ? 0 : lvl) != Z_OK) { fprintf(stderr, "HARNESS-ABORT: compress2\n"); abort(); } comp.resize(cl); B.units.push_back(ZHeader(true, (uint32_t)raw.size()) + comp); }
      else if (zv == 4) B.units.push_back(BBBytes(DeflateByteBuffer((const uint8 *)raw.data(), (uint32)raw.size(), lvl)));
      else { ZLibCodec c(lvl); B.units.push_back(BBBytes(c.Deflate((const uint8 *)raw.data(), (uint32)raw.size(), true))); }
   }
   for (size_t i = 0; i < B.units.size(); i++) { std::vector<Word> w; const uint32_t n = (uint32_t)B.units[i].size(); AddW(w, 0, "zlib-magic", n); AddW(w, 4, "zlib-rawsize", n);
      for (uint32_t o = 8; o < n; o += (o < 24 || o + 8 >= n) ? 1 : 1 + (n / 12)) AddW(w, o, "zdata-byte", n, WK_BYTE);
      B.words.push_back(w); B.ext.push_back(std::vector<FieldExt>()); }
   const Bytes praw = ZRaw(r, 1, 0); ZLibCodec c2(6); B.post.push_back(BBBytes(c2.Deflate((const uint8 *)praw.data(), (uint32)praw.size(), true))); B.postExpect = praw;
}
static void BuildBase(Base & B, int e, uint64_t seed, long idx, bool sweepBase)
{
   vh::Rng r(vh::case_seed(seed, 0xC02B00 + e, (uint64_t)idx));
   B = Base(); B.entry = e; B.variant = (int)(idx % 24); const int v = B.variant;
   const int sk = sweepBase ? 0 : (r.R(16) == 0 ? 2 : 1);
   if (e == E_MSG || e == E_MINI || e == E_MICRO || e == E_TMSG) {
      MessageRef m = GenMsg(r, sk);
      if (sweepBase && idx == 0) {   // kitchen sink: one inline and one array field of every serialisable type class
         m = GetMessageFromPool(0x6b73696eu); msggen::GenOptions o = msggen::GenOptions::Flattenable(); o.sizeClass = msggen::SIZE_SMALL; o.allowSharedFields = false; o.maxDepth = 1;
         for (int c = 0; c < msggen::NUM_TC; c++) { if (c == msggen::TC_POINTER || c == msggen::TC_TAG) continue; msggen::AddFieldInState(r, o, *m(), vh::fmt("i%d", c), c, msggen::RS_INLINE1); msggen::AddFieldInState(r, o, *m(), vh::fmt("a%d", c), c, msggen::RS_ARRAY2); }
      }
      B.msgs.push_back(m);
      if (e == E_TMSG) {
         B.tmpl = m()->CreateMessageTemplate(); MessageRef m2 = GenMsg(r, 1); B.tmpl2 = m2()->CreateMessageTemplate();
         if (B.tmpl() == NULL || B.tmpl2() == NULL) { fprintf(stderr, "HARNESS-ABORT: CreateMessageTemplate failed on a valid Message\n"); abort(); }
         const uint32 sz = m()->TemplatedFlattenedSize(*B.tmpl()); Bytes p(sz, '\0'); if (sz) m()->TemplatedFlatten(*B.tmpl(), DataFlattener((uint8 *)&p[0], sz));
         B.units.push_back(p); B.tmplSize = B.tmpl()->FlattenedSize();
         std::vector<Word> w; for (uint32_t o = 0; o + 4 <= sz && w.size() < 200; o += 4) AddW(w, o, "tplword", sz); if (sz >= 6 && (sz & 3)) AddW(w, sz - 4, "tplword", sz);
         B.words.push_back(w); B.ext.push_back(std::vector<FieldExt>());
      } else {
         B.units.push_back(FlatBytes(*m())); std::vector<Word> w; std::vector<FieldExt> f;
         if (!WalkMsg(B.units[0], 0, (uint32_t)B.units[0].size(), w, &f, 0)) { fprintf(stderr, "HARNESS-ABORT: the word walker cannot follow a valid encoding\n"); abort(); }
         B.words.push_back(w); B.ext.push_back(f);
      }
      return;
   }
   if (e == E_ZCODEC) { BuildZBase(B, r, v, sk, sweepBase); return; }
   const uint32_t nm = (e == E_TGW) ? 2 + r.R(4) : 1 + r.R(3);
   B.msgs = GenMsgList(e, v, r, sk, nm); B.expect = ExpectOf(e, B.msgs);
   std::vector<MessageRef> pm = GenMsgList(e, v, r, 0, 1 + r.R(2)); B.postExpect = ExpectOf(e, pm);
   if (e == E_TUNNEL || e == E_MINITUNNEL) {
      const int mc = (e == E_TUNNEL ? (v >> 2) : (v >> 3)) % 3; B.mtu = mc == 0 ? 40 + r.R(30) : mc == 1 ? 100 + r.R(200) : 1500;
      if (v & 1) {   // observed, outside C02: with a slave gateway the tunnels hand the reassembled bytes over through a ByteBufferPacketDataIO of default packet size, so Messages above ~1.3 KB are silently lost; keep the valid material below that
         for (int pass = 0; pass < 2; pass++) { std::vector<MessageRef> & l = pass ? pm : B.msgs; for (size_t i = 0; i < l.size(); i++) if (l[i]()->FlattenedSize() > 1000) { l[i] = GetMessageFromPool(200 + (uint32)i); (void)l[i]()->AddString("small", "instead of a large one"); } }
         B.expect = ExpectOf(e, B.msgs); B.postExpect = ExpectOf(e, pm);
      }
      if (e == E_MINITUNNEL) {   // this tunnel does not fragment: a Message must fit into one packet or it is dropped by the sender
         B.mtu = mc == 0 ? 400 + r.R(200) : mc == 1 ? 1500 : 9000;
         for (int pass = 0; pass < 2; pass++) { std::vector<MessageRef> & l = pass ? pm : B.msgs; for (size_t i = 0; i < l.size(); i++) if (l[i]()->FlattenedSize() + 40 > B.mtu) { l[i] = GetMessageFromPool(100 + (uint32)i); (void)l[i]()->AddInt32("small", (int32)i); } }
         B.expect = ExpectOf(e, B.msgs); B.postExpect = ExpectOf(e, pm);
      }
      AbstractMessageIOGatewayRef s = MakeSender(e, v, B.mtu); B.units = SendPackets(*s(), B.msgs, B.mtu);
      if ((v & 2) && !(v & 1)) { MessageRef x = GenMsg(r, 0); Bytes fb = FlatBytes(*x()); if (fb.size() <= B.mtu) { B.units.push_back(fb); AppendDigest(DG_MSG, *x(), B.expect); } }   // misc-data mode: a bare flattened Message as a packet
      AbstractMessageIOGatewayRef s2 = MakeSender(e, v, B.mtu);
      if (e == E_TUNNEL) static_cast<PacketTunnelIOGateway *>(s2())->VerifSetSendMessageIDCounter(5000 + r.R(1000)); else static_cast<MiniPacketTunnelIOGateway *>(s2())->VerifSetSendPacketIDCounter(5000 + r.R(1000));
      B.post = SendPackets(*s2(), pm, B.mtu);
      if (B.units.empty()) { fprintf(stderr, "HARNESS-ABORT: the sending tunnel produced no packet (mtu %u)\n", B.mtu); abort(); }
      for (size_t i = 0; i < B.units.size(); i++) { std::vector<Word> w; if (e == E_TUNNEL) WalkTunnelPkt(B.units[i], w); else WalkMiniTunnelPkt(B.units[i], w); B.words.push_back(w); B.ext.push_back(std::vector<FieldExt>()); }
      return;
   }
   AbstractMessageIOGatewayRef s = MakeSender(e, v, 0); Bytes st = SendStream(*s(), B.msgs);
   AbstractMessageIOGatewayRef s2 = MakeSender(e, v, 0); B.post.push_back(SendStream(*s2(), pm));
   std::vector<Word> w; std::vector<FieldExt> f;
   if (e == E_WS) { uint32_t from = 0; if ((v & 4) && !(v & 1)) { st = Bytes(WS_GET) + st; from = (uint32_t)strlen(WS_GET); } WalkWs(st, from, w, &f, (v & 2) != 0); }
   else if (e == E_GW || e == E_TGW || e == E_CGW) WalkStream(st, 0, (uint32_t)st.size(), w, e == E_TGW, &f);
   B.units.push_back(st); B.words.push_back(w); B.ext.push_back(f);
}
// a Message nested d levels around 'inner' (flattened bytes), built outermost-first in linear time
static Bytes NestWrap(const Bytes & inner, uint32_t d)
{
   Bytes o; o.reserve(inner.size() + 30 * (size_t)d);
   for (uint32_t lvl = d; lvl >= 1; lvl--) { const uint32_t innerSize = (uint32_t)inner.size() + 30 * (lvl - 1); put32(o, CURRENT_PROTOCOL_VERSION); put32(o, lvl); put32(o, 1); put32(o, 2); o += 'm'; o += '\0'; put32(o, B_MESSAGE_TYPE); put32(o, innerSize + 4); put32(o, innerSize); }
   o += inner; return o;
}

// ------------------------------------------------------------------------------------------------------- mutations
struct Mut { std::string family, role, desc; int unit; bool altTemplate; long truncAt; Mut() : unit(0), altTemplate(false), truncAt(-1) {} };
static bool IsMsgBytesEntry(int e) { return e == E_MSG || e == E_MINI || e == E_MICRO; }
static bool IsFramedStream(int e) { return e == E_GW || e == E_TGW || e == E_CGW || e == E_WS; }
static uint32_t PickUnit(const Base & B, bool needWords) { std::vector<uint32_t> c; for (uint32_t i = 0; i < B.units.size(); i++) if (!B.units[i].empty() && (!needWords || !B.words[i].empty())) c.push_back(i); return c.empty() ? 0 : c[R((uint32_t)c.size())]; }
static void MutTruncate(const Base & B, std::vector<Bytes> & u, Mut & m)
{
   m.family = "truncation"; m.unit = (int)PickUnit(B, false); Bytes & b = u[m.unit]; if (b.empty()) return; uint32_t at; const std::vector<Word> & w = B.words[m.unit];
   switch (R(5)) { case 0: at = (uint32_t)b.size() - 1; break; case 1: at = (uint32_t)b.size() - 1 - R(std::min<uint32_t>(8, (uint32_t)b.size())); break; case 2: case 3: if (!w.empty()) { at = w[R((uint32_t)w.size())].off + R(6); break; } /* fall through */ default: at = R((uint32_t)b.size()); break; }
   if (at >= b.size()) at = (uint32_t)b.size() - 1;
   b.resize(at); m.truncAt = at; m.desc = vh::fmt("unit %d cut at %u", m.unit, at);
   if (B.units.size() == 1) return; if (R(2)) u.resize(m.unit + 1);   // packet lists: sometimes the later packets are missing too
}
static void MutWord(const Base & B, std::vector<Bytes> & u, Mut & m, int unit = -1, int wi = -1, int slot = -1)
{
   m.family = "word"; m.unit = unit >= 0 ? unit : (int)PickUnit(B, true); const std::vector<Word> & w = B.words[m.unit]; if (w.empty()) { m.family = "valid"; return; }
   const Word & x = w[wi >= 0 ? (uint32_t)wi : R((uint32_t)w.size())]; const uint32_t s = slot >= 0 ? (uint32_t)slot : R(Slots(x));
   m.role = x.role; m.desc = vh::fmt("unit %d ", m.unit) + ApplyWord(u[m.unit], x, s);
}
static void MutRandom(const Base & B, std::vector<Bytes> & u, Mut & m)
{
   m.family = "random"; m.unit = (int)PickUnit(B, false); Bytes & b = u[m.unit]; if (b.empty()) { b = Bytes(1 + R(16), (char)R(256)); m.desc = "bytes from nothing"; return; }
   const uint32_t n = (uint32_t)b.size(); const uint32_t k = R(9);
   switch (k) {
   case 0: { uint32_t o = R(n); b[o] ^= (char)(1 << R(8)); m.desc = vh::fmt("bit flip @%u", o); } break;
   case 1: { uint32_t c = 2 + R(6); for (uint32_t i = 0; i < c; i++) b[R(n)] ^= (char)(1 << R(8)); m.desc = vh::fmt("%u bit flips", c); } break;
   case 2: { uint32_t o = R(n); b[o] = (char)R(256); m.desc = vh::fmt("byte set @%u", o); } break;
   case 3: { uint32_t o = R(n + 1); Bytes ins; uint32_t l = 1 + R(R(6) == 0 ? 300 : 9); for (uint32_t i = 0; i < l; i++) ins.push_back((char)g.next()); b.insert(o, ins); m.desc = vh::fmt("insert %u bytes @%u", l, o); } break;
   case 4: { uint32_t o = R(n), l = 1 + R(std::min<uint32_t>(n - o, 12)); b.erase(o, l); m.desc = vh::fmt("delete %u bytes @%u", l, o); } break;
   case 5: case 6: if (n >= 4) { uint32_t o = R(n - 3); uint32_t val = R(3) ? LenValue(R(NLENV), rd32(b, o), n - o - 4) : (uint32_t)g.next(); wr32(b, o, val); m.desc = vh::fmt("word @%u (any alignment) = %08x", o, val); } break;
   case 7: if (n >= 12) { for (int i = 0; i < 3; i++) { uint32_t o = R(n - 3) & ~3u; wr32(b, o, LenValue(R(NLENV), rd32(b, o), n - o - 4)); } m.desc = "three words"; } break;
   default: { uint32_t o = R(n), l = 1 + R(std::min<uint32_t>(n - o, 16)); for (uint32_t i = 0; i < l; i++) b[o + i] = (char)g.next(); m.desc = vh::fmt("%u random bytes @%u", l, o); } break;
   }
}
static void MutStructure(const Base & B, const Base & O, std::vector<Bytes> & u, Mut & m)
{
   m.family = "structure"; const int e = B.entry; m.unit = 0;
   if (IsMsgBytesEntry(e)) {
      Bytes & b = u[0]; const std::vector<FieldExt> & f = B.ext[0]; const uint32_t k = R(8);
      if (k == 0 && !f.empty()) { const FieldExt & x = f[R((uint32_t)f.size())]; b.insert(x.end, B.units[0].substr(x.start, x.end - x.start)); wr32(b, 8, rd32(b, 8) + 1); m.desc = "duplicate a field (same name twice)"; }
      else if (k == 1 && !f.empty()) { const FieldExt & x = f[R((uint32_t)f.size())]; b.erase(x.start, x.end - x.start); if (R(2)) wr32(b, 8, rd32(b, 8) - 1); m.desc = "drop a field"; }
      else if (k == 2 && f.size() >= 2) { const FieldExt & x = f[R((uint32_t)f.size())]; const FieldExt & y = f[R((uint32_t)f.size())]; if (x.start < y.start) { Bytes px = B.units[0].substr(x.payOff - 4, x.payLen + 4), py = B.units[0].substr(y.payOff - 4, y.payLen + 4); b.replace(y.payOff - 4, y.payLen + 4, px); b.replace(x.payOff - 4, x.payLen + 4, py); } m.desc = "swap the payloads of two fields (types stay)"; }
      else if (k == 3) { const Bytes & o = O.units[0]; const std::vector<FieldExt> & of = O.ext[0]; uint32_t ca = f.empty() ? R((uint32_t)b.size() + 1) : f[R((uint32_t)f.size())].end, cb = of.empty() ? R((uint32_t)o.size() + 1) : of[R((uint32_t)of.size())].start; if (R(4) == 0) { ca = R((uint32_t)b.size() + 1); cb = R((uint32_t)o.size() + 1); } b = b.substr(0, ca) + o.substr(cb); if (R(2)) wr32(b, 8, (uint32_t)(f.size() + of.size())); m.desc = vh::fmt("splice two encodings at %u/%u", ca, cb); }
      else if (k == 4 || k == 5) { static const uint32_t D[] = {1, 2, 3, 10, 50, 100, 250, 500}; const uint32_t d = D[R(8)]; b = NestWrap(b, d); m.desc = vh::fmt("nest %u deep", d); m.role = "nest"; }
      else if (k == 6) { b += Bytes(1 + R(40), (char)R(256)); m.desc = "trailing garbage"; }
      else { b += O.units[0]; m.desc = "two encodings back to back"; }
      return;
   }
   if (e == E_TMSG) { const uint32_t k = R(3); if (k == 0) { m.altTemplate = true; m.desc = "payload parsed against the template of a different Message"; } else if (k == 1) { u[0] = u[0].substr(0, R((uint32_t)u[0].size() + 1)) + O.units[0].substr(R((uint32_t)O.units[0].size() + 1)); m.desc = "splice two payloads"; } else { u[0] += Bytes(1 + R(20), (char)R(256)); m.desc = "trailing bytes"; } return; }
   if (e == E_ZCODEC) {
      const uint32_t k = R(B.units.size() > 1 ? 8 : 4), ui = R((uint32_t)u.size()); Bytes & b = u[ui]; const Bytes & o = O.units[R((uint32_t)O.units.size())]; m.unit = (int)ui;
      if (k == 0) { const uint32_t l = 1 + R(R(4) == 0 ? 400 : 64); for (uint32_t i = 0; i < l; i++) b.push_back((char)g.next()); m.desc = vh::fmt("unit %u: %u bytes of trailing junk", ui, l); return; }
      if (k == 1 && b.size() >= 8 && o.size() >= 8) { b = b.substr(0, 8) + o.substr(8); m.desc = "deflate data of a foreign buffer under this header"; return; }
      if (k == 2 && b.size() >= 8 && o.size() >= 8) { b = o.substr(0, 8) + b.substr(8); m.desc = "header of a foreign buffer over this deflate data"; return; }
      if (k == 3 && b.size() > 8) { b = b.substr(0, 8) + b.substr(8 + R((uint32_t)b.size() - 8)); m.desc = "deflate data starts in the middle"; return; }
      // (k >= 4: several dependent buffers -> the packet-list mutations below: wrong order, dropped, duplicated, foreign, spliced, merged)
   }
   if (B.units.size() == 1) {
      Bytes & b = u[0]; const std::vector<FieldExt> & f = B.ext[0]; const uint32_t k = R(6);
      if (IsFramedStream(e) && !f.empty() && k < 4) {
         const FieldExt & x = f[R((uint32_t)f.size())];
         if (k == 0) { b.insert(x.end, B.units[0].substr(x.start, x.end - x.start)); m.desc = "duplicate a frame"; }
         else if (k == 1) { b.erase(x.start, x.end - x.start); m.desc = "drop a frame (tgw: a payload may lose its template)"; }
         else if (k == 2 && f.size() >= 2) { const FieldExt & y = f[R((uint32_t)f.size())]; if (x.start < y.start) { Bytes fx = B.units[0].substr(x.start, x.end - x.start), fy = B.units[0].substr(y.start, y.end - y.start); b.replace(y.start, y.end - y.start, fx); b.replace(x.start, x.end - x.start, fy); } m.desc = "swap two frames"; }
         else { const std::vector<FieldExt> & of = O.ext[0]; if (!of.empty()) { const FieldExt & y = of[R((uint32_t)of.size())]; b.replace(x.payOff, x.payLen, O.units[0].substr(y.payOff, y.payLen)); } m.desc = "body of a foreign frame under this header"; }
         return;
      }
      if (k == 4) { const uint32_t ca = R((uint32_t)b.size() + 1), cb = R((uint32_t)O.units[0].size() + 1); b = b.substr(0, ca) + O.units[0].substr(cb); m.desc = vh::fmt("splice two streams at %u/%u", ca, cb); return; }
      // unframed streams: special bytes and long runs
      static const char * const sp[] = {"\r", "\n", "\r\n", "\n\r", "\0", "\xff\xfb\x01", "\xff", "\xff\xff", "\300", "\333", "\333\300", "\333\334", "\333\333\333", "\300\300"};
      const uint32_t c = 1 + R(4); for (uint32_t i = 0; i < c; i++) { const uint32_t w = R(14); Bytes s = w == 4 ? Bytes(1, '\0') : Bytes(sp[w]); b.insert(R((uint32_t)b.size() + 1), s); }
      if (R(4) == 0) b.insert(R((uint32_t)b.size() + 1), Bytes(3000 + R(6000), (char)(R(2) ? 'x' : 0333)));
      m.desc = "special bytes / long run inserted"; return;
   }
   // packet lists
   if (e == E_TUNNEL && R(4) == 0) {   // fragments of one Message that disagree about its total size (ids and offsets stay in sequence)
      std::vector<std::pair<uint32_t, uint32_t> > tw; for (uint32_t i = 0; i < B.units.size() && i < u.size(); i++) for (size_t w = 0; w < B.words[i].size(); w++) if (!strcmp(B.words[i][w].role, "tun-total")) tw.push_back(std::make_pair(i, B.words[i][w].off));
      if (!tw.empty()) { const std::pair<uint32_t, uint32_t> & x = tw[R((uint32_t)tw.size())]; const uint32_t v = rd32(u[x.first], x.second), c = rd32(u[x.first], x.second - 4); static const int32_t D[] = {-1, -4, -8, -16, -100, 1, 8, 100};
         const uint32_t nv = R(3) == 0 ? c + R(9) : v + (uint32_t)D[R(8)]; wr32(u[x.first], x.second, nv); if (R(2)) u.insert(u.begin() + x.first, B.units[x.first]); m.role = "tun-total"; m.desc = vh::fmt("packet %u: total size %u -> %u, chunk %u%s", x.first, v, nv, c, ""); return; }
   }
   const uint32_t k = R(6), n = (uint32_t)u.size();
   if (k == 0) { const uint32_t i = R(n); u.insert(u.begin() + i, u[i]); m.desc = "duplicate a packet"; }
   else if (k == 1) { u.erase(u.begin() + R(n)); m.desc = "drop a packet"; }
   else if (k == 2 && n >= 2) { std::swap(u[R(n)], u[R(n)]); m.desc = "reorder packets"; }
   else if (k == 3 && !O.units.empty()) { u.insert(u.begin() + R(n + 1), O.units[R((uint32_t)O.units.size())]); m.desc = "foreign packet in between"; }
   else if (k == 4 && !O.units.empty()) { Bytes & b = u[R(n)]; const Bytes & o = O.units[R((uint32_t)O.units.size())]; b = b.substr(0, R((uint32_t)b.size() + 1)) + o.substr(R((uint32_t)o.size() + 1)); if (b.size() > B.mtu && B.mtu) b.resize(B.mtu); m.desc = "splice two packets"; }
   else { const uint32_t i = R(n); Bytes x = u[i] + u[R(n)]; if (B.mtu && x.size() > B.mtu) x.resize(B.mtu); u[i] = x; m.desc = "two packets merged into one"; }
}

// --------------------------------------------------------------------------------------- walking what a parser built
static volatile uint32_t gSink;
static void Touch(const void * p, size_t n) { const uint8_t * b = (const uint8_t *)p; uint32_t s = 0; for (size_t i = 0; i < n; i++) s += b[i]; gSink += s; }
static long gWalkItems;
static void WalkMessage(const Message & m, int depth)
{
   for (MessageFieldNameIterator it = m.GetFieldNameIterator(); it.HasData(); it++) {
      const String & fn = it.GetFieldName(); uint32 tc = 0, n = 0; if (m.GetInfo(fn, &tc, &n).IsError()) { Fail("walk|GetInfo", "GetInfo fails on an iterated field"); return; }
      Touch(fn(), fn.Length() + 1);
      for (uint32 i = 0; i <= n; i++) {   // i == n: one beyond the end must be refused
         status_t r; gWalkItems++;
         switch (tc) {
         case B_BOOL_TYPE: { bool v = false; r = m.FindBool(fn, i, v); gSink += v ? 1 : 0; } break;
         case B_INT8_TYPE: { int8 v = 0; r = m.FindInt8(fn, i, v); gSink += v; } break;
         case B_INT16_TYPE: { int16 v = 0; r = m.FindInt16(fn, i, v); gSink += v; } break;
         case B_INT32_TYPE: { int32 v = 0; r = m.FindInt32(fn, i, v); gSink += v; } break;
         case B_INT64_TYPE: { int64 v = 0; r = m.FindInt64(fn, i, v); gSink += (uint32_t)v; } break;
         case B_FLOAT_TYPE: { float v = 0; r = m.FindFloat(fn, i, v); Touch(&v, 4); } break;
         case B_DOUBLE_TYPE: { double v = 0; r = m.FindDouble(fn, i, v); Touch(&v, 8); } break;
         case B_POINT_TYPE: { Point v; r = m.FindPoint(fn, i, v); Touch(&v, sizeof(v)); } break;
         case B_RECT_TYPE: { Rect v; r = m.FindRect(fn, i, v); Touch(&v, sizeof(v)); } break;
         case B_STRING_TYPE: { const String * s = NULL; r = m.FindString(fn, i, &s); if (r.IsOK() && s) { Touch(s->Cstr(), s->Length() + 1); if (strlen(s->Cstr()) > s->Length()) Fail("walk|string-length", "strlen beyond Length()"); } } break;
         case B_MESSAGE_TYPE: { ConstMessageRef s; r = m.FindMessage(fn, i, s); if (r.IsOK() && s() && depth < 600) WalkMessage(*s(), depth + 1); } break;
         case B_POINTER_TYPE: { void * p = NULL; r = m.FindPointer(fn, i, p); } break;
         case B_TAG_TYPE: { RefCountableRef t; r = m.FindTag(fn, i, t); } break;
         default: { FlatCountableRef fc; r = m.FindFlat(fn, i, fc); } break;
         }
         if (tc != B_POINTER_TYPE && tc != B_TAG_TYPE) { const void * p = NULL; uint32 len = 0; status_t r2 = m.FindData(fn, tc, i, &p, &len); if (r2.IsOK() && p) Touch(p, len); if (r2.IsOK() != r.IsOK() && (tc == B_STRING_TYPE || (IsFixedType(tc) && tc != B_POINTER_TYPE && tc != B_TAG_TYPE))) { Fail("walk|getter-disagreement", vh::fmt("typed getter %s, FindData %s, type %08x item %u of %u", r(), r2(), tc, i, n)); return; } }
         if ((i < n) != r.IsOK()) { Fail("walk|item-count", vh::fmt("type %08x: item %u of %u -> %s", tc, i, n, r())); return; }
         if (n > 64 && i == 40) i = n - 3;   // long arrays: first 40, last two, one beyond
      }
   }
}
// everything the design asks to do with an accepted Message
static void UseMessage(const Message & m)
{
   gWalkItems = 0; WalkMessage(m, 0); if (caseBad) return;
   const uint32 fs = m.FlattenedSize(); Bytes out(fs, '\0'); { Exact ex(out); m.FlattenToBytes(ex.p, fs); Touch(ex.p, fs); }
   gSink += m.CalculateChecksum(); if (fs < 20000) m.Print(devnull);
   { Message c(m); if (c.FlattenedSize() != fs) Fail("walk|copy-size", "copy has a different FlattenedSize"); else if (fs < 4000 && R(4) == 0) { Message d; ByteBufferRef bb = c.FlattenToByteBuffer(); if (bb() == NULL || d.UnflattenFromByteBuffer(bb).IsError()) Fail("walk|reparse", "an accepted Message re-flattens into bytes the parser rejects"); } }
   vh::statmax("max_items_walked", gWalkItems);
}
static Bytes ReuseBytes() { static Bytes b; if (b.empty()) { Message ok(0x52455553u); (void)ok.AddInt32("x", 1); (void)ok.AddString("s", "reuse"); Message sub(7); (void)sub.AddBool("b", true); (void)ok.AddMessage("m", sub); b = FlatBytes(ok); } return b; }

static bool gMiniDup;
static void WalkMini(const MMessage * mm, int depth)
{
   MMessageIterator it = MMGetFieldNameIterator(mm, B_ANY_TYPE); const char * fn; uint32 tc; int guard = 0; std::set<std::string> seen;
   while ((fn = MMGetNextFieldName(&it, &tc)) != NULL && guard++ < 100000) {
      if (!seen.insert(fn).second) { vh::stat("unspecified_mini_duplicate_field_name"); gMiniDup = true; continue; }   // hostile input may repeat a name: lookups by name see the first one only
      Touch(fn, strlen(fn) + 1); uint32 n = 0, t2 = 0; if (MMGetFieldInfo(mm, fn, B_ANY_TYPE, &n, &t2) != CB_NO_ERROR) { Fail("walk|mini-fieldinfo", "MMGetFieldInfo cannot find an iterated field"); return; }
      if (t2 != tc) { vh::stat("unspecified_mini_duplicate_field_name"); gMiniDup = true; continue; }   // hostile input may repeat a name with another type: lookups by name see the first one
      uint32 k = 0;
      switch (tc) {
      case B_BOOL_TYPE: { MBool * p = MMGetBoolField(mm, fn, &k); if (p) Touch(p, k * sizeof(MBool)); } break;
      case B_INT8_TYPE: { int8 * p = MMGetInt8Field(mm, fn, &k); if (p) Touch(p, k); } break;
      case B_INT16_TYPE: { int16 * p = MMGetInt16Field(mm, fn, &k); if (p) Touch(p, k * 2); } break;
      case B_INT32_TYPE: { int32 * p = MMGetInt32Field(mm, fn, &k); if (p) Touch(p, k * 4); } break;
      case B_INT64_TYPE: { int64 * p = MMGetInt64Field(mm, fn, &k); if (p) Touch(p, k * 8); } break;
      case B_FLOAT_TYPE: { float * p = MMGetFloatField(mm, fn, &k); if (p) Touch(p, k * 4); } break;
      case B_DOUBLE_TYPE: { double * p = MMGetDoubleField(mm, fn, &k); if (p) Touch(p, k * 8); } break;
      case B_POINT_TYPE: { MPoint * p = MMGetPointField(mm, fn, &k); if (p) Touch(p, k * sizeof(MPoint)); } break;
      case B_RECT_TYPE: { MRect * p = MMGetRectField(mm, fn, &k); if (p) Touch(p, k * sizeof(MRect)); } break;
      case B_POINTER_TYPE: { void ** p = MMGetPointerField(mm, fn, &k); if (p) Touch(p, k * sizeof(void *)); } break;
      case B_MESSAGE_TYPE: { MMessage ** p = MMGetMessageField(mm, fn, &k); if (p) for (uint32 i = 0; i < k; i++) if (p[i] && depth < 600) WalkMini(p[i], depth + 1); } break;
      case B_STRING_TYPE: { MByteBuffer ** p = MMGetStringField(mm, fn, &k); if (p) for (uint32 i = 0; i < k; i++) if (p[i]) { Touch(&p[i]->bytes, p[i]->numBytes); if (p[i]->numBytes) gSink += (uint32_t)strnlen((const char *)&p[i]->bytes, p[i]->numBytes); } } break;
      default: { MByteBuffer ** p = MMGetDataField(mm, tc, fn, &k); if (p) for (uint32 i = 0; i < k; i++) if (p[i]) Touch(&p[i]->bytes, p[i]->numBytes); } break;
      }
      if (k != n) { Fail("walk|mini-count", vh::fmt("type %08x: getter says %u items, MMGetFieldInfo %u", tc, k, n)); return; }
   }
}
static void UseMini(const MMessage * mm)
{
   gMiniDup = false; WalkMini(mm, 0); if (caseBad) return;
   const uint32 fs = MMGetFlattenedSize(mm); if (fs < (1u << 26)) { Bytes o(fs, '\0'); Exact ex(o); MMFlattenMessage(mm, ex.p); Touch(ex.p, fs); }
   if (fs < 20000) MMPrint(mm, devnull);
   MMessage * c = MMCloneMessage(mm); if (c) { if (!gMiniDup && !MMAreMessagesEqual(mm, c)) Fail("walk|mini-clone", "clone differs"); MMFreeMessage(c); }
}

// MicroMessage: the complete public read API over a parsed (read-only) buffer
static long gMicroCalls;
#define UM_ARRAY(HT, GETS, FROM, T) { HT h = GETS(um, fn); const uint32 c = UMGetNumItemsInArray(h); for (uint32 i = 0; i < c; i++) { T v = FROM(h, i); Touch(&v, sizeof(v)); gMicroCalls++; if (c > 64 && i == 40) i = c - 3; } }
static void WalkMicro(const UMessage * um, int depth)
{
   gSink += UMGetNumFields(um) + UMGetWhatCode(um) + UMGetFlattenedSize(um) + UMGetMaximumSize(um) + (UMIsMessageValid(um) ? 1 : 0) + (UMIsMessageReadOnly(um) ? 1 : 0);
   static const uint32 filters[] = {B_ANY_TYPE, B_STRING_TYPE, B_MESSAGE_TYPE, B_INT32_TYPE, B_RAW_TYPE};
   for (uint32 f = 0; f < (depth == 0 ? 5u : 1u); f++) {
      UMessageFieldNameIterator it; UMIteratorInitialize(&it, um, filters[f]); uint32 n = 0, tc = 0; const char * fn; int guard = 0;
      while ((fn = UMIteratorGetCurrentFieldName(&it, &n, &tc)) != NULL && guard++ < 20000) {
         gMicroCalls++;
         if (f == 0) {
            vh::note(curDesc + vh::fmt(" | micro walk: field #%d type %08x items %u", guard, tc, n));
            gSink += UMGetFieldTypeCode(um, fn) + UMGetNumItemsInField(um, fn, tc) + UMGetNumItemsInField(um, fn, B_ANY_TYPE);
            const uint32 lim = n < 48 ? n : 48;
            for (uint32 i = 0; i <= lim; i++) {
               const uint32 idx = (i == lim && n > lim) ? n - 1 : i;    // all of the first 48, the last one (or one beyond the end when n <= 48)
               gMicroCalls++;
               switch (tc) {
               case B_BOOL_TYPE: { UBool v = 0; if (UMFindBool(um, fn, idx, &v) == CB_NO_ERROR) gSink += v; gSink += UMGetBool(um, fn, idx); } break;
               case B_INT8_TYPE: { int8 v = 0; if (UMFindInt8(um, fn, idx, &v) == CB_NO_ERROR) gSink += v; } break;
               case B_INT16_TYPE: { int16 v = 0; if (UMFindInt16(um, fn, idx, &v) == CB_NO_ERROR) gSink += v; } break;
               case B_INT32_TYPE: { int32 v = 0; if (UMFindInt32(um, fn, idx, &v) == CB_NO_ERROR) gSink += v; } break;
               case B_INT64_TYPE: { int64 v = 0; if (UMFindInt64(um, fn, idx, &v) == CB_NO_ERROR) gSink += (uint32_t)v; } break;
               case B_FLOAT_TYPE: { float v = 0; if (UMFindFloat(um, fn, idx, &v) == CB_NO_ERROR) Touch(&v, 4); } break;
               case B_DOUBLE_TYPE: { double v = 0; if (UMFindDouble(um, fn, idx, &v) == CB_NO_ERROR) Touch(&v, 8); } break;
               case B_POINT_TYPE: { UPoint v; if (UMFindPoint(um, fn, idx, &v) == CB_NO_ERROR) Touch(&v, sizeof(v)); } break;
               case B_RECT_TYPE: { URect v; if (UMFindRect(um, fn, idx, &v) == CB_NO_ERROR) Touch(&v, sizeof(v)); } break;
               case B_STRING_TYPE: { const char * s = UMGetString(um, fn, idx); if (s) Touch(s, strlen(s) + 1); const char * s2 = NULL; (void)UMFindString(um, fn, idx, &s2); } break;
               case B_MESSAGE_TYPE: { UMessage sub; if (UMFindMessage(um, fn, idx, &sub) == CB_NO_ERROR && depth < 64) WalkMicro(&sub, depth + 1); } break;
               default: break;
               }
               if (!IsFixedType(tc) || tc == B_BOOL_TYPE) { const void * p = NULL; uint32 len = 0; if (UMFindData(um, fn, tc, idx, &p, &len) == CB_NO_ERROR && p) Touch(p, len); if (UMFindData(um, fn, B_ANY_TYPE, idx, &p, &len) == CB_NO_ERROR && p) Touch(p, len); }
            }
            switch (tc) {
            case B_BOOL_TYPE: UM_ARRAY(UBoolArrayHandle, UMGetBools, UMGetBoolFromArray, UBool) break;
            case B_INT8_TYPE: UM_ARRAY(Int8ArrayHandle, UMGetInt8s, UMGetInt8FromArray, int8) break;
            case B_INT16_TYPE: UM_ARRAY(Int16ArrayHandle, UMGetInt16s, UMGetInt16FromArray, int16) break;
            case B_INT32_TYPE: UM_ARRAY(Int32ArrayHandle, UMGetInt32s, UMGetInt32FromArray, int32) break;
            case B_INT64_TYPE: UM_ARRAY(Int64ArrayHandle, UMGetInt64s, UMGetInt64FromArray, int64) break;
            case B_FLOAT_TYPE: UM_ARRAY(FloatArrayHandle, UMGetFloats, UMGetFloatFromArray, float) break;
            case B_DOUBLE_TYPE: UM_ARRAY(DoubleArrayHandle, UMGetDoubles, UMGetDoubleFromArray, double) break;
            case B_POINT_TYPE: UM_ARRAY(UPointArrayHandle, UMGetPoints, UMGetPointFromArray, UPoint) break;
            case B_RECT_TYPE: UM_ARRAY(URectArrayHandle, UMGetRects, UMGetRectFromArray, URect) break;
            default: break;
            }
         }
         UMIteratorAdvance(&it);
      }
   }
   // lookups by names that may or may not exist (the non-iterator path validates fields differently)
   static const char * const probe[] = {"", "x", "s", "m", "f0", "f1", "i3", "a7", "n2______"};
   for (uint32 i = 0; i < 9; i++) { int32 v; (void)UMFindInt32(um, probe[i], 0, &v); (void)UMGetString(um, probe[i], 0); UMessage sub; (void)UMFindMessage(um, probe[i], 0, &sub); gSink += UMGetFieldTypeCode(um, probe[i]); gMicroCalls += 4; }
   if (depth == 0 && UMGetFlattenedSize(um) < 20000) UMPrint(um, devnull);
}

// ------------------------------------------------------------------------------------------ measured parser calls
struct Meas { allocmon::Result a; double cpu; };
static Meas gM; static double gCpu0;
static void MBegin() { allocmon::begin(); gCpu0 = ThreadCpu(); }
static void MEnd() { gM.cpu = ThreadCpu() - gCpu0; gM.a = allocmon::end(); }
static bool gMeasure = false;   // asan flavour only: under valgrind neither CPU nor the hooks mean anything
static void CheckParserCost(const char * entry, size_t N, bool validInput)
{
   if (!gMeasure) return;
   const size_t worst = gM.a.worst(), bound = 64 * N + 1024 * 1024;
   if (worst > bound) Fail(std::string("alloc-bound|") + entry, vh::fmt("complete %zu-byte buffer: peak live delta %zu, largest granted request %zu, largest refused request %zu > 64*N + 1 MiB = %zu", N, gM.a.peak_delta, gM.a.largest, gM.a.refused, bound));
   if (gM.cpu > 50e-6 * (double)N + 0.050) Fail(std::string("nonlinear-cpu|") + entry, vh::fmt("%zu bytes took %.3f CPU-s on the parsing thread (bound 50 us * N + 50 ms)", N, gM.cpu));
   if (validInput && N >= 64) { vh::statmax(std::string("max_alloc_ratio_x100_valid_") + entry, (long)(100.0 * (double)gM.a.peak_delta / (double)N)); vh::statmax(std::string("max_cpu_ns_per_byte_valid_") + entry, (long)(gM.cpu * 1e9 / (double)N)); }
   vh::statmax(std::string("max_alloc_bytes_") + entry, (long)worst);
   if (gM.a.refused) vh::stat("refused_requests_seen");
}
static void Tally(const char * entry, bool accepted) { vh::stat(std::string(accepted ? "accepted_" : "rejected_") + entry); }

// "a parser that fails leaves its object destructible and reusable": after a FAILED parse the object is an ordinary object of its type.
// Its content is unspecified, but walking it, sizing, flattening into an exact-size buffer, re-parsing that, printing, copying, adding a
// field and flattening again must neither crash nor abort nor make a sanitizer speak.
static void PostFailureUse(Message & m, const char * entry)
{
   vh::stat(std::string("post_failure_object_walks_") + entry);
   UseMessage(m); if (caseBad) return;
   { const Bytes f = FlatBytes(m); Exact fx(f); Message d; if (d.UnflattenFromBytes(fx.p, fx.n).IsError()) { Fail(std::string("post-failure-reparse|") + entry, "what the object flattens to after a failed parse is rejected by the parser"); return; } }
   (void)m.AddInt32("added_after_failure", 1); (void)m.AddString("added_after_failure_2", "x"); { Message sub(1); (void)m.AddMessage("added_after_failure_3", sub); }
   const uint32 fs = m.FlattenedSize(); Bytes o(fs, '\0'); { Exact ex(o); m.FlattenToBytes(ex.p, fs); Touch(ex.p, fs); Message d; if (d.UnflattenFromBytes(ex.p, fs).IsError()) Fail(std::string("post-failure-reparse|") + entry, "after adding fields to the object of a failed parse its encoding is rejected"); }
   gSink += m.CalculateChecksum(); if (fs < 20000) m.Print(devnull); { Message c; c = m; gSink += c.FlattenedSize(); }
}
static void UseMini(const MMessage * mm);
static void PostFailureUseMini(MMessage * mm)
{
   vh::stat("post_failure_object_walks_mini");
   UseMini(mm); if (caseBad) return;
   int32 * p = MMPutInt32Field(mm, MFalse, "added_after_failure", 2); if (p) { p[0] = 1; p[1] = 2; }
   MByteBuffer ** sp = MMPutStringField(mm, MFalse, "added_after_failure_2", 1); if (sp) sp[0] = MBStrdupByteBuffer("x");
   UseMini(mm);
}
static void FeedMsg(const Bytes & in, bool validInput)
{
   Exact ex(in); Message m; const bool pre = R(4) == 0; if (pre) { (void)m.AddString("old", "content"); (void)m.AddInt32("old2", 5); (void)m.AddMessage("old3", Message(3)); }
   const uint32_t how = R(5); status_t r; MessageRef pooled;
   MBegin();
   if (how == 0) { DataUnflattener uf(ex.p, ex.n); r = m.Unflatten(uf); }
   else if (how == 1) { pooled = GetMessageFromPool(ex.p, ex.n); r = pooled.GetStatus(); if (pooled() == NULL && r.IsOK()) r = B_ERROR; }
   else if (how == 3) { ByteBufferRef bb = GetByteBufferFromPool(ex.n, ex.p); if (bb() == NULL) { fprintf(stderr, "HARNESS-ABORT: GetByteBufferFromPool\n"); abort(); } r = m.UnflattenFromByteBuffer(bb); }
   else r = m.UnflattenFromBytes(ex.p, ex.n);
   MEnd();
   CheckParserCost("msg", in.size(), validInput); Tally("msg", r.IsOK());
   if (validInput && r.IsError()) Fail("valid-rejected|msg", std::string("a valid encoding is rejected: ") + r());
   if (r.IsOK()) UseMessage(how == 1 ? *pooled() : m); else if (how != 1) PostFailureUse(m, "msg");
   if (caseBad) return;
   if (how != 1 && (r.IsError() || R(4) == 0)) {   // destructible and reusable: parse a valid buffer into the same object
      const Bytes & v = ReuseBytes(); Exact vx(v); status_t r2 = m.UnflattenFromBytes(vx.p, vx.n);
      if (r2.IsError() || FlatBytes(m) != v) Fail("not-reusable|msg", std::string("after ") + r() + " the object does not take a valid buffer: " + r2());
      vh::stat(r.IsError() ? "reuse_after_failure" : "reuse_after_success");
   }
}
static void FeedTmsg(const Base & B, const Bytes & in, bool alt, bool validInput)
{
   Exact ex(in); Message m; const Message & T = alt ? *B.tmpl2() : *B.tmpl(); status_t r;
   MBegin(); { DataUnflattener uf(ex.p, ex.n); r = m.TemplatedUnflatten(T, uf); } MEnd();
   CheckParserCost("tmsg", in.size() + (alt ? B.tmpl2()->FlattenedSize() : B.tmplSize), validInput); Tally("tmsg", r.IsOK());
   if (validInput && r.IsError()) vh::stat("tmsg_valid_payload_rejected");   // fidelity of the templated encoding is C01's subject
   if (r.IsOK()) UseMessage(m); else PostFailureUse(m, "tmsg");
   if (caseBad) return;
   if (r.IsError() || R(4) == 0) {
      if (R(2)) { const Bytes & v = ReuseBytes(); Exact vx(v); status_t r2 = m.UnflattenFromBytes(vx.p, vx.n); if (r2.IsError() || FlatBytes(m) != v) Fail("not-reusable|tmsg", std::string("after ") + r() + ": " + r2()); }
      else { Exact vx(B.units[0]); DataUnflattener uf(vx.p, vx.n); status_t r2 = m.TemplatedUnflatten(*B.tmpl(), uf); if (r2.IsOK()) UseMessage(m); }
      vh::stat(r.IsError() ? "reuse_after_failure" : "reuse_after_success");
   }
}
static void FeedMini(const Bytes & in, bool validInput)
{
   Exact ex(in); MMessage * mm = MMAllocMessage(R(2) ? 0 : 77); if (!mm) { fprintf(stderr, "HARNESS-ABORT: MMAllocMessage\n"); abort(); }
   if (R(4) == 0) { int32 * p = MMPutInt32Field(mm, false, "old", 2); if (p) { p[0] = 1; p[1] = 2; } }
   MBegin(); const c_status_t r = MMUnflattenMessage(mm, ex.p, ex.n); MEnd();
   CheckParserCost("mini", in.size(), validInput); Tally("mini", r == CB_NO_ERROR);
   if (validInput && r != CB_NO_ERROR) vh::stat("mini_valid_rejected");   // cross-codec agreement is C08's subject
   if (r == CB_NO_ERROR) UseMini(mm); else PostFailureUseMini(mm);
   if (!caseBad && (r != CB_NO_ERROR || R(4) == 0)) { const Bytes & v = ReuseBytes(); Exact vx(v); if (MMUnflattenMessage(mm, vx.p, vx.n) != CB_NO_ERROR || MMGetFlattenedSize(mm) != v.size()) Fail("not-reusable|mini", "after a parse the MMessage does not take a valid buffer"); else UseMini(mm); vh::stat(r != CB_NO_ERROR ? "reuse_after_failure" : "reuse_after_success"); }
   MMFreeMessage(mm);
}
static void FeedMicro(const Bytes & in, bool validInput)
{
   Exact ex(in); UMessage um; MBegin(); const c_status_t r = UMInitializeWithExistingData(&um, ex.p, ex.n); MEnd();
   CheckParserCost("micro", in.size(), validInput); Tally("micro", r == CB_NO_ERROR);
   if (validInput && r != CB_NO_ERROR) vh::stat("micro_valid_rejected");
   if (r == CB_NO_ERROR) { gMicroCalls = 0; const double t0 = ThreadCpu(); allocmon::begin(); WalkMicro(&um, 0); allocmon::Result a = allocmon::end(); const double dt = ThreadCpu() - t0; vh::statmax("max_micro_api_calls", gMicroCalls);
      if (gMeasure && a.worst() > 64 * in.size() + 1024 * 1024) Fail("alloc-bound|micro-walk", vh::fmt("%zu bytes allocated while reading", a.worst()));
      if (gMeasure && dt > 2.0) Fail("nonlinear-cpu|micro-walk", vh::fmt("%zu bytes, %ld API calls, %.2f CPU-s", in.size(), gMicroCalls, dt)); }
   if (r != CB_NO_ERROR || R(4) == 0) { const Bytes & v = ReuseBytes(); Exact vx(v); if (UMInitializeWithExistingData(&um, vx.p, vx.n) != CB_NO_ERROR) Fail("not-reusable|micro", "UMessage does not take a valid buffer"); else WalkMicro(&um, 0); vh::stat(r != CB_NO_ERROR ? "reuse_after_failure" : "reuse_after_success"); }
}

// ------------------------------------------------------------------------------------------------------ gateways
struct Rx : public AbstractGatewayMessageReceiver {
   int kind; Bytes digest; long n; Rx(int k) : kind(k), n(0) {}
   virtual void MessageReceivedFromGateway(const MessageRef & m, void *) { n++; if (m() == NULL) return; AppendDigest(kind, *m(), digest); WalkMessage(*m(), 0); gSink += m()->CalculateChecksum() + m()->FlattenedSize(); }
};
static AbstractMessageIOGatewayRef MakeReceiver(int e, int v, uint32_t mtu, bool limit)
{
   AbstractMessageIOGatewayRef g;
   switch (e) {
   case E_GW: { MessageIOGateway * m = (v % 5 == 4) ? new CountedMessageIOGateway : new MessageIOGateway; if (limit) m->SetMaxIncomingMessageSize(LIMIT_L); g.SetRef(m); } break;
   case E_TGW: { TemplatingMessageIOGateway * m = new TemplatingMessageIOGateway((v & 2) ? 2000 : 1024 * 1024); if (limit) m->SetMaxIncomingMessageSize(LIMIT_L); g.SetRef(m); } break;
   case E_TEXT: { PlainTextMessageIOGateway * m = (v & 1) ? new TelnetPlainTextMessageIOGateway : new PlainTextMessageIOGateway; if (v & 2) m->SetFlushPartialIncomingLines(true); g.SetRef(m); } break;
   case E_RAW: switch (v % 4) { case 0: g.SetRef(new RawDataMessageIOGateway); break; case 1: g.SetRef(new RawDataMessageIOGateway(16)); break; case 2: g.SetRef(new RawDataMessageIOGateway(0, 7)); break; default: g.SetRef(new CountedRawDataMessageIOGateway); break; } break;
   case E_SLIP: g.SetRef(new SLIPFramedDataMessageIOGateway); break;
   case E_WS: { WebSocketMessageIOGateway * w = (v & 4) ? ((v & 1) ? new WebSocketMessageIOGateway("/chat", "server.example.com", "chat", "http://example.com") : new WebSocketMessageIOGateway()) : new WebSocketMessageIOGateway((v & 1) ? &kTrue : &kFalse);
                if (v & 2) { MessageIOGateway * s = new MessageIOGateway; if (limit) s->SetMaxIncomingMessageSize(LIMIT_L); w->SetSlaveGateway(AbstractMessageIOGatewayRef(s)); } g.SetRef(w); } break;
   case E_TUNNEL: { MessageIOGateway * s = (v & 1) ? new MessageIOGateway : NULL; if (s && limit) s->SetMaxIncomingMessageSize(LIMIT_L); PacketTunnelIOGateway * t = new PacketTunnelIOGateway(AbstractMessageIOGatewayRef(s), mtu); if (limit) t->SetMaxIncomingMessageSize(LIMIT_L); if (v & 2) t->SetAllowMiscIncomingData(true); g.SetRef(t); } break;
   case E_MINITUNNEL: { MessageIOGateway * s = (v & 1) ? new MessageIOGateway : NULL; if (s && limit) s->SetMaxIncomingMessageSize(LIMIT_L); MiniPacketTunnelIOGateway * t = new MiniPacketTunnelIOGateway(AbstractMessageIOGatewayRef(s), mtu); if (v & 2) t->SetAllowMiscIncomingData(true); g.SetRef(t); } break;
   }
   return g;
}
static bool PumpStream(AbstractMessageIOGateway & gw, const Bytes & in, Rx & rx, bool chop)
{
   Pipe p; p.q.assign(in.begin(), in.end()); Bytes out; ChopIO io(&p, &out, chop); gw.SetDataIO(DummyDataIORef(io));
   bool err = false; long guard = 20 * (long)in.size() + 2000; int idle = 0;
   while (guard-- > 0) { const io_status_t r = gw.DoInput(rx); if (r.IsError()) { err = true; break; } if (gw.HasBytesToOutput()) (void)gw.DoOutput(); if (r.GetByteCount() > 0) idle = 0; else if (p.q.empty() && ++idle >= 2) break; else if (++idle > 200) break; }
   gw.SetDataIO(DataIORef()); Touch(out.data(), out.size()); return err;
}
static bool PumpPackets(AbstractMessageIOGateway & gw, const std::vector<Bytes> & pk, uint32_t mtu, Rx & rx)
{
   std::deque<Bytes> q(pk.begin(), pk.end()); PktIO io(&q, mtu); gw.SetDataIO(DummyDataIORef(io)); bool err = false; long guard = 4 * (long)pk.size() + 50;
   while (!q.empty() && guard-- > 0) { const io_status_t r = gw.DoInput(rx); if (r.IsError()) { err = true; break; } }
   gw.SetDataIO(DataIORef()); return err;
}
// A zlib body may legitimately inflate to more than SetMaxIncomingMessageSize() allows (that limit is on the bytes received), but since F57 never to more than
// 1100 x its own length: only a size word within that ratio still excuses a request above the limit; anything larger is judged.
static bool ZlibRawSizeExplains(const std::vector<Bytes> & fed, size_t req)
{
   for (size_t u = 0; u < fed.size(); u++) { const Bytes & b = fed[u]; for (size_t o = 0; o + 8 <= b.size(); o++) { const uint32_t mg = rd32(b, o); if (mg != ZMAGIC_DEP && mg != ZMAGIC_IND) continue; const uint32_t w = rd32(b, o + 4); if (req >= w && req <= (size_t)w + 64 && (uint64_t)w <= 1100ULL * (uint64_t)(b.size() - o)) return true; } }
   return false;
}
static void CheckGatewayAlloc(int e, int v, bool limit, const std::vector<Bytes> & fed)
{
   if (!gMeasure) return;
   size_t N = 0; for (size_t i = 0; i < fed.size(); i++) N += fed[i].size();
   const size_t single = std::max(gM.a.largest, gM.a.refused), peak = gM.a.peak_delta; const char * en = ENAME[e];
   vh::statmax(std::string("max_alloc_bytes_") + en, (long)std::max(single, peak)); if (gM.a.refused) vh::stat("refused_requests_seen");
   const bool hasLimitApi = (e == E_GW || e == E_TGW || e == E_TUNNEL);
   size_t bound;
   if (e == E_WS) bound = ((v & 2) && !limit) ? (size_t)-1 : 2 * (10 * 1024 * 1024 + N) + 65536;   // the gateway's own cap of 10 MiB per frame; an unlimited slave gateway may be asked for anything
   else if (hasLimitApi) bound = limit ? (size_t)LIMIT_L + 65536 : (size_t)-1;
   else if (e == E_CGW && !(v & 1)) bound = (size_t)-1;                        // MGDoInput allocates what the header declares and offers no limit: recorded only
   else bound = 64 * N + 1024 * 1024;
   if (single > (size_t)LIMIT_L + 65536 && bound == (size_t)-1) vh::stat("giant_request_without_limit");
   if (single > bound || peak > (bound == (size_t)-1 ? bound : bound + 64 * N + 1024 * 1024)) {
      if (ZlibRawSizeExplains(fed, single)) { vh::stat("unspecified_zlib_inflated_size_within_1100x_but_above_limit"); return; }
      Fail(std::string("alloc-bound|") + en, vh::fmt("%zu input bytes, %s: peak live delta %zu, largest granted request %zu, largest refused request %zu, allowed %zu", N, limit ? "SetMaxIncomingMessageSize(1 MiB)" : "default limits", peak, gM.a.largest, gM.a.refused, bound));
   }
}
static Bytes NoNl(const Bytes & b) { Bytes o; for (size_t i = 0; i < b.size(); i++) if (b[i] != '\n') o += b[i]; return o; }
static const char * KeyName(int e, int v) { return (e == E_TEXT && (v & 1)) ? "telnet" : ENAME[e]; }
static void FeedGateway(const Base & B, const std::vector<Bytes> & units, const Mut & mu, bool limit)
{
   const int e = B.entry, v = B.variant; const bool valid = mu.family == "valid"; const bool packets = (e == E_TUNNEL || e == E_MINITUNNEL);
   AbstractMessageIOGatewayRef gw = MakeReceiver(e, v, B.mtu, limit); Rx rx(DigestKind(e)); std::vector<Bytes> fed = units; bool err;
   if (e == E_WS && (v & 5) == 5) {   // client role with handshake: the 101 reply must answer the key this very gateway generated
      Bytes get; { ChopIO io(NULL, &get, false); gw()->SetDataIO(DummyDataIORef(io)); for (int i = 0; i < 100 && gw()->HasBytesToOutput(); i++) (void)gw()->DoOutput(); gw()->SetDataIO(DataIORef()); }
      WebSocketMessageIOGateway srv; Rx dummy(DG_WS); Pipe p; p.q.assign(get.begin(), get.end()); Bytes reply; { ChopIO io(&p, &reply, false); srv.SetDataIO(DummyDataIORef(io)); for (int i = 0; i < 100 && (!p.q.empty() || srv.HasBytesToOutput()); i++) { (void)srv.DoInput(dummy); (void)srv.DoOutput(); } srv.SetDataIO(DataIORef()); }
      if (reply.empty()) { fprintf(stderr, "HARNESS-ABORT: no 101 reply from the helper WebSocket server for [%s]\n", get.c_str()); abort(); }
      if (!valid && R(5) == 0) { if (R(2)) reply.resize(R((uint32_t)reply.size())); else reply[R((uint32_t)reply.size())] ^= (char)(1 << R(8)); vh::stat("ws_handshake_reply_mutated"); }
      fed[0] = reply + fed[0];
   }
   MBegin(); err = packets ? PumpPackets(*gw(), fed, B.mtu, rx) : PumpStream(*gw(), fed[0], rx, true); MEnd();
   CheckGatewayAlloc(e, v, limit, fed); Tally(ENAME[e], !err); vh::stat(std::string("delivered_") + ENAME[e], rx.n);
   if (valid) {
      bool same = rx.digest == B.expect;
      if (e == E_RAW && v % 4 == 1) same = B.expect.compare(0, rx.digest.size(), rx.digest) == 0 && B.expect.size() - rx.digest.size() < 16;   // a minimum chunk size keeps the tail
      if (e == E_TEXT && (v & 2)) same = NoNl(rx.digest) == NoNl(B.expect);   // partial lines are flushed per read: line boundaries follow the segmentation
      if (!same || err) Fail(std::string("valid-not-delivered|") + KeyName(e, v), vh::fmt("variant %d: the unmodified stream of %zu Message(s) gave %ld Message(s), error=%d, digest %zu vs %zu bytes", v, B.msgs.size(), rx.n, (int)err, rx.digest.size(), B.expect.size()));
   }
   if (caseBad) return;
   // Reset(), then a valid stream from a fresh sender must arrive intact
   gw()->Reset(); Rx rx2(DigestKind(e)); const bool err2 = packets ? PumpPackets(*gw(), B.post, B.mtu, rx2) : PumpStream(*gw(), B.post[0], rx2, true);
   bool same = rx2.digest == B.postExpect; if (e == E_RAW && v % 4 == 1) same = B.postExpect.compare(0, rx2.digest.size(), rx2.digest) == 0; if (e == E_TEXT && (v & 2)) same = NoNl(rx2.digest) == NoNl(B.postExpect);
   vh::stat(same && !err2 ? "post_reset_delivered" : "post_reset_lost");
   if (e == E_WS && (v & 4)) { if (!same || err2) vh::stat("unspecified_ws_reset_inside_the_handshake"); return; }   // whether Reset() restarts the HTTP handshake is not specified; the frame stream alone cannot be expected to arrive
   if (!same || err2) Fail(std::string("post-reset-not-delivered|") + KeyName(e, v), vh::fmt("variant %d, first phase %s (%ld Messages): after Reset() a valid stream of %zu bytes gave %ld Message(s), error=%d, digest %zu vs %zu bytes", v, err ? "ended in an error" : "without error", rx.n, packets ? B.post.size() : B.post[0].size(), rx2.n, (int)err2, rx2.digest.size(), B.postExpect.size()));
}
// the C gateways: MGDoInput / UGDoInput fed from a chopped pipe
static int32 CRecv(uint8 * buf, uint32 n, void * arg) { Pipe * p = (Pipe *)arg; uint32_t avail = (uint32_t)p->q.size(); uint32_t m = Chop(avail < n ? avail : n); for (uint32_t i = 0; i < m; i++) { buf[i] = p->q.front(); p->q.pop_front(); } return (int32)m; }
static long PumpMiniGw(const Bytes & in, bool & err)
{
   MMessageGateway * gw = MGAllocMessageGateway(); if (!gw) { fprintf(stderr, "HARNESS-ABORT: MGAllocMessageGateway\n"); abort(); }
   Pipe p; p.q.assign(in.begin(), in.end()); long n = 0, guard = 20 * (long)in.size() + 2000; int idle = 0; err = false;
   while (guard-- > 0) { MMessage * m = NULL; const int32 r = MGDoInput(gw, R(2) ? ~0u : 1 + R(64), CRecv, &p, &m); if (m) { n++; UseMini(m); MMFreeMessage(m); } if (r < 0) { err = true; break; } if (r > 0 || m) idle = 0; else if (p.q.empty() && ++idle >= 2) break; else if (++idle > 200) break; }
   MGFreeMessageGateway(gw); return n;
}
static long PumpMicroGw(const Bytes & in, bool & err)
{
   const uint32_t isz = R(3) == 0 ? 64 + R(512) : 65536; std::unique_ptr<uint8_t[]> ib(new uint8_t[isz]), ob(new uint8_t[64]); UMessageGateway ug; UGGatewayInitialize(&ug, ib.get(), isz, ob.get(), 64);
   Pipe p; p.q.assign(in.begin(), in.end()); long n = 0, guard = 20 * (long)in.size() + 2000; int idle = 0; err = false;
   while (guard-- > 0) { UMessage um; UMInitializeToInvalid(&um); const int32 r = UGDoInput(&ug, R(2) ? ~0u : 1 + R(64), CRecv, &p, &um); const bool got = UMGetFlattenedSize(&um) > 0; if (got) { n++; WalkMicro(&um, 0); } if (r < 0) { err = true; break; } if (r > 0 || got) idle = 0; else if (p.q.empty() && ++idle >= 2) break; else if (++idle > 200) break; }
   return n;
}
static void FeedCGateway(const Base & B, const std::vector<Bytes> & units, const Mut & mu)
{
   const bool micro = (B.variant & 1) != 0; bool err = false; std::vector<Bytes> fed = units;
   MBegin(); const long n = micro ? PumpMicroGw(fed[0], err) : PumpMiniGw(fed[0], err); MEnd();
   CheckGatewayAlloc(E_CGW, B.variant, false, fed); Tally("cgw", !err); vh::stat("delivered_cgw", n);
   if (mu.family == "valid") vh::stat(n == (long)B.msgs.size() && !err ? "cgw_valid_all_delivered" : "cgw_valid_not_all_delivered");   // agreement of the C codecs with C++ encodings is C08's subject
   bool err2 = false; const long n2 = micro ? PumpMicroGw(B.post[0], err2) : PumpMiniGw(B.post[0], err2); vh::stat("cgw_fresh_gateway_delivered", n2);   // the C gateways have no Reset(): a fresh one
}

// ------------------------------------------------------------------------------- ZLibCodec / ZLibUtilityFunctions directly
enum { ZA_INFLATE_REF = 0, ZA_INFLATE_BUF, ZA_UTIL_INFLATEBYTEBUFFER, ZA_UTIL_INFLATEMESSAGE, ZA_READINFLATEWRITE, ZA_UTIL_READINFLATEWRITE, NZA };
static const char * const ZANAME[NZA] = {"Inflate_ref", "Inflate_buf", "InflateByteBuffer", "InflateMessage", "ReadAndInflateAndWrite", "util_ReadAndInflateAndWrite"};
static bool ZReadInflateWrite(ZLibCodec * codec, const Bytes & in, bool valid, Bytes & out)
{
   Pipe p; p.q.assign(in.begin(), in.end()); ChopIO src(&p, NULL, true); src.noZero = valid || R(4) != 0;   // the API asks for blocking I/O: a 0-byte read means "no more data" and must end the call with an error
   ChopIO dst(NULL, &out, true); dst.partialWrites = true; if (!valid && R(8) == 0) dst.failWriteAfter = (long)R(2000);
   const status_t r = codec ? codec->ReadAndInflateAndWrite(src, dst) : ReadAndInflateAndWrite(src, dst);
   return r.IsOK();
}
static void FeedZcodec(const Base & B, const std::vector<Bytes> & units, const Mut & mu)
{
   const bool valid = mu.family == "valid", multi = B.units.size() > 1; const int lastApi = multi ? 2 : NZA;
   static const int multiApis[3] = {ZA_INFLATE_REF, ZA_INFLATE_BUF, ZA_READINFLATEWRITE}; const int api = multi ? multiApis[R(3)] : (int)R(NZA); (void)lastApi;
   const bool shared = (api == ZA_UTIL_INFLATEBYTEBUFFER || api == ZA_UTIL_INFLATEMESSAGE || api == ZA_UTIL_READINFLATEWRITE);
   vh::stat(std::string("api_") + ZANAME[api]); curDesc += std::string(" | ") + ZANAME[api];
   ZLibCodec codec(6); const Bytes & pv = B.post[0];
   if (shared) { ByteBufferRef pr = InflateByteBuffer((const uint8 *)pv.data(), (uint32)pv.size()); if (pr() == NULL) { Fail("not-reusable|zcodec-shared", "the per-thread codec of ZLibUtilityFunctions does not inflate a valid independent buffer (state left by an earlier case)"); return; } }   // also makes the case independent of earlier ones
   size_t N = 0, produced = 0; std::vector<int> ok(units.size(), 0); std::vector<Bytes> outs(units.size()); std::vector<int32> sizes(units.size(), -1); std::string bad; ByteBuffer reused; MessageRef infMsg;
   MBegin();
   for (size_t i = 0; i < units.size(); i++) {
      Exact ex(units[i]); N += ex.n; bool indep = false; const int32 gis = codec.GetInflatedSize(ex.p, ex.n, &indep); sizes[i] = gis;
      const uint32_t mg = rd32(units[i], 0); const int32 want = (ex.n >= 8 && (mg == ZMAGIC_DEP || mg == ZMAGIC_IND)) ? (int32)rd32(units[i], 4) : -1;
      if ((want < 0) != (gis < 0) || (want >= 0 && (gis != want || indep != (mg == ZMAGIC_IND)))) { bad = vh::fmt("GetInflatedSize says %d (independent=%d) for magic %08x size word %08x in %u bytes", gis, (int)indep, mg, rd32(units[i], 4), ex.n); break; }
      switch (api) {
      case ZA_INFLATE_REF: { ByteBufferRef r = codec.Inflate(ex.p, ex.n); if (r()) { ok[i] = 1; outs[i].assign((const char *)r()->GetBuffer(), r()->GetNumBytes()); } } break;
      case ZA_INFLATE_BUF: { if (codec.Inflate(ex.p, ex.n, reused).IsOK()) { ok[i] = 1; outs[i].assign((const char *)reused.GetBuffer(), reused.GetNumBytes()); } } break;
      case ZA_UTIL_INFLATEBYTEBUFFER: { ByteBufferRef r = (R(2) ? InflateByteBuffer(ex.p, ex.n) : InflateByteBuffer(ByteBuffer(ex.n, ex.p))); if (r()) { ok[i] = 1; outs[i].assign((const char *)r()->GetBuffer(), r()->GetNumBytes()); } } break;
      case ZA_UTIL_INFLATEMESSAGE: { MessageRef m = GetMessageFromPool(0x7a6d7367u); ByteBufferRef bb = GetByteBufferFromPool(ex.n, ex.p); if (m() == NULL || bb() == NULL || m()->AddFlat(MUSCLE_ZLIB_FIELD_NAME, bb).IsError()) { bad = "HARNESS"; break; } infMsg = InflateMessage(m); if (infMsg()) { ok[i] = 1; outs[i] = FlatBytes(*infMsg()); } } break;
      default: ok[i] = ZReadInflateWrite(api == ZA_READINFLATEWRITE ? &codec : NULL, units[i], valid, outs[i]) ? 1 : 0; break;
      }
      produced += outs[i].size();
   }
   MEnd();
   if (bad == "HARNESS") { fprintf(stderr, "HARNESS-ABORT: cannot wrap bytes into a Message\n"); abort(); }
   if (!bad.empty()) { Fail("zcodec|GetInflatedSize", bad); return; }
   bool anyOk = false; for (size_t i = 0; i < units.size(); i++) {
      if (ok[i]) { anyOk = true; if (api != ZA_UTIL_INFLATEMESSAGE && api < ZA_READINFLATEWRITE && (sizes[i] < 0 || outs[i].size() != (size_t)sizes[i])) { Fail("zcodec|ok-wrong-size", vh::fmt("%s: OK with %zu bytes although the header declares %d", ZANAME[api], outs[i].size(), sizes[i])); return; } }
      // a cut or junk-extended buffer may only be accepted with exactly the bytes of the original (e.g. when just the trailing sync marker is missing)
      if (ok[i] && (int)i == mu.unit && i < B.raws.size() && api != ZA_UTIL_INFLATEMESSAGE && (mu.family == "truncation" || mu.desc.find("trailing junk") != std::string::npos) && outs[i] != B.raws[i] && !(api >= ZA_READINFLATEWRITE && i > 0))
         { if (api >= ZA_READINFLATEWRITE && outs[i].size() > B.raws[i].size() && outs[i].compare(0, B.raws[i].size(), B.raws[i]) == 0) { vh::stat("unspecified_zcodec_stream_api_output_beyond_declared_size"); continue; }   // the stream form reads (and inflates, and writes) whatever follows the buffer in the stream: the declared bytes are right, more follow
           Fail("zcodec|ok-wrong-bytes", vh::fmt("%s: unit %zu accepted with %zu bytes that are not the %zu bytes it was deflated from", ZANAME[api], i, outs[i].size(), B.raws[i].size())); return; }
      if (valid) { Bytes want = B.raws[i]; bool expectOk = true; if (api == ZA_UTIL_INFLATEMESSAGE) { if (B.variant % 6 == 4) wr32(want, 4, 0x7a6d7367u); else expectOk = false; }
         if (expectOk && i > 0 && api == ZA_READINFLATEWRITE && (!ok[i] || outs[i] != want)) { vh::stat("unspecified_zcodec_stream_api_on_a_later_dependent_buffer"); break; }   // the stream form stops reading as soon as the declared size is out; the unread tail of a sync-flushed buffer (its empty stored block) never reaches the inflater, so a following DEPENDENT buffer cannot be expected to work
         if (expectOk && (!ok[i] || outs[i] != want)) { Fail(std::string("valid-not-inflated|zcodec-") + ZANAME[api], vh::fmt("variant %d unit %zu of %zu: %s, %zu bytes instead of %zu", B.variant % 6, i, units.size(), ok[i] ? "OK" : "error", outs[i].size(), want.size())); return; } }
   }
   vh::stat(std::string(anyOk ? "accepted_zcodec_" : "rejected_zcodec_") + ZANAME[api]); Tally("zcodec", anyOk); vh::statmax("max_zcodec_output_bytes", (long)produced);
   if (api == ZA_UTIL_INFLATEMESSAGE && infMsg()) UseMessage(*infMsg());
   if (gMeasure) {
      const size_t worst = gM.a.worst(), bound = 1100 * N + 1024 * 1024;   // deflate cannot expand by more than ~1032:1, so nothing a buffer of N bytes legitimately inflates to needs more
      vh::statmax("max_alloc_bytes_zcodec", (long)worst); if (gM.a.refused) vh::stat("refused_requests_seen");
      if (worst > bound) { bool declared = false; for (size_t i = 0; i < units.size(); i++) if (units[i].size() >= 8) { const size_t d = rd32(units[i], 4), single = std::max(gM.a.largest, gM.a.refused); if (d > bound / 2 && single >= d && single <= d + 64) declared = true; }
         Fail(declared ? "declared-size-alloc|zcodec" : "alloc-bound|zcodec", vh::fmt("%s: %zu input bytes: peak live delta %zu, largest granted request %zu, largest refused request %zu > 1100*N + 1 MiB = %zu%s", ZANAME[api], N, gM.a.peak_delta, gM.a.largest, gM.a.refused, bound, declared ? " (the size word of the 8-byte header is allocated before a single byte is inflated)" : "")); return; }
      if (gM.cpu > 50e-6 * (double)(N + produced) + 0.050) { Fail("nonlinear-cpu|zcodec", vh::fmt("%s: %zu bytes in, %zu out, %.3f CPU-s", ZANAME[api], N, produced, gM.cpu)); return; }
   }
   // whatever happened, a following INDEPENDENT buffer must inflate correctly (dependent ones are promised nothing after a gap or an error)
   { ByteBufferRef pr = shared ? InflateByteBuffer((const uint8 *)pv.data(), (uint32)pv.size()) : codec.Inflate((const uint8 *)pv.data(), (uint32)pv.size());
     if (pr() == NULL || Bytes((const char *)pr()->GetBuffer(), pr()->GetNumBytes()) != B.postExpect) Fail("not-reusable|zcodec", vh::fmt("after %s (%s) the codec does not inflate a valid independent buffer", ZANAME[api], anyOk ? "accepted" : "rejected")); else vh::stat("post_failure_independent_inflates"); }
}

// ------------------------------------------------------------------------------------------ cases: sweeps + families
// Cache of valid material.  Entries are shared_ptrs: whatever a case has asked for stays alive until the case drops it, no matter what is
// evicted meanwhile (a case may hold two bases at once: its own and the "other" one of the structure-aware mutations).  Sweep bases and the
// bases of the sampled families live in separate key spaces (a thorough sweep uses thousands of base indices).
typedef std::shared_ptr<Base> BaseRef;
static std::map<std::pair<int, long>, BaseRef> gBasesE[NE];
static BaseRef GetBase(int e, uint64_t seed, long idx, bool sweepBase)
{
   std::map<std::pair<int, long>, BaseRef> & c = gBasesE[e]; const std::pair<int, long> key(sweepBase ? 1 : 0, idx);
   std::map<std::pair<int, long>, BaseRef>::iterator it = c.find(key); if (it != c.end()) return it->second;
   if (c.size() >= 16) c.clear();
   BaseRef b(new Base); BuildBase(*b, e, seed, idx, sweepBase); c[key] = b; return b;
}
struct SweepEnt { int kind; long base; int unit; long start, count; };
static std::vector<SweepEnt> gSweep; static long gSweepTotal = 0;
static void BuildSweep(int e, uint64_t seed, long nT, long nW, long cap)
{
   gSweep.clear(); gSweepTotal = 0;   // cap: the sweeps stop growing (at a base boundary) once they hold 40% (prefixes) / 100% (words) of it, so a leg keeps room for the sampled families
   for (int kind = 0; kind < 2; kind++) for (long i = 0; i < (kind == 0 ? nT : nW); i++) {
      if (cap > 0 && gSweepTotal >= (kind == 0 ? cap * 2 / 5 : cap)) break;
      const BaseRef Bp = GetBase(e, seed, i, true); const Base & B = *Bp;
      for (size_t u = 0; u < B.units.size(); u++) { long c = 0; if (kind == 0) c = (long)std::min<size_t>(B.units[u].size(), 4096); else for (size_t w = 0; w < B.words[u].size(); w++) c += Slots(B.words[u][w]); if (c == 0) continue; SweepEnt s; s.kind = kind; s.base = i; s.unit = (int)u; s.start = gSweepTotal; s.count = c; gSweep.push_back(s); gSweepTotal += c; }
   }
}
static void Dispatch(int e, const Base & B, const std::vector<Bytes> & units, const Mut & mu, bool limit)
{
   const bool valid = mu.family == "valid";
   switch (e) {
   case E_MSG: FeedMsg(units[0], valid); break;
   case E_TMSG: FeedTmsg(B, units[0], mu.altTemplate, valid); break;
   case E_MINI: FeedMini(units[0], valid); break;
   case E_MICRO: FeedMicro(units[0], valid); break;
   case E_CGW: FeedCGateway(B, units, mu); break;
   case E_ZCODEC: FeedZcodec(B, units, mu); break;
   default: FeedGateway(B, units, mu, limit); break;
   }
}
static void RunCase(int e, uint64_t seed, long k)
{
   g = vh::Rng(vh::case_seed(seed, 0xC02000 + e, (uint64_t)k)); caseBad = false; curEntry = ENAME[e];
   Mut mu; BaseRef Bp, Op; const Base * B; std::vector<Bytes> units;
   if (k < gSweepTotal) {
      size_t lo = 0, hi = gSweep.size() - 1; while (lo < hi) { size_t mid = (lo + hi + 1) / 2; if (gSweep[mid].start <= k) lo = mid; else hi = mid - 1; }
      const SweepEnt & s = gSweep[lo]; const long j = k - s.start; Bp = GetBase(e, seed, s.base, true); B = Bp.get(); units = B->units; mu.unit = s.unit;
      if (s.kind == 0) { mu.family = "truncation"; units[s.unit].resize((size_t)j); mu.truncAt = j; mu.desc = vh::fmt("sweep base %ld unit %d cut at %ld of %zu", s.base, s.unit, j, B->units[s.unit].size()); if (B->units.size() > 1) units.resize(s.unit + 1); }
      else { long acc = 0; const std::vector<Word> & w = B->words[s.unit]; for (size_t i = 0; i < w.size(); i++) { const long sl = Slots(w[i]); if (j < acc + sl) { MutWord(*B, units, mu, s.unit, (int)i, (int)(j - acc)); break; } acc += sl; } mu.desc = vh::fmt("sweep base %ld ", s.base) + mu.desc; }
      vh::stat(s.kind == 0 ? "sweep_truncations" : "sweep_word_values");
   } else {
      const long kk = k - gSweepTotal, bi = 1000 + kk / 50, j = kk % 50; Bp = GetBase(e, seed, bi, false); B = Bp.get(); units = B->units;
      if (j == 0) mu.family = "valid"; else if (j <= 10) MutTruncate(*B, units, mu); else if (j <= 30) MutWord(*B, units, mu); else if (j <= 38) { Op = GetBase(e, seed, bi + 1, false); MutStructure(*B, *Op, units, mu); } else MutRandom(*B, units, mu);
      if (units.empty()) units.push_back(Bytes());
   }
   size_t N = 0; uint64_t dg = vh::fnv(&e, sizeof(e)); for (size_t i = 0; i < units.size(); i++) { N += units[i].size(); dg = vh::fnvs(units[i], dg); }
   const bool limit = (k & 1) != 0;
   curDesc = vh::fmt("%s v%d | %s | %s | %zu bytes in %zu unit(s)%s", ENAME[e], B->variant, mu.family.c_str(), mu.desc.c_str(), N, units.size(), limit ? " | limit" : "");
   const Bytes & shown = units[(size_t)mu.unit < units.size() ? mu.unit : 0]; vh::note(curDesc + " | hex " + vh::hex(shown.data(), shown.size(), 150));
   vh::stat(std::string("cases_") + ENAME[e]); vh::stat("family_" + mu.family); if (!mu.role.empty()) vh::stat("role_" + mu.role);
   if (mu.truncAt >= 0) { vh::stat("truncation_offsets"); vh::statmax("max_truncation_offset", mu.truncAt); if (mu.truncAt < 12) vh::stat("truncations_inside_the_first_12_bytes"); }
   vh::statmax("max_input_bytes", (long)N);
   Dispatch(e, *B, units, mu, limit);
   vh::distinct(dg, mu.family != "valid");
   if (vh::want_sample() && (k % 997) == 3) vh::sample(vh::fmt("case %ld: ", k) + curDesc);
}

// --------------------------------------------------------------------------------------------------------- deepnest
static void DeepNest(long k)
{
   static const uint32_t D[3] = {1000, 10000, 100000}; const uint32_t d = D[k % 3]; caseBad = false; curEntry = "deepnest";
   Message inner(1); (void)inner.AddInt32("leaf", 42); const Bytes b = NestWrap(FlatBytes(inner), d);
   curDesc = vh::fmt("Message nested %u deep, %zu bytes", d, b.size()); vh::note(curDesc); vh::stat("cases_deepnest"); vh::statmax("max_nesting_depth_tried", d);
   { Exact ex(b); Message m; MBegin(); const status_t r = m.UnflattenFromBytes(ex.p, ex.n); MEnd(); CheckParserCost("deepnest", b.size(), true); Tally("deepnest", r.IsOK());
     if (r.IsOK()) { uint32_t depth = 0; ConstMessageRef cur; const Message * p = &m; while (p->FindMessage("m", cur).IsOK() && cur()) { p = cur(); depth++; } if (depth != d) Fail("deepnest|depth", vh::fmt("accepted, but %u levels can be reached instead of %u", depth, d)); vh::statmax("max_nesting_depth_parsed", depth); gSink += m.FlattenedSize(); } }
   vh::distinct(d, true);
}

// ------------------------------------------------------------------- fixed witnesses of the repaired findings (regress)
static Bytes OneField(const char * name, uint32_t type, const Bytes & payload, uint32_t nfields = 1)
{
   Bytes b; put32(b, CURRENT_PROTOCOL_VERSION); put32(b, 1); put32(b, nfields); put32(b, (uint32_t)strlen(name) + 1); b.append(name, strlen(name) + 1); put32(b, type); put32(b, (uint32_t)payload.size()); b += payload; return b;
}
static void RegressCase(const char * name, long k) { vh::begin_case(k); g = vh::Rng(77 + k); caseBad = false; curEntry = "regress"; curDesc = name; vh::note(name); vh::stat("regress_witnesses"); vh::distinct(1000 + k, true); }
static void Regress()
{
   long k = 0;
   RegressCase("F1: MessageIOGateway header whose body size makes header+body wrap (0xFFFFFFF8..0xFFFFFFFF; 0xFFFFFFF8 wraps to 0); 0xFFFFFFF0..F7 with a limit", k++);
   for (int kind = 0; kind < 3; kind++) for (int limit = 0; limit < 2; limit++) for (uint32_t bs = 0xFFFFFFF0u; bs != 0 && !caseBad; bs++) {
      const bool wraps = bs >= 0xFFFFFFF8u; if (!wraps && !limit) continue;   // without a limit a non-wrapping 4 GB body is simply requested (and refused): recorded by the gw leg, no witness
      Bytes s; put32(s, bs); put32(s, MUSCLE_MESSAGE_ENCODING_DEFAULT); s += Bytes(24, '\x5a');
      MessageIOGateway * gw = kind == 0 ? new MessageIOGateway : kind == 1 ? new CountedMessageIOGateway : new TemplatingMessageIOGateway; AbstractMessageIOGatewayRef ref(gw); if (limit) gw->SetMaxIncomingMessageSize(LIMIT_L);
      Rx rx(DG_MSG); MBegin(); const bool err = PumpStream(*gw, s, rx, true); MEnd();
      if (rx.n != 0 || !err) Fail("regress-F1", vh::fmt("body size %08x kind %d limit %d: %ld Messages, error=%d", bs, kind, limit, rx.n, (int)err));
      if (gMeasure && kind != 2 && std::max(gM.a.largest, gM.a.refused) > LIMIT_L) Fail("regress-F1", vh::fmt("body size %08x: request of %zu bytes", bs, std::max(gM.a.largest, gM.a.refused)));
   }
   RegressCase("F2: string / raw / user array field with item count 0x7fffffff in a 38-byte buffer", k++);
   { static const uint32_t types[] = {B_STRING_TYPE, B_RAW_TYPE, 0x75737231u}; for (int t = 0; t < 3; t++) { Bytes p; put32(p, 0x7fffffffu); put32(p, 4); p += Bytes("abc\0", 4); const Bytes b = OneField("s", types[t], p); if (b.size() != 38) { fprintf(stderr, "HARNESS-ABORT: F2 witness is %zu bytes\n", b.size()); abort(); }
        Exact ex(b); Message m; MBegin(); const status_t r = m.UnflattenFromBytes(ex.p, ex.n); MEnd(); CheckParserCost("msg", b.size(), false); if (r.IsOK()) Fail("regress-F2", "accepted"); } }
   RegressCase("F3: B_POINTER_TYPE / B_TAG_TYPE field with 0, 1 and 2 items must be an error status, not an abort", k++);
   { static const uint32_t types[] = {B_POINTER_TYPE, B_TAG_TYPE}; for (int t = 0; t < 2; t++) for (uint32_t n = 0; n < 3; n++) { const Bytes b = OneField("p", types[t], Bytes(n * sizeof(void *), '\x11')); Exact ex(b); Message m; const status_t r = m.UnflattenFromBytes(ex.p, ex.n); if (r.IsOK()) { vh::stat("regress_F3_accepted"); UseMessage(m); } { const Bytes & v = ReuseBytes(); Exact vx(v); if (m.UnflattenFromBytes(vx.p, vx.n).IsError()) Fail("regress-F3", "not reusable"); } } }
   RegressCase("F4: bool array / inline bool holding bytes other than 0 and 1, then every read under UBSan", k++);
   { const Bytes b = OneField("b", B_BOOL_TYPE, Bytes("\x01\x02\x00\xff\x07", 5)); Exact ex(b); Message m; if (m.UnflattenFromBytes(ex.p, ex.n).IsOK()) { UseMessage(m); Message c(m); bool v; for (uint32 i = 0; i < 5; i++) if (c.FindBool("b", i, v).IsOK()) gSink += v; c.Print(devnull); gSink += (c == m) ? 1 : 0; } else vh::stat("regress_F4_rejected");
     const Bytes b1 = OneField("b", B_BOOL_TYPE, Bytes("\x02", 1)); Exact e1(b1); Message m1; if (m1.UnflattenFromBytes(e1.p, e1.n).IsOK()) UseMessage(m1);
     // the same through the templated path and the gateways
     Message src(9); const bool bb[3] = {true, false, true}; (void)src.AddData("b", B_BOOL_TYPE, bb, 3); MessageRef T = src.CreateMessageTemplate(); if (T()) { const uint32 sz = src.TemplatedFlattenedSize(*T()); Bytes p(sz, '\0'); src.TemplatedFlatten(*T(), DataFlattener((uint8 *)&p[0], sz)); for (uint32 o = 0; o < sz; o++) { Bytes q = p; q[o] = 2; Exact qx(q); DataUnflattener uf(qx.p, qx.n); Message r; if (r.TemplatedUnflatten(*T(), uf).IsOK()) UseMessage(r); } }
     Bytes s; put32(s, (uint32_t)b.size()); put32(s, MUSCLE_MESSAGE_ENCODING_DEFAULT); s += b; MessageIOGateway gw; Rx rx(DG_MSG); (void)PumpStream(gw, s, rx, true); if (rx.n != 1) vh::stat("regress_F4_gateway_rejected"); }
   RegressCase("F5: templated payload whose sub-Message size words are oversized", k++);
   { Message src(5); Message s1(1), s2(2); (void)s1.AddInt32("a", 1); (void)s1.AddString("t", "xy"); (void)s2.AddInt32("a", 2); (void)s2.AddString("t", "longer string value"); (void)src.AddMessage("subs", s1); (void)src.AddMessage("subs", s2); (void)src.AddMessage("one", s1); (void)src.AddInt64("z", 7);
     MessageRef T = src.CreateMessageTemplate(); if (T() == NULL) { fprintf(stderr, "HARNESS-ABORT: F5 template\n"); abort(); } const uint32 sz = src.TemplatedFlattenedSize(*T()); Bytes p(sz, '\0'); src.TemplatedFlatten(*T(), DataFlattener((uint8 *)&p[0], sz));
     { Exact px(p); DataUnflattener uf(px.p, px.n); Message r; if (r.TemplatedUnflatten(*T(), uf).IsError()) Fail("regress-F5", "the valid payload is rejected"); }
     long acc = 0, rej = 0; for (uint32 o = 0; o + 4 <= sz; o++) for (uint32 s = 0; s < NLENV; s++) { Bytes q = p; wr32(q, o, LenValue(s, rd32(p, o), sz - o - 4)); for (int cut = 0; cut < 2; cut++) { if (cut) q.resize(o + 4 + (sz - o - 4) / 2); Exact qx(q); DataUnflattener uf(qx.p, qx.n); Message r; MBegin(); const status_t st = r.TemplatedUnflatten(*T(), uf); MEnd(); CheckParserCost("tmsg", q.size() + T()->FlattenedSize(), false); if (st.IsOK()) { acc++; UseMessage(r); } else rej++; } }
     vh::stat("regress_F5_accepted", acc); vh::stat("regress_F5_rejected", rej); }
   RegressCase("F7a: MiniMessage item count 0x40000000 in a 400-byte buffer; item offset+size wrap", k++);
   { static const uint32_t types[] = {B_STRING_TYPE, B_RAW_TYPE, B_MESSAGE_TYPE, 0x75737231u}; static const uint32_t counts[] = {0x40000000u, 0x7fffffffu, 0xffffffffu, 3, 0x20000000u}; static const uint32_t lens[] = {0xfffffffcu, 0xffffffffu, 0xfffffff8u, 0x7fffffffu, 366, 367};
     for (int t = 0; t < 4; t++) for (int c = 0; c < 5; c++) for (int l = 0; l < 6; l++) { Bytes p; put32(p, counts[c]); put32(p, lens[l]); p.resize(374, '\0'); const Bytes b = OneField("s", types[t], p); Exact ex(b); MMessage * mm = MMAllocMessage(0); MBegin(); const c_status_t r = MMUnflattenMessage(mm, ex.p, ex.n); MEnd(); CheckParserCost("mini", b.size(), false); if (r == CB_NO_ERROR) { vh::stat("regress_F7a_accepted"); UseMini(mm); } MMFreeMessage(mm); } }
   RegressCase("F7b/F36: MicroMessage field whose name length / data length / item length point outside the buffer, then UMFind* by name", k++);
   { static const uint32_t bad[] = {0x7fffffffu, 0xffffffffu, 0xfffffff4u, 0x80000000u, 38, 39, 26, 27, 14, 1000};
     for (int which = 0; which < 4; which++) for (int v = 0; v < 10; v++) {
        Bytes p; put32(p, 2); put32(p, 4); p += Bytes("abc\0", 4); put32(p, 0); Bytes b = OneField("s", which == 3 ? B_RAW_TYPE : B_STRING_TYPE, p);   // count 2: "abc", then a zero-length item at the very end
        const uint32_t off = which == 0 ? 12 : which == 1 ? 22 : which == 2 ? 30 : 38; wr32(b, off, bad[v]);   // namelen | paylen | first itemlen | last itemlen
        Exact ex(b); UMessage um; if (UMInitializeWithExistingData(&um, ex.p, ex.n) != CB_NO_ERROR) continue;
        int32 i32; int64 i64; const void * d; uint32 dl; UMessage sub;
        for (uint32 idx = 0; idx < 3; idx++) { (void)UMFindInt32(&um, "s", idx, &i32); (void)UMFindInt64(&um, "s", idx, &i64); const char * s = UMGetString(&um, "s", idx); if (s) Touch(s, strlen(s) + 1); if (UMFindData(&um, "s", B_ANY_TYPE, idx, &d, &dl) == CB_NO_ERROR && d) Touch(d, dl); (void)UMFindMessage(&um, "s", idx, &sub); }
        gSink += UMGetNumItemsInField(&um, "s", B_ANY_TYPE) + UMGetFieldTypeCode(&um, "s");
     }
     Bytes p; put32(p, 2); put32(p, 3); p += "abc"; put32(p, 0); const Bytes b = OneField("r", B_RAW_TYPE, p); Exact ex(b); UMessage um; const void * d = NULL; uint32 dl = 99;
     if (UMInitializeWithExistingData(&um, ex.p, ex.n) != CB_NO_ERROR || UMFindData(&um, "r", B_RAW_TYPE, 1, &d, &dl) != CB_NO_ERROR || dl != 0) Fail("regress-F36", "UMFindData refuses a zero-length item at the end of its field"); }
}

static void Regress2(long k)
{
   RegressCase("micro iterator / item readers on truncated buffers and hostile name / data / item lengths (complete read walk)", k++);
   { Message src(3); (void)src.AddString("str", "hello"); (void)src.AddString("str", "world!"); (void)src.AddInt32("i", 7); Message sub(4); (void)sub.AddBool("b", true); (void)src.AddMessage("m", sub); (void)src.AddMessage("m", sub); const uint8 raw[3] = {1, 2, 3}; (void)src.AddData("r", B_RAW_TYPE, raw, 3);
     const Bytes v = FlatBytes(src); std::vector<Word> w; std::vector<FieldExt> f; if (!WalkMsg(v, 0, (uint32_t)v.size(), w, &f, 0)) { fprintf(stderr, "HARNESS-ABORT: regress walker\n"); abort(); }
     long walks = 0;
     for (size_t cut = 0; cut <= v.size(); cut++) { Bytes b = v.substr(0, cut); Exact ex(b); UMessage um; if (UMInitializeWithExistingData(&um, ex.p, ex.n) == CB_NO_ERROR) { WalkMicro(&um, 0); walks++; } }
     for (size_t i = 0; i < w.size(); i++) for (uint32 sl = 0; sl < Slots(w[i]); sl++) { Bytes b = v; (void)ApplyWord(b, w[i], sl); Exact ex(b); UMessage um; if (UMInitializeWithExistingData(&um, ex.p, ex.n) == CB_NO_ERROR) { WalkMicro(&um, 0); walks++; } }
     vh::stat("regress_micro_walks", walks); }
   RegressCase("MiniMessage string item without NUL terminator / of length 0, then MMPrint", k++);
   { for (int which = 0; which < 3; which++) { Bytes p; put32(p, 1); if (which == 0) put32(p, 0); else if (which == 1) { put32(p, 3); p += "abc"; } else { put32(p, 4); p += Bytes("ab\0c", 4); }
       const Bytes b = OneField("s", B_STRING_TYPE, p); Exact ex(b); MMessage * mm = MMAllocMessage(0); if (MMUnflattenMessage(mm, ex.p, ex.n) == CB_NO_ERROR) { vh::stat("regress_mini_unterminated_accepted"); UseMini(mm); } MMFreeMessage(mm);
       Message m; Exact e2(b); if (m.UnflattenFromBytes(e2.p, e2.n).IsOK()) UseMessage(m); } }
   RegressCase("failed TemplatedUnflatten / Unflatten / MMUnflattenMessage (every truncation of a valid encoding), then the object is used as an ordinary one", k++);
   { Message src(5); Message s1(1); (void)s1.AddInt32("a", 1); (void)s1.AddString("t", "xy"); (void)src.AddString("first", "string one"); (void)src.AddString("first", "string two"); (void)src.AddMessage("subs", s1); (void)src.AddMessage("subs", s1); (void)src.AddInt64("z", 7); (void)src.AddMessage("last", s1);
     MessageRef T = src.CreateMessageTemplate(); if (T() == NULL) { fprintf(stderr, "HARNESS-ABORT: template\n"); abort(); } const uint32 sz = src.TemplatedFlattenedSize(*T()); Bytes p(sz, '\0'); src.TemplatedFlatten(*T(), DataFlattener((uint8 *)&p[0], sz));
     long failed = 0; for (uint32 cut = 0; cut < sz && !caseBad; cut++) { const Bytes q = p.substr(0, cut); Exact qx(q); DataUnflattener uf(qx.p, qx.n); Message r; if (cut & 1) (void)r.AddString("old", "content"); if (r.TemplatedUnflatten(*T(), uf).IsError()) { failed++; PostFailureUse(r, "tmsg"); } else UseMessage(r); }
     const Bytes v = FlatBytes(src); for (size_t cut = 0; cut < v.size() && !caseBad; cut++) { const Bytes q = v.substr(0, cut); Exact qx(q); Message r; if (r.UnflattenFromBytes(qx.p, qx.n).IsError()) { failed++; PostFailureUse(r, "msg"); } MMessage * mm = MMAllocMessage(0); if (MMUnflattenMessage(mm, qx.p, qx.n) != CB_NO_ERROR) { failed++; PostFailureUseMini(mm); } MMFreeMessage(mm); }
     vh::stat("regress_post_failure_walks", failed); if (failed < 100) Fail("regress-post-failure", "too few truncations were rejected to witness anything"); }
   RegressCase("F56: zlib stream that ENDS (Z_STREAM_END) before the size its header declares, unread bytes behind it: ReadAndInflateAndWrite must return an error, not spin", k++);
   { Bytes raw(200, 'a'); uLongf cl = 400; Bytes comp(cl, '\0'); if (compress2((Bytef *)&comp[0], &cl, (const Bytef *)raw.data(), 200, 6) != Z_OK) { fprintf(stderr, "HARNESS-ABORT: compress2\n"); abort(); } comp.resize(cl);
     static const uint32_t decl[] = {5000, 201, 0x7fffffffu, 300000}; for (int d = 0; d < 4; d++) for (int junk = 0; junk < 3; junk++) for (int indep = 0; indep < 2; indep++) {
        const Bytes in = ZHeader(indep != 0, decl[d]) + comp + Bytes(junk * 64, '\x55'); ZLibCodec codec(6); Bytes out; vh::note(vh::fmt("F56 witness: declared %u, %d junk bytes", decl[d], junk * 64));
        if (ZReadInflateWrite(&codec, in, true, out)) Fail("regress-F56", vh::fmt("declared %u but the stream ends after 200: returned OK with %zu bytes", decl[d], out.size()));
        Bytes out2; if (ZReadInflateWrite(NULL, in, true, out2)) Fail("regress-F56", "utility ReadAndInflateAndWrite returned OK");
        if (decl[d] < 1000000) { Exact ex(in); if (codec.Inflate(ex.p, ex.n)() != NULL) Fail("regress-F56", "Inflate returned a buffer"); ByteBuffer bb; if (codec.Inflate(ex.p, ex.n, bb).IsOK()) Fail("regress-F56", "Inflate(buf) returned OK"); }
        const Bytes good = ZHeader(true, 200) + comp; Exact gx(good); ByteBufferRef r = codec.Inflate(gx.p, gx.n); if (r() == NULL || Bytes((const char *)r()->GetBuffer(), r()->GetNumBytes()) != raw) Fail("regress-F56", "the codec does not inflate a valid independent buffer afterwards"); } }
   RegressCase("F57: 8-byte codec header declaring 2 GiB (and other sizes beyond 1100 x the input): Inflate x2, InflateByteBuffer, InflateMessage, zlib gateway bodies must fail without a large request", k++);
   { static const uint32_t decl[] = {0x7fffffffu, 0x40000000u, 0x20000000u, 12000000u, 9 * 1100 + 1101}; for (int d = 0; d < 5; d++) for (int indep = 0; indep < 2; indep++) for (int tail = 0; tail < 2; tail++) {
        const Bytes in = ZHeader(indep != 0, decl[d]) + Bytes(tail ? 8 : 0, '\0'); Exact ex(in); ZLibCodec codec(6); ByteBuffer bb; MessageRef zm = GetMessageFromPool(1); (void)zm()->AddFlat(MUSCLE_ZLIB_FIELD_NAME, GetByteBufferFromPool(ex.n, ex.p));
        MBegin(); const bool a = codec.Inflate(ex.p, ex.n)() != NULL; const bool b = codec.Inflate(ex.p, ex.n, bb).IsOK(); const bool c = InflateByteBuffer(ex.p, ex.n)() != NULL; const bool e = InflateMessage(zm)() != NULL; MEnd();
        if (a || b || c || e) Fail("regress-F57", vh::fmt("declared %u in %u bytes accepted (%d%d%d%d)", decl[d], ex.n, (int)a, (int)b, (int)c, (int)e));
        if (gMeasure && gM.a.worst() > 1100 * (size_t)ex.n + 1024 * 1024) Fail("regress-F57", vh::fmt("declared %u in %u bytes: request of %zu bytes", decl[d], ex.n, gM.a.worst()));
        Bytes s; put32(s, (uint32_t)in.size()); put32(s, MUSCLE_MESSAGE_ENCODING_ZLIB_6); s += in; for (int kind = 0; kind < 2 && !caseBad; kind++) { MessageIOGateway * gw = kind ? new TemplatingMessageIOGateway : new MessageIOGateway; AbstractMessageIOGatewayRef ref(gw); gw->SetMaxIncomingMessageSize(LIMIT_L); Rx rx(DG_MSG); MBegin(); (void)PumpStream(*gw, s, rx, true); MEnd(); if (rx.n != 0) Fail("regress-F57", "gateway delivered a Message"); if (gMeasure && std::max(gM.a.largest, gM.a.refused) > (size_t)LIMIT_L + 65536) Fail("regress-F57", vh::fmt("gateway kind %d: request of %zu bytes for a %zu-byte zlib body declaring %u", kind, std::max(gM.a.largest, gM.a.refused), in.size(), decl[d])); } } }
   RegressCase("TelnetPlainTextMessageIOGateway: Reset() inside a telnet sub-negotiation / command, then a valid line", k++);
   { static const char * const pre[] = {"\xff\xfa", "\xff", "\xff\xfb", "abc\xff\xfa\x01\x02"}; for (int i = 0; i < 4; i++) { TelnetPlainTextMessageIOGateway gw; Rx rx(DG_TEXT); (void)PumpStream(gw, pre[i], rx, true); gw.Reset(); Rx rx2(DG_TEXT); (void)PumpStream(gw, "hello\r\n", rx2, true); if (rx2.digest != "hello\n") Fail("regress-telnet-reset", vh::fmt("after [%s] and Reset() the line 'hello' arrives as %zu digest bytes", vh::hex(pre[i], strlen(pre[i])).c_str(), rx2.digest.size())); } }
   RegressCase("WebSocketMessageIOGateway: Reset() inside a frame header / payload, then a valid frame stream", k++);
   { MessageRef t = GetMessageFromPool(PR_COMMAND_TEXT_STRINGS); (void)t()->AddString(PR_NAME_TEXT_LINE, "a line of text for the websocket"); std::vector<MessageRef> l; l.push_back(t); Bytes want; AppendDigest(DG_WS, *t(), want);
     for (int client = 0; client < 2; client++) { WebSocketMessageIOGateway snd(client ? &kFalse : &kTrue); const Bytes st = SendStream(snd, l);
        for (size_t cut = 1; cut < st.size(); cut++) { WebSocketMessageIOGateway gw(client ? &kTrue : &kFalse); Rx rx(DG_WS); (void)PumpStream(gw, st.substr(0, cut), rx, true); gw.Reset(); Rx rx2(DG_WS); const bool err = PumpStream(gw, st, rx2, true);
           if (err || rx2.digest != want) { Fail("regress-ws-reset", vh::fmt("receiver role %s: %zu of %zu frame bytes, Reset(), then the whole frame: error=%d, %ld Message(s)", client ? "client" : "server", cut, st.size(), (int)err, rx2.n)); break; } } } }
}
static int Done() { const int rc = vh::finish(); for (int i = 0; i < NE; i++) gBasesE[i].clear(); return rc; }   // pooled objects must be back before the pools' destructors run
int main(int argc, char ** argv)
{
   allocmon::install();
   CompleteSetupSystem css;
   vh::init(argc, argv);
   SetConsoleLogLevel(MUSCLE_LOG_NONE);
   devnull = fopen("/dev/null", "w"); if (!devnull) { fprintf(stderr, "HARNESS-ABORT: /dev/null\n"); return 2; }
   gMeasure = allocmon::active() && !vh::has_opt("nomeasure");
   vh::Ctx & c = vh::ctx(); const std::string mode = vh::opt("mode", "msg");
   if (mode == "regress") { Regress(); Regress2(7); return Done(); }
   if (mode == "deepnest") { for (long k = c.from; k < c.from + c.cases; k++) { vh::begin_case(k); DeepNest(k); } return Done(); }
   if (mode == "parsers") {   // the four Message parsers interleaved (memcheck leg): case k -> family k%5 (msg, tmsg, mini, micro, zcodec), its case k/5
      for (long k = c.from; k < c.from + c.cases; k++) { vh::begin_case(k); static const int pe[5] = {E_MSG, E_TMSG, E_MINI, E_MICRO, E_ZCODEC}; RunCase(pe[k % 5], c.seed, k / 5); }
      return Done();
   }
   int e = -1; for (int i = 0; i < NE; i++) if (mode == ENAME[i]) e = i;
   if (e < 0) { fprintf(stderr, "vh: unknown mode %s\n", mode.c_str()); return 3; }
   BuildSweep(e, c.seed, vh::optl("sweepT", 0), vh::optl("sweepW", 0), vh::optl("sweepCap", 0));
   vh::statmax("max_sweep_cases", gSweepTotal);
   for (long k = c.from; k < c.from + c.cases; k++) { vh::begin_case(k); RunCase(e, c.seed, k); }
   return Done();
}
