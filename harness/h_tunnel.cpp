// h_tunnel -- C12: PacketTunnelIOGateway / MiniPacketTunnelIOGateway over a lossy, duplicating, reordering datagram wire.
// One case = one sender scenario (1-3 senders with distinct source addresses, tunnel kind, slave gateway, zlib level, MTU,
// Message list) + a family of fault scripts applied to the packets the senders produced, each script on a FRESH receiver.
// modes (--opt mode=):
//   exh      exhaustive fault scripts over a window of <= 6 consecutive packets of the merged packet sequence (every subset
//            lost, every permutation, one duplicate at every position; the full product of the three for windows <= 4)
//   sampled  long sequences: identity script + 8 sampled scripts (loss p, duplication p, reorder window w, sender interleaving)
//   stream   perfect transport of another kind: both gateways on a PacketizedProxyDataIO over an in-memory loss-free byte FIFO whose Read()/Write()
//            move a PRNG-chosen number of bytes per call (1..7 often, 0 = would block sometimes, everything sometimes, and deliberately amounts
//            that end inside a 4-byte length prefix); sender and receiver are pumped alternately the way an event loop does; oracle = identity
//   regress  fixed witnesses (the mis-assembly recipes the mutants need) and the documentation examples of the two headers
// Oracle: every delivered Message is byte-identical to a Message sent BY THE SENDER WHOSE ADDRESS IT IS ATTRIBUTED TO; with the
// identity script the delivered list of every sender equals its sent list restricted to the Messages within the gateway's
// limits, in order, exactly once.
#include "iogateway/PacketTunnelIOGateway.h"
#include "iogateway/MiniPacketTunnelIOGateway.h"
#include "iogateway/MessageIOGateway.h"
#include "dataio/PacketDataIO.h"
#include "dataio/PacketizedProxyDataIO.h"
#include "system/SetupSystem.h"
#include "syslog/SysLog.h"
#include <vector>
#include <string>
#include <set>
#include <map>
#include <algorithm>
#include "vh.h"
using namespace muscle;

static vh::Rng g(1);
static uint32_t R(uint32_t n) { return g.R(n); }

static const uint32 TUNNEL_HDR = 24;   // FRAGMENT_HEADER_SIZE of PacketTunnelIOGateway.cpp
static const uint32 MINI_HDR = 12, MINI_CHUNK_HDR = 4;
static const uint32 SLAVE_HDR = 8;     // MessageIOGateway header (body size, encoding) in front of the flattened Message
static const int MAXS = 3;

struct Pkt { std::string bytes; int snd; };
struct Got { std::string bytes; IPAddressAndPort from; int tag; /* 0 no _rl field, 1 equals the attributed source, 2 differs */ };

static bool caseBad;
static std::string curScen, curScript;
static void Fail(const std::string & key, const std::string & why)
{
   if (caseBad) return;
   caseBad = true;
   vh::viol(key, why + " | scenario: " + curScen + " | script: " + curScript);
}

enum { FIT_NO = 0, FIT_YES = 1 };

// ---- the wire
static bool g_oversize;
class SendIO : public PacketDataIO {
public:
   std::vector<Pkt> * out; uint32 mtu; int snd; IPAddressAndPort dest; uint32 holdDen; bool lastHeld; long holds; uint64_t hs;
   SendIO(std::vector<Pkt> * o, uint32 m, int s, uint32 hd, uint64_t seed) : out(o), mtu(m), snd(s), holdDen(hd), lastHeld(false), holds(0), hs(seed) {}
   virtual uint32 GetMaximumPacketSize() const { return mtu; }
   virtual const IPAddressAndPort & GetPacketSendDestination() const { return dest; }
   virtual void SetPacketSendDestination(const IPAddressAndPort & d) { dest = d; }
   virtual io_status_t ReadFrom(void *, uint32, IPAddressAndPort &) { return io_status_t((int32)0); }
   virtual io_status_t WriteTo(const void * b, uint32 size, const IPAddressAndPort &)
   {
      // "If bytesWritten is set to zero, we just hold this buffer until our next call": a full socket buffer, never twice in a row
      if (holdDen && !lastHeld && (vh::mix64(hs++) % holdDen) == 0) { lastHeld = true; holds++; return io_status_t((int32)0); }
      lastHeld = false;
      if (size > mtu) g_oversize = true;
      Pkt p; p.bytes.assign((const char *)b, size); p.snd = snd; out->push_back(p);
      return io_status_t((int32)size);
   }
   virtual void FlushOutput() {} virtual void Shutdown() {}
   virtual const ConstSocketRef & GetReadSelectSocket() const { return GetNullSocket(); }
   virtual const ConstSocketRef & GetWriteSelectSocket() const { return GetNullSocket(); }
};
class RecvIO : public PacketDataIO {
public:
   const std::vector<const Pkt *> * seq; size_t pos; uint32 mtu; const IPAddressAndPort * addr; IPAddressAndPort dest;
   RecvIO(const std::vector<const Pkt *> * s, uint32 m, const IPAddressAndPort * a) : seq(s), pos(0), mtu(m), addr(a) {}
   virtual uint32 GetMaximumPacketSize() const { return mtu; }
   virtual const IPAddressAndPort & GetPacketSendDestination() const { return dest; }
   virtual void SetPacketSendDestination(const IPAddressAndPort & d) { dest = d; }
   virtual io_status_t ReadFrom(void * b, uint32 size, IPAddressAndPort & from)
   {
      if (pos >= seq->size()) return io_status_t((int32)0);
      const Pkt * p = (*seq)[pos++];
      uint32 n = (uint32)std::min((size_t)size, p->bytes.size());
      memcpy(b, p->bytes.data(), n); from = addr[p->snd];
      return io_status_t((int32)n);
   }
   virtual io_status_t WriteTo(const void *, uint32 size, const IPAddressAndPort &) { return io_status_t((int32)size); }
   virtual void FlushOutput() {} virtual void Shutdown() {}
   virtual const ConstSocketRef & GetReadSelectSocket() const { return GetNullSocket(); }
   virtual const ConstSocketRef & GetWriteSelectSocket() const { return GetNullSocket(); }
};
struct Rx : public AbstractGatewayMessageReceiver {
   std::vector<Got> * out;
   virtual void MessageReceivedFromGateway(const MessageRef & m, void * ud)
   {
      Got x; x.tag = 0; if (ud) x.from = *(const IPAddressAndPort *)ud;
      IPAddressAndPort t;
      if (m()->FindFlat(PR_NAME_PACKET_REMOTE_LOCATION, t).IsOK()) { x.tag = (t == x.from) ? 1 : 2; (void)m()->RemoveName(PR_NAME_PACKET_REMOTE_LOCATION); }
      ByteBufferRef b = m()->FlattenToByteBuffer();
      if (b() == NULL) { fprintf(stderr, "HARNESS-ABORT: cannot flatten a received Message\n"); abort(); }
      x.bytes.assign((const char *)b()->GetBuffer(), b()->GetNumBytes());
      out->push_back(x);
   }
};

// guarded setter for the send message-id counter (MUSCLE_VERIF_HOOKS: void VerifSetSendMessageIDCounter(uint32)); detected, so
// the harness compiles against trees with and without it.  Without it the wrap-around is produced on the wire (RebaseIDs).
template<class G> static auto PresetCounter(G & gw, uint32 v, int) -> decltype(gw.VerifSetSendMessageIDCounter(v), bool()) { gw.VerifSetSendMessageIDCounter(v); return true; }
template<class G> static bool PresetCounter(G &, uint32, long) { return false; }
template<class G> static auto PresetPacketCounter(G & gw, uint32 v, int) -> decltype(gw.VerifSetSendPacketIDCounter(v), bool()) { gw.VerifSetSendPacketIDCounter(v); return true; }   // mini tunnel: 24-bit packet id below the compression level byte
template<class G> static bool PresetPacketCounter(G &, uint32, long) { return false; }

// ---- scenario
struct Scen {
   bool mini; int zl; int slave; /* 0 none, 1 MessageIOGateway, 2 zlib-6 MessageIOGateway with independent streams, 3 plain zlib-6 MessageIOGateway (dependent streams) */ uint32 mtu, ctorMtu; int ns; int addrKind;
   IPAddressAndPort addr[MAXS]; uint32 idBase[MAXS]; bool viaSetter[MAXS];
   uint32 maxIncoming; bool flushEach; uint32 holdDen; uint32 outMax, inMax; bool equalSize;
   bool stream; std::vector<MessageRef> msgs;    // mode=stream: one sender, Messages kept for the pump
   std::vector<std::string> sent[MAXS]; std::vector<char> fits[MAXS]; std::vector<Pkt> pk[MAXS];
   std::set<std::string> sentSet[MAXS];
   Scen() : mini(false), zl(0), slave(0), mtu(1500), ctorMtu(1500), ns(1), addrKind(0), maxIncoming(MUSCLE_NO_LIMIT), flushEach(false), holdDen(0), outMax(MUSCLE_NO_LIMIT), inMax(MUSCLE_NO_LIMIT), equalSize(false), stream(false)
   { for (int i = 0; i < MAXS; i++) { idBase[i] = 0; viaSetter[i] = false; } }
   const char * Kind() const { return mini ? (slave ? "mini+slave" : "mini") : (slave == 3 ? "tunnel+slavezlibdep" : (slave == 2 ? "tunnel+slavezlib" : (slave ? "tunnel+slave" : "tunnel"))); }
   std::string Describe() const
   {
      std::string s = vh::fmt("%s%s zlib=%d slave=%d mtu=%u(ctor %u) senders=%d addrKind=%d maxIncoming=%u flushEach=%d hold=1/%u equalSize=%d;", stream ? "stream:" : "", Kind(), zl, slave, mtu, ctorMtu, ns, addrKind, maxIncoming, (int)flushEach, holdDen, (int)equalSize);
      for (int i = 0; i < ns; i++) {
         s += vh::fmt(" S%d[idBase=%u%s pkts=%zu sizes=", i, idBase[i], viaSetter[i] ? "(setter)" : "", pk[i].size());
         for (size_t k = 0; k < sent[i].size() && k < 12; k++) s += vh::fmt("%zu%s,", sent[i][k].size(), fits[i][k] ? "" : "!");
         if (sent[i].size() > 12) s += vh::fmt("...(%zu)", sent[i].size());
         s += "]";
      }
      return s;
   }
};

// MessageIOGateway.h, AreOutgoingMessagesIndependent(): over a transport where the receiver cannot re-inflate in FIFO order (loss, reordering,
// several sources) the user reimplements this method to return true -- the documented way to put a zlib gateway behind a packet tunnel
class IndependentZLibGateway : public MessageIOGateway {
public:
   IndependentZLibGateway() : MessageIOGateway(MUSCLE_MESSAGE_ENCODING_ZLIB_6) {}
   virtual bool AreOutgoingMessagesIndependent() const { return true; }
};
static AbstractMessageIOGatewayRef MakeSlave(int slave)
{
   if (slave == 0) return AbstractMessageIOGatewayRef();
   if (slave == 1) return AbstractMessageIOGatewayRef(new MessageIOGateway(MUSCLE_MESSAGE_ENCODING_DEFAULT));
   if (slave == 2) return AbstractMessageIOGatewayRef(new IndependentZLibGateway);
   return AbstractMessageIOGatewayRef(new MessageIOGateway(MUSCLE_MESSAGE_ENCODING_ZLIB_6));   // FIFO re-inflation assumed: one source, nothing lost (identity script only)
}

// exact flattened size T (12 = empty Message, otherwise >= 27): one int8-array or raw field "d"
static MessageRef MakeMsg(uint32 what, uint32 T, int content, uint32 salt)
{
   MessageRef m = GetMessageFromPool(what);
   if (m() == NULL) { fprintf(stderr, "HARNESS-ABORT: no Message\n"); abort(); }
   uint32 want = 12;
   if (T >= 27) {
      const bool raw = (T >= 35) && ((salt >> 3) & 1);
      const uint32 n = T - (raw ? 34 : 26); want = T;
      std::string p(n, '\0');
      for (uint32 i = 0; i < n; i++) {
         if (content == 0) p[i] = (char)g.next();
         else if (content == 1) p[i] = (char)('a' + ((i / 9 + salt) % 23));
         else p[i] = (char)((i == salt % n || i == (salt * 7 + 3) % n) ? (salt | 1) : 0x55);
      }
      if (m()->AddData("d", raw ? B_RAW_TYPE : B_INT8_TYPE, p.data(), n).IsError()) { fprintf(stderr, "HARNESS-ABORT: AddData\n"); abort(); }
   }
   if (m()->FlattenedSize() != want) { fprintf(stderr, "HARNESS-ABORT: Message of %u bytes where %u were planned\n", m()->FlattenedSize(), want); abort(); }
   return m;
}

struct Chunk { uint32 id, off, size, total; size_t hdrAt; };
static bool ParseTunnelPacket(const std::string & b, std::vector<Chunk> & out)
{
   size_t at = 0;
   while (at + TUNNEL_HDR <= b.size()) {
      const uint8 * p = (const uint8 *)b.data() + at;
      Chunk c; c.hdrAt = at; c.id = DefaultEndianConverter::Import<uint32>(p + 8); c.off = DefaultEndianConverter::Import<uint32>(p + 12); c.size = DefaultEndianConverter::Import<uint32>(p + 16); c.total = DefaultEndianConverter::Import<uint32>(p + 20);
      if (at + TUNNEL_HDR + c.size > b.size()) return false;
      out.push_back(c); at += TUNNEL_HDR + c.size;
   }
   return at == b.size();
}
// what a sender whose counter was preset to (base) writes: the same packets with every message id moved by base (mod 2^32)
static long RebaseIDs(std::vector<Pkt> & pk, uint32 base)
{
   long wrapped = 0;
   for (size_t i = 0; i < pk.size(); i++) {
      std::vector<Chunk> cs;
      if (!ParseTunnelPacket(pk[i].bytes, cs)) { fprintf(stderr, "HARNESS-ABORT: cannot parse a tunnel packet the sender wrote\n"); abort(); }
      for (size_t k = 0; k < cs.size(); k++) { uint32 nid = cs[k].id + base; if (nid < base && cs[k].off == 0) wrapped++; DefaultEndianConverter::Export(nid, (uint8 *)&pk[i].bytes[cs[k].hdrAt + 8]); }
   }
   return wrapped;
}

static void RunSender(Scen & sc, int s, const std::vector<MessageRef> & msgs)
{
   SendIO io(&sc.pk[s], sc.mtu, s, sc.holdDen, g.next());
   AbstractMessageIOGatewayRef gw;
   if (sc.mini) { MiniPacketTunnelIOGateway * mg = new MiniPacketTunnelIOGateway(MakeSlave(sc.slave), sc.ctorMtu); gw.SetRef(mg); if (sc.zl) mg->SetZLibCompressionLevel((uint8)sc.zl); if (sc.viaSetter[s] && !PresetPacketCounter(*mg, sc.idBase[s], 0)) { sc.viaSetter[s] = false; sc.idBase[s] = 0; } }
   else {
      PacketTunnelIOGateway * tg = new PacketTunnelIOGateway(MakeSlave(sc.slave), sc.ctorMtu); gw.SetRef(tg);
      if (sc.viaSetter[s]) { if (!PresetCounter(*tg, sc.idBase[s], 0)) sc.viaSetter[s] = false; }
   }
   gw()->SetDataIO(DummyDataIORef(io));
   for (size_t i = 0; i < msgs.size() && !caseBad; i++) {
      if (gw()->AddOutgoingMessage(msgs[i]).IsError()) { fprintf(stderr, "HARNESS-ABORT: AddOutgoingMessage\n"); abort(); }
      if (sc.flushEach || i + 1 == msgs.size()) {
         // the way an event loop drives a gateway: DoOutput() only while HasBytesToOutput(); a Write() that returned 0 is retried by the next DoOutput()
         int idle = 0;
         while (gw()->HasBytesToOutput()) {
            const size_t before = sc.pk[s].size(); const long h = io.holds; const bool heldBefore = io.lastHeld;
            io_status_t r = gw()->DoOutput(sc.outMax);
            if (r.IsError()) { Fail(std::string("sender|DoOutput_error|") + sc.Kind(), vh::fmt("DoOutput returned %s with Messages pending", r.GetStatus()())); break; }
            if (sc.pk[s].size() == before && io.holds == h && gw()->HasBytesToOutput()) { if (++idle >= 3) { Fail(std::string("sender|stalled|") + sc.Kind(), vh::fmt("DoOutput wrote nothing 3 times in a row while HasBytesToOutput() (Message %zu of sender %d)", i, s)); break; } } else idle = 0;
            if (heldBefore && sc.pk[s].size() > before && !gw()->HasBytesToOutput()) vh::stat("held_packets_flushed_via_HasBytesToOutput");   // the held packet was the last thing to send
         }
         // a packet the transport refused must keep HasBytesToOutput() true until it has been written
         if (!caseBad && io.lastHeld) Fail(std::string("held_packet_not_announced_by_HasBytesToOutput|") + sc.Kind(), vh::fmt("HasBytesToOutput() is false although the last Write() returned 0 and the packet was never written (Message %zu of sender %d)", i, s));
      }
   }
   gw()->SetDataIO(DataIORef());
   vh::stat("write_holds", io.holds);
}

static bool RunReceiver(const Scen & sc, const std::vector<const Pkt *> & seq, std::vector<Got> & got)
{
   RecvIO io(&seq, sc.mtu, sc.addr); Rx rx; rx.out = &got;
   AbstractMessageIOGatewayRef gw;
   if (sc.mini) gw.SetRef(new MiniPacketTunnelIOGateway(MakeSlave(sc.slave), sc.ctorMtu));
   else { PacketTunnelIOGateway * tg = new PacketTunnelIOGateway(MakeSlave(sc.slave), sc.ctorMtu); tg->SetMaxIncomingMessageSize(sc.maxIncoming); gw.SetRef(tg); }
   gw()->SetDataIO(DummyDataIORef(io));
   bool ok = true;
   while (io.pos < seq.size()) {
      const size_t before = io.pos;
      io_status_t r = gw()->DoInput(rx, sc.inMax);
      if (r.IsError()) { Fail(std::string("receiver|DoInput_error|") + sc.Kind(), vh::fmt("DoInput returned %s at packet %zu", r.GetStatus()(), io.pos)); ok = false; break; }
      if (io.pos == before) { Fail(std::string("receiver|stalled|") + sc.Kind(), "DoInput read no packet although one was available"); ok = false; break; }
   }
   gw()->SetDataIO(DataIORef());
   return ok;
}

// the oracle for one script
static long g_lostToFaults, g_dupDeliveries;
static void Judge(const Scen & sc, const std::vector<Got> & got, bool identity)
{
   std::vector<std::vector<const std::string *> > per(sc.ns);
   for (size_t i = 0; i < got.size() && !caseBad; i++) {
      int s = -1; for (int k = 0; k < sc.ns; k++) if (sc.addr[k] == got[i].from) s = k;
      if (s < 0) { Fail(std::string("attributed_to_unknown_source|") + sc.Kind(), vh::fmt("delivered Message %zu (%zu bytes) attributed to %s", i, got[i].bytes.size(), got[i].from.ToString()())); return; }
      if (!sc.sentSet[s].count(got[i].bytes)) {
         int other = -1; for (int k = 0; k < sc.ns; k++) if (sc.sentSet[k].count(got[i].bytes)) other = k;
         const std::string why = (other >= 0) ? vh::fmt("delivered Message %zu (%zu bytes) is attributed to sender %d but was sent by sender %d only", i, got[i].bytes.size(), s, other)
                                              : vh::fmt("delivered Message %zu (%zu bytes, attributed to sender %d) equals no sent Message: %s", i, got[i].bytes.size(), s, vh::hex(got[i].bytes.data(), got[i].bytes.size(), 96).c_str());
         Fail(std::string(other >= 0 ? "wrong_sender|" : "never_sent|") + sc.Kind(), why);
         return;
      }
      if (got[i].tag == 2) { Fail(std::string("remote_location_tag_differs_from_source|") + sc.Kind(), vh::fmt("delivered Message %zu", i)); return; }
      per[s].push_back(&got[i].bytes);
   }
   if (caseBad) return;
   long expectTotal = 0;
   for (int s = 0; s < sc.ns; s++) {
      std::vector<const std::string *> want;
      for (size_t k = 0; k < sc.sent[s].size(); k++) if (sc.fits[s][k]) want.push_back(&sc.sent[s][k]);
      expectTotal += (long)want.size();
      if (!identity) { std::map<std::string, long> c; for (size_t k = 0; k < sc.sent[s].size(); k++) c[sc.sent[s][k]]++; for (size_t k = 0; k < per[s].size(); k++) if (--c[*per[s][k]] < 0) { g_dupDeliveries++; break; } continue; }
      bool same = per[s].size() == want.size(); for (size_t k = 0; same && k < want.size(); k++) if (*want[k] != *per[s][k]) same = false;   // in order, exactly once
      if (same) continue;
      std::map<std::string, long> c; for (size_t k = 0; k < want.size(); k++) c[*want[k]]++; for (size_t k = 0; k < per[s].size(); k++) c[*per[s][k]]--;
      long missing = 0, extra = 0; size_t firstMissing = 0; for (std::map<std::string, long>::const_iterator it = c.begin(); it != c.end(); ++it) { if (it->second > 0) { if (!missing) firstMissing = it->first.size(); missing += it->second; } if (it->second < 0) extra -= it->second; }
      const char * what = missing ? "message_lost" : (extra ? "delivered_more_than_once" : "order");
      Fail(std::string("identity|") + what + "|" + sc.Kind(), vh::fmt("sender %d: %zu Messages sent within the limits, %zu delivered (missing %ld, e.g. one of %zu bytes; extra %ld)", s, want.size(), per[s].size(), missing, firstMissing, extra));
      return;
   }
   if (!identity && (long)got.size() < expectTotal) g_lostToFaults += expectTotal - (long)got.size();
}

// ---- scenario generation
// wire invariant of the mini tunnel: a packet whose header says "not deflated" does not start with a ZLibCodec header
static bool MiniPacketMislabelled(const std::string & b)
{
   if (b.size() < 16) return false;
   const uint8 * p = (const uint8 *)b.data(); const uint32 lvl = DefaultEndianConverter::Import<uint32>(p + 8) >> 24, first = DefaultEndianConverter::Import<uint32>(p + 12);
   return lvl == 0 && (first == 2053925218u || first == 2053925219u);
}

static uint32 PickMTU(bool mini, bool & named)
{
   static const uint32 tl[] = {25, 26, 27, 28, 29, 32, 48, 49, 64, 65, 100, 128, 256, 576, 1168, 1388, 1500};
   static const uint32 ml[] = {17, 18, 19, 28, 29, 30, 40, 41, 64, 65, 100, 128, 256, 576, 1168, 1388, 1500};
   named = R(3) != 0;
   if (named) return mini ? ml[R(sizeof(ml) / sizeof(ml[0]))] : tl[R(sizeof(tl) / sizeof(tl[0]))];
   const uint32 lo = mini ? 17 : 25;
   switch (R(3)) { case 0: return lo + R(40); case 1: return lo + R(300); default: return lo + R(1500 - lo + 1); }
}

static void Generate(Scen & sc, bool small)
{
   sc.mini = R(3) == 0;
   sc.slave = (R(4) == 0) ? (sc.mini ? 1 : 1 + (int)R(3)) : 0;
   sc.zl = sc.mini ? (R(2) ? 6 : (R(4) == 0 ? (R(2) ? 1 : 9) : 0)) : 0;
   bool named; sc.mtu = PickMTU(sc.mini, named); sc.ctorMtu = sc.mtu;
   const uint32 minMtu = sc.mini ? 17 : 25;
   if (sc.mtu == minMtu && R(3) == 0) { static const uint32 below[] = {0, 1, 16, 24}; sc.ctorMtu = below[R(4)]; if (sc.ctorMtu >= minMtu) sc.ctorMtu = 0; vh::stat("cases_ctor_mtu_below_minimum"); }
   if (sc.mtu == minMtu) vh::stat("cases_mtu_min"); else if (sc.mtu == minMtu + 1) vh::stat("cases_mtu_min_plus_1"); else if (sc.mtu == minMtu + 2) vh::stat("cases_mtu_min_plus_2");
   if (sc.mtu == 64) vh::stat("cases_mtu_64"); if (sc.mtu == 1500) vh::stat("cases_mtu_1500");
   sc.ns = 1 + (int)R(3);
   if (sc.slave == 3) sc.ns = 1;                                    // dependent deflate streams: one source, in order, nothing lost
   if (sc.stream) sc.ns = 1;
   sc.addrKind = (int)R(4);
   for (int s = 0; s < sc.ns; s++) {
      switch (sc.addrKind) {
      case 0: sc.addr[s] = IPAddressAndPort(IPAddress((uint64)0x7f000001 + s, 0), 4000); break;             // IPs differ, same port
      case 1: sc.addr[s] = IPAddressAndPort(IPAddress((uint64)0x7f000001, 0), (uint16)(4000 + s)); break;   // same IP, ports differ
      case 2: sc.addr[s] = IPAddressAndPort(IPAddress((uint64)0x11, (uint64)0xfe80000000000000ULL + s), 4000); break;   // only the high 64 bits differ
      default: sc.addr[s] = IPAddressAndPort(IPAddress((uint64)0x11, (uint64)0xfe80000000000000ULL, (uint32)(1 + s)), 4000); break;   // only the interface index differs
      }
   }
   if (sc.stream) sc.addr[0] = IPAddressAndPort();                   // a stream has no packet source: the gateways report the default address
   sc.flushEach = R(4) == 0;
   sc.holdDen = (R(5) == 0) ? 2 + R(6) : 0;
   sc.outMax = R(4) == 0 ? 1 : MUSCLE_NO_LIMIT;
   sc.inMax = R(4) == 0 ? 1 : MUSCLE_NO_LIMIT;
   sc.equalSize = R(2) == 0;

   const uint32 cap = sc.mini ? (sc.mtu > 16 ? sc.mtu - 16 : 1) : sc.mtu - TUNNEL_HDR;    // payload bytes of one packet
   const uint32 enc = sc.slave ? SLAVE_HDR : 0;
   const long budget = small ? 36 : (long)(40 + R(500));                                   // estimated packets of the whole case
   long est = 0;
   uint32 fixedT = 0;
   std::vector<uint32> allSizes;
   for (int s = 0; s < sc.ns; s++) {
      std::vector<MessageRef> msgs;
      const int nm = small ? 1 + (int)R(4) : 1 + (int)R(R(3) == 0 ? 40 : 10);
      const int content = (sc.zl || sc.slave >= 2) ? (R(3) ? 1 : (int)R(3)) : (R(4) ? 0 : 1 + (int)R(2));
      for (int i = 0; i < nm; i++) {
         uint32 T;
         if (sc.equalSize && fixedT) T = fixedT;
         else {
            const uint32 big = small ? 4 * cap : std::min<uint32>(20 * sc.mtu, 30000);
            switch (R(8)) {
            case 0: T = 12; break;
            case 1: T = 27 + R(20); break;
            case 2: { uint32 kk = 1 + R(small ? 3 : 6); T = kk * cap - enc + (R(3) - 1); } break;         // packet-capacity boundary: k*cap-1, k*cap, k*cap+1
            case 3: T = cap > enc ? cap - enc - R(3) : 12; break;                                         // exact fit of one packet (the mini tunnel's limit) and just below
            case 4: case 5: T = 27 + R(std::max<uint32>(cap, 30)); break;
            case 6: T = 27 + R(std::max<uint32>(3 * cap, 30)); break;
            default: T = 27 + R(big); break;
            }
            if ((int32)T < 27) T = 12;
            if (sc.mini && T + enc > cap && cap >= enc + 12 && R(4)) T = 12 + R(cap - enc - 12 + 1);   // the mini tunnel carries nothing larger than one packet: mostly stay within
            if (T > 12 && T < 27) T = 12;
            if (small && T > 27 && (T + enc) / cap > 12) T = 27 + R(8 * cap);
            if (sc.equalSize) fixedT = T;
         }
         const long cost = sc.mini ? 1 : (long)((T + enc + cap - 1) / cap);
         if (i > 0 && est + cost > budget) break;
         est += cost;
         const uint32 what = (R(6) == 0) ? 7 : (uint32)((s + 1) << 24) + (uint32)i;
         MessageRef m = MakeMsg(what, T, R(4) == 0 ? (int)R(3) : content, (uint32)g.next());
         msgs.push_back(m);
         ByteBufferRef b = m()->FlattenToByteBuffer();
         sc.sent[s].push_back(std::string((const char *)b()->GetBuffer(), b()->GetNumBytes()));
         allSizes.push_back(T);
      }
      // limits: the mini tunnel carries a buffer only if header + chunk header + buffer fit one packet
      for (size_t i = 0; i < sc.sent[s].size(); i++) sc.fits[s].push_back(sc.mini ? (MINI_HDR + MINI_CHUNK_HDR + enc + sc.sent[s][i].size() <= std::max<uint32>(sc.mtu, 17)) : 1);
      if (!sc.mini && R(3) == 0) { sc.idBase[s] = R(2) ? (uint32)(0xFFFFFFFFu - R((uint32)msgs.size() + 2)) : (uint32)g.next(); sc.viaSetter[s] = R(2) == 0; }
      if (sc.mini && R(3) == 0) { sc.idBase[s] = 0xFFFFFFu - R((uint32)msgs.size() + 2); sc.viaSetter[s] = true; }
      if (sc.stream) { sc.msgs = msgs; sc.viaSetter[s] = sc.idBase[s] != 0; sc.sentSet[s].insert(sc.sent[s].begin(), sc.sent[s].end()); continue; }
      RunSender(sc, s, msgs);
      if (caseBad) return;
      if (!sc.mini && sc.idBase[s] && !sc.viaSetter[s]) { long w = RebaseIDs(sc.pk[s], sc.idBase[s]); if (w) vh::stat("messages_sent_after_id_wraparound", w); vh::stat("senders_with_rebased_ids"); }
      else if (sc.viaSetter[s] && !sc.mini) {
         vh::stat("senders_with_counter_preset_by_setter"); long w = 0;
         for (size_t i = 0; i < sc.pk[s].size(); i++) { std::vector<Chunk> cs; (void)ParseTunnelPacket(sc.pk[s][i].bytes, cs); for (size_t q = 0; q < cs.size(); q++) { if (i == 0 && q == 0 && cs[q].id != sc.idBase[s]) { fprintf(stderr, "HARNESS-ABORT: the counter setter had no effect\n"); abort(); } if (cs[q].off == 0 && cs[q].id < sc.idBase[s]) w++; } }
         if (w) { vh::stat("messages_sent_after_id_wraparound", w); vh::stat("messages_sent_after_id_wraparound_by_setter", w); }
      }
      else if (sc.viaSetter[s] && sc.mini) {
         vh::stat("mini_senders_with_packet_id_preset");
         for (size_t i = 0; i < sc.pk[s].size(); i++) if (sc.pk[s][i].bytes.size() >= 12 && (DefaultEndianConverter::Import<uint32>((const uint8 *)sc.pk[s][i].bytes.data() + 8) & 0xFFFFFF) < sc.idBase[s]) vh::stat("mini_packets_sent_after_packet_id_wraparound");
      }
      sc.sentSet[s].insert(sc.sent[s].begin(), sc.sent[s].end());
      if (sc.mini && sc.zl) for (size_t i = 0; i < sc.pk[s].size(); i++) if (MiniPacketMislabelled(sc.pk[s][i].bytes)) { Fail("mini_zlib_held_packet_header_says_uncompressed", vh::fmt("packet %zu of sender %d is deflated but its header says level 0", i, s)); return; }
   }
   // receiver-side size limit (no slave gateway: the tunnel-level buffer is the flattened Message)
   if (!sc.mini && sc.slave == 0 && allSizes.size() > 1 && R(8) == 0) {
      sc.maxIncoming = allSizes[R((uint32)allSizes.size())];
      for (int s = 0; s < sc.ns; s++) for (size_t i = 0; i < sc.sent[s].size(); i++) if (sc.sent[s][i].size() > sc.maxIncoming) sc.fits[s][i] = FIT_NO;
      vh::stat("cases_with_max_incoming_size");
   }
   if (g_oversize) Fail(std::string("sender|packet_larger_than_mtu|") + sc.Kind(), "a packet larger than the MTU was written");
}

static void Observe(const Scen & sc, bool & multiFrag, bool & multiChunk)
{
   multiFrag = multiChunk = false;
   vh::stat(std::string("cases_kind_") + sc.Kind()); vh::stat(vh::fmt("cases_senders_%d", sc.ns));
   if (sc.mini && sc.zl) vh::stat("cases_mini_zlib");
   if (sc.equalSize) vh::stat("cases_equal_size_messages");
   long npk = 0;
   for (int s = 0; s < sc.ns; s++) {
      npk += (long)sc.pk[s].size();
      for (size_t i = 0; i < sc.fits[s].size(); i++) { vh::stat("messages_sent"); if (!sc.fits[s][i]) vh::stat("messages_beyond_gateway_limits"); else if (sc.mini && MINI_HDR + MINI_CHUNK_HDR + (sc.slave ? SLAVE_HDR : 0) + sc.sent[s][i].size() == sc.mtu) vh::stat("mini_messages_fitting_the_mtu_exactly"); }
      if (!sc.mini) for (size_t i = 0; i < sc.pk[s].size(); i++) {
         std::vector<Chunk> cs; (void)ParseTunnelPacket(sc.pk[s][i].bytes, cs);
         if (cs.size() > 1) { multiChunk = true; vh::stat("tunnel_packets_with_several_chunks"); }
         for (size_t k = 0; k < cs.size(); k++) { if (cs[k].size < cs[k].total) { multiFrag = true; if (cs[k].off == 0) vh::stat("tunnel_messages_fragmented"); } if (cs[k].off + cs[k].size == cs[k].total && sc.pk[s][i].bytes.size() == sc.mtu && k + 1 == cs.size()) vh::stat("tunnel_messages_ending_exactly_at_packet_end"); }
      }
      else for (size_t i = 0; i < sc.pk[s].size(); i++) { const uint8 * p = (const uint8 *)sc.pk[s][i].bytes.data(); if (sc.pk[s][i].bytes.size() >= 12 && (DefaultEndianConverter::Import<uint32>(p + 8) >> 24)) vh::stat("mini_packets_deflated"); }
   }
   if (sc.mini) { long fit = 0; for (int s = 0; s < sc.ns; s++) for (size_t i = 0; i < sc.fits[s].size(); i++) fit += sc.fits[s][i] ? 1 : 0; if (fit > npk) { multiChunk = true; vh::stat("mini_cases_with_several_chunks_per_packet"); } }
   vh::stat("packets_sent", npk); vh::statmax("max_packets_in_a_case", npk);
}

// merged packet sequence: per-sender order kept, interleaving random
static void Merge(const Scen & sc, std::vector<const Pkt *> & base)
{
   size_t idx[MAXS] = {0, 0, 0};
   const int style = (int)R(3);   // 0 random, 1 round robin, 2 sender after sender
   int rr = 0;
   for (;;) {
      int av[MAXS], n = 0; for (int s = 0; s < sc.ns; s++) if (idx[s] < sc.pk[s].size()) av[n++] = s;
      if (!n) break;
      int s = style == 0 ? av[R(n)] : (style == 1 ? av[rr++ % n] : av[0]);
      base.push_back(&sc.pk[s][idx[s]++]);
   }
}

static bool RunScript(const Scen & sc, const std::vector<const Pkt *> & seq, bool identity)
{
   std::vector<Got> got;
   vh::stat("fault_scripts"); if (identity) vh::stat("identity_scripts");
   if (!RunReceiver(sc, seq, got)) return false;
   vh::stat("messages_delivered", (long)got.size()); if (!identity) vh::stat("messages_delivered_under_faults", (long)got.size());
   Judge(sc, got, identity);
   return !caseBad;
}

static std::string ShowOrder(const std::vector<int> & o) { std::string s = "["; for (size_t i = 0; i < o.size() && i < 80; i++) s += vh::fmt("%d ", o[i]); if (o.size() > 80) s += "..."; return s + "]"; }

static void CaseExhaustive(long k, uint64_t cs)
{
   g = vh::Rng(cs); caseBad = false; g_oversize = false; curScript = "(sending)"; curScen = "";
   Scen sc; Generate(sc, true); curScen = sc.Describe();
   if (caseBad) return;
   bool mf, mc; Observe(sc, mf, mc);
   std::vector<const Pkt *> base; Merge(sc, base);
   const int L = (int)base.size();
   curScript = "identity"; { std::vector<const Pkt *> seq(base); if (!RunScript(sc, seq, true)) return; }
   if (L == 0 || sc.slave == 3) { if (sc.slave == 3) vh::stat("cases_dependent_zlib_slave_identity_only"); vh::distinct(vh::fnvs(curScen, vh::fnv(&cs, sizeof(cs))), false); return; }
   const int n = std::min(L, 3 + (int)R(4));                 // window 3..6 (or the whole sequence)
   const int w0 = (int)R((uint32)(L - n + 1));
   if (L <= 6) vh::stat("cases_whole_sequence_exhaustive");
   long scripts = 0;
   std::vector<int> order;
   struct Apply { static bool Go(const Scen & sc, const std::vector<const Pkt *> & base, int w0, int n, const std::vector<int> & order, const char * kind) {
      std::vector<const Pkt *> seq(base.begin(), base.begin() + w0);
      bool ident = (int)order.size() == n; for (size_t i = 0; i < order.size(); i++) { seq.push_back(base[w0 + order[i]]); if (order[i] != (int)i) ident = false; }
      seq.insert(seq.end(), base.begin() + w0 + n, base.end());
      curScript = vh::fmt("%s window@%d n=%d of %zu order=", kind, w0, n, base.size()) + ShowOrder(order);
      return RunScript(sc, seq, ident); } };
   // every subset lost
   for (uint32 mask = 0; mask < (1u << n) && !caseBad; mask++) { order.clear(); for (int i = 0; i < n; i++) if (mask & (1u << i)) order.push_back(i); scripts++; vh::stat("scripts_loss_subset"); Apply::Go(sc, base, w0, n, order, "loss"); }
   // every permutation
   if (!caseBad) { order.clear(); for (int i = 0; i < n; i++) order.push_back(i); do { scripts++; vh::stat("scripts_permutation"); Apply::Go(sc, base, w0, n, order, "perm"); } while (!caseBad && std::next_permutation(order.begin(), order.end())); }
   // one duplicate at every position
   for (int d = 0; d < n && !caseBad; d++) for (int at = 0; at <= n && !caseBad; at++) { order.clear(); for (int i = 0; i < n; i++) order.push_back(i); order.insert(order.begin() + at, d); scripts++; vh::stat("scripts_one_duplicate"); Apply::Go(sc, base, w0, n, order, "dup"); }
   // the full product loss x permutation x one duplicate for windows <= 4
   if (n <= 4 && !caseBad) {
      vh::stat("cases_with_full_product");
      for (uint32 mask = 1; mask < (1u << n) && !caseBad; mask++) {
         std::vector<int> el; for (int i = 0; i < n; i++) if (mask & (1u << i)) el.push_back(i);
         do {
            for (int d = 0; d < (int)el.size() && !caseBad; d++) for (int at = 0; at <= (int)el.size() && !caseBad; at++) { order = el; order.insert(order.begin() + at, el[d]); scripts++; vh::stat("scripts_product"); Apply::Go(sc, base, w0, n, order, "loss*perm*dup"); }
         } while (!caseBad && std::next_permutation(el.begin(), el.end()));
      }
   }
   vh::statmax("max_scripts_in_a_case", scripts);
   vh::distinct(vh::fnvs(curScen, vh::fnv(&cs, sizeof(cs))), (mf || mc) && L >= 2);
   if (vh::want_sample()) vh::sample(vh::fmt("case %ld: %ld scripts on window@%d n=%d of %d packets; ", k, scripts, w0, n, L) + curScen);
}

static void CaseSampled(long k, uint64_t cs)
{
   g = vh::Rng(cs); caseBad = false; g_oversize = false; curScript = "(sending)"; curScen = "";
   Scen sc; Generate(sc, false); curScen = sc.Describe();
   if (caseBad) return;
   bool mf, mc; Observe(sc, mf, mc);
   { std::vector<const Pkt *> base; Merge(sc, base); curScript = "identity"; if (!RunScript(sc, base, true)) return; }
   if (sc.slave == 3) vh::stat("cases_dependent_zlib_slave_identity_only");
   for (int rep = 0; rep < 8 && !caseBad && sc.slave != 3; rep++) {
      std::vector<const Pkt *> base; Merge(sc, base);
      static const uint32 lossDen[] = {0, 40, 12, 4, 2}, dupDen[] = {0, 30, 8, 3};
      const uint32 ld = lossDen[R(5)], dd = dupDen[R(4)]; const uint32 win = R(3) == 0 ? 0 : (R(2) ? 1 + R(3) : 1 + R(40)); const uint32 moveDen = 1 + R(6);
      std::vector<std::pair<uint32, const Pkt *> > keyed;
      for (size_t i = 0; i < base.size(); i++) {
         if (ld && R(ld) == 0) continue;
         keyed.push_back(std::make_pair((uint32)(2 * i + ((win && R(moveDen) == 0) ? 2 * R(win + 1) + 1 : 0)), base[i]));
         if (dd && R(dd) == 0) keyed.push_back(std::make_pair((uint32)(2 * i + 1 + 2 * R(win + 2)), base[i]));
      }
      std::stable_sort(keyed.begin(), keyed.end(), [](const std::pair<uint32, const Pkt *> & a, const std::pair<uint32, const Pkt *> & b) { return a.first < b.first; });
      std::vector<const Pkt *> seq; for (size_t i = 0; i < keyed.size(); i++) seq.push_back(keyed[i].second);
      const bool ident = (seq == base);
      curScript = vh::fmt("sampled rep=%d loss=1/%u dup=1/%u window=%u move=1/%u -> %zu of %zu packets", rep, ld, dd, win, moveDen, seq.size(), base.size());
      vh::stat("scripts_sampled");
      RunScript(sc, seq, ident);
   }
   size_t L = 0; for (int s = 0; s < sc.ns; s++) L += sc.pk[s].size();
   vh::distinct(vh::fnvs(curScen, vh::fnv(&cs, sizeof(cs))), (mf || mc) && L >= 2);
   if (vh::want_sample()) vh::sample(vh::fmt("case %ld: ", k) + curScen);
}

// ---- mode=stream: the tunnel gateways on PacketizedProxyDataIO over a chopped byte stream
struct Fifo {
   std::string buf; size_t rd; std::vector<size_t> starts;    // starts: absolute offsets of the 4-byte length prefixes
   uint32 hdrHave; uint8 hdr[4]; uint32 payloadLeft;
   Fifo() : rd(0), hdrHave(0), payloadLeft(0) {}
   void Append(const uint8 * p, uint32 n) {
      for (uint32 i = 0; i < n; i++) {
         if (payloadLeft) payloadLeft--;
         else { if (hdrHave == 0) starts.push_back(buf.size() + i); hdr[hdrHave++] = p[i]; if (hdrHave == 4) { payloadLeft = DefaultEndianConverter::Import<uint32>(hdr); hdrHave = 0; } }
      }
      buf.append((const char *)p, n);
   }
   int PrefixPos(size_t off) const {      // 0..3 when (off) lies in a length prefix (known so far), else -1
      std::vector<size_t>::const_iterator it = std::upper_bound(starts.begin(), starts.end(), off);
      if (it == starts.begin()) return -1; const size_t st = *(it - 1); return off - st < 4 ? (int)(off - st) : -1; }
   int WritePrefixPos() const { return payloadLeft ? -1 : (int)hdrHave; }   // where the next appended byte falls
};
struct Chop { vh::Rng r; int temper; uint32 zeroDen; std::vector<int> script; size_t scriptAt; bool lastZero[2]; long zeros;
   Chop(uint64_t seed) : r(seed), temper(0), zeroDen(0), scriptAt(0), zeros(0) { lastZero[0] = lastZero[1] = false; }
   // dir 0 = read, 1 = write; k = position inside a length prefix or -1
   uint32 Pick(int dir, uint32 avail, int k) {
      if (avail == 0) return 0;
      if (scriptAt < script.size()) { int v = script[scriptAt++]; return v < 0 ? avail : std::min<uint32>((uint32)v, avail); }
      if (zeroDen && !lastZero[dir] && r.R(zeroDen) == 0) { lastZero[dir] = true; zeros++; return 0; }
      lastZero[dir] = false;
      uint32 n;
      if (k >= 0 && k <= 2 && r.R(2)) n = 1 + r.R(3 - k);                     // end inside the prefix: 1/3, 2/2, 3/1 splits
      else switch (temper) {
         case 0: n = 1 + r.R(7); break;
         case 1: n = r.R(3) ? 1 + r.R(7) : (r.R(2) ? avail : 1 + r.R(avail)); break;
         case 2: n = r.R(4) ? avail : 1 + r.R(avail); break;
         default: n = 1 + r.R(avail); break;
      }
      return std::min(n, avail);
   } };
static long g_splitR[4], g_splitW[4];
class StreamIO : public DataIO {
public:
   Fifo * in, * out; Chop * chop; long calls;
   StreamIO(Fifo * i, Fifo * o, Chop * c) : in(i), out(o), chop(c), calls(0) {}
   virtual io_status_t Read(void * b, uint32 size) {
      calls++; if (!in) return io_status_t((int32)0);
      const uint32 avail = (uint32)std::min<size_t>(size, in->buf.size() - in->rd);
      const uint32 n = chop->Pick(0, avail, in->PrefixPos(in->rd));
      if (n) { memcpy(b, in->buf.data() + in->rd, n); in->rd += n; const int k = in->PrefixPos(in->rd); if (k >= 1 && k <= 3) g_splitR[k]++; }
      return io_status_t((int32)n); }
   virtual io_status_t Write(const void * b, uint32 size) {
      calls++; if (!out) return io_status_t((int32)size);
      const uint32 n = chop->Pick(1, size, out->WritePrefixPos());
      if (n) { out->Append((const uint8 *)b, n); const int k = out->WritePrefixPos(); if (k >= 1 && k <= 3) g_splitW[k]++; }
      return io_status_t((int32)n); }
   virtual void FlushOutput() {} virtual void Shutdown() {}
   virtual const ConstSocketRef & GetReadSelectSocket() const { return GetNullSocket(); }
   virtual const ConstSocketRef & GetWriteSelectSocket() const { return GetNullSocket(); }
};
static AbstractMessageIOGatewayRef MakeTunnelGateway(const Scen & sc, bool sender)
{
   AbstractMessageIOGatewayRef gw;
   if (sc.mini) { MiniPacketTunnelIOGateway * mg = new MiniPacketTunnelIOGateway(MakeSlave(sc.slave), sc.ctorMtu); gw.SetRef(mg); if (sender && sc.zl) mg->SetZLibCompressionLevel((uint8)sc.zl); if (sender && sc.viaSetter[0]) (void)PresetPacketCounter(*mg, sc.idBase[0], 0); }
   else { PacketTunnelIOGateway * tg = new PacketTunnelIOGateway(MakeSlave(sc.slave), sc.ctorMtu); gw.SetRef(tg); if (sender && sc.viaSetter[0]) (void)PresetCounter(*tg, sc.idBase[0], 0); if (!sender) tg->SetMaxIncomingMessageSize(sc.maxIncoming); }
   return gw;
}
// pumps sender and receiver alternately until everything has moved; returns the delivered Messages
static void PumpStream(const Scen & sc, Chop & wchop, Chop & rchop, std::vector<Got> & got)
{
   Fifo fifo; Rx rx; rx.out = &got;
   PacketizedProxyDataIO * spio = new PacketizedProxyDataIO(DataIORef(new StreamIO(NULL, &fifo, &wchop)), std::max<uint32>(sc.mtu, sc.mini ? 17 : 25));
   PacketizedProxyDataIO * rpio = new PacketizedProxyDataIO(DataIORef(new StreamIO(&fifo, NULL, &rchop)), std::max<uint32>(sc.mtu, sc.mini ? 17 : 25));
   AbstractMessageIOGatewayRef sgw = MakeTunnelGateway(sc, true), rgw = MakeTunnelGateway(sc, false);
   sgw()->SetDataIO(DataIORef(spio)); rgw()->SetDataIO(DataIORef(rpio));
   size_t next = 0; int idleS = 0, idleR = 0;
   while (!caseBad) {
      const bool sWork = next < sc.msgs.size() || sgw()->HasBytesToOutput() || spio->HasBufferedOutput();
      const bool rWork = fifo.rd < fifo.buf.size();
      if (!sWork && !rWork) break;
      if (sWork && (!rWork || R(2))) {
         const size_t before = fifo.buf.size(); const size_t n0 = next;
         if (next < sc.msgs.size() && (R(3) == 0 || (!sgw()->HasBytesToOutput() && !spio->HasBufferedOutput()))) { if (sgw()->AddOutgoingMessage(sc.msgs[next++]).IsError()) { fprintf(stderr, "HARNESS-ABORT: AddOutgoingMessage\n"); abort(); } }
         else if (sgw()->HasBytesToOutput()) { io_status_t r = sgw()->DoOutput(sc.outMax); if (r.IsError()) { Fail(std::string("sender|DoOutput_error|") + sc.Kind(), vh::fmt("DoOutput returned %s on the stream transport", r.GetStatus()())); break; } }
         else spio->WriteBufferedOutput();
         if (fifo.buf.size() == before && next == n0) { if (++idleS >= 8) { Fail(std::string("sender|stalled|") + sc.Kind(), "8 sender steps in a row moved nothing although the stream accepted bytes"); break; } } else idleS = 0;
      }
      else {
         const size_t before = fifo.rd;
         io_status_t r = rgw()->DoInput(rx, sc.inMax);
         if (r.IsError()) { Fail(std::string("receiver|DoInput_error|") + sc.Kind(), vh::fmt("DoInput returned %s on the stream transport (%zu of %zu stream bytes read)", r.GetStatus()(), fifo.rd, fifo.buf.size())); break; }
         if (fifo.rd == before) { if (++idleR >= 8) { Fail(std::string("receiver|stalled|") + sc.Kind(), "8 receiver steps in a row read nothing although stream bytes were available"); break; } } else idleR = 0;
      }
   }
   vh::stat("stream_bytes", (long)fifo.buf.size()); vh::stat("stream_packets", (long)fifo.starts.size()); vh::statmax("max_stream_packets_in_a_case", (long)fifo.starts.size());
   sgw()->SetDataIO(DataIORef()); rgw()->SetDataIO(DataIORef());
}
static void FlushSplitStats()
{
   for (int k = 1; k <= 3; k++) { if (g_splitR[k]) { vh::stat(vh::fmt("length_prefix_split_across_reads_%d_%d", k, 4 - k), g_splitR[k]); vh::stat("length_prefixes_split_across_reads", g_splitR[k]); } if (g_splitW[k]) { vh::stat(vh::fmt("length_prefix_split_across_writes_%d_%d", k, 4 - k), g_splitW[k]); vh::stat("length_prefixes_split_across_writes", g_splitW[k]); } g_splitR[k] = g_splitW[k] = 0; }
}
static void CaseStream(long k, uint64_t cs)
{
   g = vh::Rng(cs); caseBad = false; g_oversize = false; curScript = "(stream)"; curScen = "";
   Scen sc; sc.stream = true; Generate(sc, R(3) == 0); curScen = sc.Describe();
   if (caseBad) return;
   Chop wchop(g.next()), rchop(g.next());
   wchop.temper = (int)R(4); rchop.temper = (int)R(4); wchop.zeroDen = R(3) ? 2 + R(8) : 0; rchop.zeroDen = R(3) ? 2 + R(8) : 0;
   curScript = vh::fmt("stream: write temper %d would-block 1/%u, read temper %d would-block 1/%u", wchop.temper, wchop.zeroDen, rchop.temper, rchop.zeroDen);
   std::vector<Got> got; PumpStream(sc, wchop, rchop, got);
   vh::stat("fault_scripts"); vh::stat("identity_scripts"); vh::stat("stream_cases"); vh::stat(std::string("stream_cases_kind_") + sc.Kind()); if (sc.mini && sc.zl) vh::stat("stream_cases_mini_zlib");
   vh::stat("stream_would_block_reads", rchop.zeros); vh::stat("stream_would_block_writes", wchop.zeros); vh::stat("messages_sent", (long)sc.msgs.size()); vh::stat("messages_delivered", (long)got.size());
   if (!caseBad) Judge(sc, got, true);
   FlushSplitStats();
   vh::distinct(vh::fnvs(curScen, vh::fnv(&cs, sizeof(cs))), sc.msgs.size() >= 2);
   if (vh::want_sample()) vh::sample(vh::fmt("case %ld: ", k) + curScen + " | " + curScript);
}

// ---- fixed witnesses and documentation examples
static void SendAll(Scen & sc, int s, const std::vector<MessageRef> & msgs)
{
   for (size_t i = 0; i < msgs.size(); i++) { ByteBufferRef b = msgs[i]()->FlattenToByteBuffer(); sc.sent[s].push_back(std::string((const char *)b()->GetBuffer(), b()->GetNumBytes())); sc.fits[s].push_back(1); }
   RunSender(sc, s, msgs); sc.sentSet[s].insert(sc.sent[s].begin(), sc.sent[s].end());
}
static void Witness(long id, const char * name, Scen & sc, const std::vector<const Pkt *> & seq, long wantDelivered)
{
   vh::begin_case(id); caseBad = false; curScen = sc.Describe(); curScript = name;
   std::vector<Got> got; if (!RunReceiver(sc, seq, got)) return;
   Judge(sc, got, false);
   if (!caseBad && wantDelivered >= 0 && (long)got.size() != wantDelivered) Fail(std::string("regress|") + name, vh::fmt("%zu Messages delivered, %ld expected", got.size(), wantDelivered));
   vh::distinct((uint64_t)id + 1);
}
// identity script on a fixed scenario; a failure is reported under the witness's own key
static void WitnessIdentity(const char * key, const Scen & sc)
{
   std::vector<const Pkt *> seq; for (int s = 0; s < sc.ns; s++) for (size_t i = 0; i < sc.pk[s].size(); i++) seq.push_back(&sc.pk[s][i]);
   std::vector<Got> got; if (!RunReceiver(sc, seq, got)) return;
   std::vector<std::string> want; for (int s = 0; s < sc.ns; s++) for (size_t i = 0; i < sc.sent[s].size(); i++) if (sc.fits[s][i]) want.push_back(sc.sent[s][i]);
   bool same = want.size() == got.size(); for (size_t i = 0; same && i < want.size(); i++) if (want[i] != got[i].bytes) same = false;
   if (!same) Fail(key, vh::fmt("identity script: %zu Messages within the limits sent, %zu delivered (or different ones)", want.size(), got.size()));
}
static void Regress()
{
   g = vh::Rng(12);
   {  // two Messages of equal size, three fragments each (MTU 64: 40 payload bytes per packet, 100-byte Messages; 120 bytes make exactly 3+3 packets)
      Scen sc; sc.mtu = sc.ctorMtu = 64; sc.ns = 1; sc.addr[0] = IPAddressAndPort(IPAddress((uint64)0x7f000001, 0), 4000); caseBad = false;
      std::vector<MessageRef> m; m.push_back(MakeMsg(1, 120, 0, 1)); m.push_back(MakeMsg(2, 120, 0, 2)); SendAll(sc, 0, m);
      if (sc.pk[0].size() != 6) { fprintf(stderr, "HARNESS-ABORT: regress layout: %zu packets\n", sc.pk[0].size()); abort(); }
      const Pkt * p = &sc.pk[0][0];
      { const Pkt * s[] = {p + 0, p + 4, p + 5}; Witness(0, "head of A, then the tail fragments of B (A1 A2 B0 lost)", sc, std::vector<const Pkt *>(s, s + 3), 0); }
      { const Pkt * s[] = {p + 0, p + 1, p + 1}; Witness(1, "A0 A1 A1 (last fragment replaced by a duplicate)", sc, std::vector<const Pkt *>(s, s + 3), 0); }
      { const Pkt * s[] = {p + 0, p + 2, p + 1}; Witness(2, "A0 A2 A1 (reordered)", sc, std::vector<const Pkt *>(s, s + 3), 0); }
      { const Pkt * s[] = {p + 0, p + 1, p + 3, p + 4, p + 5}; Witness(3, "doc: a lost fragment drops the whole Message and the gateway continues (A2 lost, B complete)", sc, std::vector<const Pkt *>(s, s + 5), 1); }
      { const Pkt * s[] = {p + 0, p + 1, p + 2, p + 0, p + 1, p + 2, p + 3, p + 4, p + 5}; Witness(4, "whole Message A duplicated", sc, std::vector<const Pkt *>(s, s + 9), -1); }
   }
   {  // two senders, same IP, different ports, same message ids, equal sizes: fragments must not combine
      Scen sc; sc.mtu = sc.ctorMtu = 64; sc.ns = 2; sc.addr[0] = IPAddressAndPort(IPAddress((uint64)0x7f000001, 0), 4000); sc.addr[1] = IPAddressAndPort(IPAddress((uint64)0x7f000001, 0), 4001); caseBad = false;
      std::vector<MessageRef> a, b; a.push_back(MakeMsg(1, 120, 0, 1)); b.push_back(MakeMsg(1, 120, 0, 2)); SendAll(sc, 0, a); SendAll(sc, 1, b);
      const Pkt * p = &sc.pk[0][0], * q = &sc.pk[1][0];
      { const Pkt * s[] = {p + 0, q + 1, q + 2}; Witness(5, "sender 1 head, sender 2 tail (same IP, other port)", sc, std::vector<const Pkt *>(s, s + 3), 0); }
      { const Pkt * s[] = {p + 0, q + 0, p + 1, q + 1, p + 2, q + 2}; Witness(6, "two senders interleaved packet by packet", sc, std::vector<const Pkt *>(s, s + 6), 2); }
   }
   {  // doc: "If the number passed in here is less than (FRAGMENT_HEADER_SIZE+1), it will be interpreted as (FRAGMENT_HEADER_SIZE+1) (aka 25 bytes)"
      Scen sc; sc.mtu = 25; sc.ctorMtu = 0; sc.ns = 1; sc.addr[0] = IPAddressAndPort(IPAddress((uint64)0x7f000001, 0), 4000); caseBad = false; g_oversize = false;
      std::vector<MessageRef> m; m.push_back(MakeMsg(1, 12, 0, 1)); m.push_back(MakeMsg(2, 40, 0, 1)); SendAll(sc, 0, m);
      vh::begin_case(7); curScen = sc.Describe(); curScript = "doc: MTU below the minimum is read as 25";
      if (g_oversize || sc.pk[0].size() != 52) Fail("regress|mtu_clamp", vh::fmt("%zu packets (52 expected: one payload byte each), oversize=%d", sc.pk[0].size(), (int)g_oversize));
      std::vector<const Pkt *> seq; for (size_t i = 0; i < sc.pk[0].size(); i++) seq.push_back(&sc.pk[0][i]);
      std::vector<Got> got; if (RunReceiver(sc, seq, got)) Judge(sc, got, true);
      vh::distinct(8);
   }
   {  // doc: source exclusion id: "any packets that come in tagged with this value will be ignored"; misc data: non-tunnel packets are separate Messages or discarded
      vh::begin_case(8); caseBad = false; curScen = "sexID / allowMisc"; curScript = "doc";
      std::vector<Pkt> pk; IPAddressAndPort a(IPAddress((uint64)0x7f000001, 0), 4000);
      { SendIO io(&pk, 200, 0, 0, 1); PacketTunnelIOGateway gw(AbstractMessageIOGatewayRef(), 200); gw.SetSourceExclusionID(77); gw.SetDataIO(DummyDataIORef(io)); (void)gw.AddOutgoingMessage(MakeMsg(5, 60, 0, 1)); while (gw.HasBytesToOutput()) (void)gw.DoOutput(); gw.SetDataIO(DataIORef()); }
      Pkt raw; { MessageRef m = MakeMsg(6, 50, 0, 1); ByteBufferRef b = m()->FlattenToByteBuffer(); raw.bytes.assign((const char *)b()->GetBuffer(), b()->GetNumBytes()); raw.snd = 0; }
      for (int v = 0; v < 4; v++) {
         std::vector<const Pkt *> seq; seq.push_back(&pk[0]); seq.push_back(&raw);
         RecvIO io(&seq, 200, &a); std::vector<Got> got; Rx rx; rx.out = &got;
         PacketTunnelIOGateway gw(AbstractMessageIOGatewayRef(), 200); gw.SetSourceExclusionID(v & 1 ? 77 : 78); gw.SetAllowMiscIncomingData((v & 2) != 0); gw.SetDataIO(DummyDataIORef(io));
         while (io.pos < seq.size()) (void)gw.DoInput(rx);
         gw.SetDataIO(DataIORef());
         const size_t want = (v & 1 ? 0 : 1) + (v & 2 ? 1 : 0);
         if (got.size() != want) Fail("regress|sexid_or_misc_data", vh::fmt("receiver sexID=%d allowMisc=%d: %zu Messages delivered, %zu expected", v & 1 ? 77 : 78, (v >> 1) & 1, got.size(), want));
      }
      vh::distinct(9);
   }
   {  // repaired defect: with a slave gateway the reassembled buffer was handed to the slave through a fake packet IO of the default
      // 1168-byte packet size, so every Message larger than that was silently lost.  MTU 200, Message of 2037 flattened bytes -> delivered once;
      // also a Message of 20 x MTU through the mini tunnel's limit (1500-byte MTU, 8-byte slave header, exact fit)
      for (int v = 0; v < 2; v++) {
         Scen sc; sc.mini = (v == 1); sc.slave = 1; sc.mtu = sc.ctorMtu = v ? 1500 : 200; sc.ns = 1; sc.addr[0] = IPAddressAndPort(IPAddress((uint64)0x7f000001, 0), 4000); caseBad = false;
         vh::begin_case(30 + v); curScript = "regress: slave gateway, Message larger than the default packet size";
         std::vector<MessageRef> m; m.push_back(MakeMsg(1, 40, 0, 1)); m.push_back(MakeMsg(2, v ? 1500 - 16 - 8 : 2037, 0, 2)); m.push_back(MakeMsg(3, 4000 * (1 - v) + 50, 0, 3)); m.push_back(MakeMsg(4, 12, 0, 4));
         SendAll(sc, 0, m); curScen = sc.Describe();
         std::vector<const Pkt *> seq; for (size_t i = 0; i < sc.pk[0].size(); i++) seq.push_back(&sc.pk[0][i]);
         std::vector<Got> got; if (RunReceiver(sc, seq, got)) Judge(sc, got, true);
         vh::distinct(31 + v);
      }
   }
   {  // repaired defect: a chunk of a Message above SetMaxIncomingMessageSize() ended the parsing of its packet, so the Messages behind it in the
      // same packet were lost although they are within the limit.  MTU 241, limit 12, Messages of 44 and 12 bytes in one packet; then a longer mix
      for (int v = 0; v < 2; v++) {
         Scen sc; sc.mtu = sc.ctorMtu = v ? 100 : 241; sc.maxIncoming = v ? 40 : 12; sc.ns = 1; sc.addr[0] = IPAddressAndPort(IPAddress((uint64)0x7f000001, 0), 4000); caseBad = false;
         vh::begin_case(40 + v); curScript = "regress: oversize chunk followed by small Messages in the same packet";
         std::vector<MessageRef> m; m.push_back(MakeMsg(1, 44, 0, 1)); m.push_back(MakeMsg(2, 12, 0, 2));
         if (v) { m.push_back(MakeMsg(3, 300, 0, 3)); m.push_back(MakeMsg(4, 30, 0, 4)); m.push_back(MakeMsg(5, 41, 0, 5)); m.push_back(MakeMsg(6, 40, 0, 6)); m.push_back(MakeMsg(7, 12, 0, 7)); }
         SendAll(sc, 0, m); for (size_t i = 0; i < sc.sent[0].size(); i++) if (sc.sent[0][i].size() > sc.maxIncoming) sc.fits[0][i] = FIT_NO;
         curScen = sc.Describe();
         WitnessIdentity("max_incoming_size_drops_rest_of_packet", sc);
         vh::distinct(41 + v);
      }
   }
   {  // repaired defect: HasBytesToOutput() was false while a packet refused by Write() was still held, so an event loop never sent it.
      // One small Message, the first Write() returns 0; DoOutput() is called only while HasBytesToOutput()
      for (int v = 0; v < 2; v++) {
         Scen sc; sc.mini = (v == 1); sc.mtu = sc.ctorMtu = 200; sc.ns = 1; sc.holdDen = 1; sc.addr[0] = IPAddressAndPort(IPAddress((uint64)0x7f000001, 0), 4000); caseBad = false;
         vh::begin_case(50 + v); curScript = "regress: held packet announced by HasBytesToOutput()"; curScen = v ? "mini, MTU 200, one 60-byte Message, first Write held" : "tunnel, MTU 200, one 60-byte Message, first Write held";
         std::vector<MessageRef> m; m.push_back(MakeMsg(1, 60, 0, 1));
         SendAll(sc, 0, m);
         if (!caseBad) { curScen = sc.Describe(); WitnessIdentity("held_packet_not_announced_by_HasBytesToOutput", sc); }
         vh::distinct(51 + v);
      }
   }
   {  // PacketizedProxyDataIO over a byte stream: the 4-byte length prefix of three consecutive packets arrives split 1/3, 2/2, 3/1
      // (reads), and is accepted by the stream split the same way (writes); nothing is lost on a stream, so every Message is delivered
      for (int v = 0; v < 3; v++) {
         Scen sc; sc.stream = true; sc.mini = (v == 2); sc.mtu = sc.ctorMtu = 200; sc.ns = 1; caseBad = false; sc.flushEach = true;
         vh::begin_case(60 + v); curScript = v == 0 ? "regress: length prefix split across reads" : "regress: length prefix split across writes (and reads for the mini tunnel)";
         for (int i = 0; i < 5; i++) { MessageRef m = MakeMsg(1 + i, 40 + i, 0, 1 + i); sc.msgs.push_back(m); ByteBufferRef b = m()->FlattenToByteBuffer(); sc.sent[0].push_back(std::string((const char *)b()->GetBuffer(), b()->GetNumBytes())); sc.fits[0].push_back(FIT_YES); }
         sc.sentSet[0].insert(sc.sent[0].begin(), sc.sent[0].end()); curScen = sc.Describe();
         Chop wchop(1), rchop(2); wchop.temper = rchop.temper = 2;
         static const int split[] = {1, 3, -1, 2, 2, -1, 3, 1, -1, 1, 1, 1, 1, -1};
         if (v != 0) wchop.script.assign(split, split + 14); else wchop.script.assign(64, -1);
         if (v != 1) rchop.script.assign(split, split + 14); else rchop.script.assign(64, -1);
         // every Message is flushed before the next one is queued, so each packet carries one Message and the scripts line up with the packets
         std::vector<Got> got;
         {
            Fifo fifo; Rx rx; rx.out = &got;
            PacketizedProxyDataIO * spio = new PacketizedProxyDataIO(DataIORef(new StreamIO(NULL, &fifo, &wchop)), 200), * rpio = new PacketizedProxyDataIO(DataIORef(new StreamIO(&fifo, NULL, &rchop)), 200);
            AbstractMessageIOGatewayRef sgw = MakeTunnelGateway(sc, true), rgw = MakeTunnelGateway(sc, false); sgw()->SetDataIO(DataIORef(spio)); rgw()->SetDataIO(DataIORef(rpio));
            for (size_t i = 0; i < sc.msgs.size(); i++) { (void)sgw()->AddOutgoingMessage(sc.msgs[i]); for (int t = 0; t < 20 && (sgw()->HasBytesToOutput() || spio->HasBufferedOutput()); t++) { if (sgw()->HasBytesToOutput()) (void)sgw()->DoOutput(); else spio->WriteBufferedOutput(); } }
            for (int t = 0; t < 200 && fifo.rd < fifo.buf.size(); t++) (void)rgw()->DoInput(rx);
            if (fifo.starts.size() != 5) { fprintf(stderr, "HARNESS-ABORT: regress stream layout: %zu packets\n", fifo.starts.size()); abort(); }
            sgw()->SetDataIO(DataIORef()); rgw()->SetDataIO(DataIORef());
         }
         const long sr = g_splitR[1] + g_splitR[2] + g_splitR[3], sw = g_splitW[1] + g_splitW[2] + g_splitW[3];
         if ((v != 1 && (g_splitR[1] < 1 || g_splitR[2] < 1 || g_splitR[3] < 1)) || (v != 0 && (g_splitW[1] < 1 || g_splitW[2] < 1 || g_splitW[3] < 1))) { fprintf(stderr, "HARNESS-ABORT: regress stream: prefixes were not split as scripted (%ld reads, %ld writes)\n", sr, sw); abort(); }
         FlushSplitStats();
         bool same = got.size() == sc.sent[0].size(); for (size_t i = 0; same && i < got.size(); i++) if (got[i].bytes != sc.sent[0][i]) same = false;
         if (!same) Fail("packetized_stream_length_prefix_split", vh::fmt("5 Messages sent over a loss-free stream, %zu delivered (or different ones)", got.size()));
         vh::distinct(61 + v);
      }
   }
   {  // "If bytesWritten is set to zero, we just hold this buffer until our next call" (mini tunnel, zlib): a held packet whose deflation did not pay,
      // then a compressible Message joins the same packet
      Scen sc; sc.mini = true; sc.zl = 6; sc.mtu = sc.ctorMtu = 1500; sc.ns = 1; sc.addr[0] = IPAddressAndPort(IPAddress((uint64)0x7f000001, 0), 4000); caseBad = false;
      vh::begin_case(20); curScript = "doc: held packet (mini, zlib)";
      std::vector<MessageRef> m; m.push_back(MakeMsg(1, 40, 0, 1)); m.push_back(MakeMsg(2, 1000, 1, 2));
      for (size_t i = 0; i < m.size(); i++) { ByteBufferRef b = m[i]()->FlattenToByteBuffer(); sc.sent[0].push_back(std::string((const char *)b()->GetBuffer(), b()->GetNumBytes())); sc.fits[0].push_back(1); }
      sc.sentSet[0].insert(sc.sent[0].begin(), sc.sent[0].end());
      {
         SendIO io(&sc.pk[0], 1500, 0, 1, 0); MiniPacketTunnelIOGateway gw(AbstractMessageIOGatewayRef(), 1500); gw.SetZLibCompressionLevel(6); gw.SetDataIO(DummyDataIORef(io));
         (void)gw.AddOutgoingMessage(m[0]); (void)gw.DoOutput();       // the first Write is held (holdDen 1: every other Write returns 0)
         (void)gw.AddOutgoingMessage(m[1]); for (int i = 0; i < 6; i++) (void)gw.DoOutput();
         gw.SetDataIO(DataIORef());
         if (io.holds == 0) { fprintf(stderr, "HARNESS-ABORT: no Write was held\n"); abort(); }
      }
      curScen = sc.Describe();
      for (size_t i = 0; i < sc.pk[0].size(); i++) if (MiniPacketMislabelled(sc.pk[0][i].bytes)) Fail("mini_zlib_held_packet_header_says_uncompressed", vh::fmt("packet %zu is deflated but its header says level 0", i));
      WitnessIdentity("mini_zlib_held_packet_header_says_uncompressed", sc);
      vh::distinct(21);
   }
   {  // mini tunnel: a Message that fits the MTU exactly is carried, one byte more is dropped, several small ones share a packet
      for (int zl = 0; zl <= 6; zl += 6) {
         Scen sc; sc.mini = true; sc.zl = zl; sc.mtu = sc.ctorMtu = 100; sc.ns = 1; sc.addr[0] = IPAddressAndPort(IPAddress((uint64)0x7f000001, 0), 4000); caseBad = false;
         std::vector<MessageRef> m; m.push_back(MakeMsg(1, 84, 1, 1)); m.push_back(MakeMsg(2, 85, 1, 2)); m.push_back(MakeMsg(3, 30, 1, 3)); m.push_back(MakeMsg(4, 30, 1, 4)); m.push_back(MakeMsg(5, 84, 0, 5));
         SendAll(sc, 0, m); sc.fits[0][1] = 0;
         vh::begin_case(9 + zl / 6); curScen = sc.Describe(); curScript = "doc: mini tunnel exact fit";
         std::vector<const Pkt *> seq; for (size_t i = 0; i < sc.pk[0].size(); i++) seq.push_back(&sc.pk[0][i]);
         std::vector<Got> got; if (RunReceiver(sc, seq, got)) Judge(sc, got, true);
         vh::distinct(10 + zl);
      }
   }
}

int main(int argc, char ** argv)
{
   CompleteSetupSystem css;
   (void)SetConsoleLogLevel(MUSCLE_LOG_NONE);
   vh::init(argc, argv);
   vh::Ctx & c = vh::ctx();
   const std::string mode = vh::opt("mode", "exh");
   if (mode == "regress") { Regress(); return vh::finish(); }
   for (long k = c.from; k < c.from + c.cases; k++) {
      vh::begin_case(k);
      g_lostToFaults = g_dupDeliveries = 0;
      if (mode == "stream") CaseStream(k, vh::case_seed(c.seed, 1203, (uint64_t)k));
      else if (mode == "exh") CaseExhaustive(k, vh::case_seed(c.seed, 1201, (uint64_t)k));
      else CaseSampled(k, vh::case_seed(c.seed, 1202, (uint64_t)k));
      vh::stat("messages_lost_to_faults", g_lostToFaults); vh::stat("scripts_with_a_message_delivered_more_often_than_sent", g_dupDeliveries);
   }
   return vh::finish();
}
